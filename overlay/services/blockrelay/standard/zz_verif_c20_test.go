package standard

// Conformance driver for property C20 (spec/Bounded.tla, Trace_Bounded.tla), builderBidsCache.
// Injected with -overlay by /verif/check; nothing of it is committed to the repository.
//
// The REAL block relay service (New; AuctionBlock -> auctionBlock -> cacheBid) with a scripted builder
// bid strategy (no relay has a bid: the service caches its "nothing available" marker, as it does
// for every proposal slot) and a scripted execution configuration.  A scenario is a behaviour of
// Scen_Bounded.tla of family "bids": the clock advances, in some slots a block is auctioned (a
// proposal of one of our validators).  After every step the driver logs the slots that have an entry
// in builderBidsCache.
//
// Auctions have duration and complete out of slot order: AucStart runs AuctionBlock(slot) on its own goroutine
// and leaves it inside the bid strategy (the relays have not answered), the auctions of later slots run on the
// SAME service instance meanwhile, AucEnd lets the strategy answer - k slots later, up to 40 - and the real
// cacheBid(slot) runs then, for a slot that may be far below everything the cache holds.

import (
	"context"
	"sort"
	"strconv"
	"sync"
	"testing"
	"time"

	"github.com/attestantio/go-block-relay/services/blockauctioneer"
	builderclient "github.com/attestantio/go-builder-client"
	"github.com/attestantio/go-eth2-client/spec/bellatrix"
	"github.com/attestantio/go-eth2-client/spec/phase0"
	"github.com/attestantio/vouch/mock"
	mockaccountmanager "github.com/attestantio/vouch/services/accountmanager/mock"
	"github.com/attestantio/vouch/services/beaconblockproposer"
	"github.com/attestantio/vouch/services/blockrelay"
	nullmetrics "github.com/attestantio/vouch/services/metrics/null"
	mocksigner "github.com/attestantio/vouch/services/signer/mock"
	"github.com/attestantio/vouch/verifsupport"
	"github.com/rs/zerolog"
	e2wtypes "github.com/wealdtech/go-eth2-wallet-types/v2"
	standardmajordomo "github.com/wealdtech/go-majordomo/standard"
)

type c20Step struct {
	Ev  string `json:"ev"`
	Now uint64 `json:"now"`
	S   uint64 `json:"s"`
	K   uint64 `json:"k"` // AucStart: the relays answer k slots later (the scenario has the AucEnd step there)
}

type c20Scenario struct {
	Sc    int       `json:"sc"`
	Fam   string    `json:"fam"`
	Steps []c20Step `json:"steps"`
}

// c20ExecConfig gives every validator one relay.
type c20ExecConfig struct{}

func (c20ExecConfig) ProposerConfig(_ context.Context, _ e2wtypes.Account, _ phase0.BLSPubKey,
	fallbackFeeRecipient bellatrix.ExecutionAddress, gasLimit uint64,
) (*beaconblockproposer.ProposerConfig, error) {
	return &beaconblockproposer.ProposerConfig{
		FeeRecipient: fallbackFeeRecipient,
		Relays:       []*beaconblockproposer.RelayConfig{{Address: "relay.c20.invalid", FeeRecipient: fallbackFeeRecipient, GasLimit: gasLimit}},
	}, nil
}

// c20BidGate holds the auction of one slot inside the bid strategy.
type c20BidGate struct {
	arrived chan struct{}
	release chan struct{}
}

// c20NoBids is the builder bid strategy: the relays have nothing - and may take their time to say so.
type c20NoBids struct {
	mu    sync.Mutex
	calls int
	gates map[uint64]*c20BidGate // slot -> armed gate
}

func (b *c20NoBids) arm(slot uint64) *c20BidGate {
	g := &c20BidGate{arrived: make(chan struct{}), release: make(chan struct{})}
	b.mu.Lock()
	if b.gates == nil {
		b.gates = map[uint64]*c20BidGate{}
	}
	b.gates[slot] = g
	b.mu.Unlock()
	return g
}

func (b *c20NoBids) count() int {
	b.mu.Lock()
	defer b.mu.Unlock()
	return b.calls
}

func (b *c20NoBids) BuilderBid(_ context.Context, slot phase0.Slot, _ phase0.Hash32, _ phase0.BLSPubKey,
	_ *beaconblockproposer.ProposerConfig, _ map[phase0.BLSPubKey]*blockrelay.BuilderConfig,
) (*blockauctioneer.Results, error) {
	b.mu.Lock()
	b.calls++
	g := b.gates[uint64(slot)]
	delete(b.gates, uint64(slot))
	b.mu.Unlock()
	if g != nil {
		close(g.arrived)
		<-g.release
	}
	return &blockauctioneer.Results{
		Participation: map[string]*blockauctioneer.Participation{},
		AllProviders:  []builderclient.BuilderBidProvider{},
		Providers:     []builderclient.BuilderBidProvider{},
	}, nil
}

func c20BidCount(s *Service) int {
	s.builderBidsCacheMu.RLock()
	defer s.builderBidsCacheMu.RUnlock()
	return len(s.builderBidsCache)
}

// c20Auction is an AuctionBlock call in flight.
type c20Auction struct {
	gate *c20BidGate
	done chan error
}

func c20BidSlots(s *Service) []uint64 {
	s.builderBidsCacheMu.RLock()
	defer s.builderBidsCacheMu.RUnlock()
	res := make([]uint64, 0, len(s.builderBidsCache))
	for key := range s.builderBidsCache {
		slot, err := strconv.ParseUint(key, 10, 64)
		if err != nil {
			slot = 1 << 30 // a key that is not a slot: shows up as an entry that never goes away
		}
		res = append(res, slot)
	}
	sort.Slice(res, func(i, j int) bool { return res[i] < res[j] })
	if len(res) > 200 {
		res = res[len(res)-200:]
	}
	return res
}

func TestVerifC20Bids(t *testing.T) {
	var scenarios []c20Scenario
	verifsupport.Scenarios(t, &scenarios)
	tr := verifsupport.OpenTrace(t)
	defer tr.Close()
	ctx, cancel := context.WithCancel(context.Background())
	defer cancel()

	majordomoSvc, err := standardmajordomo.New(ctx)
	if err != nil {
		t.Fatalf("c20: majordomo: %v", err)
	}
	for i := range scenarios {
		sc := &scenarios[i]
		var s *Service
		var ct *verifsupport.ChainTime
		bids := &c20NoBids{}
		now := uint64(0)
		flights := map[uint64]*c20Auction{}
		running := func() []uint64 {
			res := make([]uint64, 0, len(flights))
			for slot := range flights {
				res = append(res, slot)
			}
			sort.Slice(res, func(i, j int) bool { return res[i] < res[j] })
			return res
		}
		auction := func(slot uint64) (*blockauctioneer.Results, error) {
			var parent phase0.Hash32
			parent[0] = byte(slot)
			var pubkey phase0.BLSPubKey
			pubkey[0] = 0xc2
			pubkey[1] = byte(slot % 3)
			return s.AuctionBlock(ctx, phase0.Slot(slot), parent, pubkey)
		}
		for _, st := range sc.Steps {
			switch st.Ev {
			case "Reset":
				ct = verifsupport.NewChainTime(32, 12*time.Second)
				now = st.Now
				ct.SetSlot(now)
				s, err = New(ctx,
					WithLogLevel(zerolog.Disabled),
					WithMonitor(nullmetrics.New()),
					WithMajordomo(majordomoSvc),
					WithScheduler(verifsupport.NewScheduler()),
					WithListenAddress("127.0.0.1:0"),
					WithChainTime(ct),
					WithFallbackFeeRecipient(bellatrix.ExecutionAddress{0x01}),
					WithFallbackGasLimit(30000000),
					WithAccountsProvider(mockaccountmanager.NewAccountsProvider()),
					WithValidatorsProvider(mock.NewValidatorsProvider()),
					WithValidatingAccountsProvider(mockaccountmanager.NewValidatingAccountsProvider()),
					WithValidatorRegistrationSigner(mocksigner.New()),
					WithReleaseVersion("verif"),
					WithBuilderBidProvider(bids),
					WithBuilderConfigs(map[phase0.BLSPubKey]*blockrelay.BuilderConfig{}),
				)
				if err != nil {
					t.Fatalf("c20: block relay New: %v", err)
				}
				s.executionConfigMu.Lock()
				s.executionConfig = c20ExecConfig{}
				s.executionConfigMu.Unlock()
				tr.Emit(verifsupport.Ev{"sc": sc.Sc, "ev": "Reset", "p": 4, "ep": 2, "verify": false, "agg": "never", "now": now, "fam": sc.Fam})
			case "Advance":
				now++
				ct.SetSlot(now)
				tr.Emit(verifsupport.Ev{"sc": sc.Sc, "ev": "Advance", "now": now, "bids": c20BidSlots(s), "nbids": c20BidCount(s), "aucrun": running()})
			case "Auction":
				before := bids.count()
				res, err := auction(now)
				if err != nil || res == nil || bids.count() != before+1 {
					t.Fatalf("c20: scenario %d: AuctionBlock at slot %d did not run the auction (%v)", sc.Sc, now, err)
				}
				tr.Emit(verifsupport.Ev{"sc": sc.Sc, "ev": "Auction", "s": now, "now": now, "bids": c20BidSlots(s), "nbids": c20BidCount(s), "aucrun": running()})
			case "AucStart":
				// AuctionBlock(slot) on its own goroutine (the proposal job of the slot); it stays inside the bid
				// strategy while the following steps - the auctions of later slots among them - are executed
				g := bids.arm(st.S)
				a := &c20Auction{gate: g, done: make(chan error, 1)}
				slot := st.S
				go func() {
					res, err := auction(slot)
					if err == nil && res == nil {
						err = context.Canceled
					}
					a.done <- err
				}()
				select {
				case <-g.arrived:
				case err := <-a.done:
					t.Fatalf("c20: scenario %d: AuctionBlock at slot %d returned without asking the relays (%v)", sc.Sc, slot, err)
				case <-time.After(30 * time.Second):
					t.Fatalf("c20: scenario %d: AuctionBlock at slot %d does not reach the relays", sc.Sc, slot)
				}
				flights[slot] = a
				tr.Emit(verifsupport.Ev{"sc": sc.Sc, "ev": "AucStart", "s": slot, "k": st.K, "now": now, "bids": c20BidSlots(s), "nbids": c20BidCount(s), "aucrun": running()})
			case "AucEnd":
				a := flights[st.S]
				if a == nil {
					t.Fatalf("c20: scenario %d: no auction of slot %d is under way", sc.Sc, st.S)
				}
				close(a.gate.release)
				select {
				case err := <-a.done:
					if err != nil {
						t.Fatalf("c20: scenario %d: AuctionBlock at slot %d failed (%v)", sc.Sc, st.S, err)
					}
				case <-time.After(30 * time.Second):
					t.Fatalf("c20: scenario %d: AuctionBlock at slot %d does not return", sc.Sc, st.S)
				}
				delete(flights, st.S)
				tr.Emit(verifsupport.Ev{"sc": sc.Sc, "ev": "AucEnd", "s": st.S, "late": now - st.S, "now": now, "bids": c20BidSlots(s), "nbids": c20BidCount(s), "aucrun": running()})
			default:
				t.Fatalf("c20: unknown step %q", st.Ev)
			}
		}
	}
}
