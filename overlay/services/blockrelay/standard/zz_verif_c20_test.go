package standard

// Conformance driver for property C20 (spec/Bounded.tla, Trace_Bounded.tla), builderBidsCache.
// Injected with -overlay by /verif/check; nothing of it is committed to the repository.
//
// The REAL block relay service (New; AuctionBlock -> auctionBlock -> cacheBid) with a scripted builder
// bid strategy (no relay has a bid: the service caches its "nothing available" marker, as it does
// for every proposal slot) and a scripted execution configuration.  A scenario is a behaviour of
// Scen_Bounded.tla of family "bids": the clock advances, in some slots a block is auctioned (a
// proposal of one of our validators).  After every step the driver logs the slots that have an entry
// in builderBidsCache.

import (
	"context"
	"sort"
	"strconv"
	"testing"
	"time"

	"github.com/attestantio/go-block-relay/services/blockauctioneer"
	builderclient "github.com/attestantio/go-builder-client"
	"github.com/attestantio/go-eth2-client/spec/bellatrix"
	"github.com/attestantio/go-eth2-client/spec/phase0"
	"github.com/attestantio/vouch/mock"
	mockaccountmanager "github.com/attestantio/vouch/services/accountmanager/mock"
	"github.com/attestantio/vouch/services/beaconblockproposer"
	"github.com/attestantio/vouch/services/blockrelay"
	nullmetrics "github.com/attestantio/vouch/services/metrics/null"
	mocksigner "github.com/attestantio/vouch/services/signer/mock"
	"github.com/attestantio/vouch/verifsupport"
	"github.com/rs/zerolog"
	e2wtypes "github.com/wealdtech/go-eth2-wallet-types/v2"
	standardmajordomo "github.com/wealdtech/go-majordomo/standard"
)

type c20Step struct {
	Ev  string `json:"ev"`
	Now uint64 `json:"now"`
	S   uint64 `json:"s"`
}

type c20Scenario struct {
	Sc    int       `json:"sc"`
	Fam   string    `json:"fam"`
	Steps []c20Step `json:"steps"`
}

// c20ExecConfig gives every validator one relay.
type c20ExecConfig struct{}

func (c20ExecConfig) ProposerConfig(_ context.Context, _ e2wtypes.Account, _ phase0.BLSPubKey,
	fallbackFeeRecipient bellatrix.ExecutionAddress, gasLimit uint64,
) (*beaconblockproposer.ProposerConfig, error) {
	return &beaconblockproposer.ProposerConfig{
		FeeRecipient: fallbackFeeRecipient,
		Relays:       []*beaconblockproposer.RelayConfig{{Address: "relay.c20.invalid", FeeRecipient: fallbackFeeRecipient, GasLimit: gasLimit}},
	}, nil
}

// c20NoBids is the builder bid strategy: the relays have nothing.
type c20NoBids struct{ calls int }

func (b *c20NoBids) BuilderBid(_ context.Context, _ phase0.Slot, _ phase0.Hash32, _ phase0.BLSPubKey,
	_ *beaconblockproposer.ProposerConfig, _ map[phase0.BLSPubKey]*blockrelay.BuilderConfig,
) (*blockauctioneer.Results, error) {
	b.calls++
	return &blockauctioneer.Results{
		Participation: map[string]*blockauctioneer.Participation{},
		AllProviders:  []builderclient.BuilderBidProvider{},
		Providers:     []builderclient.BuilderBidProvider{},
	}, nil
}

func c20BidSlots(s *Service) []uint64 {
	s.builderBidsCacheMu.RLock()
	defer s.builderBidsCacheMu.RUnlock()
	res := make([]uint64, 0, len(s.builderBidsCache))
	for key := range s.builderBidsCache {
		slot, err := strconv.ParseUint(key, 10, 64)
		if err != nil {
			slot = 1 << 30 // a key that is not a slot: shows up as an entry that never goes away
		}
		res = append(res, slot)
	}
	sort.Slice(res, func(i, j int) bool { return res[i] < res[j] })
	if len(res) > 200 {
		res = res[len(res)-200:]
	}
	return res
}

func TestVerifC20Bids(t *testing.T) {
	var scenarios []c20Scenario
	verifsupport.Scenarios(t, &scenarios)
	tr := verifsupport.OpenTrace(t)
	defer tr.Close()
	ctx, cancel := context.WithCancel(context.Background())
	defer cancel()

	majordomoSvc, err := standardmajordomo.New(ctx)
	if err != nil {
		t.Fatalf("c20: majordomo: %v", err)
	}
	for i := range scenarios {
		sc := &scenarios[i]
		var s *Service
		var ct *verifsupport.ChainTime
		bids := &c20NoBids{}
		now := uint64(0)
		for _, st := range sc.Steps {
			switch st.Ev {
			case "Reset":
				ct = verifsupport.NewChainTime(32, 12*time.Second)
				now = st.Now
				ct.SetSlot(now)
				s, err = New(ctx,
					WithLogLevel(zerolog.Disabled),
					WithMonitor(nullmetrics.New()),
					WithMajordomo(majordomoSvc),
					WithScheduler(verifsupport.NewScheduler()),
					WithListenAddress("127.0.0.1:0"),
					WithChainTime(ct),
					WithFallbackFeeRecipient(bellatrix.ExecutionAddress{0x01}),
					WithFallbackGasLimit(30000000),
					WithAccountsProvider(mockaccountmanager.NewAccountsProvider()),
					WithValidatorsProvider(mock.NewValidatorsProvider()),
					WithValidatingAccountsProvider(mockaccountmanager.NewValidatingAccountsProvider()),
					WithValidatorRegistrationSigner(mocksigner.New()),
					WithReleaseVersion("verif"),
					WithBuilderBidProvider(bids),
					WithBuilderConfigs(map[phase0.BLSPubKey]*blockrelay.BuilderConfig{}),
				)
				if err != nil {
					t.Fatalf("c20: block relay New: %v", err)
				}
				s.executionConfigMu.Lock()
				s.executionConfig = c20ExecConfig{}
				s.executionConfigMu.Unlock()
				tr.Emit(verifsupport.Ev{"sc": sc.Sc, "ev": "Reset", "p": 4, "ep": 2, "verify": false, "agg": "never", "now": now, "fam": sc.Fam})
			case "Advance":
				now++
				ct.SetSlot(now)
				tr.Emit(verifsupport.Ev{"sc": sc.Sc, "ev": "Advance", "now": now, "bids": c20BidSlots(s), "nbids": len(s.builderBidsCache)})
			case "Auction":
				before := bids.calls
				var parent phase0.Hash32
				parent[0] = byte(now)
				var pubkey phase0.BLSPubKey
				pubkey[0] = 0xc2
				pubkey[1] = byte(now % 3)
				res, err := s.AuctionBlock(ctx, phase0.Slot(now), parent, pubkey)
				if err != nil || res == nil || bids.calls != before+1 {
					t.Fatalf("c20: scenario %d: AuctionBlock at slot %d did not run the auction (%v)", sc.Sc, now, err)
				}
				tr.Emit(verifsupport.Ev{"sc": sc.Sc, "ev": "Auction", "s": now, "now": now, "bids": c20BidSlots(s), "nbids": len(s.builderBidsCache)})
			default:
				t.Fatalf("c20: unknown step %q", st.Ev)
			}
		}
	}
}
