package standard

// Conformance driver for property C11 (spec/BlockRelay.tla, registration part).  Injected with
// -overlay by /verif/check.  The real block relay (built with New, its periodic jobs run through
// the scheduler they were registered with) and the real proposal preparer are driven through
// registration rounds, preparation rounds, configuration changes and REST registrations; the
// fakes at their interfaces record every signing request and the start, the deliveries and the
// outcome of every call to a relay or beacon node (they honour the call's context like an HTTP
// client; the round's latency script decides how the calls of a fan-out overlap).

import (
	"context"
	"os"
	"strconv"
	"testing"
	"time"

	"github.com/attestantio/go-block-relay/types"
	builderapiv1 "github.com/attestantio/go-builder-client/api/v1"
	consensusclient "github.com/attestantio/go-eth2-client"
	"github.com/attestantio/go-eth2-client/spec/phase0"
	nullmetrics "github.com/attestantio/vouch/services/metrics/null"
	prepstandard "github.com/attestantio/vouch/services/proposalpreparer/standard"
	"github.com/attestantio/vouch/verifsupport"
	"github.com/rs/zerolog"
)

type c11Step struct {
	Ev        string          `json:"ev"`
	Out       string          `json:"out"`
	Doc       int             `json:"doc"`
	Docs      []c11Doc        `json:"docs"`
	Accts     []int           `json:"accts"`
	Signfail  [][3]int        `json:"signfail"`
	Relayfail []int           `json:"relayfail"`
	Nodefail  []int           `json:"nodefail"`
	Nodeout   [][]interface{} `json:"nodeout"`
	Regs      [][3]int        `json:"regs"`
	Lat       string          `json:"lat"` // latency script of the round: none | slow | batched
}

type c11Scenario struct {
	Sc    int       `json:"sc"`
	Steps []c11Step `json:"steps"`
}

// c11PrepExpired counts preparation rounds in which a node was never called: after a few of them the
// tree is known to be broken and the rest of the batch does not wait the full period again.
var c11PrepExpired int

func c11PrepWait() time.Duration {
	ms, err := strconv.Atoi(os.Getenv("VERIF_WATCHDOG_MS"))
	if err != nil || ms <= 0 {
		ms = 3000
	}
	if c11PrepExpired >= 3 {
		ms = 100
	}
	return time.Duration(ms) * time.Millisecond
}

func c11RunScenario(t *testing.T, tr *verifsupport.Trace, sc c11Scenario) {
	if len(sc.Steps) == 0 || sc.Steps[0].Ev != "Reset" {
		t.Fatalf("scenario %d does not start with Reset", sc.Sc)
	}
	ctx := context.Background()
	env := c11NewEnv(t, tr, sc.Sc, sc.Steps[0].Docs)
	// the real standard signer (BLS signatures verified by the relay fakes) on every fourth scenario
	// in the quick tier and on all of them in the thorough tier; a hashing signer otherwise
	realSigner := verifsupport.Tier() == "thorough" || sc.Sc%4 == 0
	sys := c11NewSystem(t, env, "error", 0, realSigner)
	defer sys.close()
	submitters := make([]consensusclient.ProposalPreparationsSubmitter, 0, len(sys.nodes))
	for _, n := range sys.nodes {
		submitters = append(submitters, n)
	}
	prep, err := prepstandard.New(ctx,
		prepstandard.WithLogLevel(zerolog.Disabled),
		prepstandard.WithMonitor(nullmetrics.New()),
		prepstandard.WithChainTimeService(sys.ct),
		prepstandard.WithValidatingAccountsProvider(env),
		prepstandard.WithProposalPreparationsSubmitters(submitters),
		prepstandard.WithExecutionConfigProvider(sys.svc),
	)
	if err != nil {
		t.Fatalf("proposalpreparer New: %v", err)
	}
	env.emit(verifsupport.Ev{"ev": "Reset", "signer": map[bool]string{true: "standard", false: "hash"}[realSigner]})

	for i, st := range sc.Steps[1:] {
		switch st.Ev {
		case "Fetch":
			env.mu.Lock()
			env.srcOut, env.srcDoc = st.Out, st.Doc
			env.accts = []int{1, 2}
			env.mu.Unlock()
			if !sys.sched.Fire(ctx, c11FetchJob) {
				t.Fatalf("no fetch job")
			}
			env.emit(verifsupport.Ev{"ev": "Fetch", "out": st.Out, "doc": st.Doc, "cfg": c11Projection(ctx, sys.svc)})
		case "Round":
			env.mu.Lock()
			env.accts = c11Ints(st.Accts)
			env.signFail = map[[3]int]bool{}
			for _, k := range st.Signfail {
				env.signFail[k] = true
			}
			env.relayFail = map[int]bool{}
			for _, r := range st.Relayfail {
				env.relayFail[r] = true
			}
			env.nodeFail = map[int]bool{}
			for _, n := range st.Nodefail {
				env.nodeFail[n] = true
			}
			env.mode = "reg"
			env.newRound(st.Lat)
			env.mu.Unlock()
			env.emit(verifsupport.Ev{"ev": "RoundStart", "accts": c11Ints(st.Accts)})
			// the registration job the service registered with the scheduler
			if !sys.sched.Fire(ctx, c11RegisterJob) {
				t.Fatalf("no registration job")
			}
			env.emit(verifsupport.Ev{"ev": "RoundEnd"})
		case "Prep":
			env.mu.Lock()
			env.accts = c11Ints(st.Accts)
			env.prepOut = map[int]string{}
			for _, no := range st.Nodeout {
				env.prepOut[int(no[0].(float64))] = no[1].(string)
			}
			env.prepSeen = 0
			env.newRound(st.Lat)
			env.mu.Unlock()
			env.emit(verifsupport.Ev{"ev": "PrepStart", "accts": c11Ints(st.Accts)})
			uerr := prep.UpdatePreparations(ctx)
			// the submissions run on a goroutine of their own: wait until every node was called
			// (bounded: a node that is never called is what the trace then shows)
			deadline := time.Now().Add(c11PrepWait())
			timer := time.AfterFunc(c11PrepWait(), func() {
				env.mu.Lock()
				env.acctsCond.Broadcast()
				env.mu.Unlock()
			})
			env.mu.Lock()
			for env.prepSeen < len(sys.nodes) && time.Now().Before(deadline) && uerr == nil {
				env.acctsCond.Wait()
			}
			if env.prepSeen < len(sys.nodes) && uerr == nil {
				c11PrepExpired++
			}
			env.mu.Unlock()
			timer.Stop()
			env.emit(verifsupport.Ev{"ev": "PrepEnd", "ok": uerr == nil})
		case "Fwd":
			regs := make([]*types.SignedValidatorRegistration, 0, len(st.Regs))
			in := map[[3]int]*builderapiv1.SignedValidatorRegistration{}
			for j, rg := range st.Regs {
				var sig phase0.BLSSignature
				for b := range sig {
					sig[b] = byte(17*sc.Sc + 31*i + 7*j + b)
				}
				ts := time.Unix(1700000000+int64(1000*sc.Sc+10*i+j), 0)
				regs = append(regs, &types.SignedValidatorRegistration{
					Message: &types.ValidatorRegistration{
						FeeRecipient: c11FeeAddr(rg[1]), GasLimit: c11Gas(rg[2]), Timestamp: ts, Pubkey: c11Pubkeys[rg[0]],
					},
					Signature: sig,
				})
				in[rg] = &builderapiv1.SignedValidatorRegistration{
					Message:   &builderapiv1.ValidatorRegistration{Timestamp: ts},
					Signature: sig,
				}
			}
			env.mu.Lock()
			env.fwdIn = in
			env.mode = "fwd"
			env.relayFail = map[int]bool{}
			for _, r := range st.Relayfail {
				env.relayFail[r] = true
			}
			env.newRound(st.Lat)
			env.mu.Unlock()
			env.emit(verifsupport.Ev{"ev": "FwdStart", "regs": st.Regs})
			_, ferr := sys.svc.ValidatorRegistrations(ctx, regs)
			env.emit(verifsupport.Ev{"ev": "FwdEnd", "ok": ferr == nil})
			env.mu.Lock()
			env.mode = "reg"
			env.relayFail = map[int]bool{}
			env.mu.Unlock()
		default:
			t.Fatalf("unknown step %q", st.Ev)
		}
	}
}

func TestVerifC11(t *testing.T) {
	var scenarios []c11Scenario
	verifsupport.Scenarios(t, &scenarios)
	tr := verifsupport.OpenTrace(t)
	defer tr.Close()
	for _, sc := range scenarios {
		c11RunScenario(t, tr, sc)
	}
}
