package standard

// Conformance driver for property C11 (spec/BlockRelay.tla, registration part).  Injected with
// -overlay by /verif/check.  The real block relay (built with New, its periodic jobs run through
// the scheduler they were registered with) and the real proposal preparer are driven through
// registration rounds, preparation rounds, configuration changes and REST registrations; the
// fakes at their interfaces record every signing request and the start, the deliveries and the
// outcome of every call to a relay or beacon node (they honour the call's context like an HTTP
// client; the round's latency script decides how the calls of a fan-out overlap).

import (
	"context"
	"os"
	"strconv"
	"testing"
	"time"

	"github.com/attestantio/go-block-relay/types"
	builderapiv1 "github.com/attestantio/go-builder-client/api/v1"
	consensusclient "github.com/attestantio/go-eth2-client"
	"github.com/attestantio/go-eth2-client/spec/phase0"
	nullmetrics "github.com/attestantio/vouch/services/metrics/null"
	prepstandard "github.com/attestantio/vouch/services/proposalpreparer/standard"
	"github.com/attestantio/vouch/verifsupport"
	"github.com/rs/zerolog"
)

type c11Step struct {
	Ev        string          `json:"ev"`
	Out       string          `json:"out"`
	Doc       int             `json:"doc"`
	Docs      []c11Doc        `json:"docs"`
	Accts     []int           `json:"accts"`
	Signfail  [][3]int        `json:"signfail"`
	Signkind  string          `json:"signkind"` // kind of the failing signing requests' error
	Relayout  [][]interface{} `json:"relayout"` // the failing relays: [id, kind of failure]
	Nodeout   [][]interface{} `json:"nodeout"`  // Round: the failing nodes [id, kind]; Prep: every node [id, "ok" | kind]
	Regs      [][3]int        `json:"regs"`
	Lat       string          `json:"lat"` // latency script of the round: none | slow | batched
}

type c11Scenario struct {
	Sc    int       `json:"sc"`
	Steps []c11Step `json:"steps"`
}

// c11Outs reads a set of [id, kind] pairs.
func c11Outs(in [][]interface{}) map[int]string {
	out := map[int]string{}
	for _, x := range in {
		out[int(x[0].(float64))] = x[1].(string)
	}
	return out
}

// c11NumNodes: three beacon nodes, so that a failing one can be the first, the middle or the last of the configured list.
const c11NumNodes = 3

// c11PrepExpired counts preparation rounds in which a node was never called: after a few of them the
// tree is known to be broken and the rest of the batch does not wait the full period again.
var c11PrepExpired int

// c11HungScenarios counts histories that the watchdog abandoned: after a few of them the tree is known to be
// wedging and the rest of the batch is not executed (every abandoned history costs a whole watchdog period).
var c11HungScenarios int

const c11HungLimit = 3

func c11WatchdogMS() int {
	ms, err := strconv.Atoi(os.Getenv("VERIF_WATCHDOG_MS"))
	if err != nil || ms <= 0 {
		ms = 3000
	}
	return ms
}

func c11PrepWait() time.Duration {
	ms := c11WatchdogMS()
	if c11PrepExpired >= 3 {
		ms = 100
	}
	return time.Duration(ms) * time.Millisecond
}

// c11StepWatchdog: a registration round, fetch, forwarding call or preparation that has not returned after this
// long is recorded as Hung (every interface call of a step is answered by a fake within milliseconds; the period
// is longer on the confirming re-runs - a wedge is a deadlock, it reproduces whatever the period).
func c11StepWatchdog() time.Duration {
	return 2*time.Duration(c11WatchdogMS())*time.Millisecond + 500*time.Millisecond
}

// c11SteerWait: how long a call made inside the window of a held round is given to finish while the round
// is held; if it cannot (a design that serialises the submissions to a relay), the round is let go first.
const c11SteerWait = 60 * time.Millisecond

// c11Hist is one history on ONE service instance.
type c11Hist struct {
	t    *testing.T
	env  *c11Env
	sys  *c11System
	ctx  context.Context
	sc   int
	hung bool
	// the window of a held round
	winDone chan struct{}
	winGate chan struct{}
}

// hang records the watchdog event and abandons the instance.
func (h *c11Hist) hang(step string, d time.Duration) {
	h.env.emit(verifsupport.Ev{"ev": "Hung", "step": step, "after_ms": int(d / time.Millisecond)})
	h.env.dead.Store(true)
	h.hung = true
	c11HungScenarios++
}

// await waits for a step that runs on a goroutine of its own; false = the watchdog expired.
func (h *c11Hist) await(done <-chan struct{}, step string) bool {
	d := c11StepWatchdog()
	select {
	case <-done:
		return true
	case <-time.After(d):
		h.hang(step, d)
		return false
	}
}

// run executes fn (one whole step: the call and the event written when it has returned) under the watchdog.
func (h *c11Hist) run(step string, fn func()) bool {
	done := make(chan struct{})
	go func() {
		defer close(done)
		fn()
	}()
	return h.await(done, step)
}

func (h *c11Hist) openWindow() {
	if h.winGate != nil {
		select {
		case <-h.winGate:
		default:
			close(h.winGate)
		}
	}
}

// release lets a held round go and waits for it.
func (h *c11Hist) release() {
	if h.winDone == nil {
		return
	}
	h.openWindow()
	done := h.winDone
	h.winDone, h.winGate = nil, nil
	h.await(done, "Round")
}

func c11RunScenario(t *testing.T, tr *verifsupport.Trace, sc c11Scenario) {
	if len(sc.Steps) == 0 || sc.Steps[0].Ev != "Reset" {
		t.Fatalf("scenario %d does not start with Reset", sc.Sc)
	}
	if c11HungScenarios >= c11HungLimit {
		tr.Emit(verifsupport.Ev{"sc": sc.Sc, "ev": "Reset", "skipped": true})
		return
	}
	ctx, cancel := context.WithCancel(context.Background())
	// whatever an abandoned instance still has blocked on this context is let go when the history is over
	defer cancel()
	env := c11NewEnv(t, tr, sc.Sc, sc.Steps[0].Docs)
	env.numNodes = c11NumNodes
	// the real standard signer (BLS signatures verified by the relay fakes) on every fourth scenario
	// in the quick tier and on all of them in the thorough tier; a hashing signer otherwise
	realSigner := verifsupport.Tier() == "thorough" || sc.Sc%4 == 0
	sys := c11NewSystem(t, env, "error", 0, realSigner)
	defer sys.close()
	submitters := make([]consensusclient.ProposalPreparationsSubmitter, 0, len(sys.nodes))
	for _, n := range sys.nodes {
		submitters = append(submitters, n)
	}
	prep, err := prepstandard.New(ctx,
		prepstandard.WithLogLevel(zerolog.Disabled),
		prepstandard.WithMonitor(nullmetrics.New()),
		prepstandard.WithChainTimeService(sys.ct),
		prepstandard.WithValidatingAccountsProvider(env),
		prepstandard.WithProposalPreparationsSubmitters(submitters),
		prepstandard.WithExecutionConfigProvider(sys.svc),
	)
	if err != nil {
		t.Fatalf("proposalpreparer New: %v", err)
	}
	env.emit(verifsupport.Ev{"ev": "Reset", "signer": map[bool]string{true: "standard", false: "hash"}[realSigner]})
	h := &c11Hist{t: t, env: env, sys: sys, ctx: ctx, sc: sc.Sc}
	lane2 := context.WithValue(ctx, c11LaneKey{}, "f2")

	// ONE instance for the whole history: every step meets what the earlier steps left on it
	for i, st := range sc.Steps[1:] {
		if h.hung {
			break
		}
		switch st.Ev {
		case "Fetch":
			h.run("Fetch", func() {
				env.mu.Lock()
				env.srcOut, env.srcDoc = st.Out, st.Doc
				if h.winDone == nil {
					env.accts = []int{1, 2}
				}
				env.mu.Unlock()
				if !sys.sched.Fire(ctx, c11FetchJob) {
					t.Errorf("no fetch job")
				}
				env.emit(verifsupport.Ev{"ev": "Fetch", "out": st.Out, "doc": st.Doc, "cfg": c11Projection(ctx, sys.svc)})
			})
		case "Round":
			h.release()
			if h.hung {
				break
			}
			env.mu.Lock()
			env.accts = c11Ints(st.Accts)
			env.signFail = map[[3]int]bool{}
			for _, k := range st.Signfail {
				env.signFail[k] = true
			}
			env.signKind = st.Signkind
			env.relayFail = c11Outs(st.Relayout)
			env.nodeFail = c11Outs(st.Nodeout)
			env.mode = "reg"
			env.newRound(st.Lat)
			env.gate, env.gateArrived = nil, 0
			if st.Lat == "held" {
				env.gate = make(chan struct{})
			}
			gate := env.gate
			env.mu.Unlock()
			env.emit(verifsupport.Ev{"ev": "RoundStart", "accts": c11Ints(st.Accts)})
			round := func() {
				// the registration job the service registered with the scheduler
				if !sys.sched.Fire(ctx, c11RegisterJob) {
					t.Errorf("no registration job")
				}
				env.emit(verifsupport.Ev{"ev": "RoundEnd"})
			}
			if gate == nil {
				h.run("Round", round)
				break
			}
			// a held round: wait until a healthy relay has the round's call in flight (or the round is over:
			// nothing to hold), then go on with the steps of the window
			done := make(chan struct{})
			go func() {
				defer close(done)
				round()
			}()
			d := c11StepWatchdog()
			timer := time.AfterFunc(d, func() {
				env.mu.Lock()
				env.acctsCond.Broadcast()
				env.mu.Unlock()
			})
			deadline := time.Now().Add(d)
			finished := false
			go func() {
				<-done
				env.mu.Lock()
				env.acctsCond.Broadcast()
				env.mu.Unlock()
			}()
			env.mu.Lock()
			for env.gateArrived == 0 && time.Now().Before(deadline) {
				select {
				case <-done:
					finished = true
				default:
				}
				if finished {
					break
				}
				env.acctsCond.Wait()
			}
			arrived := env.gateArrived > 0
			env.mu.Unlock()
			timer.Stop()
			switch {
			case arrived:
				h.winDone, h.winGate = done, gate
			case finished:
			default:
				h.hang("Round", d)
			}
		case "Release":
			h.release()
		case "Prep":
			h.release()
			if h.hung {
				break
			}
			h.run("Prep", func() {
				env.mu.Lock()
				env.accts = c11Ints(st.Accts)
				env.prepOut = c11Outs(st.Nodeout)
				env.prepSeen = 0
				env.newRound(st.Lat)
				env.mu.Unlock()
				env.emit(verifsupport.Ev{"ev": "PrepStart", "accts": c11Ints(st.Accts)})
				uerr := prep.UpdatePreparations(ctx)
				// the submissions run on a goroutine of their own: wait until every node was called
				// (bounded: a node that is never called is what the trace then shows)
				deadline := time.Now().Add(c11PrepWait())
				timer := time.AfterFunc(c11PrepWait(), func() {
					env.mu.Lock()
					env.acctsCond.Broadcast()
					env.mu.Unlock()
				})
				env.mu.Lock()
				for env.prepSeen < len(sys.nodes) && time.Now().Before(deadline) && uerr == nil {
					env.acctsCond.Wait()
				}
				if env.prepSeen < len(sys.nodes) && uerr == nil {
					c11PrepExpired++
				}
				env.mu.Unlock()
				timer.Stop()
				env.emit(verifsupport.Ev{"ev": "PrepEnd", "ok": uerr == nil})
			})
		case "Fwd", "Fwd2":
			second := st.Ev == "Fwd2"
			if !second {
				h.release()
				if h.hung {
					break
				}
			}
			regs := make([]*types.SignedValidatorRegistration, 0, len(st.Regs))
			in := map[[3]int]*builderapiv1.SignedValidatorRegistration{}
			for j, rg := range st.Regs {
				var sig phase0.BLSSignature
				for b := range sig {
					sig[b] = byte(17*sc.Sc + 31*i + 7*j + b)
				}
				ts := time.Unix(1700000000+int64(1000*sc.Sc+10*i+j), 0)
				regs = append(regs, &types.SignedValidatorRegistration{
					Message: &types.ValidatorRegistration{
						FeeRecipient: c11FeeAddr(rg[1]), GasLimit: c11Gas(rg[2]), Timestamp: ts, Pubkey: c11Pubkeys[rg[0]],
					},
					Signature: sig,
				})
				in[rg] = &builderapiv1.SignedValidatorRegistration{
					Message:   &builderapiv1.ValidatorRegistration{Timestamp: ts},
					Signature: sig,
				}
			}
			fail := c11Outs(st.Relayout)
			if second {
				// a REST forwarding call made while the held round is in flight: the second lane
				env.mu.Lock()
				env.f2In, env.f2RelayFail = in, fail
				env.mu.Unlock()
				env.emit(verifsupport.Ev{"ev": "F2Start", "regs": st.Regs})
				done := make(chan struct{})
				go func() {
					defer close(done)
					_, ferr := sys.svc.ValidatorRegistrations(lane2, regs)
					env.emit(verifsupport.Ev{"ev": "F2End", "ok": ferr == nil})
				}()
				select {
				case <-done:
				case <-time.After(c11SteerWait):
					// it does not finish while the round is held: let the round go first
					h.release()
					if !h.hung {
						h.await(done, "Fwd2")
					}
				}
				break
			}
			h.run("Fwd", func() {
				env.mu.Lock()
				env.fwdIn = in
				env.mode = "fwd"
				env.relayFail = fail
				env.newRound(st.Lat)
				env.mu.Unlock()
				env.emit(verifsupport.Ev{"ev": "FwdStart", "regs": st.Regs})
				_, ferr := sys.svc.ValidatorRegistrations(ctx, regs)
				env.emit(verifsupport.Ev{"ev": "FwdEnd", "ok": ferr == nil})
				env.mu.Lock()
				env.mode = "reg"
				env.relayFail = map[int]string{}
				env.mu.Unlock()
			})
		default:
			t.Fatalf("unknown step %q", st.Ev)
		}
	}
	if !h.hung {
		h.release()
	}
	h.openWindow()
}

func TestVerifC11(t *testing.T) {
	var scenarios []c11Scenario
	verifsupport.Scenarios(t, &scenarios)
	tr := verifsupport.OpenTrace(t)
	defer tr.Close()
	for _, sc := range scenarios {
		c11RunScenario(t, tr, sc)
	}
}
