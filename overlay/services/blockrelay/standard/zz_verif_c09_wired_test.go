package standard

// Wired family of the C09 conformance driver (spec/Auction.tla; see zz_verif_c09_test.go for the history loop).
//
// The boundary of the binding is where the PROPERTY draws it: from the execution configuration of the validator
// whose block is auctioned to the blockauctioneer.Results and the bid BuilderBid serves.  Everything on that path
// is the real code, wired as main.go wires it:
//
//	execution configuration V2 or V1 (parsed from a generated document with blockrelay.UnmarshalJSON; V2: proposer-
//	  specific relays, min_value on the proposer or the relay tier, public_key, grace; V1: relay addresses and one
//	  grace period per proposer)  ->  blockrelay/standard.Service
//	  (AuctionBlock, bid cache, BuilderBid)  ->  builderbid/best or builderbid/deadline (handed to the service
//	  itself, no wrapper; the service passes the builder catalogue it was created with)  ->  util.FetchBuilderClient
//	  (the process-wide client cache)  ->  go-builder-client HTTP client (parses the relay's public key from the
//	  user-information part of the address)  ->  HTTP
//
// and the fakes sit one layer further out: every relay LOCATION is an httptest server that answers
// /eth/v1/builder/header/{slot}/{parent}/{pubkey} as scripted (a signed bid as JSON, 204, 500, or silence) and signs
// with the key the scenario chose (K1, K2, or bytes that are no signature).  The same location is written under
// three spellings (http://host, http://0x<K1>@host, http://0x<K2>@host); which spelling a validator's configuration
// uses changes from auction to auction, and other users of the client cache (the real submitRelayRegistrations,
// a plain fetch) come in between: every order of first use that the generated histories contain.

import (
	"context"
	"encoding/json"
	"fmt"
	"net/http"
	"net/http/httptest"
	"strconv"
	"strings"
	"sync"

	builderspec "github.com/attestantio/go-builder-client/spec"
	"github.com/attestantio/go-eth2-client/spec/bellatrix"
	"github.com/attestantio/go-eth2-client/spec/phase0"
	"github.com/attestantio/vouch/services/beaconblockproposer"
	"github.com/attestantio/vouch/services/blockrelay"
	e2wtypes "github.com/wealdtech/go-eth2-wallet-types/v2"
)

type c09Wired struct {
	servers []*httptest.Server

	mu      sync.Mutex
	current map[phase0.BLSPubKey]*c09Auction // the auction whose relay configurations are in force for a validator
	order   []phase0.BLSPubKey
}

// close shuts the relay servers down without waiting for them (Close waits for outstanding requests; a request
// of an abandoned call must not hold up the batch).
func (w *c09Wired) close() {
	for _, srv := range w.servers {
		go func(srv *httptest.Server) {
			srv.CloseClientConnections()
			srv.Close()
		}(srv)
	}
}

// c09CfgTap passes every call on to the real execution configuration and tells the driver that the service has
// fetched the proposer configuration of a validator (so that the binding of configuration to auction is exact when
// the configuration is replaced for the next auction).
type c09CfgTap struct {
	real    blockrelay.ExecutionConfigurator
	fetched map[phase0.BLSPubKey]chan struct{}
}

func (t *c09CfgTap) ProposerConfig(ctx context.Context, account e2wtypes.Account, pubkey phase0.BLSPubKey,
	fallbackFeeRecipient bellatrix.ExecutionAddress, fallbackGasLimit uint64,
) (*beaconblockproposer.ProposerConfig, error) {
	pc, err := t.real.ProposerConfig(ctx, account, pubkey, fallbackFeeRecipient, fallbackGasLimit)
	if ch, ok := t.fetched[pubkey]; ok {
		select {
		case ch <- struct{}{}:
		default:
		}
	}
	return pc, err
}

// startWired starts one relay server per location.
func (in *c09Instance) startWired() {
	w := &c09Wired{current: map[phase0.BLSPubKey]*c09Auction{}}
	in.wiredState = w
	for r := 1; r <= in.nrel; r++ {
		srv := httptest.NewServer(in.relayHandler(r))
		w.servers = append(w.servers, srv)
		in.setAddrs(r, strings.TrimPrefix(srv.URL, "http://"))
	}
}

// c09Wei writes a value in wei as the decimal number of ether the execution configuration expects.
func c09Wei(v int64) string {
	if v == 0 {
		return "0"
	}
	return fmt.Sprintf("0.%018d", v)
}

// installConfig makes the relay configurations of auction au the execution configuration of its validator: a new
// document (what a refresh of the execution configuration yields; version 1 or version 2 throughout a history, the
// two implementations of ProposerConfig) with a proposer-specific section for every validator that has been
// auctioned on the instance, parsed by the real code and put in place of the current one.
func (in *c09Instance) installConfig(au *c09Auction) chan struct{} {
	w := in.wiredState
	w.mu.Lock()
	defer w.mu.Unlock()
	if _, ok := w.current[au.key.pubkey]; !ok {
		w.order = append(w.order, au.key.pubkey)
	}
	w.current[au.key.pubkey] = au

	var data []byte
	var err error
	if in.cfgv == 1 {
		data, err = in.configV1()
	} else {
		data, err = in.configV2()
	}
	if err != nil {
		panic(fmt.Sprintf("c09: execution configuration document: %v", err))
	}
	real, err := blockrelay.UnmarshalJSON(data)
	if err != nil {
		panic(fmt.Sprintf("c09: execution configuration document rejected: %v\n%s", err, data))
	}
	ch := make(chan struct{}, 1)
	tap := &c09CfgTap{real: real, fetched: map[phase0.BLSPubKey]chan struct{}{au.key.pubkey: ch}}
	in.svc.executionConfigMu.Lock()
	in.svc.executionConfig = tap
	in.svc.executionConfigMu.Unlock()
	return ch
}

// configV1 writes the configurations in force as an execution configuration of version 1 (the other implementation
// of ProposerConfig, services/blockrelay/v1): per proposer the relay addresses and one grace period; no minimum
// values, no public keys - the scenario generator only produces such configurations for these histories.
func (in *c09Instance) configV1() ([]byte, error) {
	w := in.wiredState
	type builderDoc struct {
		Enabled bool     `json:"enabled"`
		Grace   string   `json:"grace,omitempty"`
		Relays  []string `json:"relays,omitempty"`
	}
	type proposerDoc struct {
		FeeRecipient string      `json:"fee_recipient"`
		Builder      *builderDoc `json:"builder"`
	}
	const feeRecipient = "0x0100000000000000000000000000000000000000"
	doc := struct {
		ProposerConfig map[string]*proposerDoc `json:"proposer_config"`
		DefaultConfig  *proposerDoc            `json:"default_config"`
	}{ProposerConfig: map[string]*proposerDoc{}, DefaultConfig: &proposerDoc{FeeRecipient: feeRecipient, Builder: &builderDoc{}}}
	for _, pubkey := range w.order {
		a := w.current[pubkey]
		bd := &builderDoc{Enabled: true}
		for i, c := range a.cfg {
			if c.Min != 0 || c.Key != "none" || c.Grace != a.cfg[0].Grace {
				return nil, fmt.Errorf("auction %d: relay configuration %+v cannot be written in version 1", a.i, c)
			}
			bd.Relays = append(bd.Relays, in.addrs[i][c.Sp])
		}
		if a.cfg[0].Grace > 0 {
			bd.Grace = strconv.FormatInt(c09GraceDur.Milliseconds(), 10)
		}
		doc.ProposerConfig[fmt.Sprintf("%#x", pubkey[:])] = &proposerDoc{FeeRecipient: feeRecipient, Builder: bd}
	}
	return json.Marshal(&doc)
}

// configV2 writes the configurations in force as an execution configuration of version 2.
func (in *c09Instance) configV2() ([]byte, error) {
	w := in.wiredState
	type relayDoc struct {
		PublicKey string `json:"public_key,omitempty"`
		Grace     string `json:"grace,omitempty"`
		MinValue  string `json:"min_value,omitempty"`
	}
	type proposerDoc struct {
		Proposer    string               `json:"proposer"`
		MinValue    string               `json:"min_value,omitempty"`
		ResetRelays bool                 `json:"reset_relays"`
		Relays      map[string]*relayDoc `json:"relays"`
	}
	doc := struct {
		Version      int            `json:"version"`
		FeeRecipient string         `json:"fee_recipient"`
		Proposers    []*proposerDoc `json:"proposers"`
	}{Version: 2, FeeRecipient: "0x0100000000000000000000000000000000000000"}
	for _, pubkey := range w.order {
		a := w.current[pubkey]
		pd := &proposerDoc{Proposer: fmt.Sprintf("%#x", pubkey[:]), ResetRelays: true, Relays: map[string]*relayDoc{}}
		// The minimum value of a relay comes from the relay tier or, when that is silent, from the proposer tier:
		// the first relay's minimum is written on the proposer tier, relays with the same minimum leave theirs out
		// every other auction.
		pd.MinValue = c09Wei(a.cfg[0].Min)
		for i, c := range a.cfg {
			rd := &relayDoc{}
			if c.Min != a.cfg[0].Min || (a.i+i)%2 == 0 {
				rd.MinValue = c09Wei(c.Min)
			}
			if pub := in.relayPub(i+1, c09ConfigKey(c.Key)); pub != nil {
				rd.PublicKey = fmt.Sprintf("%#x", pub[:])
			}
			if c.Grace > 0 {
				rd.Grace = strconv.FormatInt(c09GraceDur.Milliseconds(), 10)
			}
			pd.Relays[in.addrs[i][c.Sp]] = rd
		}
		doc.Proposers = append(doc.Proposers, pd)
	}
	return json.Marshal(&doc)
}

// relayHandler is the relay server at location rid.
func (in *c09Instance) relayHandler(rid int) http.Handler {
	const header = "/eth/v1/builder/header/"
	return http.HandlerFunc(func(w http.ResponseWriter, req *http.Request) {
		if !strings.HasPrefix(req.URL.Path, header) {
			// validator registrations, status
			w.WriteHeader(http.StatusOK)
			return
		}
		parts := strings.Split(strings.TrimPrefix(req.URL.Path, header), "/")
		if len(parts) != 3 {
			in.noteBad(fmt.Sprintf("relay %d: malformed request %s", rid, req.URL.Path))
			w.WriteHeader(http.StatusBadRequest)
			return
		}
		slot, err := strconv.ParseUint(parts[0], 10, 64)
		parent, err2 := c09Hex(parts[1], 32)
		pubkey, err3 := c09Hex(parts[2], 48)
		if err != nil || err2 != nil || err3 != nil {
			in.noteBad(fmt.Sprintf("relay %d: malformed request %s", rid, req.URL.Path))
			w.WriteHeader(http.StatusBadRequest)
			return
		}
		key := c09Key{slot: phase0.Slot(slot)}
		copy(key.parent[:], parent)
		copy(key.pubkey[:], pubkey)
		var body []byte
		kind, _, aerr := in.answer(req.Context(), rid, key, func(bid *builderspec.VersionedSignedBuilderBid) (string, error) {
			var merr error
			if body, merr = json.Marshal(bid); merr != nil {
				return "", merr
			}
			return c09BidContent(bid), nil
		})
		switch {
		case kind == "error":
			w.WriteHeader(http.StatusInternalServerError)
		case aerr != nil:
			// the auction is over or the caller has gone
			w.WriteHeader(http.StatusServiceUnavailable)
		case kind == "nobid":
			w.WriteHeader(http.StatusNoContent)
		default:
			w.Header().Set("Content-Type", "application/json")
			w.WriteHeader(http.StatusOK)
			_, _ = w.Write(body)
		}
	})
}

func c09Hex(s string, n int) ([]byte, error) {
	s = strings.TrimPrefix(s, "0x")
	if len(s) != 2*n {
		return nil, fmt.Errorf("length %d", len(s))
	}
	res := make([]byte, n)
	for i := 0; i < n; i++ {
		b, err := strconv.ParseUint(s[2*i:2*i+2], 16, 8)
		if err != nil {
			return nil, err
		}
		res[i] = byte(b)
	}
	return res, nil
}

// c09BidContent identifies a bid by what it says and who signed it.
func c09BidContent(bid *builderspec.VersionedSignedBuilderBid) string {
	if bid == nil {
		return ""
	}
	root, err := bid.MessageHashTreeRoot()
	if err != nil {
		return ""
	}
	sig, err := bid.Signature()
	if err != nil {
		return ""
	}
	return fmt.Sprintf("%x/%x", root[:], sig[:])
}

// bidByContent finds the answer given to this auction (by relay r, or by any relay if r is 0) that bid is: the
// first of a run of repeats (a repeat in a row is the same bid to the strategy as well).
func (au *c09Auction) bidByContent(bid *builderspec.VersionedSignedBuilderBid, r int) (c09BidID, bool) {
	content := c09BidContent(bid)
	if content == "" {
		return c09BidID{}, false
	}
	au.mu.Lock()
	defer au.mu.Unlock()
	for _, d := range au.deliveries {
		if d.id == content && (r == 0 || d.r == r) {
			return c09BidID{i: au.i, r: d.r, n: d.n}, true
		}
	}
	return c09BidID{}, false
}
