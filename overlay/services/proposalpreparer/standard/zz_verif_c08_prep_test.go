// Conformance driver of property C08 for the SIBLING FAN-OUT "prepdirect" (spec/Submitter.tla,
// spec/SubmitterClassifier.tla: DirectKinds; scenarios: spec/Scen_SubmitterDirect.tla; trace spec:
// spec/Trace_Submitter.tla).  Injected with -overlay by /verif/check, never committed to the repository.
//
// In a running Vouch the proposal preparations do not travel through the submitter service: main.go
// (initProposalPreparer) hands the proposal preparer one node client per beacon node configured for
// proposing and the controller calls UpdatePreparations once per epoch.  The driver wires the REAL
// proposalpreparer/standard.Service the way main.go does (real chain time service, a validating accounts
// provider, an execution configuration provider, the list of node clients in the configured order) and
// puts the fakes where the beacon nodes are: every node client is a fake at the eth2client interface that
// HONOURS ITS CONTEXT like the HTTP client (a request is in flight for the node's latency and is torn
// down when its context is cancelled meanwhile) and answers as the scenario scripts it, per call.
// One real service instance per history; every UpdatePreparations of the history is made on it.
//
// Trace lines per call of the history: Reset / NextCall (configuration as scripted), Call (node, the
// validators it was handed as item indices), Complete (reply accept / error / aborted: the call ended
// because the context the fan-out gave it was cancelled while the driver's own context was live),
// Finish; Crash (UpdatePreparations panicked) and Hung (it did not return) are explained by no action.
package standard_test

import (
	"context"
	"errors"
	"fmt"
	"os"
	"sort"
	"strconv"
	"sync"
	"testing"
	"time"

	eth2client "github.com/attestantio/go-eth2-client"
	apiv1 "github.com/attestantio/go-eth2-client/api/v1"
	"github.com/attestantio/go-eth2-client/spec/bellatrix"
	"github.com/attestantio/go-eth2-client/spec/phase0"
	"github.com/attestantio/vouch/mock"
	"github.com/attestantio/vouch/services/beaconblockproposer"
	"github.com/attestantio/vouch/services/chaintime"
	standardchaintime "github.com/attestantio/vouch/services/chaintime/standard"
	nullmetrics "github.com/attestantio/vouch/services/metrics/null"
	"github.com/attestantio/vouch/services/proposalpreparer/standard"
	"github.com/attestantio/vouch/verifsupport"
	"github.com/rs/zerolog"
	e2types "github.com/wealdtech/go-eth2-types/v2"
	e2wtypes "github.com/wealdtech/go-eth2-wallet-types/v2"
)

const (
	c08pStep      = 30 * time.Millisecond  // one rank of delay of a delayed reply (lat 1, 2, 3 -> 30, 60, 90 ms)
	c08pLate      = 400 * time.Millisecond // "late"
	c08pEarly     = 25 * time.Millisecond
	c08pHard      = 3 * time.Second        // every node answers: the fan-out is watched this long (plus the latencies)
	c08pQuiet     = 150 * time.Millisecond // a node hangs: the observation ends when nothing has moved for this long
	c08pBaseIndex = 1000                   // validator index of item 0
)

type c08pNodeSpec struct {
	Client string `json:"client"`
	Ver    string `json:"ver"`
	Out    string `json:"out"`
	Reason string `json:"reason"`
	Lat    int    `json:"lat"`
}

type c08pCall struct {
	Kind  string         `json:"kind"`
	Items int            `json:"items"`
	Nodes []c08pNodeSpec `json:"nodes"`
}

type c08pScenario struct {
	Sc    int              `json:"sc"`
	Sub   string           `json:"sub"`
	Mode  string           `json:"mode"`
	Conc  int              `json:"conc"`
	Conf  map[string][]int `json:"conf"`
	Calls []c08pCall       `json:"calls"`
}

type c08pCallKey struct{}

// c08pNode is what one node does at one call of the history, and what was observed of it.
type c08pNode struct {
	spec   c08pNodeSpec
	t0     time.Time
	closed chan struct{}

	mu        sync.Mutex
	entered   int
	returned  int
	first     time.Duration
	last      time.Duration
	chunks    [][]int
	anyErr    bool
	aborted   bool
	abortAt   time.Duration
	lastMoved time.Time
}

// c08pPeer is the client of one beacon node: one address for the life of the instance.
type c08pPeer struct {
	idx int

	mu    sync.Mutex
	calls map[int]*c08pNode
	stray int
}

func (*c08pPeer) Name() string      { return "c08p" }
func (p *c08pPeer) Address() string { return fmt.Sprintf("node-%d:5052", p.idx) }
func (*c08pPeer) IsActive() bool    { return true }
func (*c08pPeer) IsSynced() bool    { return true }

func (p *c08pPeer) node(ctx context.Context) *c08pNode {
	id, _ := ctx.Value(c08pCallKey{}).(int)
	p.mu.Lock()
	defer p.mu.Unlock()
	n := p.calls[id]
	if n == nil {
		p.stray++
	}
	return n
}

func c08pDelay(lat int) time.Duration {
	if lat <= 0 {
		lat = 2
	}
	return time.Duration(lat) * c08pStep
}

func c08pErr(reason string) error {
	switch reason {
	case "notActive":
		return eth2client.ErrNotActive
	case "deadline":
		return fmt.Errorf("failed to call POST endpoint: %w", context.DeadlineExceeded)
	default:
		return errors.New(`POST failed with status 500: {"code":500,"message":"INTERNAL_SERVER_ERROR"}`)
	}
}

// SubmitProposalPreparations behaves like the HTTP client of a beacon node: the request is in flight for
// the node's latency and is aborted when its context is cancelled meanwhile.
func (p *c08pPeer) SubmitProposalPreparations(ctx context.Context, preparations []*apiv1.ProposalPreparation) error {
	n := p.node(ctx)
	if n == nil {
		return errors.New("c08p: call outside a scripted submission")
	}
	ids := make([]int, len(preparations))
	for i, prep := range preparations {
		ids[i] = -1
		if prep != nil && prep.ValidatorIndex >= c08pBaseIndex {
			ids[i] = int(prep.ValidatorIndex - c08pBaseIndex)
		}
	}
	n.mu.Lock()
	if n.entered == 0 {
		n.first = time.Since(n.t0)
	}
	n.entered++
	n.chunks = append(n.chunks, ids)
	n.lastMoved = time.Now()
	n.mu.Unlock()

	byCtx := false
	wait := func(d time.Duration) bool {
		if d <= 0 {
			// a prompt node: the request is answered, unless its context was dead on arrival
			select {
			case <-ctx.Done():
				byCtx = true
				return false
			default:
				return true
			}
		}
		tm := time.NewTimer(d)
		defer tm.Stop()
		select {
		case <-tm.C:
			return true
		case <-n.closed:
			return false
		case <-ctx.Done():
			byCtx = true
			return false
		}
	}
	var err error
	live := true
	switch n.spec.Out {
	case "accept":
		live = wait(0)
	case "error":
		live = wait(0)
		err = c08pErr(n.spec.Reason)
	case "slowok":
		live = wait(c08pDelay(n.spec.Lat))
	case "slowerr":
		live = wait(c08pDelay(n.spec.Lat))
		err = c08pErr(n.spec.Reason)
	case "late":
		live = wait(c08pLate)
	default: // hang
		live = wait(24 * time.Hour)
	}
	n.mu.Lock()
	defer n.mu.Unlock()
	n.lastMoved = time.Now()
	if !live {
		if byCtx {
			select {
			case <-n.closed:
			default:
				if !n.aborted {
					n.aborted = true
					n.abortAt = time.Since(n.t0)
				}
				return ctx.Err()
			}
		}
		return errors.New("c08p: scenario is over")
	}
	n.returned++
	n.last = time.Since(n.t0)
	if err != nil {
		n.anyErr = true
	}
	return err
}

// ---- the neighbours of the preparer as main.go hands them over

type c08pPubKey struct {
	e2types.PublicKey
	b [48]byte
}

func (k c08pPubKey) Marshal() []byte { return k.b[:] }

type c08pAccount struct {
	e2wtypes.Account
	key c08pPubKey
}

func (a c08pAccount) PublicKey() e2types.PublicKey { return a.key }

// c08pAccounts is the validating accounts provider: the validators of the call the context belongs to.
type c08pAccounts struct {
	mu    sync.Mutex
	items map[int]int
}

func (a *c08pAccounts) forCtx(ctx context.Context) map[phase0.ValidatorIndex]e2wtypes.Account {
	id, _ := ctx.Value(c08pCallKey{}).(int)
	a.mu.Lock()
	items := a.items[id]
	a.mu.Unlock()
	res := make(map[phase0.ValidatorIndex]e2wtypes.Account, items)
	for i := 0; i < items; i++ {
		acc := c08pAccount{}
		acc.key.b[0] = byte(i + 1)
		acc.key.b[1] = 0xc8
		res[phase0.ValidatorIndex(c08pBaseIndex+i)] = acc
	}
	return res
}

func (a *c08pAccounts) ValidatingAccountsForEpoch(ctx context.Context, _ phase0.Epoch) (map[phase0.ValidatorIndex]e2wtypes.Account, error) {
	return a.forCtx(ctx), nil
}

func (a *c08pAccounts) ValidatingAccountsForEpochByIndex(ctx context.Context, _ phase0.Epoch, indices []phase0.ValidatorIndex) (map[phase0.ValidatorIndex]e2wtypes.Account, error) {
	all := a.forCtx(ctx)
	res := make(map[phase0.ValidatorIndex]e2wtypes.Account)
	for _, i := range indices {
		if acc, ok := all[i]; ok {
			res[i] = acc
		}
	}
	return res, nil
}

func (a *c08pAccounts) SyncCommitteeAccountsForEpoch(ctx context.Context, e phase0.Epoch) (map[phase0.ValidatorIndex]e2wtypes.Account, error) {
	return a.ValidatingAccountsForEpoch(ctx, e)
}

func (a *c08pAccounts) SyncCommitteeAccountsForEpochByIndex(ctx context.Context, e phase0.Epoch, indices []phase0.ValidatorIndex) (map[phase0.ValidatorIndex]e2wtypes.Account, error) {
	return a.ValidatingAccountsForEpochByIndex(ctx, e, indices)
}

type c08pExecConfig struct{}

func (c08pExecConfig) ProposerConfig(_ context.Context, _ e2wtypes.Account, pubkey phase0.BLSPubKey) (*beaconblockproposer.ProposerConfig, error) {
	return &beaconblockproposer.ProposerConfig{FeeRecipient: bellatrix.ExecutionAddress{0xc8, pubkey[0]}}, nil
}

var (
	c08pChainOnce sync.Once
	c08pChain     chaintime.Service
	c08pChainErr  error
)

func c08pChainTime(ctx context.Context) (chaintime.Service, error) {
	c08pChainOnce.Do(func() {
		c08pChain, c08pChainErr = standardchaintime.New(ctx,
			standardchaintime.WithLogLevel(zerolog.Disabled),
			standardchaintime.WithGenesisProvider(mock.NewGenesisProvider(time.Now().Add(-time.Hour))),
			standardchaintime.WithSpecProvider(mock.NewSpecProvider()),
		)
	})
	return c08pChain, c08pChainErr
}

func c08pWhole(chunks [][]int, items int) bool {
	seen := make([]int, items)
	for _, c := range chunks {
		for _, i := range c {
			if i < 0 || i >= items {
				return false
			}
			seen[i]++
		}
	}
	for _, s := range seen {
		if s != 1 {
			return false
		}
	}
	return true
}

// c08pObserve runs one history on one real preparer instance and returns its trace lines.
func c08pObserve(sc *c08pScenario) ([]verifsupport.Ev, error) {
	ctx, cancel := context.WithCancel(context.Background())
	defer cancel()
	if len(sc.Calls) == 0 || len(sc.Calls[0].Nodes) == 0 {
		return nil, errors.New("scenario without nodes")
	}
	pool := len(sc.Calls[0].Nodes)
	closed := make(chan struct{})
	defer close(closed)

	peers := make([]*c08pPeer, pool)
	// main.go: one client per address of util.BeaconNodeAddressesForProposing(), in that order; here the
	// configured list is conf[kind] (the peers of the pool configured for the fan-out)
	kind := sc.Calls[0].Kind
	list := sc.Conf[kind]
	if len(list) == 0 {
		for i := 1; i <= pool; i++ {
			list = append(list, i)
		}
	}
	mine := make([]bool, pool)
	submitters := make([]eth2client.ProposalPreparationsSubmitter, 0, len(list))
	for i := range peers {
		peers[i] = &c08pPeer{idx: i + 1, calls: map[int]*c08pNode{}}
	}
	for _, i := range list {
		if i < 1 || i > pool {
			return nil, errors.New("configured node outside the pool")
		}
		mine[i-1] = true
		submitters = append(submitters, peers[i-1])
	}
	chainTime, err := c08pChainTime(ctx)
	if err != nil {
		return nil, err
	}
	accounts := &c08pAccounts{items: map[int]int{}}
	svc, err := standard.New(ctx,
		standard.WithLogLevel(zerolog.Disabled),
		standard.WithMonitor(nullmetrics.New()),
		standard.WithChainTimeService(chainTime),
		standard.WithValidatingAccountsProvider(accounts),
		standard.WithProposalPreparationsSubmitters(submitters),
		standard.WithExecutionConfigProvider(c08pExecConfig{}),
	)
	if err != nil {
		return nil, err
	}

	var lines []verifsupport.Ev
	for ci, call := range sc.Calls {
		if call.Kind != kind || len(call.Nodes) != pool {
			return nil, errors.New("history with a varying kind or pool")
		}
		head := "Reset"
		if ci > 0 {
			head = "NextCall"
		}
		lines = append(lines, verifsupport.Ev{"sc": sc.Sc, "ev": head, "call": ci + 1, "calls": len(sc.Calls), "sub": sc.Sub, "kind": call.Kind,
			"conc": sc.Conc, "items": call.Items, "nodes": call.Nodes, "conf": map[string][]int{kind: list}})

		cctx := context.WithValue(ctx, c08pCallKey{}, ci+1)
		accounts.mu.Lock()
		accounts.items[ci+1] = call.Items
		accounts.mu.Unlock()
		raw := make([]*c08pNode, pool)
		allRespond := true
		var budget time.Duration
		t0 := time.Now()
		for i, ns := range call.Nodes {
			raw[i] = &c08pNode{spec: ns, t0: t0, closed: closed, lastMoved: t0}
			peers[i].mu.Lock()
			peers[i].calls[ci+1] = raw[i]
			peers[i].mu.Unlock()
			if !mine[i] {
				continue
			}
			switch ns.Out {
			case "accept", "error":
			case "slowok", "slowerr":
				budget += c08pDelay(ns.Lat)
			case "late":
				budget += c08pLate
			default:
				allRespond = false
			}
		}

		// the call itself: UpdatePreparations hands the fan-out to a goroutine of its own and returns
		type outcome struct {
			err   error
			crash string
		}
		done := make(chan outcome, 1)
		go func() {
			var o outcome
			defer func() {
				if r := recover(); r != nil {
					o.crash = fmt.Sprint(r)
				}
				done <- o
			}()
			o.err = svc.UpdatePreparations(cctx)
		}()
		select {
		case o := <-done:
			if o.crash != "" {
				lines = append(lines, verifsupport.Ev{"sc": sc.Sc, "ev": "Crash", "call": ci + 1, "panic": o.crash})
				return lines, nil
			}
			if o.err != nil {
				lines = append(lines, verifsupport.Ev{"sc": sc.Sc, "ev": "CallError", "call": ci + 1, "error": o.err.Error()})
				return lines, nil
			}
		case <-time.After(10 * time.Second):
			lines = append(lines, verifsupport.Ev{"sc": sc.Sc, "ev": "Hung", "call": ci + 1})
			return lines, nil
		}

		// watch the fan-out
		for {
			time.Sleep(2 * time.Millisecond)
			el := time.Since(t0)
			over, moved := true, t0
			for i, n := range raw {
				if !mine[i] {
					continue
				}
				n.mu.Lock()
				ended := n.entered > 0 && (n.returned == n.entered || n.aborted)
				if n.lastMoved.After(moved) {
					moved = n.lastMoved
				}
				hangs := n.spec.Out == "hang" && n.entered > 0 && !n.aborted
				n.mu.Unlock()
				if !ended && !(hangs && !allRespond) {
					over = false
				}
			}
			if allRespond {
				// every node answers: a fan-out without a time-out gets to each of them; wait for it, so that a
				// loaded machine cannot look like a node that was never called
				if over || el > c08pHard+budget {
					break
				}
				continue
			}
			// a node hangs: whoever is reached at all is reached promptly after the previous reply
			if time.Since(moved) > c08pQuiet+budget && el > c08pQuiet+budget {
				break
			}
			if el > c08pHard+budget {
				break
			}
		}

		type ev struct {
			at   time.Duration
			rank int
			ev   verifsupport.Ev
		}
		var evs []ev
		for i, n := range raw {
			n.mu.Lock()
			called, first, last, anyErr, aborted, abortAt := n.entered > 0, n.first, n.last, n.anyErr, n.aborted, n.abortAt
			complete := n.entered > 0 && n.returned == n.entered
			var chunks [][]int
			for _, c := range n.chunks {
				cc := append([]int{}, c...)
				sort.Ints(cc)
				chunks = append(chunks, cc)
			}
			n.mu.Unlock()
			if !called {
				continue
			}
			// There is no instant at which "the submission started" other than the call of UpdatePreparations,
			// which first collects accounts and configuration; the preparer has no configured concurrency (its
			// loop is one call at a time), so a delayed first call is never judged: early or ambiguous.
			at := "amb"
			if first < c08pEarly {
				at = "early"
			}
			evs = append(evs, ev{first, 0, verifsupport.Ev{"sc": sc.Sc, "ev": "Call", "call": ci + 1, "node": i + 1, "chunks": chunks, "at": at, "us": first.Microseconds()}})
			if aborted {
				evs = append(evs, ev{abortAt, 1, verifsupport.Ev{"sc": sc.Sc, "ev": "Complete", "call": ci + 1, "node": i + 1, "reply": "aborted", "at": "before", "us": abortAt.Microseconds()}})
			} else if complete {
				reply := "accept"
				if anyErr {
					reply = "error"
				}
				evs = append(evs, ev{last, 1, verifsupport.Ev{"sc": sc.Sc, "ev": "Complete", "call": ci + 1, "node": i + 1, "reply": reply, "at": "before", "us": last.Microseconds()}})
			}
		}
		sort.SliceStable(evs, func(a, b int) bool {
			if evs[a].at != evs[b].at {
				return evs[a].at < evs[b].at
			}
			return evs[a].rank < evs[b].rank
		})
		for _, e := range evs {
			lines = append(lines, e.ev)
		}
		lines = append(lines, verifsupport.Ev{"sc": sc.Sc, "ev": "Finish", "call": ci + 1, "us": time.Since(t0).Microseconds()})
	}
	for _, p := range peers {
		p.mu.Lock()
		stray := p.stray
		p.mu.Unlock()
		if stray > 0 {
			lines = append(lines, verifsupport.Ev{"sc": sc.Sc, "ev": "StrayCall", "node": p.idx, "n": stray})
		}
	}
	return lines, nil
}

func TestVerifC08Prep(t *testing.T) {
	var scenarios []c08pScenario
	verifsupport.Scenarios(t, &scenarios)
	tr := verifsupport.OpenTrace(t)
	defer tr.Close()
	zerolog.SetGlobalLevel(zerolog.Disabled)

	par := 16
	if v, err := strconv.Atoi(os.Getenv("VERIF_C08_PAR")); err == nil && v > 0 {
		par = v
	}
	var emitMu, failMu sync.Mutex
	var failure error
	work := make(chan *c08pScenario)
	var wg sync.WaitGroup
	for w := 0; w < par; w++ {
		wg.Add(1)
		go func() {
			defer wg.Done()
			for sc := range work {
				lines, err := c08pObserve(sc)
				if err != nil {
					failMu.Lock()
					failure = fmt.Errorf("scenario %d: %w", sc.Sc, err)
					failMu.Unlock()
					continue
				}
				emitMu.Lock()
				for _, l := range lines {
					tr.Emit(l)
				}
				emitMu.Unlock()
			}
		}()
	}
	for i := range scenarios {
		work <- &scenarios[i]
	}
	close(work)
	wg.Wait()
	if failure != nil {
		t.Fatal(failure)
	}
}
