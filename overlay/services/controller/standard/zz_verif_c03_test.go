package standard

// Conformance driver for property C03 (spec/Controller.tla, Trace_Controller.tla): replays
// TLC-generated behaviours on the real controller through the harness of
// zz_verif_c03_harness_test.go and records the projected state after every stimulus.
// Scenarios are independent; they are spread over child processes of this test binary (quiescence
// is detected from the process's goroutine count, so one process runs one scenario at a time).

import (
	"bytes"
	"encoding/json"
	"fmt"
	"os"
	"os/exec"
	"path/filepath"
	"runtime"
	"sync"
	"testing"

	"github.com/attestantio/vouch/verifsupport"
)

type c03Step struct {
	Ev     string     `json:"ev"`
	Cfg    *c03Config `json:"cfg"`
	Oracle *c03Oracle `json:"oracle"`
	Now    uint64     `json:"now"`
	W      bool       `json:"w"`
	B      int64      `json:"b"`
	K      string     `json:"k"`
	N      uint64     `json:"n"`
	H      bool       `json:"h"`
	On     bool       `json:"on"`
	Ver    int        `json:"ver"`
	Jk     string     `json:"jk"`
	Err    bool       `json:"err"`
	Vals   []uint64   `json:"vals"`
	Acct   *c03Answer `json:"acct"`
}

// c03Answer is an answer of the accounts provider: the active validators, or an error.
type c03Answer struct {
	Err  bool     `json:"err"`
	Vals []uint64 `json:"vals"`
}

type c03Scenario struct {
	Sc    int       `json:"sc"`
	Steps []c03Step `json:"steps"`
}

func c03Shard(t *testing.T, scenarios []c03Scenario) bool {
	if os.Getenv("VERIF_C03_CHILD") != "" || len(scenarios) < 8 {
		return false
	}
	n := runtime.NumCPU() / 2
	if n > 8 {
		n = 8
	}
	if n < 2 {
		return false
	}
	out := os.Getenv("VERIF_TRACE_OUT")
	if out == "" {
		return false
	}
	dir, err := os.MkdirTemp("", "c03shards")
	if err != nil {
		t.Fatalf("shards: %v", err)
	}
	defer os.RemoveAll(dir)
	var wg sync.WaitGroup
	errs := make([]error, n)
	logs := make([][]byte, n)
	for i := 0; i < n; i++ {
		var buf bytes.Buffer
		for k := i; k < len(scenarios); k += n {
			b, _ := json.Marshal(scenarios[k])
			buf.Write(b)
			buf.WriteByte('\n')
		}
		sp := filepath.Join(dir, fmt.Sprintf("scen-%d.ndjson", i))
		if err := os.WriteFile(sp, buf.Bytes(), 0o600); err != nil {
			t.Fatalf("shards: %v", err)
		}
		wg.Add(1)
		go func(i int) {
			defer wg.Done()
			cmd := exec.Command(os.Args[0], "-test.run", "^TestVerifC03$", "-test.timeout", "800s")
			cmd.Env = append(os.Environ(), "VERIF_C03_CHILD=1", "VERIF_SCENARIOS="+sp,
				"VERIF_TRACE_OUT="+filepath.Join(dir, fmt.Sprintf("trace-%d.ndjson", i)))
			logs[i], errs[i] = cmd.CombinedOutput()
		}(i)
	}
	wg.Wait()
	f, err := os.Create(out)
	if err != nil {
		t.Fatalf("trace: %v", err)
	}
	defer f.Close()
	for i := 0; i < n; i++ {
		if errs[i] != nil {
			t.Fatalf("child %d failed: %v\n%s", i, errs[i], logs[i])
		}
		data, err := os.ReadFile(filepath.Join(dir, fmt.Sprintf("trace-%d.ndjson", i)))
		if err != nil {
			t.Fatalf("child %d left no trace: %v\n%s", i, err, logs[i])
		}
		f.Write(data)
	}
	return true
}

func TestVerifC03(t *testing.T) {
	var scenarios []c03Scenario
	verifsupport.Scenarios(t, &scenarios)
	if c03Shard(t, scenarios) {
		return
	}
	tr := verifsupport.OpenTrace(t)
	defer tr.Close()

	for _, sc := range scenarios {
		var h *c03Harness
		emit := func(ev verifsupport.Ev) {
			ev["sc"] = sc.Sc
			ev["jobs"] = h.Jobs()
			ev["done"] = h.Executed()
			ev["fetches"] = h.TakeFetches()
			ev["held"] = h.Held()
			ev["calls"] = h.TakeCalls()
			ev["up"] = h.Svc != nil
			tr.Emit(ev)
		}
		check := func(err error) {
			if err != nil {
				// a broken run (exit 2), never a verdict
				t.Fatalf("scenario %d: %v", sc.Sc, err)
			}
		}
		for _, st := range sc.Steps {
			switch st.Ev {
			case "Reset":
				// ONE controller instance per history (restarts of the scenario aside): every later step acts on it
				h = c03NewHarness(*st.Cfg, *st.Oracle)
				h.Watchdog = true
				h.ChainTime.SetSlot(st.Now)
				acct := c03Answer{Vals: append([]uint64{}, st.Cfg.Vals...)}
				if st.Acct != nil {
					acct = c03Answer{Err: st.Acct.Err, Vals: append([]uint64{}, st.Acct.Vals...)}
					h.SetAccounts(acct.Vals, acct.Err)
				}
				emit(verifsupport.Ev{"ev": "Reset", "cfg": st.Cfg, "oracle": st.Oracle, "now": st.Now, "acct": acct})
			case "Start":
				check(h.Start(h.Now(), st.W))
				emit(verifsupport.Ev{"ev": "Start", "w": st.W, "periodic": h.Periodic()})
			case "Crash":
				h.Crash()
				emit(verifsupport.Ev{"ev": "Crash"})
			case "Advance":
				h.Advance()
				emit(verifsupport.Ev{"ev": "Advance", "now": h.Now()})
			case "Reorg":
				h.Reorg(st.B)
				emit(verifsupport.Ev{"ev": "Reorg", "b": st.B})
			case "EpochTick":
				ok, err := h.FireTicker()
				check(err)
				emit(verifsupport.Ev{"ev": "EpochTick", "fired": ok})
			case "HeadEvent":
				check(h.HeadEvent())
				emit(verifsupport.Ev{"ev": "HeadEvent"})
			case "Fire":
				if st.K == "early" {
					if st.H {
						h.SetHeadSlot(int64(st.N) - 1)
					} else {
						h.SetHeadSlot(int64(st.N) - 2)
					}
				}
				ok, err := h.FireJob(c03JobName(st.K, st.N))
				check(err)
				emit(verifsupport.Ev{"ev": "Fire", "k": st.K, "n": st.N, "h": st.H, "fired": ok})
			case "Accounts":
				h.SetAccounts(st.Vals, st.Err)
				emit(verifsupport.Ev{"ev": "Accounts", "err": st.Err, "vals": append([]uint64{}, st.Vals...)})
			case "Hold":
				h.Hold(st.K, st.On)
				emit(verifsupport.Ev{"ev": "Hold", "k": st.K, "on": st.On})
			case "Release":
				ok, err := h.ReleaseCall(st.K, st.N, st.Ver, st.Jk)
				check(err)
				emit(verifsupport.Ev{"ev": "Release", "k": st.K, "n": st.N, "ver": st.Ver, "jk": st.Jk, "released": ok})
			default:
				t.Fatalf("unknown step %q", st.Ev)
			}
			// a call that never ends: an event no action of the specification allows
			if hung := h.TakeHung(); len(hung) > 0 {
				emit(verifsupport.Ev{"ev": "Hung", "after": st.Ev, "what": hung})
			}
		}
	}
}
