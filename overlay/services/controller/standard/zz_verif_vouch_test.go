package standard

// System-level conformance driver of spec/Vouch.tla (the composition controller + scheduler + attester
// for the attestation path); its traces are validated by spec/Trace_Vouch.tla.  It is a block of the
// check of property C01 (checks/C01.py).  Injected with -overlay by /verif/check; nothing of it is
// committed to the repository.
//
// Binding: the REAL controller (standard.New, with the scripted beacon node / accounts / recording duty
// services of the C03 harness), the REAL scheduler (scheduler/advanced: real goroutines, real timers)
// behind a thin recording wrapper, and the REAL attester (attester/standard) over a scripted attestation
// data provider (slow for chosen slots), the harness accounts and a recording signer.  Chain time is the
// wall clock with short slots.
//
// A scenario is the environment part of a TLC-simulated behaviour of Scen_Vouch.tla: Phase / Advance
// (the clock: the driver waits for that instant), Head (a head event for the current slot with the
// duty-dependent roots in force is handed to the controller's handler), Reorg (the duties of an epoch
// get their next version), and the slots whose attestation data is slow.  Everything else - timers,
// fast track, refreshes, the jobs - happens by itself and is recorded:
//
//	Reset   configuration + the duty table              Clock   a half slot has begun (lower bound of the clock)
//	Head    event handed to the handler (before!)       HeadDone  that handler has returned
//	Reorg   duties of epoch e changed version
//	Fetch   AttesterDuties(e) answered at version ver   Tick    ScheduleJob("Prepare for epoch e")
//	PrepStart  that job's function begins               Exists  JobExists (kind att / prep)
//	Sched / Cancel / Run   ScheduleJob / CancelJob / RunJobIfExists on "Attestations for slot N"
//	JobStart / JobEnd      the job function of instance id begins / has returned (+ epochs of the attester's map)
//	Sign    the signer is asked (slot, validators)      Probe   the pending-attestation marks (atomic copy)
//	Has     HasPendingAttestations(current slot)
//
// Every line is written under one lock together with the call it reports (scheduler calls are made
// inside that lock, so their order in the file is their order at the scheduler), and carries hh = the
// half slot (2*slot + phase) of the wall clock when it was written: the action it reports happened no
// later.  Nothing is judged from wall-clock distances: the trace specification chooses its clock
// within these bounds.

import (
	"context"
	"encoding/binary"
	"fmt"
	"os"
	"sort"
	"sync"
	"testing"
	"time"

	"github.com/attestantio/go-eth2-client/api"
	apiv1 "github.com/attestantio/go-eth2-client/api/v1"
	"github.com/attestantio/go-eth2-client/spec/phase0"
	"github.com/attestantio/vouch/mock"
	standardattester "github.com/attestantio/vouch/services/attester/standard"
	nullmetrics "github.com/attestantio/vouch/services/metrics/null"
	"github.com/attestantio/vouch/services/scheduler"
	advancedscheduler "github.com/attestantio/vouch/services/scheduler/advanced"
	"github.com/attestantio/vouch/verifsupport"
	"github.com/rs/zerolog"
	e2wtypes "github.com/wealdtech/go-eth2-wallet-types/v2"
)

type vouchDuty struct {
	E    uint64 `json:"e"`
	W    int    `json:"w"`
	V    uint64 `json:"v"`
	Slot uint64 `json:"slot"`
}

type vouchStep struct {
	Ev     string      `json:"ev"`
	P      uint64      `json:"p"`
	Start  uint64      `json:"start"`
	FT     bool        `json:"ft"`
	Vals   []uint64    `json:"vals"`
	Duties []vouchDuty `json:"duties"`
	E      uint64      `json:"e"`
	Slow   []uint64    `json:"slow"`
}

type vouchScenario struct {
	Sc     int         `json:"sc"`
	SlotMs int         `json:"slotms"`
	Tail   int         `json:"tail"` // slots the run goes on after the last step
	Steps  []vouchStep `json:"steps"`
}

// ---- the log ----------------------------------------------------------------------------------------

type vouchLog struct {
	mu      sync.Mutex
	sc      int
	genesis time.Time
	dur     time.Duration
	att     time.Duration // attestation time inside the slot
	rows    []verifsupport.Ev
}

// half is the half slot of instant t: 2*slot, +1 from the slot's attestation time on.
func (l *vouchLog) half(t time.Time) int {
	d := t.Sub(l.genesis)
	if d < 0 {
		return 0
	}
	slot := int(d / l.dur)
	h := 2 * slot
	if d-time.Duration(slot)*l.dur >= l.att {
		h++
	}
	return h
}

// startOfHalf is the instant half slot h begins.
func (l *vouchLog) startOfHalf(h int) time.Time {
	t := l.genesis.Add(time.Duration(h/2) * l.dur)
	if h%2 == 1 {
		t = t.Add(l.att)
	}
	return t
}

// locked runs fn under the log's lock and appends the line it returns (nil: none).
func (l *vouchLog) locked(fn func() verifsupport.Ev) {
	l.mu.Lock()
	defer l.mu.Unlock()
	ev := fn()
	if ev == nil {
		return
	}
	ev["sc"] = l.sc
	ev["hh"] = l.half(time.Now())
	l.rows = append(l.rows, ev)
}

func (l *vouchLog) emit(ev verifsupport.Ev) { l.locked(func() verifsupport.Ev { return ev }) }

// cancelThenSched reports whether a successful CancelJob for the slot's job and, after it, a successful
// ScheduleJob under the same name have been written.
func (l *vouchLog) cancelThenSched(slot uint64) bool {
	l.mu.Lock()
	defer l.mu.Unlock()
	cancelled := false
	for _, ev := range l.rows {
		if s, ok := ev["slot"].(uint64); !ok || s != slot || ev["ok"] != true {
			continue
		}
		switch ev["ev"] {
		case "Cancel":
			cancelled = true
		case "Sched":
			if cancelled {
				return true
			}
		}
	}
	return false
}

// ---- chain time: the wall clock -------------------------------------------------------------------------

type vouchWall struct {
	genesis time.Time
	dur     time.Duration
	p       uint64
}

func (c *vouchWall) GenesisTime() time.Time { return c.genesis }
func (c *vouchWall) StartOfSlot(slot phase0.Slot) time.Time {
	return c.genesis.Add(time.Duration(slot) * c.dur)
}
func (c *vouchWall) StartOfEpoch(epoch phase0.Epoch) time.Time {
	return c.genesis.Add(time.Duration(uint64(epoch)*c.p) * c.dur)
}
func (c *vouchWall) CurrentSlot() phase0.Slot {
	d := time.Since(c.genesis)
	if d < 0 {
		return 0
	}
	return phase0.Slot(d / c.dur)
}
func (c *vouchWall) CurrentEpoch() phase0.Epoch { return phase0.Epoch(uint64(c.CurrentSlot()) / c.p) }
func (c *vouchWall) SlotToEpoch(slot phase0.Slot) phase0.Epoch {
	return phase0.Epoch(uint64(slot) / c.p)
}
func (c *vouchWall) FirstSlotOfEpoch(epoch phase0.Epoch) phase0.Slot {
	return phase0.Slot(uint64(epoch) * c.p)
}

// vouchSpec serves the spec values (no Altair fork epoch, no Bellatrix: the attestation path only).
// EPOCHS_PER_SYNC_COMMITTEE_PERIOD must be there all the same: without it handleCurrentDependentRootChanged
// divides by zero (noted in docs/Vouch.md; outside the properties of this check).
type vouchSpec struct {
	p   uint64
	dur time.Duration
}

func (s *vouchSpec) Spec(_ context.Context, _ *api.SpecOpts) (*api.Response[map[string]any], error) {
	return &api.Response[map[string]any]{
		Data: map[string]any{
			"SECONDS_PER_SLOT":                 s.dur,
			"SLOTS_PER_EPOCH":                  s.p,
			"EPOCHS_PER_SYNC_COMMITTEE_PERIOD": uint64(64),
			"TARGET_AGGREGATORS_PER_COMMITTEE": uint64(16),
		},
		Metadata: map[string]any{},
	}, nil
}

// ---- the recording wrapper around the real scheduler -----------------------------------------------------

type vouchSched struct {
	inner  scheduler.Service
	log    *vouchLog
	w      *vouchWorld
	nextID int // under log.mu
}

func (s *vouchSched) ScheduleJob(ctx context.Context, class string, name string, runtime time.Time, job scheduler.JobFunc) error {
	k, n := c03ParseName(name)
	var err error
	switch k {
	case "att":
		s.log.locked(func() verifsupport.Ev {
			id := s.nextID + 1
			wrapped := func(ctx context.Context) {
				s.w.jobStart(n, id)
				job(ctx)
				s.w.jobEnd(n, id)
			}
			err = s.inner.ScheduleJob(ctx, class, name, runtime, wrapped)
			if err == nil {
				s.nextID = id
			}
			return verifsupport.Ev{"ev": "Sched", "slot": n, "ok": err == nil, "id": id}
		})
	case "prepepoch":
		s.log.locked(func() verifsupport.Ev {
			wrapped := func(ctx context.Context) {
				s.log.emit(verifsupport.Ev{"ev": "PrepStart", "e": n})
				job(ctx)
			}
			err = s.inner.ScheduleJob(ctx, class, name, runtime, wrapped)
			return verifsupport.Ev{"ev": "Tick", "e": n, "ok": err == nil}
		})
	default:
		err = s.inner.ScheduleJob(ctx, class, name, runtime, job)
	}
	return err
}

func (s *vouchSched) SchedulePeriodicJob(ctx context.Context, class string, name string, runtime scheduler.RuntimeFunc, job scheduler.JobFunc) error {
	return s.inner.SchedulePeriodicJob(ctx, class, name, runtime, job)
}

func (s *vouchSched) CancelJob(ctx context.Context, name string) error {
	k, n := c03ParseName(name)
	if k != "att" {
		return s.inner.CancelJob(ctx, name)
	}
	var err error
	s.log.locked(func() verifsupport.Ev {
		err = s.inner.CancelJob(ctx, name)
		return verifsupport.Ev{"ev": "Cancel", "slot": n, "ok": err == nil}
	})
	return err
}

func (s *vouchSched) CancelJobIfExists(ctx context.Context, name string) {
	//nolint
	s.CancelJob(ctx, name)
}

func (s *vouchSched) CancelJobs(ctx context.Context, prefix string) { s.inner.CancelJobs(ctx, prefix) }

func (s *vouchSched) RunJob(ctx context.Context, name string) error {
	k, n := c03ParseName(name)
	if k != "att" {
		return s.inner.RunJob(ctx, name)
	}
	var err error
	s.log.locked(func() verifsupport.Ev {
		err = s.inner.RunJob(ctx, name)
		return verifsupport.Ev{"ev": "Run", "slot": n}
	})
	return err
}

func (s *vouchSched) RunJobIfExists(ctx context.Context, name string) {
	k, n := c03ParseName(name)
	if k != "att" {
		s.inner.RunJobIfExists(ctx, name)
		return
	}
	s.log.locked(func() verifsupport.Ev {
		s.inner.RunJobIfExists(ctx, name)
		return verifsupport.Ev{"ev": "Run", "slot": n}
	})
}

func (s *vouchSched) JobExists(ctx context.Context, name string) bool {
	k, n := c03ParseName(name)
	if k != "att" && k != "prepepoch" {
		return s.inner.JobExists(ctx, name)
	}
	var res bool
	s.log.locked(func() verifsupport.Ev {
		res = s.inner.JobExists(ctx, name)
		kind := "att"
		if k == "prepepoch" {
			kind = "prep"
		}
		return verifsupport.Ev{"ev": "Exists", "k": kind, "n": n, "res": res}
	})
	return res
}

func (s *vouchSched) ListJobs(ctx context.Context) []string { return s.inner.ListJobs(ctx) }

var _ scheduler.Service = (*vouchSched)(nil)

// ---- scripted beacon node, signer -------------------------------------------------------------------------

type vouchNode struct {
	w       *vouchWorld
	slow    map[uint64]bool
	slowDur time.Duration
}

func (n *vouchNode) AttesterDuties(ctx context.Context, opts *api.AttesterDutiesOpts) (*api.Response[[]*apiv1.AttesterDuty], error) {
	var resp *api.Response[[]*apiv1.AttesterDuty]
	var err error
	n.w.log.locked(func() verifsupport.Ev {
		h := n.w.h
		h.mu.Lock()
		ver := h.ver(int64(opts.Epoch) - 1)
		h.mu.Unlock()
		resp, err = h.AttesterDuties(ctx, opts)
		duties := map[uint64][]uint64{}
		if err == nil {
			for _, d := range resp.Data {
				duties[uint64(d.Slot)] = append(duties[uint64(d.Slot)], uint64(d.ValidatorIndex))
			}
		}
		list := []verifsupport.Ev{}
		for slot, vals := range duties {
			sort.Slice(vals, func(i, j int) bool { return vals[i] < vals[j] })
			list = append(list, verifsupport.Ev{"slot": slot, "vals": vals})
		}
		sort.Slice(list, func(i, j int) bool { return list[i]["slot"].(uint64) < list[j]["slot"].(uint64) })
		return verifsupport.Ev{"ev": "Fetch", "e": uint64(opts.Epoch), "ver": ver, "duties": list}
	})
	return resp, err
}

func (n *vouchNode) AttestationData(_ context.Context, opts *api.AttestationDataOpts) (*api.Response[*phase0.AttestationData], error) {
	// the job's function is running: a look at the marks from inside
	n.w.probe()
	if n.slow[uint64(opts.Slot)] {
		time.Sleep(n.slowDur)
		n.w.probe()
	}
	epoch := uint64(opts.Slot) / n.w.p
	source := uint64(0)
	if epoch > 0 {
		source = epoch - 1
	}
	var root phase0.Root
	root[0] = 0x56
	binary.LittleEndian.PutUint64(root[8:16], uint64(opts.Slot))
	return &api.Response[*phase0.AttestationData]{
		Data: &phase0.AttestationData{
			Slot:            opts.Slot,
			Index:           opts.CommitteeIndex,
			BeaconBlockRoot: root,
			Source:          &phase0.Checkpoint{Epoch: phase0.Epoch(source), Root: root},
			Target:          &phase0.Checkpoint{Epoch: phase0.Epoch(epoch), Root: root},
		},
		Metadata: map[string]any{},
	}, nil
}

func (*vouchNode) SubmitAttestations(_ context.Context, _ []*phase0.Attestation) error { return nil }

type vouchSigner struct{ w *vouchWorld }

func (s *vouchSigner) SignBeaconAttestations(_ context.Context, accounts []e2wtypes.Account, slot phase0.Slot,
	_ []phase0.CommitteeIndex, _ phase0.Root, _ phase0.Epoch, _ phase0.Root, target phase0.Epoch, _ phase0.Root,
) ([]phase0.BLSSignature, error) {
	vals := make([]uint64, 0, len(accounts))
	res := make([]phase0.BLSSignature, len(accounts))
	for i, a := range accounts {
		if ca, ok := a.(*c03Account); ok {
			vals = append(vals, ca.index)
		}
		res[i][0] = 0x5a
		res[i][1] = byte(i + 1)
		binary.LittleEndian.PutUint64(res[i][8:16], uint64(slot))
	}
	sort.Slice(vals, func(i, j int) bool { return vals[i] < vals[j] })
	s.w.log.emit(verifsupport.Ev{"ev": "Sign", "slot": uint64(slot), "e": uint64(slot) / s.w.p, "tgt": uint64(target), "vals": vals})
	return res, nil
}

// ---- the world ------------------------------------------------------------------------------------------------

type vouchWorld struct {
	t    *testing.T
	sc   *vouchScenario
	p    uint64
	log  *vouchLog
	wall *vouchWall
	h    *c03Harness
	att  *standardattester.Service
	svc  *Service

	mu      sync.Mutex
	running int
}

func (w *vouchWorld) jobStart(slot uint64, id int) {
	w.mu.Lock()
	w.running++
	w.mu.Unlock()
	w.log.emit(verifsupport.Ev{"ev": "JobStart", "slot": slot, "id": id})
}

func (w *vouchWorld) jobEnd(slot uint64, id int) {
	w.log.locked(func() verifsupport.Ev {
		return verifsupport.Ev{"ev": "JobEnd", "slot": slot, "id": id, "att": w.att.VerifC20AttestedEpochs()}
	})
	w.mu.Lock()
	w.running--
	w.mu.Unlock()
}

// probe logs an atomic copy of the pending-attestation marks, then what HasPendingAttestations says
// for the current slot (what main.go polls on shutdown).
func (w *vouchWorld) probe() {
	w.mu.Lock()
	svc := w.svc
	w.mu.Unlock()
	if svc == nil {
		return
	}
	w.log.locked(func() verifsupport.Ev {
		pend := []uint64{}
		svc.pendingAttestationsMutex.RLock()
		for slot, v := range svc.pendingAttestations {
			if v {
				pend = append(pend, uint64(slot))
			}
		}
		svc.pendingAttestationsMutex.RUnlock()
		sort.Slice(pend, func(i, j int) bool { return pend[i] < pend[j] })
		return verifsupport.Ev{"ev": "Probe", "pend": pend}
	})
	w.log.locked(func() verifsupport.Ev {
		s := w.wall.CurrentSlot()
		return verifsupport.Ev{"ev": "Has", "s": uint64(s), "has": svc.HasPendingAttestations(context.Background(), s)}
	})
}

func vouchWaitUntil(at time.Time) {
	if d := time.Until(at); d > 0 {
		time.Sleep(d)
	}
}

// vouchRun executes one scenario in real time and returns its trace.
func vouchRun(t *testing.T, sc *vouchScenario) []verifsupport.Ev {
	if len(sc.Steps) == 0 || sc.Steps[0].Ev != "Reset" {
		t.Errorf("vouch: scenario %d does not begin with Reset", sc.Sc)
		return nil
	}
	ctx, cancel := context.WithCancel(context.Background())
	defer cancel()
	reset := sc.Steps[0]
	dur := time.Duration(sc.SlotMs) * time.Millisecond
	if dur <= 0 {
		dur = 240 * time.Millisecond
	}
	attDelay := dur / 3
	// the controller is built 0.6 slots into the start slot (after that slot's attestation time)
	genesis := time.Now().Add(-time.Duration(reset.Start)*dur - dur*6/10)
	log := &vouchLog{sc: sc.Sc, genesis: genesis, dur: dur, att: attDelay}
	wall := &vouchWall{genesis: genesis, dur: dur, p: reset.P}
	w := &vouchWorld{t: t, sc: sc, p: reset.P, log: log, wall: wall}

	oracle := c03Oracle{}
	for _, d := range reset.Duties {
		oracle.Att = append(oracle.Att, c03AttDuty{E: d.E, Ver: d.W, V: d.V, Slot: d.Slot})
	}
	cfg := c03Config{P: reset.P, D: 12, EP: 2, Prep: 1, Fork: 0, FT: reset.FT, Vals: reset.Vals}
	w.h = c03NewHarness(cfg, oracle)
	w.h.Ctx = ctx
	node := &vouchNode{w: w, slow: map[uint64]bool{}, slowDur: dur * 13 / 10}
	halves := 0
	for _, st := range sc.Steps[1:] {
		for _, s := range st.Slow {
			node.slow[s] = true
		}
		if st.Ev == "Phase" || st.Ev == "Advance" {
			halves++
		}
	}
	slow := make([]uint64, 0, len(node.slow))
	for s := range node.slow {
		slow = append(slow, s)
	}
	sort.Slice(slow, func(i, j int) bool { return slow[i] < slow[j] })
	duties := make([]verifsupport.Ev, 0, len(reset.Duties))
	for _, d := range reset.Duties {
		duties = append(duties, verifsupport.Ev{"e": d.E, "w": d.W, "v": d.V, "slot": d.Slot})
	}
	log.emit(verifsupport.Ev{"ev": "Reset", "p": reset.P, "start": reset.Start, "ft": reset.FT, "vals": reset.Vals,
		"duties": duties, "slotms": sc.SlotMs, "slow": slow})

	spec := &vouchSpec{p: reset.P, dur: dur}
	var err error
	w.att, err = standardattester.New(ctx,
		standardattester.WithLogLevel(zerolog.Disabled),
		standardattester.WithMonitor(nullmetrics.New()),
		standardattester.WithProcessConcurrency(2),
		standardattester.WithChainTime(wall),
		standardattester.WithSpecProvider(spec),
		standardattester.WithAttestationDataProvider(node),
		standardattester.WithAttestationsSubmitter(node),
		standardattester.WithValidatingAccountsProvider(w.h),
		standardattester.WithBeaconAttestationsSigner(&vouchSigner{w: w}),
	)
	if err != nil {
		t.Errorf("vouch: attester New: %v", err)
		return nil
	}
	real, err := advancedscheduler.New(ctx, advancedscheduler.WithLogLevel(zerolog.Disabled), advancedscheduler.WithMonitor(nullmetrics.New()))
	if err != nil {
		t.Errorf("vouch: scheduler New: %v", err)
		return nil
	}
	sched := &vouchSched{inner: real, log: log, w: w}
	h := w.h
	params := []Parameter{
		WithLogLevel(zerolog.Disabled),
		WithMonitor(nullmetrics.New()),
		WithSpecProvider(spec),
		WithChainTimeService(wall),
		WithWaitedForGenesis(false),
		WithProposerDutiesProvider(h),
		WithAttesterDutiesProvider(node),
		WithSyncCommitteeDutiesProvider(h),
		WithEventsProvider(h),
		WithValidatingAccountsProvider(h),
		WithProposalsPreparer(h),
		WithScheduler(sched),
		WithAttester(w.att),
		WithSyncCommitteeMessenger(h.Messenger),
		WithSyncCommitteeAggregator(h.SyncAggregator),
		WithSyncCommitteeSubscriber(h.SyncSubscriber),
		WithBeaconBlockProposer(h.Proposer),
		WithBeaconCommitteeSubscriber(h.BeaconCommitteeSubscriber),
		WithAttestationAggregator(h.AttAggregator),
		WithAccountsRefresher(h),
		WithBlockToSlotSetter(c20NoCache{}),
		WithBeaconBlockHeadersProvider(h),
		WithSignedBeaconBlockProvider(mock.NewSignedBeaconBlockProvider()),
		WithMaxProposalDelay(0),
		WithMaxAttestationDelay(attDelay),
		WithMaxSyncCommitteeMessageDelay(attDelay),
		WithFastTrackAttestations(reset.FT),
		WithFastTrackSyncCommittees(false),
		WithFastTrackGrace(0),
	}
	svc, err := New(ctx, params...)
	if err != nil {
		t.Errorf("vouch: controller New: %v", err)
		return nil
	}
	w.mu.Lock()
	w.svc = svc
	w.mu.Unlock()
	h.Svc = svc
	handler := h.handlers["head"]
	if handler == nil {
		t.Errorf("vouch: no head event handler")
		return nil
	}

	// the environment, in real time
	hcur := 2*int(reset.Start) + 1
	steps := sc.Steps[1:]
	var handlers sync.WaitGroup
	nHead := 0
	var holdSlot uint64
	var holdHeld <-chan struct{}
	var holdRelease func()
	defer func() {
		if holdRelease != nil {
			holdRelease()
		}
	}()
	for i := 0; i < len(steps); {
		// the events of this half slot: spread over it
		j := i
		for j < len(steps) && steps[j].Ev != "Phase" && steps[j].Ev != "Advance" {
			j++
		}
		begin := log.startOfHalf(hcur)
		length := log.startOfHalf(hcur + 1).Sub(begin)
		if hcur == 2*int(reset.Start)+1 {
			// the start half: what is left of it
			begin = time.Now()
			length = log.startOfHalf(hcur + 1).Sub(begin)
		}
		n := j - i
		for k := i; k < j; k++ {
			vouchWaitUntil(begin.Add(length * time.Duration(k-i+1) / time.Duration(n+2)))
			switch steps[k].Ev {
			case "Head":
				var ev *apiv1.Event
				log.locked(func() verifsupport.Ev {
					slot := uint64(wall.CurrentSlot())
					e := int64(slot / reset.P)
					h.mu.Lock()
					pv, cv := h.ver(e-1), h.ver(e)
					h.mu.Unlock()
					ev = &apiv1.Event{Topic: "head", Data: &apiv1.HeadEvent{
						Slot: phase0.Slot(slot), Block: c03Root(200, int(slot)),
						PreviousDutyDependentRoot: c03Root(e-1, pv), CurrentDutyDependentRoot: c03Root(e, cv),
					}}
					nHead++
					return verifsupport.Ev{"ev": "Head", "n": nHead, "slot": slot, "pv": pv, "cv": cv}
				})
				handlers.Add(1)
				go func(n int) {
					defer handlers.Done()
					handler(ev)
					log.emit(verifsupport.Ev{"ev": "HeadDone", "n": n})
				}(nHead)
			case "Hold":
				// directed race: the goroutine of the slot's attestation job is kept where its select has just taken
				// the timer branch (the scheduler's own hook; an interleaving the scheduler may produce by itself)
				name := fmt.Sprintf("Attestations for slot %d", steps[k].E)
				held, release, ok := advancedscheduler.VerifVouchHoldTimer(real, name)
				holdSlot, holdHeld, holdRelease = steps[k].E, held, release
				log.emit(verifsupport.Ev{"ev": "Note", "what": "hold", "slot": steps[k].E, "ok": ok})
			case "Release":
				// ... until the refresh has cancelled it and scheduled its successor under the same name (bounded wait)
				if holdRelease != nil {
					deadline := time.Now().Add(4 * dur)
					arrived := false
					for time.Now().Before(deadline) {
						if !arrived {
							select {
							case <-holdHeld:
								arrived = true
							default:
							}
						}
						if arrived && log.cancelThenSched(holdSlot) {
							break
						}
						time.Sleep(time.Millisecond)
					}
					log.emit(verifsupport.Ev{"ev": "Note", "what": "release", "slot": holdSlot, "ok": arrived})
					holdRelease()
					holdRelease = nil
				}
			case "Reorg":
				e := steps[k].E
				log.locked(func() verifsupport.Ev {
					h.Reorg(int64(e) - 1)
					return verifsupport.Ev{"ev": "Reorg", "e": e}
				})
			default:
				t.Errorf("vouch: unknown step %q", steps[k].Ev)
				return nil
			}
		}
		if j < len(steps) {
			hcur++
			vouchWaitUntil(log.startOfHalf(hcur).Add(dur / 40))
			log.emit(verifsupport.Ev{"ev": "Clock", "h": hcur})
			w.probe()
			j++
		}
		i = j
	}
	// the chain goes on until the jobs under way have finished (bounded), then a last look
	tail := sc.Tail
	if tail <= 0 {
		tail = 3
	}
	for k := 0; k < 2*tail+16; k++ {
		hcur++
		vouchWaitUntil(log.startOfHalf(hcur).Add(dur / 40))
		log.emit(verifsupport.Ev{"ev": "Clock", "h": hcur})
		w.probe()
		w.mu.Lock()
		running := w.running
		w.mu.Unlock()
		if k >= 2*tail && running == 0 {
			break
		}
	}
	handlers.Wait()
	w.mu.Lock()
	running := w.running
	w.mu.Unlock()
	if running != 0 {
		// a broken run (exit 2), never a verdict
		t.Errorf("vouch: scenario %d: %d attestation jobs still running %d slots after the end", sc.Sc, running, tail+8)
		return nil
	}
	cancel()
	time.Sleep(20 * time.Millisecond)
	log.mu.Lock()
	defer log.mu.Unlock()
	return log.rows
}

func TestVerifVouch(t *testing.T) {
	var scenarios []vouchScenario
	verifsupport.Scenarios(t, &scenarios)
	tr := verifsupport.OpenTrace(t)
	defer tr.Close()
	syncCommitteePreparationEpochs = 1
	par := 4
	if v := os.Getenv("VERIF_VOUCH_PAR"); v != "" {
		fmt.Sscanf(v, "%d", &par)
	}
	if par < 1 {
		par = 1
	}
	results := make([][]verifsupport.Ev, len(scenarios))
	sem := make(chan struct{}, par)
	var wg sync.WaitGroup
	for i := range scenarios {
		wg.Add(1)
		sem <- struct{}{}
		go func(i int) {
			defer wg.Done()
			defer func() { <-sem }()
			results[i] = vouchRun(t, &scenarios[i])
		}(i)
	}
	wg.Wait()
	for _, rows := range results {
		for _, ev := range rows {
			tr.Emit(ev)
		}
	}
}
