package standard

// Conformance driver of property C17 (spec/Concurrency.tla), group "controller": head events from two
// beacon nodes || duty jobs || HasPendingAttestations (main goroutine at shutdown) on the real controller.  Reuses the controller harness of C03
// (c03NewHarness: virtual clock, recording scheduler, scripted duty oracle, recording duty services).
// Built with -race; the schedule runner is verifdrivers/c17run.

import (
	"context"
	"testing"

	apiv1 "github.com/attestantio/go-eth2-client/api/v1"
	"github.com/attestantio/go-eth2-client/spec/phase0"
	"github.com/attestantio/vouch/verifdrivers/c17run"
)

type c17Controller struct {
	h    *c03Harness
	slot uint64
}

func (c *c17Controller) Reset(_ context.Context) {
	cfg := c03Config{P: 4, D: 12, EP: 2, Prep: 1, Fork: 0, FT: false, AttDelay: 4, PropDelay: 0, SyncDelay: 4, Vals: []uint64{1, 2}}
	oracle := c03Oracle{}
	for e := uint64(0); e <= 4; e++ {
		oracle.Att = append(oracle.Att, c03AttDuty{E: e, Ver: 0, V: 1, Slot: e*4 + 1}, c03AttDuty{E: e, Ver: 0, V: 2, Slot: e*4 + 2})
		oracle.Att = append(oracle.Att, c03AttDuty{E: e, Ver: 1, V: 1, Slot: e*4 + 2}, c03AttDuty{E: e, Ver: 1, V: 2, Slot: e*4 + 3})
	}
	c.h = c03NewHarness(cfg, oracle)
	c.slot = 5
	if err := c.h.Start(c.slot, true); err != nil {
		panic("c17 harness: controller: " + err.Error())
	}
	// one head event in the epoch so that the reorg bookkeeping is primed
	if err := c.h.HeadEvent(); err != nil {
		panic("c17 harness: controller: " + err.Error())
	}
	c.h.begin()
}

func (c *c17Controller) Call(ctx context.Context, _ int, op c17run.Op) int {
	switch op.Name() {
	case "Head":
		node := op.Int("node")
		e := int64(c.slot / 4)
		// node 2 is on a different fork: other block root, other current duty-dependent root
		c.h.handlers["head"](&apiv1.Event{Topic: "head", Data: &apiv1.HeadEvent{
			Slot:                      phase0.Slot(c.slot),
			Block:                     c03Root(200+int64(node), int(c.slot)),
			PreviousDutyDependentRoot: c03Root(e-1, 0),
			CurrentDutyDependentRoot:  c03Root(e, node-1),
		}})
		return 0
	case "Job":
		c.h.Sched.Fire(c.h.Ctx, c03JobName("att", c.slot))
		return 0
	case "Pending":
		// main.go asks this from the main goroutine while it waits to shut down
		c.h.Svc.HasPendingAttestations(ctx, phase0.Slot(c.slot))
		return 0
	}
	panic("c17 harness: controller op " + op.Name())
}

// Settle waits until the goroutines the controller started have finished (called by the runner after
// the overlapping calls returned).
func (c *c17Controller) Settle() {
	if err := c.h.Quiesce(); err != nil {
		panic("c17 harness: controller: " + err.Error())
	}
}

func (*c17Controller) Close() {}

func TestVerifC17(t *testing.T) {
	c17run.Run(t, map[string]func(ctx context.Context) c17run.Group{
		"controller": func(_ context.Context) c17run.Group { return &c17Controller{} },
		// the sync committee duty pipeline through the real scheduling path (zz_verif_c17_sync_test.go)
		"syncduty": func(_ context.Context) c17run.Group { return &c17Sync{} },
	})
}
