package standard

// Conformance driver of property C17 (spec/Concurrency.tla), group "controller": head events from two
// beacon nodes || duty jobs || HasPendingAttestations (main goroutine at shutdown) on the real controller.  Reuses the controller harness of C03
// (c03NewHarness: virtual clock, recording scheduler, scripted duty oracle, recording duty services).
// Built with -race; the schedule runner is verifdrivers/c17run.

import (
	"context"
	"testing"
	"time"

	apiv1 "github.com/attestantio/go-eth2-client/api/v1"
	"github.com/attestantio/go-eth2-client/spec/phase0"
	"github.com/attestantio/vouch/services/attester"
	"github.com/attestantio/vouch/services/beaconcommitteesubscriber"
	"github.com/attestantio/vouch/verifdrivers/c17run"
	"github.com/prysmaticlabs/go-bitfield"
	e2wtypes "github.com/wealdtech/go-eth2-wallet-types/v2"
)

type c17Controller struct {
	h    *c03Harness
	slot uint64
	// prepare, if set, alters the harness before the controller is built (group attinfo)
	prepare func(h *c03Harness)
}

func (c *c17Controller) Reset(_ context.Context) {
	cfg := c03Config{P: 4, D: 12, EP: 2, Prep: 1, Fork: 0, FT: false, AttDelay: 4, PropDelay: 0, SyncDelay: 4, Vals: []uint64{1, 2}}
	oracle := c03Oracle{}
	for e := uint64(0); e <= 4; e++ {
		oracle.Att = append(oracle.Att, c03AttDuty{E: e, Ver: 0, V: 1, Slot: e*4 + 1}, c03AttDuty{E: e, Ver: 0, V: 2, Slot: e*4 + 2})
		oracle.Att = append(oracle.Att, c03AttDuty{E: e, Ver: 1, V: 1, Slot: e*4 + 2}, c03AttDuty{E: e, Ver: 1, V: 2, Slot: e*4 + 3})
	}
	c.h = c03NewHarness(cfg, oracle)
	if c.prepare != nil {
		c.prepare(c.h)
	}
	c.slot = 5
	if err := c.h.Start(c.slot, true); err != nil {
		panic("c17 harness: controller: " + err.Error())
	}
	// one head event in the epoch so that the reorg bookkeeping is primed
	if err := c.h.HeadEvent(); err != nil {
		panic("c17 harness: controller: " + err.Error())
	}
	c.h.begin()
}

func (c *c17Controller) Call(ctx context.Context, _ int, op c17run.Op) int {
	switch op.Name() {
	case "Head":
		node := op.Int("node")
		e := int64(c.slot / 4)
		// node 2 is on a different fork: other block root, other current duty-dependent root
		c.h.handlers["head"](&apiv1.Event{Topic: "head", Data: &apiv1.HeadEvent{
			Slot:                      phase0.Slot(c.slot),
			Block:                     c03Root(200+int64(node), int(c.slot)),
			PreviousDutyDependentRoot: c03Root(e-1, 0),
			CurrentDutyDependentRoot:  c03Root(e, node-1),
		}})
		return 0
	case "Job":
		c.h.Sched.Fire(c.h.Ctx, c03JobName("att", c.slot))
		return 0
	case "Pending":
		// main.go asks this from the main goroutine while it waits to shut down
		c.h.Svc.HasPendingAttestations(ctx, phase0.Slot(c.slot))
		return 0
	}
	panic("c17 harness: controller op " + op.Name())
}

// Settle waits until the goroutines the controller started have finished (called by the runner after
// the overlapping calls returned).
func (c *c17Controller) Settle() {
	if err := c.h.Quiesce(); err != nil {
		panic("c17 harness: controller: " + err.Error())
	}
}

func (*c17Controller) Close() {}

// ---------------------------------------------------------------------------------------------------------------
// Group "attinfo": the attestation jobs of the slots of ONE epoch all read the entries of the epoch's subscription
// info - one map of maps, obtained from the beacon committee subscriber and published through
// controller.subscriptionInfos; they pick it up under the lock and read its entries without it - while head events
// remove old epochs and (node 2: another fork) start a refresh that publishes a new one.  The environment is wide: the
// attester returns nothing (the job ends there: all the recording fake of the first version ever did) or
// attestations, and the by-index lookup of the aggregator's account finds an account or none.

type c17Info struct {
	c17Controller
	// installed by Begin before the calls of the history start, read-only afterwards (no lock: the fakes add no
	// happens-before edge between two jobs)
	att  map[uint64]string // slot -> none | some
	acct map[uint64]string // validator -> yes | no
	rep  int
}

func c17NewInfo() *c17Info {
	c := &c17Info{}
	c.prepare = func(h *c03Harness) {
		h.Attester = &c17InfoAttester{c: c}
		h.BeaconCommitteeSubscriber = &c17InfoSubscriber{}
		h.ExtraParams = []Parameter{WithLogLevel(c17run.LogLevel()), WithValidatingAccountsProvider(&c17InfoAccounts{c: c, h: h})}
	}
	return c
}

// Begin installs what the environment answers to the jobs of the history (before any call).
func (c *c17Info) Begin(sc c17run.Schedule, rep int) {
	c.att, c.acct, c.rep = map[uint64]string{}, map[uint64]string{}, rep
	for _, op := range append(append([]c17run.Op{}, sc.Pre...), sc.Par...) {
		if op.Name() == "Job" {
			slot := uint64(4 + op.Int("s")) // abstract slot 1, 2 = slot 5, 6: the duties of validators 1 and 2
			c.att[slot], _ = op["att"].(string)
			c.acct[uint64(op.Int("s"))], _ = op["acct"].(string)
		}
	}
}

func (c *c17Info) Call(ctx context.Context, id int, op c17run.Op) int {
	if op.Name() == "Job" {
		c.h.Sched.Fire(c.h.Ctx, c03JobName("att", uint64(4+op.Int("s"))))
		return 0
	}
	return c.c17Controller.Call(ctx, id, op)
}

type c17InfoAttester struct{ c *c17Info }

func (a *c17InfoAttester) Attest(_ context.Context, duty *attester.Duty) ([]*phase0.Attestation, error) {
	mode := a.c.att[uint64(duty.Slot())]
	// the attester's round trips to the beacon node and the signer take time (a sleep: no happens-before edge): jobs
	// released within a few hundred microseconds of each other are under way together afterwards
	time.Sleep(400 * time.Microsecond)
	if mode != "some" {
		return []*phase0.Attestation{}, nil
	}
	res := make([]*phase0.Attestation, 0, len(duty.ValidatorIndices()))
	for i := range duty.ValidatorIndices() {
		res = append(res, &phase0.Attestation{
			AggregationBits: bitfield.NewBitlist(8),
			Data: &phase0.AttestationData{
				Slot:   duty.Slot(),
				Index:  duty.CommitteeIndices()[i],
				Source: &phase0.Checkpoint{},
				Target: &phase0.Checkpoint{Epoch: phase0.Epoch(uint64(duty.Slot()) / 4)},
			},
		})
	}
	return res, nil
}

// c17InfoSubscriber answers as the beacon committee subscriber does: a NEW map per call, every validator of the
// controller an aggregator of its committee.
type c17InfoSubscriber struct{}

func (*c17InfoSubscriber) Subscribe(_ context.Context, epoch phase0.Epoch, _ map[phase0.ValidatorIndex]e2wtypes.Account,
) (map[phase0.Slot]map[phase0.CommitteeIndex]*beaconcommitteesubscriber.Subscription, error) {
	res := map[phase0.Slot]map[phase0.CommitteeIndex]*beaconcommitteesubscriber.Subscription{}
	for v := uint64(1); v <= 2; v++ {
		for shift := uint64(0); shift <= 1; shift++ { // the duty slots of both versions of the dependent root
			slot := phase0.Slot(uint64(epoch)*4 + v + shift)
			if res[slot] == nil {
				res[slot] = map[phase0.CommitteeIndex]*beaconcommitteesubscriber.Subscription{}
			}
			sub := &beaconcommitteesubscriber.Subscription{
				Duty:         &apiv1.AttesterDuty{Slot: slot, ValidatorIndex: phase0.ValidatorIndex(v), CommitteeIndex: phase0.CommitteeIndex(v % 2)},
				IsAggregator: true,
			}
			sub.Signature[0] = 0x5a
			res[slot][phase0.CommitteeIndex(v%2)] = sub
		}
	}
	return res, nil
}

// c17InfoAccounts: the harness's accounts, but for the by-index lookup of an aggregator whose account is gone.
type c17InfoAccounts struct {
	c *c17Info
	h *c03Harness
}

func (a *c17InfoAccounts) ValidatingAccountsForEpoch(ctx context.Context, epoch phase0.Epoch) (map[phase0.ValidatorIndex]e2wtypes.Account, error) {
	return a.h.ValidatingAccountsForEpoch(ctx, epoch)
}

func (a *c17InfoAccounts) ValidatingAccountsForEpochByIndex(ctx context.Context, epoch phase0.Epoch, indices []phase0.ValidatorIndex) (map[phase0.ValidatorIndex]e2wtypes.Account, error) {
	res, err := a.h.ValidatingAccountsForEpochByIndex(ctx, epoch, indices)
	if a.c.rep%2 == 1 {
		time.Sleep(200 * time.Microsecond) // every other repetition the lookup is slow: the job sits between its reads and what follows
	}
	for v := range res {
		if a.c.acct[uint64(v)] == "no" {
			delete(res, v)
		}
	}
	return res, err
}

func (a *c17InfoAccounts) SyncCommitteeAccountsForEpoch(ctx context.Context, epoch phase0.Epoch) (map[phase0.ValidatorIndex]e2wtypes.Account, error) {
	return a.h.SyncCommitteeAccountsForEpoch(ctx, epoch)
}

func (a *c17InfoAccounts) SyncCommitteeAccountsForEpochByIndex(ctx context.Context, epoch phase0.Epoch, indices []phase0.ValidatorIndex) (map[phase0.ValidatorIndex]e2wtypes.Account, error) {
	return a.h.SyncCommitteeAccountsForEpochByIndex(ctx, epoch, indices)
}

func TestVerifC17(t *testing.T) {
	c17run.Run(t, map[string]func(ctx context.Context) c17run.Group{
		"controller": func(_ context.Context) c17run.Group { return &c17Controller{} },
		// the sync committee duty pipeline through the real scheduling path (zz_verif_c17_sync_test.go)
		"syncduty": func(_ context.Context) c17run.Group { return &c17Sync{} },
		// attestation jobs of one epoch's slots on the entries of the epoch's subscription info (same file)
		"attinfo": func(_ context.Context) c17run.Group { return c17NewInfo() },
	})
}
