package standard

// Conformance driver for property C20 (spec/Bounded.tla, Trace_Bounded.tla), the WIRED family: overlapping
// scheduling passes.  Injected with -overlay by /verif/check; nothing of it is committed to the repository.
//
// Binding: ONE wired instance per TLC-generated history - the REAL controller on the REAL scheduler
// (scheduler/advanced; behind a wrapper that only counts what ScheduleJob answered), the REAL attester, sync
// committee messenger and aggregator (c20Build), virtual chain time whose genesis lies far in the future, so that
// none of the real scheduler's timers fires by itself: the driver starts jobs with the real scheduler's RunJob
// (as the controller's own fast track does).  The fakes are one layer out: the scripted beacon node (attester
// duties - with a GATE: the node keeps the answer to a duties request back until the history's PassEnd step -,
// attestation data with its per-slot gate, submitters), signers and accounts.
//
// A scheduling pass (scheduleAttestations) whose duties request is with the node is a process of the
// specification ("passes", [e, n]).  The histories keep the passes of start-up, of "Prepare for epoch" and of
// refreshes back and deliver several head events per slot, so that two and more passes for ONE epoch are under
// way at once and end in any order: the second ScheduleJob for a slot is answered ErrJobAlreadyExists by the
// real scheduler.  After every step, at quiescence (no goroutine inside a service method that is not blocked),
// the same projection as the other families is logged plus the passes under way; PendingExact is judged by
// TLC on every line.

import (
	"context"
	"regexp"
	"runtime"
	"sort"
	"strings"
	"sync"
	"sync/atomic"
	"testing"
	"time"

	apiv1 "github.com/attestantio/go-eth2-client/api/v1"
	"github.com/attestantio/go-eth2-client/spec/phase0"
	nullmetrics "github.com/attestantio/vouch/services/metrics/null"
	"github.com/attestantio/vouch/services/scheduler"
	advancedscheduler "github.com/attestantio/vouch/services/scheduler/advanced"
	"github.com/attestantio/vouch/verifsupport"
	"github.com/rs/zerolog"
)

// c20pSched is the real scheduler; the wrapper counts the answers attestation jobs' ScheduleJob calls got.
type c20pSched struct {
	*advancedscheduler.Service
	mu     sync.Mutex
	ok     int
	exists int
	other  int
	bodies int32 // job bodies that have started and not returned (timer waits inside a body are not "blocked for good")
}

func (s *c20pSched) wrap(job scheduler.JobFunc) scheduler.JobFunc {
	return func(ctx context.Context) {
		atomic.AddInt32(&s.bodies, 1)
		defer atomic.AddInt32(&s.bodies, -1)
		job(ctx)
	}
}

func (s *c20pSched) SchedulePeriodicJob(ctx context.Context, class string, name string, rt scheduler.RuntimeFunc, job scheduler.JobFunc) error {
	return s.Service.SchedulePeriodicJob(ctx, class, name, rt, s.wrap(job))
}

func (s *c20pSched) ScheduleJob(ctx context.Context, class string, name string, at time.Time, job scheduler.JobFunc) error {
	err := s.Service.ScheduleJob(ctx, class, name, at, s.wrap(job))
	if k, _ := c03ParseName(name); k == "att" {
		s.mu.Lock()
		switch err {
		case nil:
			s.ok++
		case scheduler.ErrJobAlreadyExists:
			s.exists++
		default:
			s.other++
		}
		s.mu.Unlock()
	}
	return err
}

func (s *c20pSched) take() (int, int, int) {
	s.mu.Lock()
	defer s.mu.Unlock()
	a, b, c := s.ok, s.exists, s.other
	s.ok, s.exists, s.other = 0, 0, 0
	return a, b, c
}

type c20pPass struct {
	E   uint64 `json:"e"`
	N   uint64 `json:"n"`
	ver int
}

type c20pWorld struct {
	*c20World
	sched  *c20pSched
	ctx    context.Context
	cancel context.CancelFunc
	passes []c20pPass // under way, oldest first
	hung   bool
}

var (
	c20pGoHead  = regexp.MustCompile(`^goroutine (\d+) \[([^\],]+)`)
	c20pSvcCall = regexp.MustCompile(`vouch/services/[a-z/]+\.\(\*Service\)\.`)
)

// active counts the goroutines that are inside a method of one of the services (controller, attester,
// scheduler, ...) and are not blocked: the stimulus is still being worked on.  Goroutines waiting at a gate of
// the scripted node, in the real scheduler's select or for one another are blocked.
func c20pActive() int {
	buf := make([]byte, 1<<20)
	for {
		n := runtime.Stack(buf, true)
		if n < len(buf) {
			buf = buf[:n]
			break
		}
		buf = make([]byte, 2*len(buf))
	}
	active := 0
	for _, g := range strings.Split(string(buf), "\n\n") {
		m := c20pGoHead.FindStringSubmatch(g)
		if m == nil {
			continue
		}
		if i := strings.Index(g, "\ncreated by "); i >= 0 {
			g = g[:i]
		}
		if !c20pSvcCall.MatchString(g) {
			continue
		}
		if !c03Blocked(m[2]) {
			active++
		}
	}
	return active
}

// calm: no goroutine works inside the services and the only job bodies under way are the attestation jobs the
// driver holds at the node's gate (a body that waits for a timer - the epoch ticker does - is not at rest).
func (w *c20pWorld) calm() bool {
	return c20pActive() == 0 && int(atomic.LoadInt32(&w.sched.bodies)) == len(w.flights)
}

// quiet waits until the wired instance is calm (three snapshots in a row); false after 20 s.
func (w *c20pWorld) quiet() bool {
	deadline := time.Now().Add(20 * time.Second)
	calm := 0
	for i := 0; ; i++ {
		if w.calm() {
			calm++
			if calm >= 3 {
				return true
			}
			runtime.Gosched()
			continue
		}
		calm = 0
		if time.Now().After(deadline) {
			return false
		}
		if i < 20 {
			runtime.Gosched()
		} else {
			time.Sleep(200 * time.Microsecond)
		}
	}
}

// settle is quiet() with the watchdog: a stimulus that is still being worked on after 20 s is logged as Hung
// (an event no action of the specification allows) and the history ends.
func (w *c20pWorld) settle(tr *verifsupport.Trace, what string) bool {
	if w.hung {
		return false
	}
	if w.quiet() {
		return true
	}
	w.hung = true
	tr.Emit(verifsupport.Ev{"sc": w.sc.Sc, "ev": "Hung", "what": what, "now": w.h.Now()})
	return false
}

// syncPasses takes the duties requests that have arrived at the node's gate since the last look: each is a new
// scheduling pass, numbered as the specification does (the smallest number free among its epoch's passes).
func (w *c20pWorld) syncPasses() []c20pPass {
	have := map[[2]uint64]int{}
	for _, p := range w.passes {
		have[[2]uint64{p.E, uint64(p.ver)}]++
	}
	fresh := []c20pPass{}
	for _, c := range w.h.Held() {
		if c.K != "att" {
			continue
		}
		k := [2]uint64{c.Key, uint64(c.Ver)}
		if have[k] > 0 {
			have[k]--
			continue
		}
		n := uint64(1)
		for {
			used := false
			for _, p := range w.passes {
				if p.E == c.Key && p.N == n {
					used = true
				}
			}
			if !used {
				break
			}
			n++
		}
		p := c20pPass{E: c.Key, N: n, ver: c.Ver}
		w.passes = append(w.passes, p)
		fresh = append(fresh, p)
	}
	return fresh
}

func (w *c20pWorld) emitP(tr *verifsupport.Trace, ev verifsupport.Ev, fresh []c20pPass) {
	if w.hung {
		return
	}
	if fresh == nil {
		fresh = []c20pPass{}
	}
	ok, exists, other := w.sched.take()
	ev["sched"] = "advanced"
	ev["newpasses"] = fresh
	ev["passes"] = append([]c20pPass{}, w.passes...)
	ev["schedok"] = ok
	ev["exists"] = exists
	ev["schederr"] = other
	tr.Emit(w.project(ev, w.sched.ListJobs(w.ctx), w.h.Now()))
}

// release lets the node answer the duties request of pass (e, n); false if no such pass is under way.
func (w *c20pWorld) release(e, n uint64) bool {
	for i, p := range w.passes {
		if p.E != e || p.N != n {
			continue
		}
		w.h.mu.Lock()
		var x *c03Held
		for j, c := range w.h.held {
			if c.K == "att" && c.Key == e && c.Ver == p.ver {
				x = c
				w.h.held = append(w.h.held[:j], w.h.held[j+1:]...)
				break
			}
		}
		w.h.mu.Unlock()
		w.passes = append(w.passes[:i], w.passes[i+1:]...)
		if x == nil {
			return false
		}
		close(x.release)
		return true
	}
	return false
}

func (w *c20pWorld) passEnd(tr *verifsupport.Trace, e, n uint64, scripted bool) {
	fired := w.release(e, n)
	if !w.settle(tr, "PassEnd") {
		return
	}
	w.emitP(tr, verifsupport.Ev{"ev": "Resched", "e": e, "n": n, "fired": fired, "scripted": scripted}, w.syncPasses())
}

func (w *c20pWorld) head(tr *verifsupport.Trace, st c20Step) {
	for i, r := range st.R {
		w.h.Reorg(int64(r) - 1)
		if i < len(st.Dm) {
			w.decide(r, st.Dm[i])
		}
	}
	if st.Split {
		w.h.Hold("att", true)
	}
	slot := w.h.Now()
	e := int64(slot / w.p)
	w.h.mu.Lock()
	prev := c03Root(e-1, w.h.ver(e-1))
	cur := c03Root(e, w.h.ver(e))
	w.h.mu.Unlock()
	w.h.handlers["head"](&apiv1.Event{Topic: "head", Data: &apiv1.HeadEvent{
		Slot: phase0.Slot(slot), Block: c03Root(200, int(slot)), PreviousDutyDependentRoot: prev, CurrentDutyDependentRoot: cur,
	}})
	ok := w.settle(tr, "Head")
	w.h.Hold("att", false)
	if !ok {
		return
	}
	r := st.R
	if r == nil {
		r = []uint64{}
	}
	w.emitP(tr, verifsupport.Ev{"ev": "Head", "r": r, "split": st.Split}, w.syncPasses())
}

func (w *c20pWorld) prepare(tr *verifsupport.Trace, e uint64, holdSub bool, split bool, scripted bool) {
	before := map[uint64]bool{}
	for _, x := range w.heldKeys("c20sub") {
		before[x] = true
	}
	if holdSub && !before[e] {
		w.subsc.arm(e, true)
	}
	if split {
		w.h.Hold("att", true)
	}
	err := w.sched.RunJob(w.ctx, c03JobName("prepepoch", e))
	ok := w.settle(tr, "Prepare")
	w.h.Hold("att", false)
	w.subsc.arm(e, false)
	if !ok {
		return
	}
	subheld := []uint64{}
	for _, x := range w.heldKeys("c20sub") {
		if !before[x] {
			subheld = append(subheld, x)
		}
	}
	w.emitP(tr, verifsupport.Ev{"ev": "Prepare", "e": e, "fired": err == nil, "subheld": subheld, "split": split, "scripted": scripted}, w.syncPasses())
}

// attStart starts the attestation job of slot s with the real scheduler's RunJob; AttStart is logged when the
// real attester is at the node with its attestation data request (the job has left the table and runs).
func (w *c20pWorld) attStart(tr *verifsupport.Trace, s uint64, ok bool, scripted bool) bool {
	if w.flights[s] != nil {
		return false
	}
	g := w.node.arm(s, ok)
	if err := w.sched.RunJob(w.ctx, c03JobName("att", s)); err != nil {
		w.node.disarm(s, g)
		w.emitP(tr, verifsupport.Ev{"ev": "AttEnd", "s": s, "ok": ok, "fired": false, "gated": false, "scripted": scripted}, nil)
		return false
	}
	gated := false
	deadline := time.Now().Add(20 * time.Second)
	for !gated {
		select {
		case <-g.arrived:
			gated = true
			continue
		default:
		}
		// the job has returned without asking the node (three calm snapshots in a row)
		if w.calm() && w.calm() && w.calm() {
			select {
			case <-g.arrived:
				gated = true
			default:
			}
			break
		}
		if time.Now().After(deadline) {
			w.hung = true
			tr.Emit(verifsupport.Ev{"sc": w.sc.Sc, "ev": "Hung", "what": "AttStart", "now": w.h.Now()})
			return false
		}
		time.Sleep(100 * time.Microsecond)
	}
	if gated {
		w.flights[s] = &c20Flight{gate: g, ok: ok, scripted: scripted}
		if !w.settle(tr, "AttStart") {
			return false
		}
		w.emitP(tr, verifsupport.Ev{"ev": "AttStart", "s": s, "scripted": scripted}, w.syncPasses())
		return true
	}
	if !w.node.disarm(s, g) {
		w.t.Fatalf("c20p: scenario %d: attestation job for slot %d: gate taken after quiescence", w.sc.Sc, s)
	}
	w.emitP(tr, verifsupport.Ev{"ev": "AttEnd", "s": s, "ok": ok, "fired": true, "gated": false, "scripted": scripted}, w.syncPasses())
	return false
}

func (w *c20pWorld) attEnd(tr *verifsupport.Trace, s uint64, scripted bool) {
	f := w.flights[s]
	if f == nil {
		return
	}
	close(f.gate.release)
	delete(w.flights, s)
	if !w.settle(tr, "AttEnd") {
		return
	}
	w.emitP(tr, verifsupport.Ev{"ev": "AttEnd", "s": s, "ok": f.ok, "submitted": w.node.didSubmit(s), "fired": true, "gated": true,
		"scripted": scripted && f.scripted}, w.syncPasses())
}

// finishSlot: the node answers every duties request within the slot; a job runs into the next slot at most; the
// timely scheduler has started what is due (the table is the real scheduler's).
func (w *c20pWorld) finishSlot(tr *verifsupport.Trace) {
	now := w.h.Now()
	for len(w.passes) > 0 && !w.hung {
		p := w.passes[0]
		w.passEnd(tr, p.E, p.N, false)
	}
	for _, s := range c20Sorted(w.flightSet()) {
		if s < now {
			w.attEnd(tr, s, false)
		}
	}
	for _, e := range w.heldKeys("c20sub") {
		w.subEnd(tr, e, false)
	}
	for round := 0; round < 50 && !w.hung; round++ {
		names := w.sched.ListJobs(w.ctx)
		sort.Strings(names)
		k, n := "", uint64(0)
		for _, name := range names {
			jk, jn := c03ParseName(name)
			due := false
			switch jk {
			case "att":
				due = jn <= now && w.flights[jn] == nil
			case "prepepoch":
				due = jn <= now/w.p || (jn == now/w.p+1 && now%w.p == w.p-1)
			}
			if due && (k == "" || jn < n) {
				k, n = jk, jn
			}
		}
		switch k {
		case "":
			return
		case "att":
			if w.attStart(tr, n, true, false) {
				w.attEnd(tr, n, false)
			}
		case "prepepoch":
			w.prepare(tr, n, false, false, false)
			// its pass is not kept back; anything a concurrent gate caught is answered
			for len(w.passes) > 0 && !w.hung {
				p := w.passes[0]
				w.passEnd(tr, p.E, p.N, false)
			}
		}
	}
}

func (w *c20pWorld) subEnd(tr *verifsupport.Trace, e uint64, scripted bool) {
	fired := w.releaseRaw("c20sub", e)
	if !w.settle(tr, "SubEnd") {
		return
	}
	w.emitP(tr, verifsupport.Ev{"ev": "SubEnd", "e": e, "fired": fired, "scripted": scripted}, w.syncPasses())
}

func c20pRunScenario(t *testing.T, tr *verifsupport.Trace, sc *c20Scenario) {
	var w *c20pWorld
	defer func() {
		if w == nil {
			return
		}
		// nothing stays behind: requests answered, jobs released, the scheduler's goroutines end with the context
		w.h.Hold("att", false)
		for _, c := range w.h.Held() {
			w.releaseRaw(c.K, c.Key)
		}
		for s, f := range w.flights {
			close(f.gate.release)
			delete(w.flights, s)
		}
		w.quiet()
		w.cancel()
		time.Sleep(5 * time.Millisecond)
	}()
	for _, st := range sc.Steps {
		if w != nil && w.hung {
			return
		}
		switch st.Ev {
		case "Reset":
			w = &c20pWorld{c20World: c20Build(t, sc, st, nil, 12*time.Second)}
			w.ctx, w.cancel = context.WithCancel(context.Background())
			// no timer of the real scheduler fires by itself
			w.h.ChainTime.Genesis = time.Now().Add(100000 * time.Hour)
			w.h.ChainTime.SetSlot(st.Now)
			inner, err := advancedscheduler.New(w.ctx, advancedscheduler.WithLogLevel(zerolog.Disabled), advancedscheduler.WithMonitor(nullmetrics.New()))
			if err != nil {
				t.Fatalf("c20p: scheduler New: %v", err)
			}
			w.sched = &c20pSched{Service: inner}
			w.h.Ctx = w.ctx
			w.h.ExtraParams = append(w.h.ExtraParams, WithScheduler(w.sched), WithMaxAttestationDelay(4*time.Second),
				WithMaxSyncCommitteeMessageDelay(4*time.Second))
			tr.Emit(verifsupport.Ev{"sc": sc.Sc, "ev": "Reset", "p": st.P, "ep": st.EP, "verify": st.Verify, "agg": st.Agg, "now": st.Now,
				"fam": sc.Fam, "sched": "advanced"})
		case "Start":
			e := w.h.Now() / w.p
			w.decide(e, st.D0)
			w.decide(e+1, st.D1)
			if st.Split {
				w.h.Hold("att", true)
			}
			svc, err := New(w.ctx, c20RealParams(w.c20World)...)
			if err != nil {
				t.Fatalf("c20p: controller New: %v", err)
			}
			w.h.Svc = svc
			if w.h.handlers["head"] == nil {
				t.Fatalf("c20p: no head event handler")
			}
			ok := w.settle(tr, "Start")
			w.h.Hold("att", false)
			if !ok {
				return
			}
			w.emitP(tr, verifsupport.Ev{"ev": "Start", "split": st.Split}, w.syncPasses())
		case "Advance":
			w.finishSlot(tr)
			if w.hung {
				return
			}
			w.h.Advance()
			w.emitP(tr, verifsupport.Ev{"ev": "Advance"}, nil)
		case "Tick":
			err := w.sched.RunJob(w.ctx, "Epoch ticker")
			if !w.settle(tr, "Tick") {
				return
			}
			w.emitP(tr, verifsupport.Ev{"ev": "Tick", "fired": err == nil}, w.syncPasses())
		case "Prepare":
			w.decide(st.E, st.D)
			w.prepare(tr, st.E, st.K > 0, st.Split, true)
		case "SubEnd":
			w.subEnd(tr, st.E, true)
		case "Head":
			w.head(tr, st)
		case "Resched":
			n := st.N
			if n == 0 {
				n = 1
			}
			w.passEnd(tr, st.E, n, true)
		case "Att":
			if w.attStart(tr, st.S, st.Ok, true) {
				w.attEnd(tr, st.S, true)
			}
		case "AttStart":
			w.attStart(tr, st.S, st.Ok, true)
		case "AttEnd":
			w.attEnd(tr, st.S, true)
		case "Probe":
			w.emitP(tr, verifsupport.Ev{"ev": "Probe"}, nil)
		default:
			t.Fatalf("c20p: unknown step %q", st.Ev)
		}
	}
	if w != nil && !w.hung {
		for len(w.passes) > 0 && !w.hung {
			p := w.passes[0]
			w.passEnd(tr, p.E, p.N, false)
		}
		for _, s := range c20Sorted(w.flightSet()) {
			w.attEnd(tr, s, false)
		}
	}
}

func TestVerifC20Passes(t *testing.T) {
	var scenarios []c20Scenario
	verifsupport.Scenarios(t, &scenarios)
	if c20Shard(t, scenarios, "TestVerifC20Passes") {
		return
	}
	tr := verifsupport.OpenTrace(t)
	defer tr.Close()
	for i := range scenarios {
		c20pRunScenario(t, tr, &scenarios[i])
	}
}
