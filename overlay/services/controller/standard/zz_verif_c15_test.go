package standard

// Conformance driver for property C15 (spec/SyncCommittee.tla).  Injected with -overlay by /verif/check.
//
// Binding: the REAL controller (New; scheduleSyncCommitteeMessages and the prepare / message /
// aggregation jobs it sets up) wired to the REAL synccommitteemessenger/standard.Service and the REAL
// synccommitteeaggregator/standard.Service.  Scripted: sync committee duties provider, accounts
// provider, head root provider, contribution provider, chain time, scheduler (verifsupport), recording
// submitters.  Signer: either a scripted one (chooses selection signatures so that the scalar of the
// aggregator rule is the one the scenario asks for) or the REAL signer/standard.Service over in-memory
// wallet accounts.  Both present the signer faults the specification's environment chooses PER SIGNING
// STEP AND SLOT: the zero signature (no error for the batch) in the position of chosen members at
// SignSyncCommitteeSelections / SignSyncCommitteeRoots / SignContributionAndProofs - what the multi
// signers hand back for an account that refuses or fails to sign - or an error for the whole batch;
// what was really answered is recorded and logged.  A job that panics is logged as Crash, one that does
// not return as Hung.

import (
	"context"
	"crypto/sha256"
	"encoding/binary"
	"errors"
	"fmt"
	"runtime"
	"sort"
	"sync"
	"testing"
	"time"

	"github.com/attestantio/go-eth2-client/api"
	apiv1 "github.com/attestantio/go-eth2-client/api/v1"
	"github.com/attestantio/go-eth2-client/spec/altair"
	"github.com/attestantio/go-eth2-client/spec/phase0"
	"github.com/attestantio/vouch/mock"
	mockattestationaggregator "github.com/attestantio/vouch/services/attestationaggregator/mock"
	mockattester "github.com/attestantio/vouch/services/attester/mock"
	mockbeaconblockproposer "github.com/attestantio/vouch/services/beaconblockproposer/mock"
	mockbeaconcommitteesubscriber "github.com/attestantio/vouch/services/beaconcommitteesubscriber/mock"
	"github.com/attestantio/vouch/services/cache"
	mockcache "github.com/attestantio/vouch/services/cache/mock"
	nullmetrics "github.com/attestantio/vouch/services/metrics/null"
	mockproposalpreparer "github.com/attestantio/vouch/services/proposalpreparer/mock"
	"github.com/attestantio/vouch/services/signer"
	standardsigner "github.com/attestantio/vouch/services/signer/standard"
	standardsynccommitteeaggregator "github.com/attestantio/vouch/services/synccommitteeaggregator/standard"
	"github.com/attestantio/vouch/services/synccommitteemessenger"
	standardsynccommitteemessenger "github.com/attestantio/vouch/services/synccommitteemessenger/standard"
	mocksynccommitteesubscriber "github.com/attestantio/vouch/services/synccommitteesubscriber/mock"
	"github.com/attestantio/vouch/testutil"
	"github.com/attestantio/vouch/verifsupport"
	"github.com/prysmaticlabs/go-bitfield"
	"github.com/rs/zerolog"
	e2types "github.com/wealdtech/go-eth2-types/v2"
	e2wtypes "github.com/wealdtech/go-eth2-wallet-types/v2"
)

const (
	c15HMod         = 840
	c15SlotDuration = 12 * time.Second
	c15MaxRoots     = 4
)

type c15HReq struct {
	V   uint64 `json:"v"`
	Sub uint64 `json:"sub"`
	H   uint64 `json:"h"`
	Z   bool   `json:"z"` // the signer answers this request with the zero signature
}

type c15Pair struct {
	V   uint64 `json:"v"`
	Sub uint64 `json:"sub"`
}

type c15Step struct {
	Ev      string    `json:"ev"`
	Now     uint64    `json:"now"`
	Fork    uint64    `json:"fork"`
	Size    uint64    `json:"size"`
	Subnets uint64    `json:"subnets"`
	Target  uint64    `json:"target"`
	Head    uint64    `json:"head"`
	V       uint64    `json:"v"`
	Idx     []uint64  `json:"idx"`
	Acct    bool      `json:"acct"`
	Err     bool      `json:"err"` // FirePrepare / FireMessage / FireAggregate: the step's signer answers the batch with an error
	Zv      []uint64  `json:"zv"`  // FireMessage: members whose root signature is zero
	Zp      []c15Pair `json:"zp"`  // FireAggregate: pairs whose contribution-and-proof signature is zero
	Root    uint64    `json:"root"`
	Epoch   uint64    `json:"epoch"`
	Nc      bool      `json:"nc"`
	Slot    uint64    `json:"slot"`
	Hs      []c15HReq `json:"hs"`
}

type c15Scenario struct {
	Sc     int       `json:"sc"`
	Signer string    `json:"signer"` // "scripted" or "real"
	Spe    uint64    `json:"spe"`
	Epp    uint64    `json:"epp"`
	Steps  []c15Step `json:"steps"`
}

func c15Root(id uint64) phase0.Root {
	var r phase0.Root
	r[0] = byte(id)
	r[31] = 0x15
	return r
}

func c15RootID(r phase0.Root) uint64 {
	if r[31] != 0x15 {
		return 0
	}
	return uint64(r[0])
}

func c15H(sig phase0.BLSSignature) uint64 {
	h := sha256.Sum256(sig[:])
	return binary.LittleEndian.Uint64(h[:8]) % c15HMod
}

// ---- scripted accounts (scripted signer) ------------------------------------------------------

type c15PubKey struct{ b [48]byte }

func (p *c15PubKey) Marshal() []byte            { return p.b[:] }
func (*c15PubKey) Aggregate(_ e2types.PublicKey) {}
func (p *c15PubKey) Copy() e2types.PublicKey    { c := *p; return &c }

// c15Account is an inert account: the scripted signer only needs to know whose it is.  The embedded
// (nil) interface supplies the ID method, which nothing in the code under test calls (naming its
// result type would need a module that the repository requires only indirectly).
type c15Account struct {
	e2wtypes.Account
	index uint64
	pub   *c15PubKey
}

func (a *c15Account) Name() string                 { return fmt.Sprintf("c15 validator %d", a.index) }
func (a *c15Account) PublicKey() e2types.PublicKey { return a.pub }

func c15ScriptedAccount(v uint64) e2wtypes.Account {
	a := &c15Account{index: v, pub: &c15PubKey{}}
	binary.LittleEndian.PutUint64(a.pub.b[:8], v)
	a.pub.b[47] = 0xc5
	return a
}

func c15IndexOf(a e2wtypes.Account, byName map[string]uint64) (uint64, bool) {
	if a == nil {
		return 0, false
	}
	if s, ok := a.(*c15Account); ok {
		return s.index, true
	}
	v, ok := byName[a.Name()]
	return v, ok
}

// ---- signers ------------------------------------------------------------------------------------

type c15SelRec struct {
	v, sub, h, slot uint64
	z           bool
}

// c15Faults is what the signer does wrong during the current step (set by the driver before it fires a job).
type c15Faults struct {
	selZero  map[[2]uint64]bool // (validator, subcommittee)
	selErr   bool
	rootZero map[uint64]bool
	rootErr  bool
	cpZero   map[[2]uint64]bool
	cpErr    bool
}

var errC15Injected = errors.New("c15: the signer fails the whole batch (scenario)")

type c15RootCall struct {
	vs    []uint64 // 0 for a nil account
	nils  int
	epoch uint64
	root  uint64
	err   bool
}

// c15Recorder is common to both signer modes: what was asked and what was answered.
type c15Recorder struct {
	mu        sync.Mutex
	byName    map[string]uint64
	sel       []c15SelRec
	rootCalls []c15RootCall
	flt       c15Faults
	// what was really answered
	selErrs  int
	rootErrs int
	cpErrs   int
	rootZero []uint64
	cpZero   [][2]uint64
	cpSigs   map[[3]uint64]phase0.BLSSignature // (slot, validator, subcommittee) -> signature returned
}

// answerSel applies the step's faults to the selection signatures and records the answer; mu is held.
func (r *c15Recorder) answerSel(accounts []e2wtypes.Account, slot phase0.Slot, subs []uint64, sigs []phase0.BLSSignature) {
	for i, a := range accounts {
		v, _ := c15IndexOf(a, r.byName)
		if r.flt.selZero[[2]uint64{v, subs[i]}] {
			sigs[i] = phase0.BLSSignature{}
		}
		r.sel = append(r.sel, c15SelRec{v: v, sub: subs[i], h: c15H(sigs[i]), slot: uint64(slot), z: sigs[i].IsZero()})
	}
}

// answerCp does the same for contribution-and-proof signatures.
func (r *c15Recorder) answerCp(cps []*altair.ContributionAndProof, sigs []phase0.BLSSignature) {
	if r.cpSigs == nil {
		r.cpSigs = map[[3]uint64]phase0.BLSSignature{}
	}
	for i, cp := range cps {
		if i >= len(sigs) || cp == nil || cp.Contribution == nil {
			continue
		}
		v, sub := uint64(cp.AggregatorIndex), cp.Contribution.SubcommitteeIndex
		if r.flt.cpZero[[2]uint64{v, sub}] {
			sigs[i] = phase0.BLSSignature{}
		}
		if sigs[i].IsZero() {
			r.cpZero = append(r.cpZero, [2]uint64{v, sub})
		}
		r.cpSigs[[3]uint64{uint64(cp.Contribution.Slot), v, sub}] = sigs[i]
	}
}

// c15ScriptedSigner is the scripted signer.
type c15ScriptedSigner struct {
	c15Recorder
	want map[[2]uint64]uint64 // (v, sub) -> scalar asked for by the scenario
}

func (s *c15ScriptedSigner) SignSyncCommitteeSelections(_ context.Context, accounts []e2wtypes.Account, slot phase0.Slot, subs []uint64) ([]phase0.BLSSignature, error) {
	s.mu.Lock()
	defer s.mu.Unlock()
	if s.flt.selErr {
		s.selErrs++
		return nil, errC15Injected
	}
	res := make([]phase0.BLSSignature, len(accounts))
	for i, a := range accounts {
		v, ok := c15IndexOf(a, s.byName)
		if !ok {
			return nil, errors.New("c15: selection signature requested for an unknown or nil account")
		}
		var sig phase0.BLSSignature
		binary.LittleEndian.PutUint64(sig[0:8], v)
		binary.LittleEndian.PutUint64(sig[8:16], uint64(slot))
		binary.LittleEndian.PutUint64(sig[16:24], subs[i])
		sig[95] = 0x15
		want, scripted := s.want[[2]uint64{v, subs[i]}]
		for nonce := uint64(1); ; nonce++ {
			binary.LittleEndian.PutUint64(sig[24:32], nonce)
			if !scripted || c15H(sig) == want%c15HMod {
				break
			}
		}
		res[i] = sig
	}
	s.answerSel(accounts, slot, subs, res)
	return res, nil
}

func c15ScriptedRootSig(v, epoch, root uint64) phase0.BLSSignature {
	var sig phase0.BLSSignature
	sig[0] = 0xc5
	binary.LittleEndian.PutUint64(sig[1:9], v)
	binary.LittleEndian.PutUint64(sig[9:17], epoch)
	binary.LittleEndian.PutUint64(sig[17:25], root)
	return sig
}

func (s *c15ScriptedSigner) SignSyncCommitteeRoots(_ context.Context, accounts []e2wtypes.Account, epoch phase0.Epoch, root phase0.Root) ([]phase0.BLSSignature, error) {
	s.mu.Lock()
	defer s.mu.Unlock()
	call := c15RootCall{epoch: uint64(epoch), root: c15RootID(root)}
	if s.flt.rootErr {
		s.rootErrs++
		return nil, errC15Injected
	}
	res := make([]phase0.BLSSignature, len(accounts))
	for i, a := range accounts {
		v, ok := c15IndexOf(a, s.byName)
		if !ok {
			// A signer that is lenient about holes in the batch: no signature for them.
			call.nils++
			call.vs = append(call.vs, 0)
			continue
		}
		call.vs = append(call.vs, v)
		if s.flt.rootZero[v] {
			s.rootZero = append(s.rootZero, v)
			continue
		}
		res[i] = c15ScriptedRootSig(v, uint64(epoch), c15RootID(root))
	}
	s.rootCalls = append(s.rootCalls, call)
	return res, nil
}

func (s *c15ScriptedSigner) SignContributionAndProofs(_ context.Context, accounts []e2wtypes.Account, cps []*altair.ContributionAndProof) ([]phase0.BLSSignature, error) {
	s.mu.Lock()
	defer s.mu.Unlock()
	if s.flt.cpErr {
		s.cpErrs++
		return nil, errC15Injected
	}
	if len(accounts) != len(cps) {
		return nil, errors.New("c15: accounts and messages of different length")
	}
	res := make([]phase0.BLSSignature, len(accounts))
	for i := range res {
		v, _ := c15IndexOf(accounts[i], s.byName)
		res[i][0] = 0xcc
		binary.LittleEndian.PutUint64(res[i][1:9], v)
		if cps[i] != nil && cps[i].Contribution != nil {
			binary.LittleEndian.PutUint64(res[i][9:17], uint64(cps[i].Contribution.Slot))
			binary.LittleEndian.PutUint64(res[i][17:25], cps[i].Contribution.SubcommitteeIndex)
			binary.LittleEndian.PutUint64(res[i][25:33], uint64(cps[i].AggregatorIndex))
		}
	}
	s.answerCp(cps, res)
	return res, nil
}

// c15RealSigner records around the real signer/standard.Service.
type c15RealSigner struct {
	c15Recorder
	real *standardsigner.Service
}

func (s *c15RealSigner) SignSyncCommitteeSelections(ctx context.Context, accounts []e2wtypes.Account, slot phase0.Slot, subs []uint64) ([]phase0.BLSSignature, error) {
	s.mu.Lock()
	if s.flt.selErr {
		s.selErrs++
		s.mu.Unlock()
		return nil, errC15Injected
	}
	s.mu.Unlock()
	sigs, err := s.real.SignSyncCommitteeSelections(ctx, accounts, slot, subs)
	s.mu.Lock()
	defer s.mu.Unlock()
	if err == nil && len(sigs) == len(accounts) {
		// a multi-signer leaves the zero signature in the position of an account that did not sign
		s.answerSel(accounts, slot, subs, sigs)
	}
	return sigs, err
}

func (s *c15RealSigner) SignSyncCommitteeRoots(ctx context.Context, accounts []e2wtypes.Account, epoch phase0.Epoch, root phase0.Root) ([]phase0.BLSSignature, error) {
	s.mu.Lock()
	if s.flt.rootErr {
		s.rootErrs++
		s.mu.Unlock()
		return nil, errC15Injected
	}
	s.mu.Unlock()
	sigs, err := s.real.SignSyncCommitteeRoots(ctx, accounts, epoch, root)
	s.mu.Lock()
	defer s.mu.Unlock()
	call := c15RootCall{epoch: uint64(epoch), root: c15RootID(root), err: err != nil}
	for i, a := range accounts {
		v, ok := c15IndexOf(a, s.byName)
		if !ok {
			call.nils++
		}
		call.vs = append(call.vs, v)
		if ok && err == nil && i < len(sigs) && s.flt.rootZero[v] {
			sigs[i] = phase0.BLSSignature{}
			s.rootZero = append(s.rootZero, v)
		}
	}
	s.rootCalls = append(s.rootCalls, call)
	return sigs, err
}

func (s *c15RealSigner) SignContributionAndProofs(ctx context.Context, accounts []e2wtypes.Account, cps []*altair.ContributionAndProof) ([]phase0.BLSSignature, error) {
	s.mu.Lock()
	if s.flt.cpErr {
		s.cpErrs++
		s.mu.Unlock()
		return nil, errC15Injected
	}
	s.mu.Unlock()
	sigs, err := s.real.SignContributionAndProofs(ctx, accounts, cps)
	s.mu.Lock()
	defer s.mu.Unlock()
	if err == nil {
		s.answerCp(cps, sigs)
	}
	return sigs, err
}

type c15AnySigner interface {
	signer.SyncCommitteeRootSigner
	signer.SyncCommitteeSelectionSigner
	signer.ContributionAndProofSigner
}

// ---- scripted providers -----------------------------------------------------------------------

type c15Spec struct {
	spe, epp, fork, size, subnets, target uint64
}

func (s *c15Spec) Spec(_ context.Context, _ *api.SpecOpts) (*api.Response[map[string]any], error) {
	return &api.Response[map[string]any]{
		Data: map[string]any{
			"SECONDS_PER_SLOT":                         c15SlotDuration,
			"SLOTS_PER_EPOCH":                          s.spe,
			"EPOCHS_PER_SYNC_COMMITTEE_PERIOD":         s.epp,
			"ALTAIR_FORK_EPOCH":                        s.fork,
			"SYNC_COMMITTEE_SIZE":                      s.size,
			"SYNC_COMMITTEE_SUBNET_COUNT":              s.subnets,
			"TARGET_AGGREGATORS_PER_SYNC_SUBCOMMITTEE": s.target,
			"TARGET_AGGREGATORS_PER_COMMITTEE":         uint64(16),
			"DOMAIN_AGGREGATE_AND_PROOF":               phase0.DomainType{0x06, 0x00, 0x00, 0x00},
			"DOMAIN_BEACON_ATTESTER":                   phase0.DomainType{0x00, 0x00, 0x00, 0x00},
			"DOMAIN_BEACON_PROPOSER":                   phase0.DomainType{0x01, 0x00, 0x00, 0x00},
			"DOMAIN_CONTRIBUTION_AND_PROOF":            phase0.DomainType{0x09, 0x00, 0x00, 0x00},
			"DOMAIN_RANDAO":                            phase0.DomainType{0x02, 0x00, 0x00, 0x00},
			"DOMAIN_SELECTION_PROOF":                   phase0.DomainType{0x05, 0x00, 0x00, 0x00},
			"DOMAIN_SYNC_COMMITTEE":                    phase0.DomainType{0x07, 0x00, 0x00, 0x00},
			"DOMAIN_SYNC_COMMITTEE_SELECTION_PROOF":    phase0.DomainType{0x08, 0x00, 0x00, 0x00},
		},
		Metadata: map[string]any{},
	}, nil
}

type c15Member struct {
	v    uint64
	idx  []uint64
	acct bool
}

type c15SyncDuties struct {
	mu      sync.Mutex
	members []c15Member
	calls   int
}

func (d *c15SyncDuties) SyncCommitteeDuties(_ context.Context, opts *api.SyncCommitteeDutiesOpts) (*api.Response[[]*apiv1.SyncCommitteeDuty], error) {
	d.mu.Lock()
	defer d.mu.Unlock()
	d.calls++
	want := map[phase0.ValidatorIndex]bool{}
	for _, i := range opts.Indices {
		want[i] = true
	}
	res := make([]*apiv1.SyncCommitteeDuty, 0)
	for _, m := range d.members {
		if !want[phase0.ValidatorIndex(m.v)] {
			continue
		}
		idx := make([]phase0.CommitteeIndex, len(m.idx))
		for i, x := range m.idx {
			idx[i] = phase0.CommitteeIndex(x)
		}
		duty := &apiv1.SyncCommitteeDuty{ValidatorIndex: phase0.ValidatorIndex(m.v), ValidatorSyncCommitteeIndices: idx}
		binary.LittleEndian.PutUint64(duty.PubKey[:8], m.v)
		res = append(res, duty)
	}
	return &api.Response[[]*apiv1.SyncCommitteeDuty]{Data: res, Metadata: map[string]any{}}, nil
}

type c15Accounts struct {
	mu       sync.Mutex
	accounts map[phase0.ValidatorIndex]e2wtypes.Account
}

func (a *c15Accounts) all() map[phase0.ValidatorIndex]e2wtypes.Account {
	a.mu.Lock()
	defer a.mu.Unlock()
	res := make(map[phase0.ValidatorIndex]e2wtypes.Account, len(a.accounts))
	for k, v := range a.accounts {
		res[k] = v
	}
	return res
}

func (a *c15Accounts) some(indices []phase0.ValidatorIndex) map[phase0.ValidatorIndex]e2wtypes.Account {
	all := a.all()
	res := make(map[phase0.ValidatorIndex]e2wtypes.Account)
	for _, i := range indices {
		if acc, ok := all[i]; ok {
			res[i] = acc
		}
	}
	return res
}

func (a *c15Accounts) ValidatingAccountsForEpoch(_ context.Context, _ phase0.Epoch) (map[phase0.ValidatorIndex]e2wtypes.Account, error) {
	return a.all(), nil
}

func (a *c15Accounts) ValidatingAccountsForEpochByIndex(_ context.Context, _ phase0.Epoch, indices []phase0.ValidatorIndex) (map[phase0.ValidatorIndex]e2wtypes.Account, error) {
	return a.some(indices), nil
}

func (a *c15Accounts) SyncCommitteeAccountsForEpoch(_ context.Context, _ phase0.Epoch) (map[phase0.ValidatorIndex]e2wtypes.Account, error) {
	return a.all(), nil
}

func (a *c15Accounts) SyncCommitteeAccountsForEpochByIndex(_ context.Context, _ phase0.Epoch, indices []phase0.ValidatorIndex) (map[phase0.ValidatorIndex]e2wtypes.Account, error) {
	return a.some(indices), nil
}

type c15Heads struct {
	mu    sync.Mutex
	head  uint64
	calls []uint64 // root ids handed out
}

func (h *c15Heads) BeaconBlockRoot(_ context.Context, _ *api.BeaconBlockRootOpts) (*api.Response[*phase0.Root], error) {
	h.mu.Lock()
	defer h.mu.Unlock()
	r := c15Root(h.head)
	h.calls = append(h.calls, h.head)
	return &api.Response[*phase0.Root]{Data: &r, Metadata: map[string]any{}}, nil
}

type c15ContribProvider struct {
	mu   sync.Mutex
	reqs [][3]uint64 // slot, sub, root id
}

func (p *c15ContribProvider) SyncCommitteeContribution(_ context.Context, opts *api.SyncCommitteeContributionOpts) (*api.Response[*altair.SyncCommitteeContribution], error) {
	p.mu.Lock()
	defer p.mu.Unlock()
	p.reqs = append(p.reqs, [3]uint64{uint64(opts.Slot), opts.SubcommitteeIndex, c15RootID(opts.BeaconBlockRoot)})
	bits := bitfield.NewBitvector128()
	bits.SetBitAt(1, true)
	c := &altair.SyncCommitteeContribution{
		Slot:              opts.Slot,
		BeaconBlockRoot:   opts.BeaconBlockRoot,
		SubcommitteeIndex: opts.SubcommitteeIndex,
		AggregationBits:   bits,
	}
	c.Signature[0] = 0xc0
	return &api.Response[*altair.SyncCommitteeContribution]{Data: c, Metadata: map[string]any{}}, nil
}

type c15MsgSubmitter struct {
	mu   sync.Mutex
	msgs []*altair.SyncCommitteeMessage
}

func (s *c15MsgSubmitter) SubmitSyncCommitteeMessages(_ context.Context, msgs []*altair.SyncCommitteeMessage) error {
	s.mu.Lock()
	defer s.mu.Unlock()
	s.msgs = append(s.msgs, msgs...)
	return nil
}

type c15ContribSubmitter struct {
	mu  sync.Mutex
	cps []*altair.SignedContributionAndProof
}

func (s *c15ContribSubmitter) SubmitSyncCommitteeContributions(_ context.Context, cps []*altair.SignedContributionAndProof) error {
	s.mu.Lock()
	defer s.mu.Unlock()
	s.cps = append(s.cps, cps...)
	return nil
}

// c15Messenger passes every call to the real messenger and looks at the duty afterwards.
type c15Messenger struct {
	real    synccommitteemessenger.Service
	mu      sync.Mutex
	lastSel [][2]uint64 // (validator, subcommittee) pairs set on the duty by the last Prepare
	prepErr bool
	msgErr  bool
}

func (m *c15Messenger) Prepare(ctx context.Context, duty *synccommitteemessenger.Duty) error {
	err := m.real.Prepare(ctx, duty)
	m.mu.Lock()
	defer m.mu.Unlock()
	m.prepErr = err != nil
	m.lastSel = nil
	for _, v := range duty.ValidatorIndices() {
		for sub := range duty.AggregatorSubcommittees(v) {
			m.lastSel = append(m.lastSel, [2]uint64{uint64(v), sub})
		}
	}
	return err
}

func (m *c15Messenger) Message(ctx context.Context, duty *synccommitteemessenger.Duty) ([]*altair.SyncCommitteeMessage, error) {
	msgs, err := m.real.Message(ctx, duty)
	m.mu.Lock()
	m.msgErr = err != nil
	m.mu.Unlock()
	return msgs, err
}

func (m *c15Messenger) GetDataUsedForSlot(slot phase0.Slot) (synccommitteemessenger.SlotData, bool) {
	return m.real.GetDataUsedForSlot(slot)
}

func (m *c15Messenger) RemoveHistoricDataUsedForSlotVerification(currentSlot phase0.Slot) {
	m.real.RemoveHistoricDataUsedForSlotVerification(currentSlot)
}

// ---- real accounts (real signer) --------------------------------------------------------------

var (
	c15RealOnce     sync.Once
	c15RealAccounts map[uint64]e2wtypes.Account
	c15RealErr      error
)

// c15RealAccount returns an unlocked in-memory wallet account (own key) for validator v in 1..6.
func c15RealAccount(v uint64) (e2wtypes.Account, error) {
	c15RealOnce.Do(func() {
		c15RealAccounts = map[uint64]e2wtypes.Account{}
		for i := uint64(1); i <= 6; i++ {
			key := fmt.Sprintf("0x25295f0d1d592a90b333e26e85149708208e9f8e8bc18f6c77bd62f8ad7a68%02x", 0x60+i)
			m, err := testutil.CreateTestWalletAndAccounts([]phase0.ValidatorIndex{phase0.ValidatorIndex(i)}, key)
			if err != nil {
				c15RealErr = err
				return
			}
			acc := m[phase0.ValidatorIndex(i)]
			if locker, ok := acc.(e2wtypes.AccountLocker); ok {
				if err := locker.Unlock(context.Background(), []byte("pass")); err != nil {
					c15RealErr = err
					return
				}
			}
			c15RealAccounts[i] = acc
		}
	})
	if c15RealErr != nil {
		return nil, c15RealErr
	}
	acc, ok := c15RealAccounts[v]
	if !ok {
		return nil, fmt.Errorf("c15: no real account for validator %d", v)
	}
	return acc, nil
}

// ---- the world ----------------------------------------------------------------------------------

type c15World struct {
	real     bool
	spec     *c15Spec
	ct       *verifsupport.ChainTime
	sched    *verifsupport.Scheduler
	duties   *c15SyncDuties
	accts    *c15Accounts
	heads    *c15Heads
	contribs *c15ContribProvider
	msgSub   *c15MsgSubmitter
	cpSub    *c15ContribSubmitter
	scripted *c15ScriptedSigner
	realSig  *c15RealSigner
	rec      *c15Recorder
	mess     *c15Messenger
	svc      *Service
	byName   map[string]uint64
	accOf    map[uint64]e2wtypes.Account
}

func c15Quiesce(t *testing.T, base int, what string) {
	t.Helper()
	deadline := time.Now().Add(20 * time.Second)
	for runtime.NumGoroutine() > base {
		if time.Now().After(deadline) {
			t.Fatalf("c15: no quiescence after %s (%d goroutines, base %d)", what, runtime.NumGoroutine(), base)
		}
		runtime.Gosched()
		time.Sleep(50 * time.Microsecond)
	}
}

func c15Build(t *testing.T, ctx context.Context, sc *c15Scenario, st c15Step) *c15World {
	t.Helper()
	w := &c15World{real: sc.Signer == "real", byName: map[string]uint64{}, accOf: map[uint64]e2wtypes.Account{}}
	w.spec = &c15Spec{spe: sc.Spe, epp: sc.Epp, fork: st.Fork, size: st.Size, subnets: st.Subnets, target: st.Target}
	w.ct = verifsupport.NewChainTime(sc.Spe, c15SlotDuration)
	w.ct.SetSlot(st.Now)
	w.sched = verifsupport.NewScheduler()
	w.duties = &c15SyncDuties{}
	w.accts = &c15Accounts{accounts: map[phase0.ValidatorIndex]e2wtypes.Account{}}
	w.heads = &c15Heads{head: st.Head}
	w.contribs = &c15ContribProvider{}
	w.msgSub = &c15MsgSubmitter{}
	w.cpSub = &c15ContribSubmitter{}

	var sig c15AnySigner
	if w.real {
		realSigner, err := standardsigner.New(ctx,
			standardsigner.WithLogLevel(zerolog.Disabled),
			standardsigner.WithMonitor(nullmetrics.New()),
			standardsigner.WithClientMonitor(nullmetrics.New()),
			standardsigner.WithSpecProvider(w.spec),
			standardsigner.WithDomainProvider(mock.NewDomainProvider()),
		)
		if err != nil {
			t.Fatalf("c15: signer New: %v", err)
		}
		w.realSig = &c15RealSigner{real: realSigner}
		w.realSig.byName = w.byName
		w.rec = &w.realSig.c15Recorder
		sig = w.realSig
	} else {
		w.scripted = &c15ScriptedSigner{want: map[[2]uint64]uint64{}}
		w.scripted.byName = w.byName
		w.rec = &w.scripted.c15Recorder
		sig = w.scripted
	}

	agg, err := standardsynccommitteeaggregator.New(ctx,
		standardsynccommitteeaggregator.WithLogLevel(zerolog.Disabled),
		standardsynccommitteeaggregator.WithMonitor(nullmetrics.New()),
		standardsynccommitteeaggregator.WithSpecProvider(w.spec),
		standardsynccommitteeaggregator.WithBeaconBlockRootProvider(w.heads),
		standardsynccommitteeaggregator.WithContributionAndProofSigner(sig),
		standardsynccommitteeaggregator.WithValidatingAccountsProvider(w.accts),
		standardsynccommitteeaggregator.WithSyncCommitteeContributionProvider(w.contribs),
		standardsynccommitteeaggregator.WithSyncCommitteeContributionsSubmitter(w.cpSub),
		standardsynccommitteeaggregator.WithChainTime(w.ct),
	)
	if err != nil {
		t.Fatalf("c15: sync committee aggregator New: %v", err)
	}
	mess, err := standardsynccommitteemessenger.New(ctx,
		standardsynccommitteemessenger.WithLogLevel(zerolog.Disabled),
		standardsynccommitteemessenger.WithProcessConcurrency(2),
		standardsynccommitteemessenger.WithMonitor(nullmetrics.New()),
		standardsynccommitteemessenger.WithChainTimeService(w.ct),
		standardsynccommitteemessenger.WithSyncCommitteeAggregator(agg),
		standardsynccommitteemessenger.WithSpecProvider(w.spec),
		standardsynccommitteemessenger.WithBeaconBlockRootProvider(w.heads),
		standardsynccommitteemessenger.WithSyncCommitteeMessagesSubmitter(w.msgSub),
		standardsynccommitteemessenger.WithSyncCommitteeSubscriptionsSubmitter(mock.NewSyncCommitteeSubscriptionsSubmitter()),
		standardsynccommitteemessenger.WithValidatingAccountsProvider(w.accts),
		standardsynccommitteemessenger.WithSyncCommitteeRootSigner(sig),
		standardsynccommitteemessenger.WithSyncCommitteeSelectionSigner(sig),
	)
	if err != nil {
		t.Fatalf("c15: sync committee messenger New: %v", err)
	}
	w.mess = &c15Messenger{real: mess}

	base := runtime.NumGoroutine()
	w.svc, err = New(ctx,
		WithLogLevel(zerolog.Disabled),
		WithMonitor(nullmetrics.New()),
		WithSpecProvider(w.spec),
		WithChainTimeService(w.ct),
		WithProposerDutiesProvider(mock.NewProposerDutiesProvider()),
		WithAttesterDutiesProvider(mock.NewAttesterDutiesProvider()),
		WithSyncCommitteeDutiesProvider(w.duties),
		WithSyncCommitteeSubscriber(mocksynccommitteesubscriber.New()),
		WithEventsProvider(mock.NewEventsProvider()),
		WithValidatingAccountsProvider(w.accts),
		WithProposalsPreparer(mockproposalpreparer.New()),
		WithScheduler(w.sched),
		WithAttester(mockattester.New()),
		WithSyncCommitteeMessenger(w.mess),
		WithSyncCommitteeAggregator(agg),
		WithBeaconBlockProposer(mockbeaconblockproposer.New()),
		WithBeaconBlockHeadersProvider(mock.NewBeaconBlockHeadersProvider()),
		WithSignedBeaconBlockProvider(mock.NewSignedBeaconBlockProvider()),
		WithAttestationAggregator(mockattestationaggregator.New()),
		WithBeaconCommitteeSubscriber(mockbeaconcommitteesubscriber.New()),
		WithAccountsRefresher(c15Refresher{}),
		WithBlockToSlotSetter(mockcache.New(map[phase0.Root]phase0.Slot{}).(cache.BlockRootToSlotSetter)),
		WithMaxSyncCommitteeMessageDelay(4*time.Second),
		WithSyncCommitteeAggregationDelay(8*time.Second),
	)
	if err != nil {
		t.Fatalf("c15: controller New: %v", err)
	}
	c15Quiesce(t, base, "controller New")
	return w
}

type c15Refresher struct{}

func (c15Refresher) Refresh(_ context.Context) {}

func (w *c15World) addMember(t *testing.T, st c15Step) {
	w.duties.mu.Lock()
	w.duties.members = append(w.duties.members, c15Member{v: st.V, idx: st.Idx, acct: st.Acct})
	w.duties.mu.Unlock()
	if !st.Acct {
		return
	}
	var acc e2wtypes.Account
	if w.real {
		var err error
		acc, err = c15RealAccount(st.V)
		if err != nil {
			t.Fatalf("c15: real account: %v", err)
		}
	} else {
		acc = c15ScriptedAccount(st.V)
	}
	w.byName[acc.Name()] = st.V
	w.accOf[st.V] = acc
	w.accts.mu.Lock()
	w.accts.accounts[phase0.ValidatorIndex(st.V)] = acc
	w.accts.mu.Unlock()
}

func (w *c15World) jobSlots(format string) map[uint64]verifsupport.Job {
	res := map[uint64]verifsupport.Job{}
	for _, job := range w.sched.Snapshot() {
		var slot uint64
		if n, _ := fmt.Sscanf(job.Name, format, &slot); n == 1 && job.Name == fmt.Sprintf(format, slot) {
			res[slot] = job
		}
	}
	return res
}

// decodeMsg says what the signature of a submitted message is over: (validator, root id, epoch), zeros if unknown.
func (w *c15World) decodeMsg(m *altair.SyncCommitteeMessage, call *c15RootCall) (uint64, uint64, uint64) {
	if !w.real {
		sig := m.Signature
		if sig[0] != 0xc5 {
			return 0, 0, 0
		}
		return binary.LittleEndian.Uint64(sig[1:9]), binary.LittleEndian.Uint64(sig[17:25]), binary.LittleEndian.Uint64(sig[9:17])
	}
	// Real signer: verify the BLS signature against the keys of the known accounts and the known roots.
	blsSig, err := e2types.BLSSignatureFromBytes(m.Signature[:])
	if err != nil {
		return 0, 0, 0
	}
	var domain phase0.Domain
	copy(domain[:], []byte{0x07, 0x00, 0x00, 0x00})
	for v, acc := range w.accOf {
		for id := uint64(1); id <= c15MaxRoots; id++ {
			container := phase0.SigningData{ObjectRoot: c15Root(id), Domain: domain}
			msg, err := container.HashTreeRoot()
			if err != nil {
				continue
			}
			if blsSig.Verify(msg[:], acc.PublicKey()) {
				epoch := uint64(0)
				if call != nil {
					epoch = call.epoch // the mock domain does not depend on the epoch: take the epoch the signer was asked for
				}
				return v, id, epoch
			}
		}
	}
	return 0, 0, 0
}

// fire runs the named job like the scheduler's timer path does, on a goroutine of its own so that a panic
// of the job can be recovered (-> Crash) and a job that does not return is noticed (-> Hung).
func (w *c15World) fire(ctx context.Context, name string) (fired bool, crash string, hung bool) {
	type outcome struct {
		fired bool
		crash string
	}
	done := make(chan outcome, 1)
	go func() {
		var o outcome
		defer func() {
			if r := recover(); r != nil {
				o.fired = true
				o.crash = fmt.Sprint(r)
			}
			done <- o
		}()
		o.fired = w.sched.Fire(ctx, name)
	}()
	select {
	case o := <-done:
		return o.fired, o.crash, false
	case <-time.After(30 * time.Second):
		return true, "", true
	}
}

// setFaults installs the signer faults of the step that is about to run and forgets the answers of the last one.
func (w *c15World) setFaults(f c15Faults) {
	w.rec.mu.Lock()
	w.rec.flt = f
	w.rec.sel = nil
	w.rec.rootCalls = nil
	w.rec.selErrs, w.rec.rootErrs, w.rec.cpErrs = 0, 0, 0
	w.rec.rootZero = nil
	w.rec.cpZero = nil
	w.rec.mu.Unlock()
}

func TestVerifC15(t *testing.T) {
	var scenarios []c15Scenario
	verifsupport.Scenarios(t, &scenarios)
	tr := verifsupport.OpenTrace(t)
	defer tr.Close()
	ctx := context.Background()

	for i := range scenarios {
		sc := &scenarios[i]
		if sc.Spe == 0 {
			sc.Spe = 2
		}
		if sc.Epp == 0 {
			sc.Epp = 2
		}
		var w *c15World
		dead := false
		// abnormal says what a job that did not end normally is logged as.
		abnormal := func(st c15Step, crash string, hung bool) bool {
			if crash == "" && !hung {
				return false
			}
			ev := verifsupport.Ev{"sc": sc.Sc, "ev": "Crash", "step": st.Ev, "slot": st.Slot, "what": crash}
			if hung {
				ev["ev"] = "Hung"
			}
			tr.Emit(ev)
			dead = true
			return true
		}
		for _, st := range sc.Steps {
			if dead {
				break
			}
			switch st.Ev {
			case "Reset":
				w = c15Build(t, ctx, sc, st)
				tr.Emit(verifsupport.Ev{"sc": sc.Sc, "ev": "Reset", "now": st.Now, "fork": st.Fork, "size": st.Size,
					"subnets": st.Subnets, "target": st.Target, "head": st.Head, "signer": sc.Signer,
					"svcfork": uint64(w.svc.altairForkEpoch), "altair": w.svc.handlingAltair})
			case "Member":
				w.addMember(t, st)
				idx := st.Idx
				if idx == nil {
					idx = []uint64{}
				}
				tr.Emit(verifsupport.Ev{"sc": sc.Sc, "ev": "Member", "v": st.V, "idx": idx, "acct": st.Acct})
			case "Advance":
				w.ct.SetSlot(st.Now)
				tr.Emit(verifsupport.Ev{"sc": sc.Sc, "ev": "Advance", "now": st.Now})
			case "Head":
				w.heads.mu.Lock()
				w.heads.head = st.Root
				w.heads.mu.Unlock()
				tr.Emit(verifsupport.Ev{"sc": sc.Sc, "ev": "Head", "root": st.Root})
			case "Schedule":
				w.duties.mu.Lock()
				indices := make([]phase0.ValidatorIndex, 0, len(w.duties.members))
				for _, m := range w.duties.members {
					indices = append(indices, phase0.ValidatorIndex(m.v))
				}
				w.duties.mu.Unlock()
				base := runtime.NumGoroutine()
				w.svc.scheduleSyncCommitteeMessages(ctx, phase0.Epoch(st.Epoch), indices, st.Nc)
				c15Quiesce(t, base, "Schedule")
				jobs := w.jobSlots("Prepare sync committee messages for slot %d")
				prep := make([]uint64, 0, len(jobs))
				early := true
				for slot, job := range jobs {
					prep = append(prep, slot)
					if job.Runtime.After(w.ct.StartOfSlot(phase0.Slot(slot))) {
						early = false
					}
				}
				sort.Slice(prep, func(i, j int) bool { return prep[i] < prep[j] })
				tr.Emit(verifsupport.Ev{"sc": sc.Sc, "ev": "Schedule", "epoch": st.Epoch, "nc": st.Nc, "prep": prep, "early": early})
			case "FirePrepare":
				flt := c15Faults{selZero: map[[2]uint64]bool{}, selErr: st.Err}
				for _, h := range st.Hs {
					if h.Z {
						flt.selZero[[2]uint64{h.V, h.Sub}] = true
					}
				}
				if !w.real {
					w.scripted.mu.Lock()
					w.scripted.want = map[[2]uint64]uint64{}
					for _, h := range st.Hs {
						w.scripted.want[[2]uint64{h.V, h.Sub}] = h.H
					}
					w.scripted.mu.Unlock()
				}
				w.setFaults(flt)
				w.mess.mu.Lock()
				w.mess.lastSel = nil
				w.mess.prepErr = false
				w.mess.mu.Unlock()
				fired, crash, hung := w.fire(ctx, fmt.Sprintf("Prepare sync committee messages for slot %d", st.Slot))
				if abnormal(st, crash, hung) {
					break
				}
				hs := make([]verifsupport.Ev, 0)
				ownslot := true
				w.rec.mu.Lock()
				for _, r := range w.rec.sel {
					hs = append(hs, verifsupport.Ev{"v": r.v, "sub": r.sub, "h": r.h, "z": r.z})
					if r.slot != st.Slot {
						ownslot = false
					}
				}
				selerr := w.rec.selErrs > 0
				w.rec.mu.Unlock()
				sel := make([]verifsupport.Ev, 0)
				w.mess.mu.Lock()
				for _, p := range w.mess.lastSel {
					sel = append(sel, verifsupport.Ev{"v": p[0], "sub": p[1]})
				}
				prepErr := w.mess.prepErr
				w.mess.mu.Unlock()
				c15Sort(hs)
				c15Sort(sel)
				msgJob, exists := w.jobSlots("Sync committee messages for slot %d")[st.Slot]
				inslot := exists && !msgJob.Runtime.Before(w.ct.StartOfSlot(phase0.Slot(st.Slot))) && msgJob.Runtime.Before(w.ct.StartOfSlot(phase0.Slot(st.Slot+1)))
				tr.Emit(verifsupport.Ev{"sc": sc.Sc, "ev": "FirePrepare", "slot": st.Slot, "fired": fired, "hs": hs, "sel": sel,
					"msgjob": exists, "inslot": inslot, "err": prepErr, "selerr": selerr, "ownslot": ownslot})
			case "FireMessage":
				w.heads.mu.Lock()
				w.heads.calls = nil
				w.heads.mu.Unlock()
				flt := c15Faults{rootZero: map[uint64]bool{}, rootErr: st.Err}
				for _, v := range st.Zv {
					flt.rootZero[v] = true
				}
				w.setFaults(flt)
				w.msgSub.mu.Lock()
				w.msgSub.msgs = nil
				w.msgSub.mu.Unlock()
				w.mess.mu.Lock()
				w.mess.msgErr = false
				w.mess.mu.Unlock()
				fired, crash, hung := w.fire(ctx, fmt.Sprintf("Sync committee messages for slot %d", st.Slot))
				if abnormal(st, crash, hung) {
					break
				}
				root := uint64(0)
				w.heads.mu.Lock()
				if len(w.heads.calls) > 0 {
					root = w.heads.calls[0]
				}
				w.heads.mu.Unlock()
				var call *c15RootCall
				signreq := make([]uint64, 0)
				nils := 0
				signerr := false
				w.rec.mu.Lock()
				if len(w.rec.rootCalls) > 0 {
					c := w.rec.rootCalls[len(w.rec.rootCalls)-1]
					call = &c
					signreq = append(signreq, c.vs...)
					nils = c.nils
					signerr = c.err
				}
				zv := append([]uint64{}, w.rec.rootZero...)
				rooterr := w.rec.rootErrs > 0
				w.rec.mu.Unlock()
				sort.Slice(zv, func(i, j int) bool { return zv[i] < zv[j] })
				msgs := make([]verifsupport.Ev, 0)
				w.msgSub.mu.Lock()
				for _, m := range w.msgSub.msgs {
					sigv, sigroot, sigepoch := w.decodeMsg(m, call)
					msgs = append(msgs, verifsupport.Ev{"slot": uint64(m.Slot), "v": uint64(m.ValidatorIndex), "root": c15RootID(m.BeaconBlockRoot),
						"sigv": sigv, "sigroot": sigroot, "sigepoch": sigepoch})
				}
				w.msgSub.mu.Unlock()
				sort.Slice(msgs, func(i, j int) bool { return msgs[i]["v"].(uint64) < msgs[j]["v"].(uint64) })
				_, aggjob := w.jobSlots("Sync committee aggregation for slot %d")[st.Slot]
				w.mess.mu.Lock()
				msgErr := w.mess.msgErr
				w.mess.mu.Unlock()
				tr.Emit(verifsupport.Ev{"sc": sc.Sc, "ev": "FireMessage", "slot": st.Slot, "fired": fired, "root": root, "signreq": signreq,
					"nils": nils, "signerr": signerr, "msgs": msgs, "aggjob": aggjob, "err": msgErr, "zv": zv, "rooterr": rooterr})
			case "FireAggregate":
				w.heads.mu.Lock()
				w.heads.calls = nil
				w.heads.mu.Unlock()
				w.cpSub.mu.Lock()
				w.cpSub.cps = nil
				w.cpSub.mu.Unlock()
				flt := c15Faults{cpZero: map[[2]uint64]bool{}, cpErr: st.Err}
				for _, p := range st.Zp {
					flt.cpZero[[2]uint64{p.V, p.Sub}] = true
				}
				w.setFaults(flt)
				fired, crash, hung := w.fire(ctx, fmt.Sprintf("Sync committee aggregation for slot %d", st.Slot))
				if abnormal(st, crash, hung) {
					break
				}
				contribs := make([]verifsupport.Ev, 0)
				w.rec.mu.Lock()
				returned := make(map[[3]uint64]phase0.BLSSignature, len(w.rec.cpSigs))
				for k, v := range w.rec.cpSigs {
					returned[k] = v
				}
				zp := make([]verifsupport.Ev, 0)
				for _, p := range w.rec.cpZero {
					zp = append(zp, verifsupport.Ev{"v": p[0], "sub": p[1]})
				}
				cperr := w.rec.cpErrs > 0
				w.rec.mu.Unlock()
				c15Sort(zp)
				w.cpSub.mu.Lock()
				for _, cp := range w.cpSub.cps {
					if cp == nil || cp.Message == nil || cp.Message.Contribution == nil {
						continue
					}
					cslot, cv, csub := uint64(cp.Message.Contribution.Slot), uint64(cp.Message.AggregatorIndex), cp.Message.Contribution.SubcommitteeIndex
					sig, known := returned[[3]uint64{cslot, cv, csub}]
					zero := cp.Signature.IsZero()
					contribs = append(contribs, verifsupport.Ev{"slot": cslot, "v": cv, "sub": csub,
						"root": c15RootID(cp.Message.Contribution.BeaconBlockRoot), "z": zero, "own": !zero && known && sig == cp.Signature})
				}
				w.cpSub.mu.Unlock()
				c15Sort(contribs)
				w.heads.mu.Lock()
				headcalls := len(w.heads.calls)
				w.heads.mu.Unlock()
				tr.Emit(verifsupport.Ev{"sc": sc.Sc, "ev": "FireAggregate", "slot": st.Slot, "fired": fired, "contribs": contribs, "headcalls": headcalls,
					"zp": zp, "cperr": cperr})
			default:
				t.Fatalf("c15: unknown step %q", st.Ev)
			}
		}
	}
}

func c15Sort(evs []verifsupport.Ev) {
	key := func(e verifsupport.Ev) [2]uint64 {
		return [2]uint64{e["v"].(uint64), e["sub"].(uint64)}
	}
	sort.Slice(evs, func(i, j int) bool {
		a, b := key(evs[i]), key(evs[j])
		if a[0] != b[0] {
			return a[0] < b[0]
		}
		return a[1] < b[1]
	})
}
