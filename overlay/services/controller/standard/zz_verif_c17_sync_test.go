package standard

// Conformance driver of property C17 (spec/Concurrency.tla), group "syncduty": the sync committee duty pipeline as
// production wires it - the REAL controller's scheduling path (scheduleSyncCommitteeMessages: ONE messageIndices
// map and ONE by-index accounts map per sync committee period, handed to the duty of every slot; the prepare /
// message / aggregation jobs it schedules; refreshSyncCommitteeDutiesForEpochPeriod), the REAL sync committee
// messenger (which keeps the duty's map BY REFERENCE in the slot's data record) and the REAL sync committee
// aggregator (whose duty aliases the messenger duty's accounts map and selection-proof maps), and the controller's
// head event handler (fast-tracks the message job of the slot, then ranges over the record of the previous slot).
//
// The structures that are shared between jobs / handlers only exist through the controller: a driver that hands a
// fresh map to every duty does not see them.  Everything that crosses between the components here is built by the
// controller's own code; the harness only stands at the interfaces (beacon node, accounts provider, signers).
//
// The environment's alphabet (chosen by TLC, see Concurrency!SyncEnv): which members of the sync committee have an
// account in the by-index lookup (all, one missing = an exited validator still in the committee, only one, none);
// per message job what the head-root request answers (ok, error) and what the root signer answers (ok, a zero
// signature for validator 1, error); per prepare job what the selection signer answers (aggregators, no
// aggregators, error); per aggregation what the contribution request answers; per head event what the fetch of the
// head block answers (parent = the root that was signed with all / some bits set, another parent, error).
//
// No fake shares a lock with another one and latencies are sleeps (no channel rendez-vous): the harness adds no
// happens-before edge between a job and a handler that production does not have.

import (
	"context"
	"crypto/sha256"
	"encoding/binary"
	"errors"
	"fmt"
	"reflect"
	"runtime/debug"
	"strings"
	"sync"
	"time"

	"github.com/attestantio/go-eth2-client/api"
	apiv1 "github.com/attestantio/go-eth2-client/api/v1"
	"github.com/attestantio/go-eth2-client/spec"
	"github.com/attestantio/go-eth2-client/spec/altair"
	"github.com/attestantio/go-eth2-client/spec/phase0"
	"github.com/attestantio/vouch/mock"
	nullmetrics "github.com/attestantio/vouch/services/metrics/null"
	"github.com/attestantio/vouch/services/synccommitteeaggregator"
	standardsynccommitteeaggregator "github.com/attestantio/vouch/services/synccommitteeaggregator/standard"
	"github.com/attestantio/vouch/services/synccommitteemessenger"
	standardsynccommitteemessenger "github.com/attestantio/vouch/services/synccommitteemessenger/standard"
	"github.com/attestantio/vouch/verifdrivers/c17run"
	"github.com/prysmaticlabs/go-bitfield"
	e2wtypes "github.com/wealdtech/go-eth2-wallet-types/v2"
)

const (
	// chain: 4 slots per epoch, 2 epochs per sync committee period; period 1 = slots 8..15.  The controller is
	// started at slot 8; abstract slot a of the model is real slot c17SyncBase + a; the overlap happens at slot 10.
	c17SyncBase    = 8
	c17SyncNow     = 2 // abstract slot of the clock during the overlap
	c17SyncSize    = 16
	c17SyncSubnets = 4
	c17SyncTarget  = 2 // modulo 2: a selection signature makes an aggregator or not
)

var c17SyncMembers = []uint64{1, 2, 3}

// c17SyncHeadRoot is the head root the beacon node reports to the messenger.
var c17SyncHeadRoot = phase0.Root{0x51, 0x17}

type c17SyncSlotKey struct{}

// c17SyncScript is what the environment answers to the jobs of one slot (installed before the calls of the history
// start, read-only afterwards).
type c17SyncScript struct {
	root    string // ok | fail
	sig     string // ok | zero1 | fail
	sel     string // agg | noagg | fail
	contrib string // ok | fail
}

type c17SyncWorld struct {
	h    *c03Harness
	mess *standardsynccommitteemessenger.Service
	agg  *standardsynccommitteeaggregator.Service

	acct   map[uint64]bool        // members with an account in the by-index lookup (per history, read-only)
	script [24]c17SyncScript      // by real slot
	blocks map[phase0.Root]string // head block (by node) -> answer of the head block fetch
	slow   string                 // the interface that is slow in this repetition: "", root, block, sign

	submitMu sync.Mutex
	msgs     map[uint64][]uint64 // slot -> validators whose message was submitted
	contMu   sync.Mutex
	contribs map[uint64][]uint64 // slot -> aggregators whose contribution was submitted
	blockMu  sync.Mutex
	asked    map[phase0.Root]int // head block -> fetches by the verification
	crashMu  sync.Mutex
	crashes  []map[string]interface{}
}

func c17SyncSlotOf(ctx context.Context) uint64 {
	s, _ := ctx.Value(c17SyncSlotKey{}).(uint64)
	return s
}

func (w *c17SyncWorld) pause(what string) {
	if w.slow == what {
		time.Sleep(1500 * time.Microsecond)
	}
}

// ---- beacon node ------------------------------------------------------------------------------------------

func (w *c17SyncWorld) Spec(_ context.Context, _ *api.SpecOpts) (*api.Response[map[string]any], error) {
	return &api.Response[map[string]any]{
		Data: map[string]any{
			"SECONDS_PER_SLOT":                         12 * time.Second,
			"SLOTS_PER_EPOCH":                          uint64(4),
			"EPOCHS_PER_SYNC_COMMITTEE_PERIOD":         uint64(2),
			"ALTAIR_FORK_EPOCH":                        uint64(0),
			"SYNC_COMMITTEE_SIZE":                      uint64(c17SyncSize),
			"SYNC_COMMITTEE_SUBNET_COUNT":              uint64(c17SyncSubnets),
			"TARGET_AGGREGATORS_PER_SYNC_SUBCOMMITTEE": uint64(c17SyncTarget),
			"TARGET_AGGREGATORS_PER_COMMITTEE":         uint64(16),
		},
		Metadata: map[string]any{},
	}, nil
}

// SyncCommitteeDuties: every member asked for is in the committee of every period, at two positions (two
// subcommittees).
func (w *c17SyncWorld) SyncCommitteeDuties(_ context.Context, opts *api.SyncCommitteeDutiesOpts) (*api.Response[[]*apiv1.SyncCommitteeDuty], error) {
	res := make([]*apiv1.SyncCommitteeDuty, 0, len(opts.Indices))
	for _, v := range opts.Indices {
		res = append(res, &apiv1.SyncCommitteeDuty{
			ValidatorIndex:                v,
			ValidatorSyncCommitteeIndices: []phase0.CommitteeIndex{phase0.CommitteeIndex(v), phase0.CommitteeIndex(uint64(v) + 4)},
		})
	}
	return &api.Response[[]*apiv1.SyncCommitteeDuty]{Data: res, Metadata: map[string]any{}}, nil
}

// BeaconBlockRoot: the head root, as the messenger (job of the slot in the context) and the aggregator ask for it.
func (w *c17SyncWorld) BeaconBlockRoot(ctx context.Context, _ *api.BeaconBlockRootOpts) (*api.Response[*phase0.Root], error) {
	slot := c17SyncSlotOf(ctx)
	w.pause("root")
	if slot < uint64(len(w.script)) && w.script[slot].root == "fail" {
		return nil, errors.New("scripted: no head root")
	}
	root := c17SyncHeadRoot
	return &api.Response[*phase0.Root]{Data: &root, Metadata: map[string]any{}}, nil
}

// SignedBeaconBlock: the head block, as the verification of the previous slot's messages asks for it.
func (w *c17SyncWorld) SignedBeaconBlock(_ context.Context, opts *api.SignedBeaconBlockOpts) (*api.Response[*spec.VersionedSignedBeaconBlock], error) {
	var answer string
	w.blockMu.Lock()
	for root, a := range w.blocks {
		if root.String() == opts.Block {
			w.asked[root]++
			answer = a
		}
	}
	w.blockMu.Unlock()
	w.pause("block")
	if answer == "fail" || answer == "" {
		return nil, errors.New("scripted: no such block")
	}
	bits := bitfield.NewBitvector512()
	for _, v := range c17SyncMembers {
		if answer == "missing" && v == 2 {
			continue
		}
		bits.SetBitAt(v, true)
		bits.SetBitAt(v+4, true)
	}
	parent := c17SyncHeadRoot
	if answer == "mismatch" {
		parent = phase0.Root{0xff}
	}
	block := &spec.VersionedSignedBeaconBlock{
		Version: spec.DataVersionAltair,
		Altair: &altair.SignedBeaconBlock{
			Message: &altair.BeaconBlock{
				Slot:       phase0.Slot(c17SyncBase + c17SyncNow),
				ParentRoot: parent,
				Body:       &altair.BeaconBlockBody{SyncAggregate: &altair.SyncAggregate{SyncCommitteeBits: bits}},
			},
		},
	}
	return &api.Response[*spec.VersionedSignedBeaconBlock]{Data: block, Metadata: map[string]any{}}, nil
}

func (w *c17SyncWorld) SyncCommitteeContribution(ctx context.Context, opts *api.SyncCommitteeContributionOpts) (*api.Response[*altair.SyncCommitteeContribution], error) {
	if s := uint64(opts.Slot); s < uint64(len(w.script)) && w.script[s].contrib == "fail" {
		return nil, errors.New("scripted: no contribution")
	}
	bits := bitfield.NewBitvector128()
	bits.SetBitAt(1, true)
	c := &altair.SyncCommitteeContribution{
		Slot:              opts.Slot,
		BeaconBlockRoot:   opts.BeaconBlockRoot,
		SubcommitteeIndex: opts.SubcommitteeIndex,
		AggregationBits:   bits,
	}
	c.Signature[0] = 0xc0
	return &api.Response[*altair.SyncCommitteeContribution]{Data: c, Metadata: map[string]any{}}, nil
}

func (w *c17SyncWorld) SubmitSyncCommitteeMessages(_ context.Context, msgs []*altair.SyncCommitteeMessage) error {
	w.submitMu.Lock()
	for _, m := range msgs {
		w.msgs[uint64(m.Slot)] = append(w.msgs[uint64(m.Slot)], uint64(m.ValidatorIndex))
	}
	w.submitMu.Unlock()
	return nil
}

func (w *c17SyncWorld) SubmitSyncCommitteeContributions(_ context.Context, cs []*altair.SignedContributionAndProof) error {
	w.contMu.Lock()
	for _, c := range cs {
		s := uint64(c.Message.Contribution.Slot)
		w.contribs[s] = append(w.contribs[s], uint64(c.Message.AggregatorIndex))
	}
	w.contMu.Unlock()
	return nil
}

// ---- accounts provider (what the controller and the duty services are given) ---------------------------------

// c17SyncAccounts answers the "all accounts of the epoch" lookups with every member and the by-index lookups with
// the members that (still) have an account: a member can lose its account between the two (exit, a refresh).
type c17SyncAccounts struct{ w *c17SyncWorld }

func (a *c17SyncAccounts) all() map[phase0.ValidatorIndex]e2wtypes.Account {
	res := map[phase0.ValidatorIndex]e2wtypes.Account{}
	for _, v := range c17SyncMembers {
		res[phase0.ValidatorIndex(v)] = &c03Account{index: v}
	}
	return res
}

func (a *c17SyncAccounts) byIndex(indices []phase0.ValidatorIndex) map[phase0.ValidatorIndex]e2wtypes.Account {
	res := map[phase0.ValidatorIndex]e2wtypes.Account{}
	for _, v := range indices {
		if a.w.acct[uint64(v)] {
			res[v] = &c03Account{index: uint64(v)}
		}
	}
	return res
}

func (a *c17SyncAccounts) ValidatingAccountsForEpoch(_ context.Context, _ phase0.Epoch) (map[phase0.ValidatorIndex]e2wtypes.Account, error) {
	return a.all(), nil
}

func (a *c17SyncAccounts) ValidatingAccountsForEpochByIndex(_ context.Context, _ phase0.Epoch, indices []phase0.ValidatorIndex) (map[phase0.ValidatorIndex]e2wtypes.Account, error) {
	return a.byIndex(indices), nil
}

func (a *c17SyncAccounts) SyncCommitteeAccountsForEpoch(_ context.Context, _ phase0.Epoch) (map[phase0.ValidatorIndex]e2wtypes.Account, error) {
	return a.all(), nil
}

func (a *c17SyncAccounts) SyncCommitteeAccountsForEpochByIndex(_ context.Context, _ phase0.Epoch, indices []phase0.ValidatorIndex) (map[phase0.ValidatorIndex]e2wtypes.Account, error) {
	return a.byIndex(indices), nil
}

// ---- signers -------------------------------------------------------------------------------------------------

var c17SyncSelSigs [2][8][4]phase0.BLSSignature // [aggregator?][validator][subcommittee]

func init() {
	modulo := uint64(c17SyncSize / c17SyncSubnets / c17SyncTarget)
	for agg := 0; agg < 2; agg++ {
		for v := 0; v < 8; v++ {
			for sub := 0; sub < 4; sub++ {
				var sig phase0.BLSSignature
				sig[0], sig[1], sig[2] = 0x5e, byte(v), byte(sub)
				for nonce := uint64(1); ; nonce++ {
					binary.LittleEndian.PutUint64(sig[24:32], nonce)
					h := sha256.Sum256(sig[:])
					if (binary.LittleEndian.Uint64(h[:8])%modulo == 0) == (agg == 1) {
						break
					}
				}
				c17SyncSelSigs[agg][v][sub] = sig
			}
		}
	}
}

func c17SyncIndexOf(account e2wtypes.Account) uint64 {
	if a, ok := account.(*c03Account); ok {
		return a.index
	}
	return 0
}

func (w *c17SyncWorld) SignSyncCommitteeSelections(_ context.Context, accounts []e2wtypes.Account, slot phase0.Slot, subs []uint64) ([]phase0.BLSSignature, error) {
	w.pause("sign")
	sc := w.script[uint64(slot)%uint64(len(w.script))]
	if sc.sel == "fail" {
		return nil, errors.New("scripted: selection signer failed")
	}
	agg := 1
	if sc.sel == "noagg" {
		agg = 0
	}
	res := make([]phase0.BLSSignature, len(accounts))
	for i := range accounts {
		res[i] = c17SyncSelSigs[agg][c17SyncIndexOf(accounts[i])%8][subs[i]%4]
	}
	return res, nil
}

func (w *c17SyncWorld) SignSyncCommitteeRoots(ctx context.Context, accounts []e2wtypes.Account, _ phase0.Epoch, _ phase0.Root) ([]phase0.BLSSignature, error) {
	w.pause("sign")
	sc := w.script[c17SyncSlotOf(ctx)%uint64(len(w.script))]
	if sc.sig == "fail" {
		return nil, errors.New("scripted: root signer failed")
	}
	res := make([]phase0.BLSSignature, len(accounts))
	for i := range accounts {
		v := c17SyncIndexOf(accounts[i])
		if sc.sig == "zero1" && v == 1 {
			continue
		}
		res[i][0], res[i][1] = 0x5c, byte(v)
	}
	return res, nil
}

func (w *c17SyncWorld) SignContributionAndProofs(_ context.Context, accounts []e2wtypes.Account, _ []*altair.ContributionAndProof) ([]phase0.BLSSignature, error) {
	res := make([]phase0.BLSSignature, len(accounts))
	for i := range res {
		res[i][0], res[i][1] = 0xcc, byte(c17SyncIndexOf(accounts[i]))
	}
	return res, nil
}

// ---- pass-through wrappers at the controller's interfaces ----------------------------------------------------

// crash records a panic of Vouch's code on a job's goroutine (recovered here: an event that no action of the
// specification allows).
func (w *c17SyncWorld) crash(where string) {
	if r := recover(); r != nil {
		stack := string(debug.Stack())
		site := ""
		for _, line := range strings.Split(stack, "\n") {
			if strings.HasPrefix(line, "github.com/attestantio/vouch/") && !strings.Contains(line, "zz_verif") && !strings.Contains(line, "c17Sync") {
				site = strings.SplitN(line, "(", 2)[0]
				break
			}
		}
		w.crashMu.Lock()
		w.crashes = append(w.crashes, map[string]interface{}{"ev": "Crash", "where": where, "text": fmt.Sprint(r), "site": site})
		w.crashMu.Unlock()
	}
}

// c17SyncMessenger hands every call on to the real messenger; it only names the slot of the job in the context
// (the beacon node and the signers are asked without one) and recovers a panic.  It touches nothing of the duty.
type c17SyncMessenger struct {
	w *c17SyncWorld
}

func (m *c17SyncMessenger) Prepare(ctx context.Context, duty *synccommitteemessenger.Duty) (err error) {
	defer m.w.crash("Prepare")
	return m.w.mess.Prepare(context.WithValue(ctx, c17SyncSlotKey{}, uint64(duty.Slot())), duty)
}

func (m *c17SyncMessenger) Message(ctx context.Context, duty *synccommitteemessenger.Duty) (msgs []*altair.SyncCommitteeMessage, err error) {
	defer m.w.crash("Message")
	return m.w.mess.Message(context.WithValue(ctx, c17SyncSlotKey{}, uint64(duty.Slot())), duty)
}

func (m *c17SyncMessenger) GetDataUsedForSlot(slot phase0.Slot) (synccommitteemessenger.SlotData, bool) {
	return m.w.mess.GetDataUsedForSlot(slot)
}

func (m *c17SyncMessenger) RemoveHistoricDataUsedForSlotVerification(slot phase0.Slot) {
	m.w.mess.RemoveHistoricDataUsedForSlotVerification(slot)
}

type c17SyncAggregator struct {
	w *c17SyncWorld
}

func (a *c17SyncAggregator) SetBeaconBlockRoot(slot phase0.Slot, root phase0.Root) {
	a.w.agg.SetBeaconBlockRoot(slot, root)
}

func (a *c17SyncAggregator) Aggregate(ctx context.Context, duty *synccommitteeaggregator.Duty) {
	defer a.w.crash("Aggregate")
	a.w.agg.Aggregate(ctx, duty)
}

// ---- the group -----------------------------------------------------------------------------------------------

type c17Sync struct {
	w   *c17SyncWorld
	sc  c17run.Schedule
	rep int
	err error
}

func c17SyncMask(vals []uint64) int {
	m := 0
	for _, v := range vals {
		if v >= 1 && v <= 3 {
			m |= 1 << (v - 1)
		}
	}
	return m
}

func (c *c17Sync) Reset(_ context.Context) {}

// Begin builds the world of the history: the environment's answers are installed before the controller starts (its
// start-up schedules the duties of the period).
func (c *c17Sync) Begin(sc c17run.Schedule, rep int) {
	c.sc, c.rep = sc, rep
	ctx := context.Background()
	w := &c17SyncWorld{acct: map[uint64]bool{}, blocks: map[phase0.Root]string{}, msgs: map[uint64][]uint64{},
		contribs: map[uint64][]uint64{}, asked: map[phase0.Root]int{}}
	c.w = w
	for i := range w.script {
		w.script[i] = c17SyncScript{root: "ok", sig: "ok", sel: "agg", contrib: "ok"}
	}
	w.slow = []string{"", "root", "block", "sign"}[rep%4]
	scripted := map[string]bool{}
	for _, op := range append(append([]c17run.Op{}, sc.Pre...), sc.Par...) {
		s := uint64(c17SyncBase + op.Int("s"))
		key := fmt.Sprintf("%s/%d", op.Name(), s)
		switch op.Name() {
		case "Env":
			for _, v := range op.Set("acct") {
				w.acct[uint64(v)] = true
			}
		case "Msg":
			if !scripted[key] {
				w.script[s].root, _ = op["root"].(string)
				w.script[s].sig, _ = op["sig"].(string)
			}
		case "Prep":
			if !scripted[key] {
				w.script[s].sel, _ = op["sel"].(string)
			}
		case "Agg":
			if !scripted[key] {
				w.script[s].contrib, _ = op["contrib"].(string)
			}
		case "Head":
			blk, _ := op["block"].(string)
			w.blocks[c03Root(200+int64(op.Int("node")), int(s))] = blk
		}
		scripted[key] = true
	}

	cfg := c03Config{P: 4, D: 12, EP: 2, Prep: 1, Fork: 0, FT: true, AttDelay: 4, PropDelay: 0, SyncDelay: 4, Vals: c17SyncMembers}
	h := c03NewHarness(cfg, c03Oracle{})
	h.Watchdog = true // a goroutine of the controller that never finishes is reported (TakeHung), not waited for
	w.h = h
	accounts := &c17SyncAccounts{w: w}
	var err error
	w.agg, err = standardsynccommitteeaggregator.New(ctx,
		standardsynccommitteeaggregator.WithLogLevel(c17run.LogLevel()),
		standardsynccommitteeaggregator.WithMonitor(nullmetrics.New()),
		standardsynccommitteeaggregator.WithSpecProvider(w),
		standardsynccommitteeaggregator.WithBeaconBlockRootProvider(w),
		standardsynccommitteeaggregator.WithContributionAndProofSigner(w),
		standardsynccommitteeaggregator.WithValidatingAccountsProvider(accounts),
		standardsynccommitteeaggregator.WithSyncCommitteeContributionProvider(w),
		standardsynccommitteeaggregator.WithSyncCommitteeContributionsSubmitter(w),
		standardsynccommitteeaggregator.WithChainTime(h.ChainTime),
	)
	if err != nil {
		panic("c17 harness: syncduty: aggregator: " + err.Error())
	}
	w.mess, err = standardsynccommitteemessenger.New(ctx,
		standardsynccommitteemessenger.WithLogLevel(c17run.LogLevel()),
		standardsynccommitteemessenger.WithProcessConcurrency(2),
		standardsynccommitteemessenger.WithMonitor(nullmetrics.New()),
		standardsynccommitteemessenger.WithChainTimeService(h.ChainTime),
		standardsynccommitteemessenger.WithSyncCommitteeAggregator(w.agg),
		standardsynccommitteemessenger.WithSpecProvider(w),
		standardsynccommitteemessenger.WithBeaconBlockRootProvider(w),
		standardsynccommitteemessenger.WithSyncCommitteeMessagesSubmitter(w),
		standardsynccommitteemessenger.WithSyncCommitteeSubscriptionsSubmitter(mock.NewSyncCommitteeSubscriptionsSubmitter()),
		standardsynccommitteemessenger.WithValidatingAccountsProvider(accounts),
		standardsynccommitteemessenger.WithSyncCommitteeRootSigner(w),
		standardsynccommitteemessenger.WithSyncCommitteeSelectionSigner(w),
	)
	if err != nil {
		panic("c17 harness: syncduty: messenger: " + err.Error())
	}
	h.Messenger = &c17SyncMessenger{w: w}
	h.SyncAggregator = &c17SyncAggregator{w: w}
	h.ExtraParams = []Parameter{
		WithLogLevel(c17run.LogLevel()),
		WithValidatingAccountsProvider(accounts),
		WithSyncCommitteeDutiesProvider(w),
		WithSignedBeaconBlockProvider(w),
		WithVerifySyncCommitteeInclusion(true),
	}
	if err := h.Start(c17SyncBase, true); err != nil {
		panic("c17 harness: syncduty: controller: " + err.Error())
	}
	h.ChainTime.SetSlot(c17SyncBase + c17SyncNow)
	// one head event of the previous slot's epoch has primed the reorg bookkeeping in production; here the first
	// head event of the history does (same dependent roots throughout: no reorg refresh of the harness's making)
	h.begin()
}

func (c *c17Sync) fire(name string) bool {
	return c.w.h.Sched.Fire(c.w.h.Ctx, name)
}

func (c *c17Sync) Call(ctx context.Context, _ int, op c17run.Op) int {
	w := c.w
	s := uint64(c17SyncBase + op.Int("s"))
	switch op.Name() {
	case "Env":
		return 0
	case "Prep":
		// the scheduler's timer starts the prepare job of the slot
		if !c.fire(c03JobName("syncprep", s)) {
			return 0
		}
		return 1
	case "Msg":
		// the scheduler's timer starts the message job of the slot
		if !c.fire(c03JobName("syncmsg", s)) {
			return 0
		}
		w.submitMu.Lock()
		res := 8 + c17SyncMask(w.msgs[s])
		w.submitMu.Unlock()
		return res
	case "Agg":
		if !c.fire(c03JobName("syncagg", s)) {
			return 0
		}
		w.contMu.Lock()
		res := 8 + c17SyncMask(w.contribs[s])
		w.contMu.Unlock()
		return res
	case "Head":
		// the event stream of beacon node `node` delivers the head event of the current slot
		node := op.Int("node")
		e := int64(s / 4)
		block := c03Root(200+int64(node), int(s))
		w.h.handlers["head"](&apiv1.Event{Topic: "head", Data: &apiv1.HeadEvent{
			Slot:                      phase0.Slot(s),
			Block:                     block,
			PreviousDutyDependentRoot: c03Root(e-1, 0),
			CurrentDutyDependentRoot:  c03Root(e, 0),
		}})
		w.blockMu.Lock()
		n := w.asked[block]
		w.blockMu.Unlock()
		if n > 0 {
			return 1
		}
		return 0
	case "Resched":
		// the refresh that a change of the current duty-dependent root starts at a period boundary
		// (handleCurrentDependentRootChanged -> go refreshSyncCommitteeDutiesForEpochPeriod)
		w.h.Svc.refreshSyncCommitteeDutiesForEpochPeriod(w.h.Ctx, phase0.Epoch((c17SyncBase+c17SyncNow)/4))
		return 0
	}
	panic("c17 harness: syncduty op " + op.Name())
}

// Settle waits until the goroutines the controller started (fast-tracked jobs, scheduling goroutines) have finished.
func (c *c17Sync) Settle() {
	if err := c.w.h.Quiesce(); err != nil {
		c.err = err
	}
}

// TakeEvents: what the history showed besides calls and returns - a recovered panic (Crash), and, as coverage
// information, how the records of the slots alias the period's map (Alias: not part of the validated history).
func (c *c17Sync) TakeEvents() []map[string]interface{} {
	w := c.w
	w.crashMu.Lock()
	evs := append([]map[string]interface{}{}, w.crashes...)
	w.crashes = nil
	w.crashMu.Unlock()
	if c.err != nil {
		evs = append(evs, map[string]interface{}{"ev": "Hung", "text": c.err.Error()})
		c.err = nil
	}
	for _, x := range w.h.TakeHung() {
		evs = append(evs, map[string]interface{}{"ev": "Hung", "text": x.Fn + " " + x.State})
	}
	ptrs := map[uintptr]int{}
	recs, members := 0, -1
	for a := uint64(1); a <= 3; a++ {
		if data, ok := w.mess.GetDataUsedForSlot(phase0.Slot(c17SyncBase + a)); ok {
			recs++
			ptrs[reflect.ValueOf(data.ValidatorToCommitteeIndex).Pointer()]++
			if members < 0 || len(data.ValidatorToCommitteeIndex) < members {
				members = len(data.ValidatorToCommitteeIndex)
			}
		}
	}
	evs = append(evs, map[string]interface{}{"ev": "Alias", "obj": "idx", "records": recs, "objects": len(ptrs), "members": members,
		"accountless": len(c17SyncMembers) - len(w.acct)})
	return evs
}

func (*c17Sync) Close() {}
