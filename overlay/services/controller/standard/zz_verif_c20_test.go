package standard

// Conformance driver for property C20 (spec/Bounded.tla, Trace_Bounded.tla), part (a): long runs.
// Injected with -overlay by /verif/check; nothing of it is committed to the repository.
//
// Binding: the REAL controller (through the harness of zz_verif_c03_harness_test.go: virtual chain
// time, recording scheduler whose jobs the driver fires explicitly, scripted beacon node and accounts)
// wired to the REAL attester/standard.Service, the REAL synccommitteemessenger/standard.Service and
// the REAL synccommitteeaggregator/standard.Service.  Scripted: attestation data provider (gate + outcome),
// signers, submitters, head root and contribution providers.
//
// A scenario is a TLC-simulated behaviour of Scen_Bounded.tla (one step per spec action: Start, Tick,
// Head with or without duty refresh, Prepare, AttStart/AttEnd, SyncMsg, SyncAgg, Advance) of 64 and
// more epochs.  After every step, at quiescence, the driver logs the domains of the bookkeeping maps
// (package-internal projections / the VerifC20* seams), the pending-attestation marks, HasPendingAttestations
// for all recent slots and the job table of the recording scheduler.
//
// TestVerifC20Real is the second, shorter run: the same services on the REAL scheduler
// (scheduler/advanced) with a wall-clock chain time of short slots; it samples the job table and the
// maps once per epoch.

import (
	"bytes"
	"context"
	"crypto/sha256"
	"encoding/binary"
	"encoding/json"
	"errors"
	"fmt"
	"os"
	"os/exec"
	"path/filepath"
	"runtime"
	"sort"
	"sync"
	"testing"
	"time"

	"github.com/attestantio/go-eth2-client/api"
	apiv1 "github.com/attestantio/go-eth2-client/api/v1"
	"github.com/attestantio/go-eth2-client/spec/altair"
	"github.com/attestantio/go-eth2-client/spec/phase0"
	"github.com/attestantio/vouch/mock"
	standardattester "github.com/attestantio/vouch/services/attester/standard"
	"github.com/attestantio/vouch/services/chaintime"
	nullmetrics "github.com/attestantio/vouch/services/metrics/null"
	advancedscheduler "github.com/attestantio/vouch/services/scheduler/advanced"
	standardsynccommitteeaggregator "github.com/attestantio/vouch/services/synccommitteeaggregator/standard"
	standardsynccommitteemessenger "github.com/attestantio/vouch/services/synccommitteemessenger/standard"
	"github.com/attestantio/vouch/verifsupport"
	"github.com/prysmaticlabs/go-bitfield"
	"github.com/rs/zerolog"
	e2wtypes "github.com/wealdtech/go-eth2-wallet-types/v2"
)

const (
	c20SyncSize    = 512
	c20SyncSubnets = 4
	c20SyncTarget  = 16 // aggregator modulo = 512 / 4 / 16 = 8
	c20LogCap      = 200
)

type c20Step struct {
	Ev     string     `json:"ev"`
	P      uint64     `json:"p"`
	EP     uint64     `json:"ep"`
	Verify bool       `json:"verify"`
	Agg    string     `json:"agg"` // never | third | always
	Now    uint64     `json:"now"`
	D0     []uint64   `json:"d0"`
	D1     []uint64   `json:"d1"`
	E      uint64     `json:"e"`
	D      []uint64   `json:"d"`
	R      []uint64   `json:"r"`
	Dm     [][]uint64 `json:"dm"`
	S      uint64     `json:"s"`
	Ok     bool       `json:"ok"`
}

type c20Scenario struct {
	Sc     int       `json:"sc"`
	Fam    string    `json:"fam"`
	SlotMs int       `json:"slotms"` // real run: slot duration in ms
	Steps  []c20Step `json:"steps"`
}

// ---- scripted collaborators of the real duty services -----------------------------------------------

// c20Spec serves the spec values the real services read.
type c20Spec struct {
	p, ep   uint64
	slotDur time.Duration
}

func (s *c20Spec) Spec(_ context.Context, _ *api.SpecOpts) (*api.Response[map[string]any], error) {
	return &api.Response[map[string]any]{
		Data: map[string]any{
			"SECONDS_PER_SLOT":                         s.slotDur,
			"SLOTS_PER_EPOCH":                          s.p,
			"EPOCHS_PER_SYNC_COMMITTEE_PERIOD":         s.ep,
			"ALTAIR_FORK_EPOCH":                        uint64(0),
			"SYNC_COMMITTEE_SIZE":                      uint64(c20SyncSize),
			"SYNC_COMMITTEE_SUBNET_COUNT":              uint64(c20SyncSubnets),
			"TARGET_AGGREGATORS_PER_SYNC_SUBCOMMITTEE": uint64(c20SyncTarget),
			"TARGET_AGGREGATORS_PER_COMMITTEE":         uint64(16),
		},
		Metadata: map[string]any{},
	}, nil
}

// c20Node is the beacon node as the real attester, messenger and aggregator see it.
type c20Node struct {
	mu      sync.Mutex
	p       uint64
	attOK   bool          // outcome of attestation data requests
	rootOK  bool          // outcome of head root requests
	gate    chan struct{} // when armed: AttestationData waits here
	arrived chan struct{}
	calls   int
}

func (n *c20Node) set(attOK, rootOK bool) {
	n.mu.Lock()
	n.attOK, n.rootOK = attOK, rootOK
	n.mu.Unlock()
}

func (n *c20Node) arm() (arrived chan struct{}, gate chan struct{}) {
	n.mu.Lock()
	defer n.mu.Unlock()
	n.gate = make(chan struct{})
	n.arrived = make(chan struct{})
	return n.arrived, n.gate
}

func (n *c20Node) disarm() {
	n.mu.Lock()
	n.gate, n.arrived = nil, nil
	n.mu.Unlock()
}

func (n *c20Node) AttestationData(_ context.Context, opts *api.AttestationDataOpts) (*api.Response[*phase0.AttestationData], error) {
	n.mu.Lock()
	n.calls++
	gate, arrived, ok := n.gate, n.arrived, n.attOK
	n.gate, n.arrived = nil, nil
	n.mu.Unlock()
	if gate != nil {
		close(arrived)
		<-gate
	}
	if !ok {
		return nil, errors.New("c20: beacon node does not answer")
	}
	epoch := uint64(opts.Slot) / n.p
	source := uint64(0)
	if epoch > 0 {
		source = epoch - 1
	}
	var root phase0.Root
	root[0] = 0x20
	binary.LittleEndian.PutUint64(root[8:16], uint64(opts.Slot))
	return &api.Response[*phase0.AttestationData]{
		Data: &phase0.AttestationData{
			Slot:            opts.Slot,
			Index:           opts.CommitteeIndex,
			BeaconBlockRoot: root,
			Source:          &phase0.Checkpoint{Epoch: phase0.Epoch(source), Root: root},
			Target:          &phase0.Checkpoint{Epoch: phase0.Epoch(epoch), Root: root},
		},
		Metadata: map[string]any{},
	}, nil
}

func (n *c20Node) BeaconBlockRoot(_ context.Context, _ *api.BeaconBlockRootOpts) (*api.Response[*phase0.Root], error) {
	n.mu.Lock()
	n.calls++
	ok := n.rootOK
	n.mu.Unlock()
	if !ok {
		return nil, errors.New("c20: beacon node does not answer")
	}
	var root phase0.Root
	root[0] = 0x21
	return &api.Response[*phase0.Root]{Data: &root, Metadata: map[string]any{}}, nil
}

func (n *c20Node) SyncCommitteeContribution(_ context.Context, opts *api.SyncCommitteeContributionOpts) (*api.Response[*altair.SyncCommitteeContribution], error) {
	bits := bitfield.NewBitvector128()
	bits.SetBitAt(1, true)
	c := &altair.SyncCommitteeContribution{
		Slot:              opts.Slot,
		BeaconBlockRoot:   opts.BeaconBlockRoot,
		SubcommitteeIndex: opts.SubcommitteeIndex,
		AggregationBits:   bits,
	}
	c.Signature[0] = 0xc0
	return &api.Response[*altair.SyncCommitteeContribution]{Data: c, Metadata: map[string]any{}}, nil
}

func (*c20Node) SubmitAttestations(_ context.Context, _ []*phase0.Attestation) error { return nil }

func (*c20Node) SubmitSyncCommitteeMessages(_ context.Context, _ []*altair.SyncCommitteeMessage) error {
	return nil
}

func (*c20Node) SubmitSyncCommitteeContributions(_ context.Context, _ []*altair.SignedContributionAndProof) error {
	return nil
}

// c20Signer signs everything with recognisable non-zero signatures; selection signatures are chosen so
// that the aggregator rule of the messenger gives what the scenario's aggregation mode asks for.
type c20Signer struct {
	agg string
}

func c20IsAgg(mode string, slot uint64) bool {
	switch mode {
	case "always":
		return true
	case "third":
		return slot%3 == 0
	}
	return false
}

func (*c20Signer) SignBeaconAttestations(_ context.Context, accounts []e2wtypes.Account, slot phase0.Slot,
	_ []phase0.CommitteeIndex, _ phase0.Root, _ phase0.Epoch, _ phase0.Root, _ phase0.Epoch, _ phase0.Root,
) ([]phase0.BLSSignature, error) {
	res := make([]phase0.BLSSignature, len(accounts))
	for i := range res {
		res[i][0] = 0xa7
		res[i][1] = byte(i + 1)
		binary.LittleEndian.PutUint64(res[i][8:16], uint64(slot))
	}
	return res, nil
}

func (s *c20Signer) SignSyncCommitteeSelections(_ context.Context, accounts []e2wtypes.Account, slot phase0.Slot, subs []uint64) ([]phase0.BLSSignature, error) {
	res := make([]phase0.BLSSignature, len(accounts))
	modulo := uint64(c20SyncSize / c20SyncSubnets / c20SyncTarget)
	want := c20IsAgg(s.agg, uint64(slot))
	for i := range accounts {
		var sig phase0.BLSSignature
		sig[0] = 0x5e
		binary.LittleEndian.PutUint64(sig[8:16], uint64(slot))
		binary.LittleEndian.PutUint64(sig[16:24], subs[i])
		sig[95] = byte(i + 1)
		for nonce := uint64(1); ; nonce++ {
			binary.LittleEndian.PutUint64(sig[24:32], nonce)
			h := sha256.Sum256(sig[:])
			if (binary.LittleEndian.Uint64(h[:8])%modulo == 0) == want {
				break
			}
		}
		res[i] = sig
	}
	return res, nil
}

func (*c20Signer) SignSyncCommitteeRoots(_ context.Context, accounts []e2wtypes.Account, epoch phase0.Epoch, _ phase0.Root) ([]phase0.BLSSignature, error) {
	res := make([]phase0.BLSSignature, len(accounts))
	for i := range res {
		res[i][0] = 0x5c
		res[i][1] = byte(i + 1)
		binary.LittleEndian.PutUint64(res[i][8:16], uint64(epoch))
	}
	return res, nil
}

func (*c20Signer) SignContributionAndProofs(_ context.Context, accounts []e2wtypes.Account, _ []*altair.ContributionAndProof) ([]phase0.BLSSignature, error) {
	res := make([]phase0.BLSSignature, len(accounts))
	for i := range res {
		res[i][0] = 0xcc
		res[i][1] = byte(i + 1)
	}
	return res, nil
}

// ---- the world --------------------------------------------------------------------------------------

type c20World struct {
	t       *testing.T
	sc      *c20Scenario
	p, ep   uint64
	verify  bool
	h       *c03Harness
	node    *c20Node
	att     *standardattester.Service
	mess    *standardsynccommitteemessenger.Service
	agg     *standardsynccommitteeaggregator.Service
	decided map[[2]uint64]bool // (epoch, version) for which the node's attester duties are fixed
	syncSet map[[2]uint64]bool
}

func c20Build(t *testing.T, sc *c20Scenario, st c20Step, ct chaintime.Service, slotDur time.Duration) *c20World {
	t.Helper()
	ctx := context.Background()
	w := &c20World{t: t, sc: sc, p: st.P, ep: st.EP, verify: st.Verify, decided: map[[2]uint64]bool{}, syncSet: map[[2]uint64]bool{}}
	cfg := c03Config{P: st.P, D: 12, EP: st.EP, Prep: 1, Fork: 0, FT: false, AttDelay: 4, PropDelay: 0, SyncDelay: 4, Vals: []uint64{1, 2, 3}}
	w.h = c03NewHarness(cfg, c03Oracle{})
	if ct == nil {
		ct = w.h.ChainTime
	}
	w.node = &c20Node{p: st.P, attOK: true, rootOK: true}
	spec := &c20Spec{p: st.P, ep: st.EP, slotDur: slotDur}
	signer := &c20Signer{agg: st.Agg}

	var err error
	w.att, err = standardattester.New(ctx,
		standardattester.WithLogLevel(zerolog.Disabled),
		standardattester.WithMonitor(nullmetrics.New()),
		standardattester.WithProcessConcurrency(2),
		standardattester.WithChainTime(ct),
		standardattester.WithSpecProvider(spec),
		standardattester.WithAttestationDataProvider(w.node),
		standardattester.WithAttestationsSubmitter(w.node),
		standardattester.WithValidatingAccountsProvider(w.h),
		standardattester.WithBeaconAttestationsSigner(signer),
	)
	if err != nil {
		t.Fatalf("c20: attester New: %v", err)
	}
	w.agg, err = standardsynccommitteeaggregator.New(ctx,
		standardsynccommitteeaggregator.WithLogLevel(zerolog.Disabled),
		standardsynccommitteeaggregator.WithMonitor(nullmetrics.New()),
		standardsynccommitteeaggregator.WithSpecProvider(spec),
		standardsynccommitteeaggregator.WithBeaconBlockRootProvider(w.node),
		standardsynccommitteeaggregator.WithContributionAndProofSigner(signer),
		standardsynccommitteeaggregator.WithValidatingAccountsProvider(w.h),
		standardsynccommitteeaggregator.WithSyncCommitteeContributionProvider(w.node),
		standardsynccommitteeaggregator.WithSyncCommitteeContributionsSubmitter(w.node),
		standardsynccommitteeaggregator.WithChainTime(ct),
	)
	if err != nil {
		t.Fatalf("c20: sync committee aggregator New: %v", err)
	}
	w.mess, err = standardsynccommitteemessenger.New(ctx,
		standardsynccommitteemessenger.WithLogLevel(zerolog.Disabled),
		standardsynccommitteemessenger.WithProcessConcurrency(2),
		standardsynccommitteemessenger.WithMonitor(nullmetrics.New()),
		standardsynccommitteemessenger.WithChainTimeService(ct),
		standardsynccommitteemessenger.WithSyncCommitteeAggregator(w.agg),
		standardsynccommitteemessenger.WithSpecProvider(spec),
		standardsynccommitteemessenger.WithBeaconBlockRootProvider(w.node),
		standardsynccommitteemessenger.WithSyncCommitteeMessagesSubmitter(w.node),
		standardsynccommitteemessenger.WithSyncCommitteeSubscriptionsSubmitter(mock.NewSyncCommitteeSubscriptionsSubmitter()),
		standardsynccommitteemessenger.WithValidatingAccountsProvider(w.h),
		standardsynccommitteemessenger.WithSyncCommitteeRootSigner(signer),
		standardsynccommitteemessenger.WithSyncCommitteeSelectionSigner(signer),
	)
	if err != nil {
		t.Fatalf("c20: sync committee messenger New: %v", err)
	}
	w.h.Attester = w.att
	w.h.Messenger = w.mess
	w.h.SyncAggregator = w.agg
	w.h.ExtraParams = []Parameter{WithVerifySyncCommitteeInclusion(st.Verify)}
	return w
}

// decide fixes the node's attester duties for (epoch, current version of its dependent root), unless
// they are fixed already: the i-th slot of d is the duty of validator i+1.
func (w *c20World) decide(epoch uint64, d []uint64) {
	w.h.mu.Lock()
	defer w.h.mu.Unlock()
	ver := w.h.ver(int64(epoch) - 1)
	key := [2]uint64{epoch, uint64(ver)}
	if w.decided[key] {
		return
	}
	w.decided[key] = true
	d = append([]uint64{}, d...)
	sort.Slice(d, func(i, j int) bool { return d[i] < d[j] })
	// forget what can no longer be asked for
	kept := w.h.Oracle.Att[:0]
	for _, x := range w.h.Oracle.Att {
		if x.E+3 >= epoch {
			kept = append(kept, x)
		}
	}
	w.h.Oracle.Att = kept
	for i, slot := range d {
		if i >= 3 {
			break
		}
		w.h.Oracle.Att = append(w.h.Oracle.Att, c03AttDuty{E: epoch, Ver: ver, V: uint64(i + 1), Slot: slot})
	}
}

// syncDuties makes validator 1 a member of the sync committees of the periods around epoch, at the
// versions of their dependent roots now in force.
func (w *c20World) syncDuties(epoch uint64) {
	w.h.mu.Lock()
	defer w.h.mu.Unlock()
	period := epoch / w.ep
	for p := period; p <= period+2; p++ {
		ver := w.h.ver((int64(p) - 1) * int64(w.ep))
		key := [2]uint64{p, uint64(ver)}
		if w.syncSet[key] {
			continue
		}
		w.syncSet[key] = true
		kept := w.h.Oracle.Sync[:0]
		for _, x := range w.h.Oracle.Sync {
			if x.P+2 >= period {
				kept = append(kept, x)
			}
		}
		w.h.Oracle.Sync = append(kept, c03SyncDuty{P: p, Ver: ver, V: 1})
	}
}

func c20Cap(xs []uint64) []uint64 {
	if len(xs) > c20LogCap {
		return xs[len(xs)-c20LogCap:]
	}
	return xs
}

func c20Sorted(set map[uint64]bool) []uint64 {
	res := make([]uint64, 0, len(set))
	for x := range set {
		res = append(res, x)
	}
	sort.Slice(res, func(i, j int) bool { return res[i] < res[j] })
	return res
}

// project is the state the trace specification looks at (call at quiescence, or while the only thing
// under way is an attestation held at the node's gate).
func (w *c20World) project(ev verifsupport.Ev, jobNames []string, now uint64) verifsupport.Ev {
	attjobs, prepjobs := map[uint64]bool{}, map[uint64]bool{}
	njobs := 0
	for _, name := range jobNames {
		k, n := c03ParseName(name)
		if name == "Epoch ticker" || name == "Account refresh ticker" || name == "Prepare proposals ticker" {
			continue // periodic
		}
		njobs++
		switch k {
		case "att":
			attjobs[n] = true
		case "prepepoch":
			prepjobs[n] = true
		}
	}
	pend := map[uint64]bool{}
	w.h.Svc.pendingAttestationsMutex.RLock()
	for slot, v := range w.h.Svc.pendingAttestations {
		if v {
			pend[uint64(slot)] = true
		}
	}
	w.h.Svc.pendingAttestationsMutex.RUnlock()
	has := map[uint64]bool{}
	lo := uint64(0)
	if now > 2*w.p {
		lo = now - 2*w.p
	}
	for s := lo; s <= now+3*w.p; s++ {
		if w.h.Svc.HasPendingAttestations(context.Background(), phase0.Slot(s)) {
			has[s] = true
		}
	}
	subs := map[uint64]bool{}
	w.h.Svc.subscriptionInfosMutex.Lock()
	for e := range w.h.Svc.subscriptionInfos {
		subs[uint64(e)] = true
	}
	w.h.Svc.subscriptionInfosMutex.Unlock()
	attested := w.att.VerifC20AttestedEpochs()
	roots := w.agg.VerifC20BeaconBlockRootSlots()
	records := w.mess.VerifC20SlotDataRecordSlots()
	fetched := map[uint64]bool{}
	for _, f := range w.h.TakeFetches() {
		if f.K == "att" {
			fetched[f.Key] = true
		}
	}
	ev["sc"] = w.sc.Sc
	ev["now"] = now
	ev["attjobs"] = c20Sorted(attjobs)
	ev["prepjobs"] = c20Sorted(prepjobs)
	ev["njobs"] = njobs
	ev["pend"] = c20Cap(c20Sorted(pend))
	ev["npend"] = len(pend)
	ev["has"] = c20Sorted(has)
	ev["haslo"] = lo
	ev["hashi"] = now + 3*w.p
	ev["attested"] = c20Cap(attested)
	ev["nattested"] = len(attested)
	ev["subs"] = c20Cap(c20Sorted(subs))
	ev["nsubs"] = len(subs)
	ev["roots"] = c20Cap(roots)
	ev["nroots"] = len(roots)
	ev["records"] = c20Cap(records)
	ev["nrecords"] = len(records)
	ev["fetched"] = c20Sorted(fetched)
	return ev
}

func (w *c20World) emit(tr *verifsupport.Trace, ev verifsupport.Ev) {
	names := []string{}
	if w.h.Sched != nil {
		names = w.h.Sched.ListJobs(context.Background())
	}
	tr.Emit(w.project(ev, names, w.h.Now()))
}

func (w *c20World) check(err error) {
	if err != nil {
		// a broken run (exit 2), never a verdict
		w.t.Fatalf("c20: scenario %d: %v", w.sc.Sc, err)
	}
}

// fireSilent runs every due job that has no step of its own in the specification (sync committee
// message preparation, attestation aggregation, proposals, anything unknown), earliest first.  None of
// them adds an entry to a map the specification looks at.
func (w *c20World) fireSilent() {
	for i := 0; i < 1000; i++ {
		horizon := w.h.ChainTime.StartOfSlot(phase0.Slot(w.h.Now() + 1))
		var pick *verifsupport.Job
		for _, j := range w.h.Sched.Snapshot() {
			j := j
			if j.Periodic || !j.Runtime.Before(horizon) {
				continue
			}
			switch k, _ := c03ParseName(j.Name); k {
			case "att", "syncmsg", "syncagg", "prepepoch":
				continue
			}
			if pick == nil || j.Runtime.Before(pick.Runtime) || (j.Runtime.Equal(pick.Runtime) && j.Name < pick.Name) {
				pick = &j
			}
		}
		if pick == nil {
			return
		}
		_, err := w.h.FireJob(pick.Name)
		w.check(err)
	}
	w.t.Fatalf("c20: scenario %d: due jobs do not run dry", w.sc.Sc)
}

// attest fires the attestation job of slot s: AttStart when its body has reached the node (the job has
// left the table), AttEnd when the body has returned.
func (w *c20World) attest(tr *verifsupport.Trace, s uint64, ok bool, scripted bool) {
	w.node.set(ok, true)
	arrived, gate := w.node.arm()
	w.h.begin()
	done := make(chan bool, 1)
	go func() { done <- w.h.Sched.Fire(w.h.Ctx, c03JobName("att", s)) }()
	fired, gated := false, false
	select {
	case <-arrived:
		gated = true
	case fired = <-done:
	case <-time.After(30 * time.Second):
		w.t.Fatalf("c20: scenario %d: attestation job for slot %d neither reached the node nor returned", w.sc.Sc, s)
	}
	if gated {
		w.emit(tr, verifsupport.Ev{"ev": "AttStart", "s": s})
		close(gate)
		select {
		case fired = <-done:
		case <-time.After(30 * time.Second):
			w.t.Fatalf("c20: scenario %d: attestation job for slot %d does not return", w.sc.Sc, s)
		}
	} else {
		w.node.disarm()
	}
	w.check(w.h.Quiesce())
	w.node.set(true, true)
	w.fireSilent()
	w.emit(tr, verifsupport.Ev{"ev": "AttEnd", "s": s, "ok": ok, "fired": fired, "gated": gated, "scripted": scripted})
}

func (w *c20World) syncMsg(tr *verifsupport.Trace, s uint64, ok bool, scripted bool) {
	w.node.set(true, ok)
	fired, err := w.h.FireJob(c03JobName("syncmsg", s))
	w.check(err)
	w.node.set(true, true)
	w.emit(tr, verifsupport.Ev{"ev": "SyncMsg", "s": s, "ok": ok, "fired": fired, "scripted": scripted})
}

func (w *c20World) syncAgg(tr *verifsupport.Trace, s uint64, scripted bool) {
	fired, err := w.h.FireJob(c03JobName("syncagg", s))
	w.check(err)
	w.emit(tr, verifsupport.Ev{"ev": "SyncAgg", "s": s, "fired": fired, "scripted": scripted})
}

func (w *c20World) prepare(tr *verifsupport.Trace, e uint64, scripted bool) {
	fired, err := w.h.FireJob(c03JobName("prepepoch", e))
	w.check(err)
	w.fireSilent()
	w.emit(tr, verifsupport.Ev{"ev": "Prepare", "e": e, "fired": fired, "scripted": scripted})
}

// finishSlot plays the timely scheduler for the jobs of the current slot that the scenario has not
// fired (the scenario is a suggestion made from the design; the table is what the code really did).
func (w *c20World) finishSlot(tr *verifsupport.Trace) {
	now := w.h.Now()
	for round := 0; round < 50; round++ {
		var name string
		var k string
		var n uint64
		for _, j := range w.h.Sched.Snapshot() {
			if j.Periodic {
				continue
			}
			jk, jn := c03ParseName(j.Name)
			due := false
			switch jk {
			case "att", "syncmsg", "syncagg":
				due = jn <= now
			case "prepepoch":
				due = jn <= now/w.p || (jn == now/w.p+1 && now%w.p == w.p-1)
			}
			if due && (name == "" || j.Runtime.Before(w.h.Sched.Get(name).Runtime)) {
				name, k, n = j.Name, jk, jn
			}
		}
		switch k {
		case "":
			return
		case "att":
			w.attest(tr, n, true, false)
		case "syncmsg":
			w.syncMsg(tr, n, true, false)
		case "syncagg":
			w.syncAgg(tr, n, false)
		case "prepepoch":
			w.prepare(tr, n, false)
		}
	}
	w.t.Fatalf("c20: scenario %d: the jobs of slot %d do not run dry", w.sc.Sc, now)
}

func c20RunScenario(t *testing.T, tr *verifsupport.Trace, sc *c20Scenario) {
	var w *c20World
	for _, st := range sc.Steps {
		switch st.Ev {
		case "Reset":
			w = c20Build(t, sc, st, nil, 12*time.Second)
			w.h.ChainTime.SetSlot(st.Now)
			tr.Emit(verifsupport.Ev{"sc": sc.Sc, "ev": "Reset", "p": st.P, "ep": st.EP, "verify": st.Verify, "agg": st.Agg, "now": st.Now, "fam": sc.Fam})
		case "Start":
			e := w.h.Now() / w.p
			w.decide(e, st.D0)
			w.decide(e+1, st.D1)
			w.syncDuties(e)
			w.check(w.h.Start(w.h.Now(), false))
			w.fireSilent()
			w.emit(tr, verifsupport.Ev{"ev": "Start"})
		case "Advance":
			w.finishSlot(tr)
			w.h.Advance()
			w.syncDuties(w.h.Now() / w.p)
			w.fireSilent()
			w.emit(tr, verifsupport.Ev{"ev": "Advance"})
		case "Tick":
			ok, err := w.h.FireTicker()
			w.check(err)
			w.fireSilent()
			w.emit(tr, verifsupport.Ev{"ev": "Tick", "fired": ok})
		case "Prepare":
			w.decide(st.E, st.D)
			w.prepare(tr, st.E, true)
		case "Head":
			e := w.h.Now() / w.p
			for i, r := range st.R {
				// the duties of epoch r hang on the root of boundary r-1
				w.h.Reorg(int64(r) - 1)
				if i < len(st.Dm) {
					w.decide(r, st.Dm[i])
				}
			}
			w.syncDuties(e)
			w.check(w.h.HeadEvent())
			w.fireSilent()
			r := st.R
			if r == nil {
				r = []uint64{}
			}
			w.emit(tr, verifsupport.Ev{"ev": "Head", "r": r})
		case "Att":
			w.attest(tr, st.S, st.Ok, true)
		case "SyncMsg":
			w.syncMsg(tr, st.S, st.Ok, true)
		case "SyncAgg":
			w.syncAgg(tr, st.S, true)
		default:
			t.Fatalf("c20: unknown step %q", st.Ev)
		}
	}
}

func c20Shard(t *testing.T, scenarios []c20Scenario, test string) bool {
	if os.Getenv("VERIF_C20_CHILD") != "" || len(scenarios) < 2 {
		return false
	}
	n := runtime.NumCPU() / 2
	if n > 8 {
		n = 8
	}
	if n > len(scenarios) {
		n = len(scenarios)
	}
	if n < 2 {
		return false
	}
	out := os.Getenv("VERIF_TRACE_OUT")
	if out == "" {
		return false
	}
	dir, err := os.MkdirTemp("", "c20shards")
	if err != nil {
		t.Fatalf("shards: %v", err)
	}
	defer os.RemoveAll(dir)
	var wg sync.WaitGroup
	errs := make([]error, n)
	logs := make([][]byte, n)
	for i := 0; i < n; i++ {
		var buf bytes.Buffer
		for k := i; k < len(scenarios); k += n {
			b, _ := json.Marshal(scenarios[k])
			buf.Write(b)
			buf.WriteByte('\n')
		}
		sp := filepath.Join(dir, fmt.Sprintf("scen-%d.ndjson", i))
		if err := os.WriteFile(sp, buf.Bytes(), 0o600); err != nil {
			t.Fatalf("shards: %v", err)
		}
		wg.Add(1)
		go func(i int) {
			defer wg.Done()
			cmd := exec.Command(os.Args[0], "-test.run", "^"+test+"$", "-test.timeout", "1500s")
			cmd.Env = append(os.Environ(), "VERIF_C20_CHILD=1", "VERIF_SCENARIOS="+sp,
				"VERIF_TRACE_OUT="+filepath.Join(dir, fmt.Sprintf("trace-%d.ndjson", i)))
			logs[i], errs[i] = cmd.CombinedOutput()
		}(i)
	}
	wg.Wait()
	f, err := os.Create(out)
	if err != nil {
		t.Fatalf("trace: %v", err)
	}
	defer f.Close()
	for i := 0; i < n; i++ {
		if errs[i] != nil {
			t.Fatalf("child %d failed: %v\n%s", i, errs[i], logs[i])
		}
		data, err := os.ReadFile(filepath.Join(dir, fmt.Sprintf("trace-%d.ndjson", i)))
		if err != nil {
			t.Fatalf("child %d left no trace: %v\n%s", i, err, logs[i])
		}
		f.Write(data)
	}
	return true
}

func TestVerifC20(t *testing.T) {
	var scenarios []c20Scenario
	verifsupport.Scenarios(t, &scenarios)
	if c20Shard(t, scenarios, "TestVerifC20") {
		return
	}
	tr := verifsupport.OpenTrace(t)
	defer tr.Close()
	for i := range scenarios {
		c20RunScenario(t, tr, &scenarios[i])
	}
}

// ---- the run on the real scheduler ------------------------------------------------------------------

// c20WallTime is a chain time that follows the wall clock (short slots).
type c20WallTime struct {
	genesis time.Time
	dur     time.Duration
	p       uint64
}

func (c *c20WallTime) GenesisTime() time.Time { return c.genesis }
func (c *c20WallTime) StartOfSlot(slot phase0.Slot) time.Time {
	return c.genesis.Add(time.Duration(slot) * c.dur)
}
func (c *c20WallTime) StartOfEpoch(epoch phase0.Epoch) time.Time {
	return c.genesis.Add(time.Duration(uint64(epoch)*c.p) * c.dur)
}
func (c *c20WallTime) CurrentSlot() phase0.Slot {
	d := time.Since(c.genesis)
	if d < 0 {
		return 0
	}
	return phase0.Slot(d / c.dur)
}
func (c *c20WallTime) CurrentEpoch() phase0.Epoch { return phase0.Epoch(uint64(c.CurrentSlot()) / c.p) }
func (c *c20WallTime) SlotToEpoch(slot phase0.Slot) phase0.Epoch {
	return phase0.Epoch(uint64(slot) / c.p)
}
func (c *c20WallTime) FirstSlotOfEpoch(epoch phase0.Epoch) phase0.Slot {
	return phase0.Slot(uint64(epoch) * c.p)
}

// c20RunReal replays the environment part of a scenario (duties, reorgs, head events and gaps, node
// outages) in real time; the jobs are run by the real scheduler.  One Sample line per epoch.
func c20RunReal(t *testing.T, tr *verifsupport.Trace, sc *c20Scenario) {
	ctx, cancel := context.WithCancel(context.Background())
	defer cancel()
	dur := time.Duration(sc.SlotMs) * time.Millisecond
	if dur <= 0 {
		dur = 150 * time.Millisecond
	}
	var w *c20World
	var wall *c20WallTime
	var sched *advancedscheduler.Service
	var handler func(*apiv1.Event)
	slot := uint64(0)
	sample := func(ev string) {
		now := uint64(wall.CurrentSlot())
		out := w.project(verifsupport.Ev{"ev": ev, "slotms": sc.SlotMs}, sched.ListJobs(ctx), now)
		// A mark or an attestation job for a slot that ended five and more slots ago belongs to no
		// job that is waiting or running.
		stale := func(xs []uint64) []uint64 {
			res := []uint64{}
			for _, x := range xs {
				if x+6 <= now {
					res = append(res, x)
				}
			}
			return res
		}
		out["stalepend"] = stale(out["pend"].([]uint64))
		out["stalejobs"] = stale(out["attjobs"].([]uint64))
		tr.Emit(out)
	}
	waitUntil := func(at time.Time) {
		if d := time.Until(at); d > 0 {
			time.Sleep(d)
		}
	}
	// The real prepare-for-epoch job runs at the start of the epoch when slots are this short: the
	// node must know the next epoch's duties by then.
	decideAhead := func(from int) {
		for _, nx := range sc.Steps[from:] {
			if nx.Ev == "Prepare" {
				w.decide(nx.E, nx.D)
				return
			}
		}
	}
	for i, st := range sc.Steps {
		switch st.Ev {
		case "Reset":
			wall = &c20WallTime{genesis: time.Now().Add(400 * time.Millisecond), dur: dur, p: st.P}
			w = c20Build(t, sc, st, wall, dur)
			var err error
			sched, err = advancedscheduler.New(ctx, advancedscheduler.WithLogLevel(zerolog.Disabled), advancedscheduler.WithMonitor(nullmetrics.New()))
			if err != nil {
				t.Fatalf("c20: scheduler New: %v", err)
			}
			w.h.Ctx = ctx
			w.h.ExtraParams = append(w.h.ExtraParams,
				WithChainTimeService(wall),
				WithScheduler(sched),
				WithSpecProvider(&c20Spec{p: st.P, ep: st.EP, slotDur: dur}),
				WithMaxAttestationDelay(dur/3),
				WithMaxSyncCommitteeMessageDelay(dur/3),
			)
			tr.Emit(verifsupport.Ev{"sc": sc.Sc, "ev": "Reset", "p": st.P, "ep": st.EP, "verify": st.Verify, "agg": st.Agg, "now": 0, "fam": sc.Fam})
		case "Start":
			w.decide(0, st.D0)
			w.decide(1, st.D1)
			w.syncDuties(0)
			decideAhead(i)
			// Start waits for quiescence by goroutine count, which the real scheduler's goroutines defeat: build directly.
			w.h.Sched = verifsupport.NewScheduler()
			params := c20RealParams(w)
			svc, err := New(ctx, params...)
			if err != nil {
				t.Fatalf("c20: controller New: %v", err)
			}
			w.h.Svc = svc
			handler = w.h.handlers["head"]
			if handler == nil {
				t.Fatalf("c20: no head event handler")
			}
		case "Advance":
			slot++
			waitUntil(wall.StartOfSlot(phase0.Slot(slot)))
			w.syncDuties(slot / w.p)
			if slot%w.p == 0 {
				decideAhead(i)
				sample("Sample")
			}
		case "Prepare":
			w.decide(st.E, st.D)
		case "Head":
			for i, r := range st.R {
				w.h.Reorg(int64(r) - 1)
				if i < len(st.Dm) {
					w.decide(r, st.Dm[i])
				}
			}
			waitUntil(wall.StartOfSlot(phase0.Slot(slot)).Add(dur / 6))
			now := uint64(wall.CurrentSlot())
			e := int64(now / w.p)
			w.h.mu.Lock()
			prev := c03Root(e-1, w.h.ver(e-1))
			cur := c03Root(e, w.h.ver(e))
			w.h.mu.Unlock()
			handler(&apiv1.Event{Topic: "head", Data: &apiv1.HeadEvent{
				Slot: phase0.Slot(now), Block: c03Root(200, int(now)), PreviousDutyDependentRoot: prev, CurrentDutyDependentRoot: cur,
			}})
		case "Att":
			w.node.mu.Lock()
			w.node.attOK = st.Ok
			w.node.mu.Unlock()
		case "SyncMsg":
			w.node.mu.Lock()
			w.node.rootOK = st.Ok
			w.node.mu.Unlock()
		case "Tick", "SyncAgg":
		default:
			t.Fatalf("c20: unknown step %q", st.Ev)
		}
	}
	// Let the last jobs finish (the chain goes on: a head event per slot, no reorg), then look once more.
	for k := uint64(1); k <= 8; k++ {
		waitUntil(wall.StartOfSlot(phase0.Slot(slot + k)).Add(dur / 6))
		now := uint64(wall.CurrentSlot())
		e := int64(now / w.p)
		w.h.mu.Lock()
		prev := c03Root(e-1, w.h.ver(e-1))
		cur := c03Root(e, w.h.ver(e))
		w.h.mu.Unlock()
		handler(&apiv1.Event{Topic: "head", Data: &apiv1.HeadEvent{
			Slot: phase0.Slot(now), Block: c03Root(200, int(now)), PreviousDutyDependentRoot: prev, CurrentDutyDependentRoot: cur,
		}})
	}
	sample("Sample")
	cancel()
	time.Sleep(50 * time.Millisecond)
}

// c20RealParams is the parameter list of c03Harness.Start (the harness cannot be used to start the
// service here: its quiescence rule counts goroutines).
func c20RealParams(w *c20World) []Parameter {
	h := w.h
	syncCommitteePreparationEpochs = h.Cfg.Prep
	params := []Parameter{
		WithLogLevel(zerolog.Disabled),
		WithMonitor(nullmetrics.New()),
		WithSpecProvider(h),
		WithChainTimeService(h.ChainTime),
		WithWaitedForGenesis(false),
		WithProposerDutiesProvider(h),
		WithAttesterDutiesProvider(h),
		WithSyncCommitteeDutiesProvider(h),
		WithEventsProvider(h),
		WithValidatingAccountsProvider(h),
		WithProposalsPreparer(h),
		WithScheduler(h.Sched),
		WithAttester(h.Attester),
		WithSyncCommitteeMessenger(h.Messenger),
		WithSyncCommitteeAggregator(h.SyncAggregator),
		WithSyncCommitteeSubscriber(h.SyncSubscriber),
		WithBeaconBlockProposer(h.Proposer),
		WithBeaconCommitteeSubscriber(h.BeaconCommitteeSubscriber),
		WithAttestationAggregator(h.AttAggregator),
		WithAccountsRefresher(h),
		WithBlockToSlotSetter(c20NoCache{}),
		WithBeaconBlockHeadersProvider(h),
		WithSignedBeaconBlockProvider(mock.NewSignedBeaconBlockProvider()),
		WithMaxProposalDelay(0),
		WithFastTrackAttestations(false),
		WithFastTrackSyncCommittees(false),
		WithFastTrackGrace(0),
	}
	return append(params, h.ExtraParams...)
}

type c20NoCache struct{}

func (c20NoCache) SetBlockRootToSlot(_ phase0.Root, _ phase0.Slot) {}

func TestVerifC20Real(t *testing.T) {
	var scenarios []c20Scenario
	verifsupport.Scenarios(t, &scenarios)
	if c20Shard(t, scenarios, "TestVerifC20Real") {
		return
	}
	tr := verifsupport.OpenTrace(t)
	defer tr.Close()
	for i := range scenarios {
		c20RunReal(t, tr, &scenarios[i])
	}
}
