package standard

// Conformance driver for property C20 (spec/Bounded.tla, Trace_Bounded.tla), part (a): long runs.
// Injected with -overlay by /verif/check; nothing of it is committed to the repository.
//
// Binding: the REAL controller (through the harness of zz_verif_c03_harness_test.go: virtual chain
// time, recording scheduler whose jobs the driver fires explicitly, scripted beacon node and accounts)
// wired to the REAL attester/standard.Service, the REAL synccommitteemessenger/standard.Service and
// the REAL synccommitteeaggregator/standard.Service.  Scripted: attestation data provider (gate + outcome),
// signers, submitters, head root and contribution providers.
//
// A scenario is a TLC-simulated behaviour of Scen_Bounded.tla (one step per spec action: Start, Tick,
// Head with or without duty refresh, Resched, Prepare, AttStart, AttEnd, Probe, SyncMsg, SyncAgg, Advance) of 64
// and more epochs (long runs) or of 11 epochs with a refresh of the current epoch only while one of its
// attestation jobs is running (in-flight batch).  After every step, at quiescence, the driver logs the domains
// of the bookkeeping maps (package-internal projections / the VerifC20* seams), the pending-attestation marks,
// HasPendingAttestations for all recent slots, the job table of the recording scheduler and the set of
// attestation jobs that are running.
//
// Attestation jobs have duration: AttStart fires the job on its own goroutine and leaves it at the node's
// gate (the real attester is inside AttestationData: the job has left the table, its body runs); every
// later step - head events delivered through the real HandleHeadEvent, with a refresh of the running job's
// epoch (CancelJob fails for it), with the node's reply to the refresh's duty request kept back (Head split,
// Resched), the next slot's job, the clock, probes - happens with the job in flight, until AttEnd opens the gate.
//
// TestVerifC20Real is the second, shorter run: the same services on the REAL scheduler
// (scheduler/advanced) with a wall-clock chain time of short slots; it samples the job table and the
// maps once per epoch.

import (
	"bytes"
	"context"
	"crypto/sha256"
	"encoding/binary"
	"encoding/json"
	"errors"
	"fmt"
	"os"
	"os/exec"
	"path/filepath"
	"runtime"
	"sort"
	"sync"
	"testing"
	"time"

	"github.com/attestantio/go-eth2-client/api"
	apiv1 "github.com/attestantio/go-eth2-client/api/v1"
	"github.com/attestantio/go-eth2-client/spec/altair"
	"github.com/attestantio/go-eth2-client/spec/phase0"
	"github.com/attestantio/vouch/mock"
	standardattester "github.com/attestantio/vouch/services/attester/standard"
	"github.com/attestantio/vouch/services/beaconcommitteesubscriber"
	"github.com/attestantio/vouch/services/chaintime"
	nullmetrics "github.com/attestantio/vouch/services/metrics/null"
	advancedscheduler "github.com/attestantio/vouch/services/scheduler/advanced"
	standardsynccommitteeaggregator "github.com/attestantio/vouch/services/synccommitteeaggregator/standard"
	standardsynccommitteemessenger "github.com/attestantio/vouch/services/synccommitteemessenger/standard"
	"github.com/attestantio/vouch/verifsupport"
	"github.com/prysmaticlabs/go-bitfield"
	"github.com/rs/zerolog"
	e2wtypes "github.com/wealdtech/go-eth2-wallet-types/v2"
)

const (
	c20SyncSize    = 512
	c20SyncSubnets = 4
	c20SyncTarget  = 16 // aggregator modulo = 512 / 4 / 16 = 8
	c20LogCap      = 200
)

type c20Step struct {
	Ev     string     `json:"ev"`
	P      uint64     `json:"p"`
	EP     uint64     `json:"ep"`
	G      uint64     `json:"g"` // Env_OutageBounded of the scenario's specification
	Verify bool       `json:"verify"`
	Agg    string     `json:"agg"` // never | third | always
	Now    uint64     `json:"now"`
	D0     []uint64   `json:"d0"`
	D1     []uint64   `json:"d1"`
	E      uint64     `json:"e"`
	D      []uint64   `json:"d"`
	R      []uint64   `json:"r"`
	Dm     [][]uint64 `json:"dm"`
	S      uint64     `json:"s"`
	Ok     bool       `json:"ok"`
	Split  bool       `json:"split"` // Head: the node answers the refresh's duty request late (Resched)
	N      uint64     `json:"n"`     // Resched: the number of the scheduling pass among those of its epoch (wired family)
	K      uint64     `json:"k"`     // MsgStart / AttStart / Prepare: the node answers k slots later (the scenario has the MsgEnd / AttEnd / SubEnd step there)
}

type c20Scenario struct {
	Sc     int       `json:"sc"`
	Fam    string    `json:"fam"`
	SlotMs int       `json:"slotms"` // real run: slot duration in ms
	Steps  []c20Step `json:"steps"`
}

// ---- scripted collaborators of the real duty services -----------------------------------------------

// c20Spec serves the spec values the real services read.
type c20Spec struct {
	p, ep   uint64
	slotDur time.Duration
}

func (s *c20Spec) Spec(_ context.Context, _ *api.SpecOpts) (*api.Response[map[string]any], error) {
	return &api.Response[map[string]any]{
		Data: map[string]any{
			"SECONDS_PER_SLOT":                         s.slotDur,
			"SLOTS_PER_EPOCH":                          s.p,
			"EPOCHS_PER_SYNC_COMMITTEE_PERIOD":         s.ep,
			"ALTAIR_FORK_EPOCH":                        uint64(0),
			"SYNC_COMMITTEE_SIZE":                      uint64(c20SyncSize),
			"SYNC_COMMITTEE_SUBNET_COUNT":              uint64(c20SyncSubnets),
			"TARGET_AGGREGATORS_PER_SYNC_SUBCOMMITTEE": uint64(c20SyncTarget),
			"TARGET_AGGREGATORS_PER_COMMITTEE":         uint64(16),
		},
		Metadata: map[string]any{},
	}, nil
}

// c20Gate holds the attestation data request of one slot: the attestation is in flight while it waits.
type c20Gate struct {
	arrived chan struct{} // closed when the request is with the node
	release chan struct{} // closed by the driver: the node answers
	ok      bool          // the answer
	taken   bool
}

// c20Node is the beacon node as the real attester, messenger and aggregator see it.
type c20Node struct {
	mu      sync.Mutex
	p       uint64
	attOK   bool                // outcome of attestation data requests that no gate waits for
	rootOK  bool                // outcome of head root requests
	gates   map[uint64]*c20Gate // slot -> armed gate: AttestationData for the slot waits there
	outcome map[uint64]bool     // slot -> outcome (real run), default attOK
	calls   int
	// slots for which attestations were submitted (the attestation run succeeded)
	submitted map[uint64]bool
}

func (n *c20Node) didSubmit(slot uint64) bool {
	n.mu.Lock()
	defer n.mu.Unlock()
	return n.submitted[slot]
}

func (n *c20Node) set(attOK, rootOK bool) {
	n.mu.Lock()
	n.attOK, n.rootOK = attOK, rootOK
	n.mu.Unlock()
}

func (n *c20Node) setOutcome(slot uint64, ok bool) {
	n.mu.Lock()
	if n.outcome == nil {
		n.outcome = map[uint64]bool{}
	}
	n.outcome[slot] = ok
	for s := range n.outcome {
		if s+64 < slot {
			delete(n.outcome, s)
		}
	}
	n.mu.Unlock()
}

// arm makes the next attestation data request for slot wait until the gate is released.
func (n *c20Node) arm(slot uint64, ok bool) *c20Gate {
	n.mu.Lock()
	defer n.mu.Unlock()
	if n.gates == nil {
		n.gates = map[uint64]*c20Gate{}
	}
	g := &c20Gate{arrived: make(chan struct{}), release: make(chan struct{}), ok: ok}
	n.gates[slot] = g
	return g
}

// disarm removes a gate nobody has arrived at; false if the request is waiting there already.
func (n *c20Node) disarm(slot uint64, g *c20Gate) bool {
	n.mu.Lock()
	defer n.mu.Unlock()
	if g.taken {
		return false
	}
	if n.gates[slot] == g {
		delete(n.gates, slot)
	}
	return true
}

func (n *c20Node) AttestationData(_ context.Context, opts *api.AttestationDataOpts) (*api.Response[*phase0.AttestationData], error) {
	n.mu.Lock()
	n.calls++
	ok := n.attOK
	if o, set := n.outcome[uint64(opts.Slot)]; set {
		ok = o
	}
	g := n.gates[uint64(opts.Slot)]
	if g != nil {
		delete(n.gates, uint64(opts.Slot))
		g.taken = true
		ok = g.ok
	}
	n.mu.Unlock()
	if g != nil {
		close(g.arrived)
		<-g.release
	}
	if !ok {
		return nil, errors.New("c20: beacon node does not answer")
	}
	epoch := uint64(opts.Slot) / n.p
	source := uint64(0)
	if epoch > 0 {
		source = epoch - 1
	}
	var root phase0.Root
	root[0] = 0x20
	binary.LittleEndian.PutUint64(root[8:16], uint64(opts.Slot))
	return &api.Response[*phase0.AttestationData]{
		Data: &phase0.AttestationData{
			Slot:            opts.Slot,
			Index:           opts.CommitteeIndex,
			BeaconBlockRoot: root,
			Source:          &phase0.Checkpoint{Epoch: phase0.Epoch(source), Root: root},
			Target:          &phase0.Checkpoint{Epoch: phase0.Epoch(epoch), Root: root},
		},
		Metadata: map[string]any{},
	}, nil
}

func (n *c20Node) BeaconBlockRoot(_ context.Context, _ *api.BeaconBlockRootOpts) (*api.Response[*phase0.Root], error) {
	n.mu.Lock()
	n.calls++
	ok := n.rootOK
	n.mu.Unlock()
	return c20HeadRoot(ok)
}

func c20HeadRoot(ok bool) (*api.Response[*phase0.Root], error) {
	if !ok {
		return nil, errors.New("c20: beacon node does not answer")
	}
	var root phase0.Root
	root[0] = 0x21
	return &api.Response[*phase0.Root]{Data: &root, Metadata: map[string]any{}}, nil
}

// c20RootGate holds one head root request of the messenger: the sync committee message job of the slot is in
// flight (inside Message(), before SetBeaconBlockRoot / UpdateSyncCommitteeDataRecord) while it waits.
type c20RootGate struct {
	slot    uint64
	arrived chan struct{} // closed when the request is with the node
	ok      bool          // the answer (fixed when the node is let answer)
	taken   bool
}

// c20Roots is the beacon node as the REAL sync committee messenger sees it for its head root requests (the
// aggregator asks c20Node directly).  The request carries no slot: the driver arms a gate for the NEXT request
// before it starts the job of the slot.  A request that waits is entered in the harness' list of kept-back
// replies (kind "c20root", key = slot), so that the harness' quiescence rule accounts for its goroutine.
type c20Roots struct {
	h    *c03Harness
	node *c20Node
	mu   sync.Mutex
	next *c20RootGate
}

func (r *c20Roots) arm(slot uint64) *c20RootGate {
	g := &c20RootGate{slot: slot, arrived: make(chan struct{}), ok: true}
	r.mu.Lock()
	r.next = g
	r.mu.Unlock()
	return g
}

// disarm removes a gate nobody has arrived at; false if the request is waiting there already.
func (r *c20Roots) disarm(g *c20RootGate) bool {
	r.mu.Lock()
	defer r.mu.Unlock()
	if g.taken {
		return false
	}
	if r.next == g {
		r.next = nil
	}
	return true
}

func (r *c20Roots) BeaconBlockRoot(ctx context.Context, opts *api.BeaconBlockRootOpts) (*api.Response[*phase0.Root], error) {
	r.mu.Lock()
	g := r.next
	r.next = nil
	if g != nil {
		g.taken = true
	}
	r.mu.Unlock()
	if g == nil {
		return r.node.BeaconBlockRoot(ctx, opts)
	}
	x := &c03Held{K: "c20root", Key: g.slot, release: make(chan struct{})}
	r.h.mu.Lock()
	r.h.calls++
	r.h.held = append(r.h.held, x)
	r.h.mu.Unlock()
	close(g.arrived)
	<-x.release
	r.mu.Lock()
	ok := g.ok
	r.mu.Unlock()
	return c20HeadRoot(ok)
}

// c20Subscriber is the beacon committee subscriber the controller is given: the harness' recording fake behind a
// gate per epoch.  While Subscribe(epoch) waits (kind "c20sub", key = epoch) subscriptionInfos[epoch] is not set:
// the subscription completes - however late - when the driver releases it (SubEnd).
type c20Subscriber struct {
	h     *c03Harness
	inner beaconcommitteesubscriber.Service
	mu    sync.Mutex
	armed map[uint64]bool
}

func (s *c20Subscriber) arm(epoch uint64, on bool) {
	s.mu.Lock()
	if s.armed == nil {
		s.armed = map[uint64]bool{}
	}
	if on {
		s.armed[epoch] = true
	} else {
		delete(s.armed, epoch)
	}
	s.mu.Unlock()
}

func (s *c20Subscriber) Subscribe(ctx context.Context, epoch phase0.Epoch, accounts map[phase0.ValidatorIndex]e2wtypes.Account,
) (map[phase0.Slot]map[phase0.CommitteeIndex]*beaconcommitteesubscriber.Subscription, error) {
	s.mu.Lock()
	hold := s.armed[uint64(epoch)]
	delete(s.armed, uint64(epoch))
	s.mu.Unlock()
	if hold {
		x := &c03Held{K: "c20sub", Key: uint64(epoch), release: make(chan struct{})}
		s.h.mu.Lock()
		s.h.calls++
		s.h.held = append(s.h.held, x)
		s.h.mu.Unlock()
		<-x.release
	}
	return s.inner.Subscribe(ctx, epoch, accounts)
}

// c20HeldKeys lists the keys of the calls of kind k that wait at a c20 gate.
func (w *c20World) heldKeys(k string) []uint64 {
	res := map[uint64]bool{}
	for _, c := range w.h.Held() {
		if c.K == k {
			res[c.Key] = true
		}
	}
	return c20Sorted(res)
}

// releaseRaw lets the oldest call (k, key) through without the harness' quiescence wait (the run on the real
// scheduler: its goroutines defeat the rule).
func (w *c20World) releaseRaw(k string, key uint64) bool {
	w.h.mu.Lock()
	var x *c03Held
	for i, c := range w.h.held {
		if c.K == k && c.Key == key {
			x = c
			w.h.held = append(w.h.held[:i], w.h.held[i+1:]...)
			break
		}
	}
	w.h.mu.Unlock()
	if x == nil {
		return false
	}
	close(x.release)
	return true
}

func (n *c20Node) SyncCommitteeContribution(_ context.Context, opts *api.SyncCommitteeContributionOpts) (*api.Response[*altair.SyncCommitteeContribution], error) {
	bits := bitfield.NewBitvector128()
	bits.SetBitAt(1, true)
	c := &altair.SyncCommitteeContribution{
		Slot:              opts.Slot,
		BeaconBlockRoot:   opts.BeaconBlockRoot,
		SubcommitteeIndex: opts.SubcommitteeIndex,
		AggregationBits:   bits,
	}
	c.Signature[0] = 0xc0
	return &api.Response[*altair.SyncCommitteeContribution]{Data: c, Metadata: map[string]any{}}, nil
}

func (n *c20Node) SubmitAttestations(_ context.Context, atts []*phase0.Attestation) error {
	n.mu.Lock()
	if n.submitted == nil {
		n.submitted = map[uint64]bool{}
	}
	for _, a := range atts {
		if a != nil && a.Data != nil {
			n.submitted[uint64(a.Data.Slot)] = true
			delete(n.submitted, uint64(a.Data.Slot)-256)
		}
	}
	n.mu.Unlock()
	return nil
}

func (*c20Node) SubmitSyncCommitteeMessages(_ context.Context, _ []*altair.SyncCommitteeMessage) error {
	return nil
}

func (*c20Node) SubmitSyncCommitteeContributions(_ context.Context, _ []*altair.SignedContributionAndProof) error {
	return nil
}

// c20Signer signs everything with recognisable non-zero signatures; selection signatures are chosen so
// that the aggregator rule of the messenger gives what the scenario's aggregation mode asks for.
type c20Signer struct {
	agg string
}

func c20IsAgg(mode string, slot uint64) bool {
	switch mode {
	case "always":
		return true
	case "third":
		return slot%3 == 0
	}
	return false
}

func (*c20Signer) SignBeaconAttestations(_ context.Context, accounts []e2wtypes.Account, slot phase0.Slot,
	_ []phase0.CommitteeIndex, _ phase0.Root, _ phase0.Epoch, _ phase0.Root, _ phase0.Epoch, _ phase0.Root,
) ([]phase0.BLSSignature, error) {
	res := make([]phase0.BLSSignature, len(accounts))
	for i := range res {
		res[i][0] = 0xa7
		res[i][1] = byte(i + 1)
		binary.LittleEndian.PutUint64(res[i][8:16], uint64(slot))
	}
	return res, nil
}

func (s *c20Signer) SignSyncCommitteeSelections(_ context.Context, accounts []e2wtypes.Account, slot phase0.Slot, subs []uint64) ([]phase0.BLSSignature, error) {
	res := make([]phase0.BLSSignature, len(accounts))
	modulo := uint64(c20SyncSize / c20SyncSubnets / c20SyncTarget)
	want := c20IsAgg(s.agg, uint64(slot))
	for i := range accounts {
		var sig phase0.BLSSignature
		sig[0] = 0x5e
		binary.LittleEndian.PutUint64(sig[8:16], uint64(slot))
		binary.LittleEndian.PutUint64(sig[16:24], subs[i])
		sig[95] = byte(i + 1)
		for nonce := uint64(1); ; nonce++ {
			binary.LittleEndian.PutUint64(sig[24:32], nonce)
			h := sha256.Sum256(sig[:])
			if (binary.LittleEndian.Uint64(h[:8])%modulo == 0) == want {
				break
			}
		}
		res[i] = sig
	}
	return res, nil
}

func (*c20Signer) SignSyncCommitteeRoots(_ context.Context, accounts []e2wtypes.Account, epoch phase0.Epoch, _ phase0.Root) ([]phase0.BLSSignature, error) {
	res := make([]phase0.BLSSignature, len(accounts))
	for i := range res {
		res[i][0] = 0x5c
		res[i][1] = byte(i + 1)
		binary.LittleEndian.PutUint64(res[i][8:16], uint64(epoch))
	}
	return res, nil
}

func (*c20Signer) SignContributionAndProofs(_ context.Context, accounts []e2wtypes.Account, _ []*altair.ContributionAndProof) ([]phase0.BLSSignature, error) {
	res := make([]phase0.BLSSignature, len(accounts))
	for i := range res {
		res[i][0] = 0xcc
		res[i][1] = byte(i + 1)
	}
	return res, nil
}

// ---- the world --------------------------------------------------------------------------------------

type c20World struct {
	t       *testing.T
	sc      *c20Scenario
	p, ep   uint64
	verify  bool
	h       *c03Harness
	node    *c20Node
	att     *standardattester.Service
	mess    *standardsynccommitteemessenger.Service
	agg     *standardsynccommitteeaggregator.Service
	decided map[[2]uint64]bool // (epoch, version) for which the node's attester duties are fixed
	syncSet map[[2]uint64]bool
	flights map[uint64]*c20Flight // attestation jobs that are running (held at the node's gate), by slot
	roots   *c20Roots             // the node's head roots as the messenger gets them (gate)
	subsc   *c20Subscriber        // beacon committee subscriber (gate)
	// sync committee message jobs that are running (their head root request held at the node), by slot
	msgFlights map[uint64]*c20MsgFlight
	// scripted steps still to come that end a call under way: kind (att, msg, sub) -> key -> count.  A call that
	// the scenario means to end later is left in flight when the slot ends (it completes out of order).
	endsAhead map[string]map[uint64]int
	// Env_OutageBounded as it really happened: epochs in which an attestation job ran / one succeeded
	g         uint64
	ran, succ map[uint64]bool
}

// mayFail: would a failing attestation data request for slot s keep within Env_OutageBounded?  The
// scenario's failures respect it on the design's job table; the code's table can differ (a refresh the code
// did not make, validators that have attested in the epoch already): the harness must not break the
// assumption itself, so it lets the node answer when G epochs with attestations but without success precede.
func (w *c20World) mayFail(s uint64) bool {
	e := s / w.p
	if w.succ[e] {
		return true
	}
	gap := uint64(0)
	for k := e; k > 0 && gap < w.g; {
		k--
		if w.succ[k] {
			break
		}
		if w.ran[k] {
			gap++
		}
	}
	return gap < w.g
}

// c20MsgFlight is a sync committee message job in flight.
type c20MsgFlight struct {
	gate     *c20RootGate
	done     chan bool
	scripted bool
}

// c20Flight is an attestation job in flight.
type c20Flight struct {
	gate     *c20Gate
	done     chan bool
	ok       bool
	scripted bool
}

func c20Build(t *testing.T, sc *c20Scenario, st c20Step, ct chaintime.Service, slotDur time.Duration) *c20World {
	t.Helper()
	ctx := context.Background()
	w := &c20World{t: t, sc: sc, p: st.P, ep: st.EP, verify: st.Verify, decided: map[[2]uint64]bool{}, syncSet: map[[2]uint64]bool{},
		flights: map[uint64]*c20Flight{}, g: st.G, ran: map[uint64]bool{}, succ: map[uint64]bool{},
		msgFlights: map[uint64]*c20MsgFlight{}, endsAhead: map[string]map[uint64]int{"att": {}, "msg": {}, "sub": {}}}
	for _, x := range sc.Steps {
		switch x.Ev {
		case "AttEnd":
			w.endsAhead["att"][x.S]++
		case "MsgEnd":
			w.endsAhead["msg"][x.S]++
		case "SubEnd":
			w.endsAhead["sub"][x.E]++
		}
	}
	if w.g == 0 {
		w.g = 2
	}
	cfg := c03Config{P: st.P, D: 12, EP: st.EP, Prep: 1, Fork: 0, FT: false, AttDelay: 4, PropDelay: 0, SyncDelay: 4, Vals: []uint64{1, 2, 3}}
	w.h = c03NewHarness(cfg, c03Oracle{})
	if ct == nil {
		ct = w.h.ChainTime
	}
	w.node = &c20Node{p: st.P, attOK: true, rootOK: true}
	w.roots = &c20Roots{h: w.h, node: w.node}
	w.subsc = &c20Subscriber{h: w.h, inner: w.h.BeaconCommitteeSubscriber}
	w.h.BeaconCommitteeSubscriber = w.subsc
	spec := &c20Spec{p: st.P, ep: st.EP, slotDur: slotDur}
	signer := &c20Signer{agg: st.Agg}

	var err error
	w.att, err = standardattester.New(ctx,
		standardattester.WithLogLevel(zerolog.Disabled),
		standardattester.WithMonitor(nullmetrics.New()),
		standardattester.WithProcessConcurrency(2),
		standardattester.WithChainTime(ct),
		standardattester.WithSpecProvider(spec),
		standardattester.WithAttestationDataProvider(w.node),
		standardattester.WithAttestationsSubmitter(w.node),
		standardattester.WithValidatingAccountsProvider(w.h),
		standardattester.WithBeaconAttestationsSigner(signer),
	)
	if err != nil {
		t.Fatalf("c20: attester New: %v", err)
	}
	w.agg, err = standardsynccommitteeaggregator.New(ctx,
		standardsynccommitteeaggregator.WithLogLevel(zerolog.Disabled),
		standardsynccommitteeaggregator.WithMonitor(nullmetrics.New()),
		standardsynccommitteeaggregator.WithSpecProvider(spec),
		standardsynccommitteeaggregator.WithBeaconBlockRootProvider(w.node),
		standardsynccommitteeaggregator.WithContributionAndProofSigner(signer),
		standardsynccommitteeaggregator.WithValidatingAccountsProvider(w.h),
		standardsynccommitteeaggregator.WithSyncCommitteeContributionProvider(w.node),
		standardsynccommitteeaggregator.WithSyncCommitteeContributionsSubmitter(w.node),
		standardsynccommitteeaggregator.WithChainTime(ct),
	)
	if err != nil {
		t.Fatalf("c20: sync committee aggregator New: %v", err)
	}
	w.mess, err = standardsynccommitteemessenger.New(ctx,
		standardsynccommitteemessenger.WithLogLevel(zerolog.Disabled),
		standardsynccommitteemessenger.WithProcessConcurrency(2),
		standardsynccommitteemessenger.WithMonitor(nullmetrics.New()),
		standardsynccommitteemessenger.WithChainTimeService(ct),
		standardsynccommitteemessenger.WithSyncCommitteeAggregator(w.agg),
		standardsynccommitteemessenger.WithSpecProvider(spec),
		standardsynccommitteemessenger.WithBeaconBlockRootProvider(w.roots),
		standardsynccommitteemessenger.WithSyncCommitteeMessagesSubmitter(w.node),
		standardsynccommitteemessenger.WithSyncCommitteeSubscriptionsSubmitter(mock.NewSyncCommitteeSubscriptionsSubmitter()),
		standardsynccommitteemessenger.WithValidatingAccountsProvider(w.h),
		standardsynccommitteemessenger.WithSyncCommitteeRootSigner(signer),
		standardsynccommitteemessenger.WithSyncCommitteeSelectionSigner(signer),
	)
	if err != nil {
		t.Fatalf("c20: sync committee messenger New: %v", err)
	}
	w.h.Attester = w.att
	w.h.Messenger = w.mess
	w.h.SyncAggregator = w.agg
	w.h.ExtraParams = []Parameter{WithVerifySyncCommitteeInclusion(st.Verify)}
	return w
}

// decide fixes the node's attester duties for (epoch, current version of its dependent root), unless
// they are fixed already: the i-th slot of d is the duty of validator i+1.
func (w *c20World) decide(epoch uint64, d []uint64) {
	w.h.mu.Lock()
	defer w.h.mu.Unlock()
	ver := w.h.ver(int64(epoch) - 1)
	key := [2]uint64{epoch, uint64(ver)}
	if w.decided[key] {
		return
	}
	w.decided[key] = true
	d = append([]uint64{}, d...)
	sort.Slice(d, func(i, j int) bool { return d[i] < d[j] })
	// forget what can no longer be asked for
	kept := w.h.Oracle.Att[:0]
	for _, x := range w.h.Oracle.Att {
		if x.E+3 >= epoch {
			kept = append(kept, x)
		}
	}
	w.h.Oracle.Att = kept
	for i, slot := range d {
		if i >= 3 {
			break
		}
		w.h.Oracle.Att = append(w.h.Oracle.Att, c03AttDuty{E: epoch, Ver: ver, V: uint64(i + 1), Slot: slot})
	}
}

// syncDuties makes validator 1 a member of the sync committees of the periods around epoch, at the
// versions of their dependent roots now in force.
func (w *c20World) syncDuties(epoch uint64) {
	w.h.mu.Lock()
	defer w.h.mu.Unlock()
	period := epoch / w.ep
	for p := period; p <= period+2; p++ {
		ver := w.h.ver((int64(p) - 1) * int64(w.ep))
		key := [2]uint64{p, uint64(ver)}
		if w.syncSet[key] {
			continue
		}
		w.syncSet[key] = true
		kept := w.h.Oracle.Sync[:0]
		for _, x := range w.h.Oracle.Sync {
			if x.P+2 >= period {
				kept = append(kept, x)
			}
		}
		w.h.Oracle.Sync = append(kept, c03SyncDuty{P: p, Ver: ver, V: 1})
	}
}

func c20Cap(xs []uint64) []uint64 {
	if len(xs) > c20LogCap {
		return xs[len(xs)-c20LogCap:]
	}
	return xs
}

func c20Sorted(set map[uint64]bool) []uint64 {
	res := make([]uint64, 0, len(set))
	for x := range set {
		res = append(res, x)
	}
	sort.Slice(res, func(i, j int) bool { return res[i] < res[j] })
	return res
}

// project is the state the trace specification looks at (call at quiescence, or while the only thing
// under way is an attestation held at the node's gate).
func (w *c20World) project(ev verifsupport.Ev, jobNames []string, now uint64) verifsupport.Ev {
	attjobs, prepjobs := map[uint64]bool{}, map[uint64]bool{}
	njobs := 0
	for _, name := range jobNames {
		k, n := c03ParseName(name)
		if name == "Epoch ticker" || name == "Account refresh ticker" || name == "Prepare proposals ticker" {
			continue // periodic
		}
		njobs++
		switch k {
		case "att":
			attjobs[n] = true
		case "prepepoch":
			prepjobs[n] = true
		}
	}
	pend := map[uint64]bool{}
	w.h.Svc.pendingAttestationsMutex.RLock()
	for slot, v := range w.h.Svc.pendingAttestations {
		if v {
			pend[uint64(slot)] = true
		}
	}
	w.h.Svc.pendingAttestationsMutex.RUnlock()
	has := map[uint64]bool{}
	lo := uint64(0)
	if now > 2*w.p {
		lo = now - 2*w.p
	}
	for s := lo; s <= now+3*w.p; s++ {
		if w.h.Svc.HasPendingAttestations(context.Background(), phase0.Slot(s)) {
			has[s] = true
		}
	}
	subs := map[uint64]bool{}
	w.h.Svc.subscriptionInfosMutex.Lock()
	for e := range w.h.Svc.subscriptionInfos {
		subs[uint64(e)] = true
	}
	w.h.Svc.subscriptionInfosMutex.Unlock()
	attested := w.att.VerifC20AttestedEpochs()
	roots := w.agg.VerifC20BeaconBlockRootSlots()
	records := w.mess.VerifC20SlotDataRecordSlots()
	fetched := map[uint64]bool{}
	for _, f := range w.h.TakeFetches() {
		if f.K == "att" {
			fetched[f.Key] = true
		}
	}
	ev["sc"] = w.sc.Sc
	ev["now"] = now
	ev["attjobs"] = c20Sorted(attjobs)
	ev["prepjobs"] = c20Sorted(prepjobs)
	ev["njobs"] = njobs
	ev["pend"] = c20Cap(c20Sorted(pend))
	ev["npend"] = len(pend)
	ev["has"] = c20Sorted(has)
	ev["haslo"] = lo
	ev["hashi"] = now + 3*w.p
	ev["attested"] = c20Cap(attested)
	ev["nattested"] = len(attested)
	ev["subs"] = c20Cap(c20Sorted(subs))
	ev["nsubs"] = len(subs)
	ev["roots"] = c20Cap(roots)
	ev["nroots"] = len(roots)
	ev["records"] = c20Cap(records)
	ev["nrecords"] = len(records)
	ev["fetched"] = c20Sorted(fetched)
	running := map[uint64]bool{}
	for s := range w.flights {
		running[s] = true
	}
	ev["running"] = c20Sorted(running)
	ev["msgrun"] = w.heldKeys("c20root")
	ev["subrun"] = w.heldKeys("c20sub")
	return ev
}

func (w *c20World) emit(tr *verifsupport.Trace, ev verifsupport.Ev) {
	names := []string{}
	if w.h.Sched != nil {
		names = w.h.Sched.ListJobs(context.Background())
	}
	tr.Emit(w.project(ev, names, w.h.Now()))
}

func (w *c20World) check(err error) {
	if err != nil {
		// a broken run (exit 2), never a verdict
		w.t.Fatalf("c20: scenario %d: %v", w.sc.Sc, err)
	}
}

// fireSilent runs every due job that has no step of its own in the specification (sync committee
// message preparation, attestation aggregation, proposals, anything unknown), earliest first.  None of
// them adds an entry to a map the specification looks at.
func (w *c20World) fireSilent() {
	for i := 0; i < 1000; i++ {
		horizon := w.h.ChainTime.StartOfSlot(phase0.Slot(w.h.Now() + 1))
		var pick *verifsupport.Job
		for _, j := range w.h.Sched.Snapshot() {
			j := j
			if j.Periodic || !j.Runtime.Before(horizon) {
				continue
			}
			switch k, _ := c03ParseName(j.Name); k {
			case "att", "syncmsg", "syncagg", "prepepoch":
				continue
			}
			if pick == nil || j.Runtime.Before(pick.Runtime) || (j.Runtime.Equal(pick.Runtime) && j.Name < pick.Name) {
				pick = &j
			}
		}
		if pick == nil {
			return
		}
		_, err := w.h.FireJob(pick.Name)
		w.check(err)
	}
	w.t.Fatalf("c20: scenario %d: due jobs do not run dry", w.sc.Sc)
}

// attStart fires the attestation job of slot s on its own goroutine.  AttStart is logged when its body
// has reached the node (the job has left the table, the real attester waits for the attestation data):
// the job stays in flight until attEnd.  A job that returns without asking the node (no such job, every
// validator has attested in the epoch already) is logged as a whole (AttEnd, gated = false).
func (w *c20World) attStart(tr *verifsupport.Trace, s uint64, ok bool, scripted bool) bool {
	if w.flights[s] != nil {
		w.t.Fatalf("c20: scenario %d: attestation job for slot %d started twice", w.sc.Sc, s)
	}
	if !ok && !w.mayFail(s) {
		ok = true
	}
	g := w.node.arm(s, ok)
	w.h.begin()
	done := make(chan bool, 1)
	go func() { done <- w.h.Sched.Fire(w.h.Ctx, c03JobName("att", s)) }()
	fired, gated := false, false
	select {
	case <-g.arrived:
		gated = true
	case fired = <-done:
		if !w.node.disarm(s, g) {
			// cannot be: the job has returned
			w.t.Fatalf("c20: scenario %d: attestation job for slot %d returned with its request at the node", w.sc.Sc, s)
		}
	case <-time.After(30 * time.Second):
		w.t.Fatalf("c20: scenario %d: attestation job for slot %d neither reached the node nor returned", w.sc.Sc, s)
	}
	if gated {
		w.flights[s] = &c20Flight{gate: g, done: done, ok: ok, scripted: scripted}
		w.emit(tr, verifsupport.Ev{"ev": "AttStart", "s": s, "scripted": scripted})
		return true
	}
	w.check(w.h.Quiesce())
	w.fireSilent()
	if fired {
		w.ran[s/w.p] = true
	}
	w.emit(tr, verifsupport.Ev{"ev": "AttEnd", "s": s, "ok": ok, "fired": fired, "gated": false, "scripted": scripted})
	return false
}

// attEnd lets the node answer the attestation data request of slot s: AttEnd when the job's body has returned.
func (w *c20World) attEnd(tr *verifsupport.Trace, s uint64, scripted bool) {
	if scripted && w.endsAhead["att"][s] > 0 {
		w.endsAhead["att"][s]--
	}
	f := w.flights[s]
	if f == nil {
		return // the job was logged as a whole
	}
	w.h.begin()
	close(f.gate.release)
	fired := false
	select {
	case fired = <-f.done:
	case <-time.After(30 * time.Second):
		w.t.Fatalf("c20: scenario %d: attestation job for slot %d does not return", w.sc.Sc, s)
	}
	delete(w.flights, s)
	w.check(w.h.Quiesce())
	w.fireSilent()
	w.ran[s/w.p] = true
	if w.node.didSubmit(s) && w.h.Now()/w.p == s/w.p {
		// (a success that comes epochs late does not count for Env_OutageBounded)
		w.succ[s/w.p] = true
	}
	w.emit(tr, verifsupport.Ev{"ev": "AttEnd", "s": s, "ok": f.ok, "submitted": w.node.didSubmit(s), "fired": fired, "gated": true, "scripted": scripted && f.scripted})
}

// attest runs the attestation job of slot s from start to end.
func (w *c20World) attest(tr *verifsupport.Trace, s uint64, ok bool, scripted bool) {
	if w.attStart(tr, s, ok, scripted) {
		w.attEnd(tr, s, scripted)
	}
}

// heldAtt lists the epochs whose attester duty reply the node keeps back (oldest first).
func (w *c20World) heldAtt() []c03Parked {
	res := []c03Parked{}
	for _, c := range w.h.Held() {
		if c.K == "att" {
			res = append(res, c)
		}
	}
	return res
}

// resched delivers the node's late reply to the duty request of the refresh of epoch e.
func (w *c20World) resched(tr *verifsupport.Trace, e uint64, scripted bool) {
	fired := false
	for _, c := range w.heldAtt() {
		if c.Key == e {
			ok, err := w.h.ReleaseCall(c.K, c.Key, c.Ver, c.Jk)
			w.check(err)
			fired = ok
			break
		}
	}
	w.fireSilent()
	w.emit(tr, verifsupport.Ev{"ev": "Resched", "e": e, "fired": fired, "scripted": scripted})
}

// syncMsg runs the sync committee message job of slot s from start to end (the node answers at once).
func (w *c20World) syncMsg(tr *verifsupport.Trace, s uint64, ok bool, scripted bool) {
	w.node.set(true, ok)
	fired, err := w.h.FireJob(c03JobName("syncmsg", s))
	w.check(err)
	w.node.set(true, true)
	w.emit(tr, verifsupport.Ev{"ev": "SyncMsg", "s": s, "ok": ok, "fired": fired, "scripted": scripted})
}

// msgStart fires the sync committee message job of slot s on its own goroutine, as the scheduler does.  MsgStart
// is logged when the REAL messenger's Message() has reached the node with its head root request: the job stays
// there - whatever the following steps are: the jobs of later slots on the same messenger and aggregator, their
// aggregations, head events, the clock - until msgEnd lets the node answer.  A job that returns without asking
// the node (no such job) is logged as a whole (SyncMsg, fired as it was).
func (w *c20World) msgStart(tr *verifsupport.Trace, s uint64, k uint64, scripted bool) bool {
	if w.msgFlights[s] != nil {
		w.t.Fatalf("c20: scenario %d: sync committee message job for slot %d started twice", w.sc.Sc, s)
	}
	g := w.roots.arm(s)
	w.h.begin()
	done := make(chan bool, 1)
	go func() { done <- w.h.Sched.Fire(w.h.Ctx, c03JobName("syncmsg", s)) }()
	select {
	case <-g.arrived:
		w.check(w.h.Quiesce())
		w.msgFlights[s] = &c20MsgFlight{gate: g, done: done, scripted: scripted}
		w.emit(tr, verifsupport.Ev{"ev": "MsgStart", "s": s, "k": k, "scripted": scripted})
		return true
	case fired := <-done:
		if !w.roots.disarm(g) {
			w.t.Fatalf("c20: scenario %d: sync committee message job for slot %d returned with its request at the node", w.sc.Sc, s)
		}
		w.check(w.h.Quiesce())
		w.fireSilent()
		w.emit(tr, verifsupport.Ev{"ev": "SyncMsg", "s": s, "ok": true, "fired": fired, "scripted": scripted})
	case <-time.After(30 * time.Second):
		w.t.Fatalf("c20: scenario %d: sync committee message job for slot %d neither reached the node nor returned", w.sc.Sc, s)
	}
	return false
}

// msgEnd lets the node answer the head root request of slot s (ok: with a root): MsgEnd when Message() and the
// job have returned - SetBeaconBlockRoot(s) and UpdateSyncCommitteeDataRecord(s) have run NOW, whichever
// slots' calls ran in between.
func (w *c20World) msgEnd(tr *verifsupport.Trace, s uint64, ok bool, scripted bool) {
	if scripted && w.endsAhead["msg"][s] > 0 {
		w.endsAhead["msg"][s]--
	}
	f := w.msgFlights[s]
	if f == nil {
		return // the job was logged as a whole
	}
	w.roots.mu.Lock()
	f.gate.ok = ok
	w.roots.mu.Unlock()
	released, err := w.h.ReleaseCall("c20root", s, 0, "")
	w.check(err)
	if !released {
		w.t.Fatalf("c20: scenario %d: the head root request of slot %d is not with the node", w.sc.Sc, s)
	}
	fired := false
	select {
	case fired = <-f.done:
	case <-time.After(30 * time.Second):
		w.t.Fatalf("c20: scenario %d: sync committee message job for slot %d does not return", w.sc.Sc, s)
	}
	delete(w.msgFlights, s)
	w.check(w.h.Quiesce())
	w.fireSilent()
	w.emit(tr, verifsupport.Ev{"ev": "MsgEnd", "s": s, "ok": ok, "fired": fired, "late": w.h.Now() - s, "scripted": scripted && f.scripted})
}

// subEnd lets the node complete the beacon committee subscription of epoch e that a Prepare step started.
func (w *c20World) subEnd(tr *verifsupport.Trace, e uint64, scripted bool) {
	if scripted && w.endsAhead["sub"][e] > 0 {
		w.endsAhead["sub"][e]--
	}
	fired, err := w.h.ReleaseCall("c20sub", e, 0, "")
	w.check(err)
	w.fireSilent()
	w.emit(tr, verifsupport.Ev{"ev": "SubEnd", "e": e, "fired": fired, "scripted": scripted})
}

func (w *c20World) syncAgg(tr *verifsupport.Trace, s uint64, scripted bool) {
	fired, err := w.h.FireJob(c03JobName("syncagg", s))
	w.check(err)
	w.emit(tr, verifsupport.Ev{"ev": "SyncAgg", "s": s, "fired": fired, "scripted": scripted})
}

// prepare fires "Prepare for epoch e"; with hold the node keeps the beacon committee subscription of the epoch
// back (subEnd completes it): subheld lists the epochs for which that has happened in this step.
func (w *c20World) prepare(tr *verifsupport.Trace, e uint64, hold bool, scripted bool) {
	before := map[uint64]bool{}
	for _, x := range w.heldKeys("c20sub") {
		before[x] = true
	}
	if hold && !before[e] {
		w.subsc.arm(e, true)
	}
	fired, err := w.h.FireJob(c03JobName("prepepoch", e))
	w.check(err)
	w.subsc.arm(e, false)
	w.fireSilent()
	subheld := []uint64{}
	for _, x := range w.heldKeys("c20sub") {
		if !before[x] {
			subheld = append(subheld, x)
		}
	}
	w.emit(tr, verifsupport.Ev{"ev": "Prepare", "e": e, "fired": fired, "subheld": subheld, "scripted": scripted})
}

// finishSlot plays the timely scheduler for the jobs of the current slot that the scenario has not
// fired (the scenario is a suggestion made from the design; the table is what the code really did).
func (w *c20World) finishSlot(tr *verifsupport.Trace) {
	now := w.h.Now()
	// the node answers within the slot; a job runs into the next slot at most
	for _, c := range w.heldAtt() {
		w.resched(tr, c.Key, false)
	}
	for _, s := range c20Sorted(w.flightSet()) {
		if s < now && w.endsAhead["att"][s] == 0 {
			w.attEnd(tr, s, false)
		}
	}
	// calls the scenario does not end later are answered within the slot
	for _, s := range w.heldKeys("c20root") {
		if w.endsAhead["msg"][s] == 0 {
			w.msgEnd(tr, s, true, false)
		}
	}
	for _, e := range w.heldKeys("c20sub") {
		if w.endsAhead["sub"][e] == 0 {
			w.subEnd(tr, e, false)
		}
	}
	for round := 0; round < 50; round++ {
		var name string
		var k string
		var n uint64
		for _, j := range w.h.Sched.Snapshot() {
			if j.Periodic {
				continue
			}
			jk, jn := c03ParseName(j.Name)
			due := false
			switch jk {
			case "att":
				due = jn <= now
			case "syncmsg":
				due = jn <= now && w.msgFlights[jn] == nil
			case "syncagg":
				due = jn <= now
			case "prepepoch":
				due = jn <= now/w.p || (jn == now/w.p+1 && now%w.p == w.p-1)
			}
			if due && (name == "" || j.Runtime.Before(w.h.Sched.Get(name).Runtime)) {
				name, k, n = j.Name, jk, jn
			}
		}
		switch k {
		case "":
			return
		case "att":
			w.attest(tr, n, true, false)
		case "syncmsg":
			w.syncMsg(tr, n, true, false)
		case "syncagg":
			w.syncAgg(tr, n, false)
		case "prepepoch":
			w.prepare(tr, n, false, false)
		}
	}
	w.t.Fatalf("c20: scenario %d: the jobs of slot %d do not run dry", w.sc.Sc, now)
}

func (w *c20World) flightSet() map[uint64]bool {
	res := map[uint64]bool{}
	for s := range w.flights {
		res[s] = true
	}
	return res
}

func c20RunScenario(t *testing.T, tr *verifsupport.Trace, sc *c20Scenario) {
	var w *c20World
	for _, st := range sc.Steps {
		switch st.Ev {
		case "Reset":
			w = c20Build(t, sc, st, nil, 12*time.Second)
			w.h.ChainTime.SetSlot(st.Now)
			tr.Emit(verifsupport.Ev{"sc": sc.Sc, "ev": "Reset", "p": st.P, "ep": st.EP, "verify": st.Verify, "agg": st.Agg, "now": st.Now, "fam": sc.Fam})
		case "Start":
			e := w.h.Now() / w.p
			w.decide(e, st.D0)
			w.decide(e+1, st.D1)
			w.syncDuties(e)
			w.check(w.h.Start(w.h.Now(), false))
			w.fireSilent()
			w.emit(tr, verifsupport.Ev{"ev": "Start"})
		case "Advance":
			w.finishSlot(tr)
			w.h.Advance()
			w.syncDuties(w.h.Now() / w.p)
			w.fireSilent()
			w.emit(tr, verifsupport.Ev{"ev": "Advance"})
		case "Tick":
			ok, err := w.h.FireTicker()
			w.check(err)
			w.fireSilent()
			w.emit(tr, verifsupport.Ev{"ev": "Tick", "fired": ok})
		case "Prepare":
			w.decide(st.E, st.D)
			w.prepare(tr, st.E, st.K > 0, true)
		case "SubEnd":
			w.subEnd(tr, st.E, true)
		case "MsgStart":
			w.msgStart(tr, st.S, st.K, true)
		case "MsgEnd":
			w.msgEnd(tr, st.S, st.Ok, true)
		case "Head":
			e := w.h.Now() / w.p
			for i, r := range st.R {
				// the duties of epoch r hang on the root of boundary r-1
				w.h.Reorg(int64(r) - 1)
				if i < len(st.Dm) {
					w.decide(r, st.Dm[i])
				}
			}
			w.syncDuties(e)
			if st.Split {
				// the node keeps its reply to the refresh's duty request back (Resched delivers it)
				w.h.Hold("att", true)
			}
			w.check(w.h.HeadEvent())
			w.h.Hold("att", false)
			w.fireSilent()
			r := st.R
			if r == nil {
				r = []uint64{}
			}
			held := []uint64{}
			for _, c := range w.heldAtt() {
				held = append(held, c.Key)
			}
			w.emit(tr, verifsupport.Ev{"ev": "Head", "r": r, "split": st.Split, "held": held})
		case "Resched":
			w.resched(tr, st.E, true)
		case "Att":
			w.attest(tr, st.S, st.Ok, true)
		case "AttStart":
			w.attStart(tr, st.S, st.Ok, true)
		case "AttEnd":
			w.attEnd(tr, st.S, true)
		case "Probe":
			// a shutdown is requested: main.go polls HasPendingAttestations (logged with every line)
			w.emit(tr, verifsupport.Ev{"ev": "Probe"})
		case "SyncMsg":
			w.syncMsg(tr, st.S, st.Ok, true)
		case "SyncAgg":
			w.syncAgg(tr, st.S, true)
		default:
			t.Fatalf("c20: unknown step %q", st.Ev)
		}
	}
	if w != nil {
		// nothing stays in flight (the scenario ends with every job finished; a safety net)
		for _, c := range w.heldAtt() {
			w.resched(tr, c.Key, false)
		}
		for _, s := range c20Sorted(w.flightSet()) {
			w.attEnd(tr, s, false)
		}
		for _, s := range w.heldKeys("c20root") {
			w.msgEnd(tr, s, true, false)
		}
		for _, e := range w.heldKeys("c20sub") {
			w.subEnd(tr, e, false)
		}
	}
}

func c20Shard(t *testing.T, scenarios []c20Scenario, test string) bool {
	if os.Getenv("VERIF_C20_CHILD") != "" || len(scenarios) < 2 {
		return false
	}
	n := runtime.NumCPU() / 2
	if n > 8 {
		n = 8
	}
	if n > len(scenarios) {
		n = len(scenarios)
	}
	if n < 2 {
		return false
	}
	out := os.Getenv("VERIF_TRACE_OUT")
	if out == "" {
		return false
	}
	dir, err := os.MkdirTemp("", "c20shards")
	if err != nil {
		t.Fatalf("shards: %v", err)
	}
	defer os.RemoveAll(dir)
	var wg sync.WaitGroup
	errs := make([]error, n)
	logs := make([][]byte, n)
	for i := 0; i < n; i++ {
		var buf bytes.Buffer
		for k := i; k < len(scenarios); k += n {
			b, _ := json.Marshal(scenarios[k])
			buf.Write(b)
			buf.WriteByte('\n')
		}
		sp := filepath.Join(dir, fmt.Sprintf("scen-%d.ndjson", i))
		if err := os.WriteFile(sp, buf.Bytes(), 0o600); err != nil {
			t.Fatalf("shards: %v", err)
		}
		wg.Add(1)
		go func(i int) {
			defer wg.Done()
			cmd := exec.Command(os.Args[0], "-test.run", "^"+test+"$", "-test.timeout", "1500s")
			cmd.Env = append(os.Environ(), "VERIF_C20_CHILD=1", "VERIF_SCENARIOS="+sp,
				"VERIF_TRACE_OUT="+filepath.Join(dir, fmt.Sprintf("trace-%d.ndjson", i)))
			logs[i], errs[i] = cmd.CombinedOutput()
		}(i)
	}
	wg.Wait()
	f, err := os.Create(out)
	if err != nil {
		t.Fatalf("trace: %v", err)
	}
	defer f.Close()
	for i := 0; i < n; i++ {
		if errs[i] != nil {
			t.Fatalf("child %d failed: %v\n%s", i, errs[i], logs[i])
		}
		data, err := os.ReadFile(filepath.Join(dir, fmt.Sprintf("trace-%d.ndjson", i)))
		if err != nil {
			t.Fatalf("child %d left no trace: %v\n%s", i, err, logs[i])
		}
		f.Write(data)
	}
	return true
}

func TestVerifC20(t *testing.T) {
	var scenarios []c20Scenario
	verifsupport.Scenarios(t, &scenarios)
	if c20Shard(t, scenarios, "TestVerifC20") {
		return
	}
	tr := verifsupport.OpenTrace(t)
	defer tr.Close()
	for i := range scenarios {
		c20RunScenario(t, tr, &scenarios[i])
	}
}

// ---- the run on the real scheduler ------------------------------------------------------------------

// c20WallTime is a chain time that follows the wall clock (short slots).
type c20WallTime struct {
	genesis time.Time
	dur     time.Duration
	p       uint64
}

func (c *c20WallTime) GenesisTime() time.Time { return c.genesis }
func (c *c20WallTime) StartOfSlot(slot phase0.Slot) time.Time {
	return c.genesis.Add(time.Duration(slot) * c.dur)
}
func (c *c20WallTime) StartOfEpoch(epoch phase0.Epoch) time.Time {
	return c.genesis.Add(time.Duration(uint64(epoch)*c.p) * c.dur)
}
func (c *c20WallTime) CurrentSlot() phase0.Slot {
	d := time.Since(c.genesis)
	if d < 0 {
		return 0
	}
	return phase0.Slot(d / c.dur)
}
func (c *c20WallTime) CurrentEpoch() phase0.Epoch { return phase0.Epoch(uint64(c.CurrentSlot()) / c.p) }
func (c *c20WallTime) SlotToEpoch(slot phase0.Slot) phase0.Epoch {
	return phase0.Epoch(uint64(slot) / c.p)
}
func (c *c20WallTime) FirstSlotOfEpoch(epoch phase0.Epoch) phase0.Slot {
	return phase0.Slot(uint64(epoch) * c.p)
}

// c20RunReal replays the environment part of a scenario (duties, reorgs, head events and gaps, node
// outages) in real time; the jobs are run by the real scheduler.  One Sample line per epoch.
//
// In flight: where the scenario refreshes the duties of the current epoch between AttStart(s) and AttEnd(s),
// the node holds the attestation data request of slot s; the head event is delivered when the request has
// arrived (the real scheduler has started the job), and when the refresh has asked the node for the duties
// again (its cancel loop is over) an InFlight line gives HasPendingAttestations(s) and whether the table
// has a job for s; AttEnd lets the node answer, a second InFlight line follows when the mark is gone.
func c20RunReal(t *testing.T, tr *verifsupport.Trace, sc *c20Scenario) {
	ctx, cancel := context.WithCancel(context.Background())
	defer cancel()
	dur := time.Duration(sc.SlotMs) * time.Millisecond
	if dur <= 0 {
		dur = 150 * time.Millisecond
	}
	var w *c20World
	var wall *c20WallTime
	var sched *advancedscheduler.Service
	var handler func(*apiv1.Event)
	slot := uint64(0)
	rootGates := map[uint64]*c20RootGate{} // head root requests the node keeps back, by the slot they were armed in
	held := map[uint64]*c20Gate{}          // slot -> gate armed for its attestation data request
	// heldRunning: the attestation jobs whose request is with the node (they have left the table and run)
	heldRunning := func() map[uint64]bool {
		res := map[uint64]bool{}
		w.node.mu.Lock()
		for s, g := range held {
			if g.taken {
				res[s] = true
			}
		}
		w.node.mu.Unlock()
		return res
	}
	sample := func(ev string) {
		now := uint64(wall.CurrentSlot())
		out := w.project(verifsupport.Ev{"ev": ev, "slotms": sc.SlotMs}, sched.ListJobs(ctx), now)
		// A mark or an attestation job for a slot that ended five and more slots ago belongs to no
		// job that is waiting or running.
		stale := func(xs []uint64) []uint64 {
			res := []uint64{}
			for _, x := range xs {
				if x+6 <= now {
					res = append(res, x)
				}
			}
			return res
		}
		// ... except the attestations whose request the node is keeping back: they are running (however old their
		// slot is), their marks are looked at whatever their age
		run := heldRunning()
		stalepend := stale(out["pend"].([]uint64))
		for _, x := range out["pend"].([]uint64) {
			if run[x] && x+6 > now {
				stalepend = append(stalepend, x)
			}
		}
		sort.Slice(stalepend, func(i, j int) bool { return stalepend[i] < stalepend[j] })
		out["stalepend"] = stalepend
		out["stalejobs"] = stale(out["attjobs"].([]uint64))
		out["running"] = c20Sorted(run)
		tr.Emit(out)
	}
	waitUntil := func(at time.Time) {
		if d := time.Until(at); d > 0 {
			time.Sleep(d)
		}
	}
	attFetches := func(e uint64) int {
		w.h.mu.Lock()
		defer w.h.mu.Unlock()
		n := 0
		for _, f := range w.h.fetches {
			if f.K == "att" && f.Key == e {
				n++
			}
		}
		return n
	}
	inFlight := func(s uint64, running bool, extra verifsupport.Ev) {
		out := verifsupport.Ev{"sc": sc.Sc, "ev": "InFlight", "s": s, "now": uint64(wall.CurrentSlot()), "slotms": sc.SlotMs}
		for k, x := range extra {
			out[k] = x
		}
		// every job the node is keeping back is running (s among them, or no longer), and is looked at
		set := heldRunning()
		delete(set, s)
		if running {
			set[s] = true
		}
		look := map[uint64]bool{s: true}
		for x := range set {
			look[x] = true
		}
		pendprobe, jobsprobe := []uint64{}, []uint64{}
		for _, x := range c20Sorted(look) {
			if w.h.Svc.HasPendingAttestations(ctx, phase0.Slot(x)) {
				pendprobe = append(pendprobe, x)
			}
			if sched.JobExists(ctx, c03JobName("att", x)) {
				jobsprobe = append(jobsprobe, x)
			}
		}
		out["pendprobe"], out["jobsprobe"], out["running"] = pendprobe, jobsprobe, c20Sorted(set)
		tr.Emit(out)
	}
	release := func(s uint64) {
		g := held[s]
		if g == nil {
			return
		}
		delete(held, s)
		if w.node.disarm(s, g) {
			return // the request never came
		}
		close(g.release)
		// the job's body returns: the mark goes (a mark that stays is what the line will show)
		deadline := time.Now().Add(2 * time.Second)
		for w.h.Svc.HasPendingAttestations(ctx, phase0.Slot(s)) && time.Now().Before(deadline) {
			time.Sleep(2 * time.Millisecond)
		}
		inFlight(s, false, verifsupport.Ev{"phase": "end"})
	}
	deliver := func() {
		now := uint64(wall.CurrentSlot())
		e := int64(now / w.p)
		w.h.mu.Lock()
		prev := c03Root(e-1, w.h.ver(e-1))
		cur := c03Root(e, w.h.ver(e))
		w.h.mu.Unlock()
		handler(&apiv1.Event{Topic: "head", Data: &apiv1.HeadEvent{
			Slot: phase0.Slot(now), Block: c03Root(200, int(now)), PreviousDutyDependentRoot: prev, CurrentDutyDependentRoot: cur,
		}})
	}
	// refreshedInFlight: does the scenario refresh the epoch of slot s between this AttStart and its AttEnd,
	// within the slot?
	refreshedInFlight := func(from int, s uint64) bool {
		for _, nx := range sc.Steps[from+1:] {
			switch nx.Ev {
			case "AttEnd":
				if nx.S == s {
					return false
				}
			case "Advance":
				return false
			case "Head":
				for _, r := range nx.R {
					if r == s/w.p {
						return true
					}
				}
			}
		}
		return false
	}
	// The real prepare-for-epoch job runs at the start of the epoch when slots are this short: the
	// node must know the next epoch's duties by then.
	decideAhead := func(from int) {
		for _, nx := range sc.Steps[from:] {
			if nx.Ev == "Prepare" {
				w.decide(nx.E, nx.D)
				return
			}
		}
	}
	for i, st := range sc.Steps {
		switch st.Ev {
		case "Reset":
			wall = &c20WallTime{genesis: time.Now().Add(400 * time.Millisecond), dur: dur, p: st.P}
			w = c20Build(t, sc, st, wall, dur)
			var err error
			sched, err = advancedscheduler.New(ctx, advancedscheduler.WithLogLevel(zerolog.Disabled), advancedscheduler.WithMonitor(nullmetrics.New()))
			if err != nil {
				t.Fatalf("c20: scheduler New: %v", err)
			}
			w.h.Ctx = ctx
			w.h.ExtraParams = append(w.h.ExtraParams,
				WithChainTimeService(wall),
				WithScheduler(sched),
				WithSpecProvider(&c20Spec{p: st.P, ep: st.EP, slotDur: dur}),
				WithMaxAttestationDelay(dur/3),
				WithMaxSyncCommitteeMessageDelay(dur/3),
			)
			tr.Emit(verifsupport.Ev{"sc": sc.Sc, "ev": "Reset", "p": st.P, "ep": st.EP, "verify": st.Verify, "agg": st.Agg, "now": 0, "fam": sc.Fam})
		case "Start":
			w.decide(0, st.D0)
			w.decide(1, st.D1)
			w.syncDuties(0)
			decideAhead(i)
			// Start waits for quiescence by goroutine count, which the real scheduler's goroutines defeat: build directly.
			w.h.Sched = verifsupport.NewScheduler()
			params := c20RealParams(w)
			svc, err := New(ctx, params...)
			if err != nil {
				t.Fatalf("c20: controller New: %v", err)
			}
			w.h.Svc = svc
			handler = w.h.handlers["head"]
			if handler == nil {
				t.Fatalf("c20: no head event handler")
			}
		case "Advance":
			slot++
			waitUntil(wall.StartOfSlot(phase0.Slot(slot)))
			w.syncDuties(slot / w.p)
			if slot%w.p == 0 {
				decideAhead(i)
				sample("Sample")
			}
		case "Prepare":
			w.decide(st.E, st.D)
			if st.K > 0 {
				// the node keeps the next beacon committee subscription of the epoch back (SubEnd)
				w.subsc.arm(st.E, true)
			}
		case "SubEnd":
			w.subsc.arm(st.E, false)
			if w.releaseRaw("c20sub", st.E) {
				time.Sleep(dur / 10)
				sample("Sample")
			}
		case "MsgStart":
			if st.K > 0 {
				// the node keeps the head root request of this slot's sync committee message job back
				// while the jobs of the following slots run (MsgEnd); the scheduler starts the job itself
				rootGates[st.S] = w.roots.arm(st.S)
			}
		case "MsgEnd":
			w.node.mu.Lock()
			w.node.rootOK = st.Ok
			w.node.mu.Unlock()
			if g := rootGates[st.S]; g != nil {
				delete(rootGates, st.S)
				if !w.roots.disarm(g) {
					w.roots.mu.Lock()
					g.ok = st.Ok
					w.roots.mu.Unlock()
					if w.releaseRaw("c20root", st.S) {
						time.Sleep(dur / 10)
						sample("Sample")
					}
				}
			}
		case "Head":
			for i, r := range st.R {
				w.h.Reorg(int64(r) - 1)
				if i < len(st.Dm) {
					w.decide(r, st.Dm[i])
				}
			}
			waitUntil(wall.StartOfSlot(phase0.Slot(slot)).Add(dur / 6))
			if g := held[slot]; g != nil {
				// the attestation of this slot is to be in flight when the head event arrives
				arrived := false
				select {
				case <-g.arrived:
					arrived = true
				case <-time.After(time.Until(wall.StartOfSlot(phase0.Slot(slot)).Add(dur * 9 / 10))):
				}
				if !arrived && !w.node.disarm(slot, g) {
					arrived = true
				}
				if !arrived {
					delete(held, slot) // no request (no such job, validators have attested already, load): as before
					deliver()
					break
				}
				e := slot / w.p
				before := attFetches(e)
				deliver()
				refreshed := false
				for deadline := time.Now().Add(100 * time.Millisecond); time.Now().Before(deadline); time.Sleep(time.Millisecond) {
					if attFetches(e) > before {
						refreshed = true
						break
					}
				}
				inFlight(slot, true, verifsupport.Ev{"phase": "held", "refreshed": refreshed})
				break
			}
			deliver()
		case "AttStart":
			w.node.setOutcome(st.S, st.Ok)
			if st.S == slot && (refreshedInFlight(i, st.S) || st.K > 0) {
				held[st.S] = w.node.arm(st.S, st.Ok)
			}
		case "AttEnd":
			release(st.S)
		case "Att":
			w.node.setOutcome(st.S, st.Ok)
		case "SyncMsg":
			w.node.mu.Lock()
			w.node.rootOK = st.Ok
			w.node.mu.Unlock()
		case "Tick", "SyncAgg", "Resched", "Probe":
		default:
			t.Fatalf("c20: unknown step %q", st.Ev)
		}
	}
	for s := range held {
		release(s)
	}
	for s, g := range rootGates {
		if !w.roots.disarm(g) {
			w.releaseRaw("c20root", s)
		}
	}
	for _, e := range w.heldKeys("c20sub") {
		w.releaseRaw("c20sub", e)
	}
	// Let the last jobs finish (the chain goes on: a head event per slot, no reorg), then look once more.
	for k := uint64(1); k <= 8; k++ {
		waitUntil(wall.StartOfSlot(phase0.Slot(slot + k)).Add(dur / 6))
		deliver()
	}
	sample("Sample")
	cancel()
	time.Sleep(50 * time.Millisecond)
}

// c20RealParams is the parameter list of c03Harness.Start (the harness cannot be used to start the
// service here: its quiescence rule counts goroutines).
func c20RealParams(w *c20World) []Parameter {
	h := w.h
	syncCommitteePreparationEpochs = h.Cfg.Prep
	params := []Parameter{
		WithLogLevel(zerolog.Disabled),
		WithMonitor(nullmetrics.New()),
		WithSpecProvider(h),
		WithChainTimeService(h.ChainTime),
		WithWaitedForGenesis(false),
		WithProposerDutiesProvider(h),
		WithAttesterDutiesProvider(h),
		WithSyncCommitteeDutiesProvider(h),
		WithEventsProvider(h),
		WithValidatingAccountsProvider(h),
		WithProposalsPreparer(h),
		WithScheduler(h.Sched),
		WithAttester(h.Attester),
		WithSyncCommitteeMessenger(h.Messenger),
		WithSyncCommitteeAggregator(h.SyncAggregator),
		WithSyncCommitteeSubscriber(h.SyncSubscriber),
		WithBeaconBlockProposer(h.Proposer),
		WithBeaconCommitteeSubscriber(h.BeaconCommitteeSubscriber),
		WithAttestationAggregator(h.AttAggregator),
		WithAccountsRefresher(h),
		WithBlockToSlotSetter(c20NoCache{}),
		WithBeaconBlockHeadersProvider(h),
		WithSignedBeaconBlockProvider(mock.NewSignedBeaconBlockProvider()),
		WithMaxProposalDelay(0),
		WithFastTrackAttestations(false),
		WithFastTrackSyncCommittees(false),
		WithFastTrackGrace(0),
	}
	return append(params, h.ExtraParams...)
}

type c20NoCache struct{}

func (c20NoCache) SetBlockRootToSlot(_ phase0.Root, _ phase0.Slot) {}

func TestVerifC20Real(t *testing.T) {
	var scenarios []c20Scenario
	verifsupport.Scenarios(t, &scenarios)
	if c20Shard(t, scenarios, "TestVerifC20Real") {
		return
	}
	tr := verifsupport.OpenTrace(t)
	defer tr.Close()
	for i := range scenarios {
		c20RunReal(t, tr, &scenarios[i])
	}
}
