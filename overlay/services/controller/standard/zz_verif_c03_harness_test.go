package standard

// Reusable controller harness of property C03 (also meant for C14 / C15 / C20 drivers living in this
// package): builds the REAL controller with New(...) on a virtual clock (verifsupport.ChainTime), a
// recording scheduler (verifsupport.Scheduler), a scripted beacon node (duty oracle with versions
// per duty-dependent root, head events), scripted accounts and recording duty services.
//
//	h := c03NewHarness(cfg, oracle)            // fakes only
//	h.Attester = myAttester                    // optional: replace a recording fake before Start
//	err := h.Start(slot, waitedForGenesis)     // clock at slot; standard.New(...); waits for quiescence
//	h.Advance(); h.Reorg(b); h.HeadEvent(); h.FireJob(name); h.FireTicker(); h.Crash()
//	h.Hold(k, on); h.ReleaseCall(k, key, ver, jk) // delaying interfaces: duty replies (att, prop), the accounts
//	                                           // provider (acct), scheduler calls (cancel, sched, run)
//	h.Jobs(), h.Executed(), h.Fetches()        // projections (job table incl. validators, executed duties)
//	h.Held(), h.TakeCalls()                    // calls waiting at a delaying interface; job table changes seen
//	h.SetAccounts(vals, fail)                  // what the accounts provider answers from now on: the active validators
//	                                           // (any subset, also none) or an error; default: all of Cfg.Vals
//	h.Watchdog = true; h.TakeHung()            // stimuli run on goroutines of their own; a goroutine of the controller that is
//	                                           // still there when nothing moves any more and that waits at none of the
//	                                           // scripted interfaces is reported (once) instead of being waited for
//
// Every stimulus returns after the controller's goroutines have finished or wait at a delaying
// interface (c03Harness.Quiesce).  The controller is given the recording scheduler behind a gate
// (c03GatedSched): h.Sched is the recording scheduler itself.

import (
	"context"
	"errors"
	"fmt"
	"regexp"
	"runtime"
	"sort"
	"strconv"
	"strings"
	"sync"
	"time"

	eth2client "github.com/attestantio/go-eth2-client"
	"github.com/attestantio/go-eth2-client/api"
	apiv1 "github.com/attestantio/go-eth2-client/api/v1"
	"github.com/attestantio/go-eth2-client/spec/altair"
	"github.com/attestantio/go-eth2-client/spec/phase0"
	"github.com/attestantio/vouch/mock"
	"github.com/attestantio/vouch/services/attestationaggregator"
	"github.com/attestantio/vouch/services/attester"
	"github.com/attestantio/vouch/services/beaconblockproposer"
	"github.com/attestantio/vouch/services/beaconcommitteesubscriber"
	"github.com/attestantio/vouch/services/cache"
	mockcache "github.com/attestantio/vouch/services/cache/mock"
	nullmetrics "github.com/attestantio/vouch/services/metrics/null"
	"github.com/attestantio/vouch/services/scheduler"
	"github.com/attestantio/vouch/services/synccommitteeaggregator"
	"github.com/attestantio/vouch/services/synccommitteemessenger"
	"github.com/attestantio/vouch/services/synccommitteesubscriber"
	"github.com/attestantio/vouch/verifsupport"
	"github.com/google/uuid"
	"github.com/rs/zerolog"
	e2types "github.com/wealdtech/go-eth2-types/v2"
	e2wtypes "github.com/wealdtech/go-eth2-wallet-types/v2"
)

// C03Config is the chain and controller configuration of one harness.
type c03Config struct {
	P         uint64   `json:"p"`     // slots per epoch
	D         int64    `json:"d"`     // slot duration, seconds
	EP        uint64   `json:"ep"`    // epochs per sync committee period
	Prep      uint64   `json:"prep"`  // syncCommitteePreparationEpochs
	Fork      uint64   `json:"fork"`  // ALTAIR_FORK_EPOCH
	FT        bool     `json:"ft"`    // fast-track attestations and sync committee messages on head events
	AttDelay  int64    `json:"attd"`  // seconds
	PropDelay int64    `json:"propd"` // seconds
	SyncDelay int64    `json:"syncd"` // seconds
	Vals      []uint64 `json:"vals"`  // validators with an account
}

type c03AttDuty struct {
	E    uint64 `json:"e"`
	Ver  int    `json:"ver"`
	V    uint64 `json:"v"`
	Slot uint64 `json:"slot"`
}

type c03SyncDuty struct {
	P   uint64 `json:"p"`
	Ver int    `json:"ver"`
	V   uint64 `json:"v"`
}

// c03Oracle is the scripted beacon node's knowledge: duties per epoch / period and per version of the
// duty-dependent root they hang on (attester e: boundary e-1; proposer e: boundary e; sync period p:
// boundary (p-1)*EP).
type c03Oracle struct {
	Att  []c03AttDuty  `json:"att"`
	Prop []c03AttDuty  `json:"prop"`
	Sync []c03SyncDuty `json:"sync"`
}

// c03Job is the projection of one scheduled job.
type c03Job struct {
	K    string   `json:"k"`              // att, prop, early, syncprep, syncmsg, syncagg, attagg, prepepoch, other
	N    uint64   `json:"n"`              // slot (epoch for prepepoch)
	T    int64    `json:"t"`              // run time, seconds relative to genesis
	Vals []uint64 `json:"vals"`           // validators the job covers (probed), sorted
	Name string   `json:"name,omitempty"` // raw name for kind other
}

// c03Done is one executed duty.
type c03Done struct {
	K    string   `json:"k"`
	N    uint64   `json:"n"`
	Vals []uint64 `json:"vals"`
}

// c03Fetch is one duty request seen by the scripted beacon node.
type c03Fetch struct {
	K   string `json:"k"`   // att, prop, sync
	Key uint64 `json:"key"` // epoch (period for sync)
	Ver int    `json:"ver"`
}

// c03Parked is a call waiting at a delaying interface: a duty reply computed but not delivered (k = att,
// prop; key = epoch, ver = version of the dependent root), an accounts lookup (acct; key = epoch), a
// scheduler call (cancel, sched, run; key = slot, jk = kind of the job named).
type c03Parked struct {
	K   string `json:"k"`
	Key uint64 `json:"key"`
	Ver int    `json:"ver"`
	Jk  string `json:"jk"`
}

// c03Call is a change of the job table seen by the recording scheduler: a successful ScheduleJob (add),
// a successful CancelJob / RunJob or a start by the timer (rm).
type c03Call struct {
	Op string `json:"op"`
	K  string `json:"k"`
	N  uint64 `json:"n"`
}

type c03ProbeKey struct{}

// c03Probe collects what a job would cover when its function is run with a probe context.
type c03Probe struct {
	vals []uint64
	hit  bool
}

func c03ProbeOf(ctx context.Context) *c03Probe {
	p, _ := ctx.Value(c03ProbeKey{}).(*c03Probe)
	return p
}

var errC03Probe = errors.New("probe")

// c03Account is a minimal wallet account.
type c03Account struct{ index uint64 }

func (a *c03Account) ID() uuid.UUID {
	var u uuid.UUID
	u[15] = byte(a.index)
	u[14] = byte(a.index >> 8)
	return u
}
func (a *c03Account) Name() string                { return fmt.Sprintf("account %d", a.index) }
func (*c03Account) PublicKey() e2types.PublicKey { return nil }

// c03Harness holds the fakes and the real service.
type c03Harness struct {
	Cfg    c03Config
	Oracle c03Oracle

	ChainTime *verifsupport.ChainTime
	Sched     *verifsupport.Scheduler
	Svc       *Service
	Ctx       context.Context

	// Replaceable duty services (set before Start); default: recording fakes of this harness.
	Attester                  attester.Service
	Proposer                  beaconblockproposer.Service
	Messenger                 synccommitteemessenger.Service
	SyncAggregator            synccommitteeaggregator.Service
	AttAggregator             attestationaggregator.Service
	BeaconCommitteeSubscriber beaconcommitteesubscriber.Service
	SyncSubscriber            synccommitteesubscriber.Service
	// Extra controller parameters appended at Start (applied last).
	ExtraParams []Parameter
	// Watchdog: run head events and job starts on goroutines of their own and report goroutines of the
	// controller that never finish (TakeHung) instead of silently getting used to them.
	Watchdog bool

	mu        sync.Mutex
	depVer    map[int64]int // boundary -> version
	executed  []c03Done
	other     []c03Done // recorded calls that are not executed duties (prepare calls, aggregations)
	fetches   []c03Fetch
	tableLog  []c03Call
	calls     int64 // calls into fakes (quiescence fallback)
	headSlot  int64 // what the scripted node reports as head slot (-1: error)
	holdKinds map[string]bool
	held      []*c03Held
	handlers  map[string]eth2client.EventHandlerFunc
	baseline  int
	acctSet   bool     // SetAccounts has been called: acctVals / acctErr are the answer (else: all of Cfg.Vals)
	acctVals  []uint64 // active validators
	acctErr   bool     // the lookup fails
	hung      []c03Hung
	hungIDs   map[string]bool
}

// c03Hung is a goroutine of the controller that did not finish: the innermost method of the controller's
// Service on its stack and what it is blocked in.
type c03Hung struct {
	Fn    string `json:"fn"`
	State string `json:"state"`
}

// c03Held is a call that waits at a delaying interface (see c03Parked).
type c03Held struct {
	K       string
	Key     uint64
	Ver     int
	Jk      string
	release chan struct{}
}

func c03NewHarness(cfg c03Config, oracle c03Oracle) *c03Harness {
	h := &c03Harness{
		Cfg:       cfg,
		Oracle:    oracle,
		ChainTime: verifsupport.NewChainTime(cfg.P, time.Duration(cfg.D)*time.Second),
		Ctx:       context.Background(),
		depVer:    map[int64]int{},
		headSlot:  -1,
		holdKinds: map[string]bool{},
		handlers:  map[string]eth2client.EventHandlerFunc{},
	}
	h.Attester = &c03Attester{h: h}
	h.Proposer = &c03Proposer{h: h}
	h.Messenger = &c03Messenger{h: h}
	h.SyncAggregator = &c03SyncAggregator{h: h}
	h.AttAggregator = &c03AttAggregator{h: h}
	h.BeaconCommitteeSubscriber = &c03BCSubscriber{h: h}
	h.SyncSubscriber = &c03SyncSubscriber{h: h}
	return h
}

func (h *c03Harness) note() {
	h.mu.Lock()
	h.calls++
	h.mu.Unlock()
}

// ---------------------------------------------------------------------------------------------
// scripted beacon node

func (h *c03Harness) ver(b int64) int {
	if b < 0 {
		return 0
	}
	return h.depVer[b]
}

// C03Root is the duty-dependent root of boundary b at version v (never the zero root).
func c03Root(b int64, v int) phase0.Root {
	var r phase0.Root
	r[0] = byte(b + 1)
	r[1] = byte(v)
	r[31] = 0xa5
	return r
}

func (h *c03Harness) Spec(_ context.Context, _ *api.SpecOpts) (*api.Response[map[string]any], error) {
	return &api.Response[map[string]any]{
		Data: map[string]any{
			"SECONDS_PER_SLOT":                 time.Duration(h.Cfg.D) * time.Second,
			"SLOTS_PER_EPOCH":                  h.Cfg.P,
			"EPOCHS_PER_SYNC_COMMITTEE_PERIOD": h.Cfg.EP,
			"ALTAIR_FORK_EPOCH":                h.Cfg.Fork,
		},
		Metadata: map[string]any{},
	}, nil
}

func (h *c03Harness) wanted(indices []phase0.ValidatorIndex) map[uint64]bool {
	w := map[uint64]bool{}
	for _, i := range indices {
		w[uint64(i)] = true
	}
	return w
}

// hold blocks the calling goroutine (after the reply has been computed) while the kind is held.
func (h *c03Harness) hold(k string, key uint64, ver int) { h.park(k, key, ver, "") }

// park makes the calling goroutine wait while interface k is delaying, until the call is released.
func (h *c03Harness) park(k string, key uint64, ver int, jk string) {
	h.mu.Lock()
	if !h.holdKinds[k] {
		h.mu.Unlock()
		return
	}
	x := &c03Held{K: k, Key: key, Ver: ver, Jk: jk, release: make(chan struct{})}
	h.held = append(h.held, x)
	h.mu.Unlock()
	<-x.release
}

// c03GatedSched is what the controller is given as its scheduler: the recording scheduler behind
// the delaying interfaces "cancel" (CancelJob, CancelJobIfExists), "sched" (ScheduleJob of a duty's
// first jobs) and "run" (RunJob, RunJobIfExists of attestations / sync committee messages: the fast
// track).  A delayed call takes effect on the recording scheduler when it is released.
type c03GatedSched struct {
	h  *c03Harness
	in *verifsupport.Scheduler
}

func (g *c03GatedSched) gate(op string, name string) {
	k, n := c03ParseName(name)
	switch op {
	case "sched":
		if k != "att" && k != "early" && k != "prop" && k != "syncprep" {
			return
		}
	case "cancel":
		if k != "att" && k != "early" && k != "prop" && k != "syncprep" && k != "syncmsg" {
			return
		}
	case "run":
		if k != "att" && k != "syncmsg" {
			return
		}
	}
	g.h.park(op, n, 0, k)
}

func (g *c03GatedSched) ScheduleJob(ctx context.Context, class string, name string, runtime time.Time, job scheduler.JobFunc) error {
	g.gate("sched", name)
	return g.in.ScheduleJob(ctx, class, name, runtime, job)
}

func (g *c03GatedSched) SchedulePeriodicJob(ctx context.Context, class string, name string, runtime scheduler.RuntimeFunc, job scheduler.JobFunc) error {
	return g.in.SchedulePeriodicJob(ctx, class, name, runtime, job)
}

func (g *c03GatedSched) CancelJob(ctx context.Context, name string) error {
	g.gate("cancel", name)
	return g.in.CancelJob(ctx, name)
}

func (g *c03GatedSched) CancelJobIfExists(ctx context.Context, name string) {
	g.gate("cancel", name)
	g.in.CancelJobIfExists(ctx, name)
}

func (g *c03GatedSched) CancelJobs(ctx context.Context, prefix string) { g.in.CancelJobs(ctx, prefix) }

func (g *c03GatedSched) RunJob(ctx context.Context, name string) error {
	g.gate("run", name)
	return g.in.RunJob(ctx, name)
}

func (g *c03GatedSched) JobExists(ctx context.Context, name string) bool { return g.in.JobExists(ctx, name) }

func (g *c03GatedSched) RunJobIfExists(ctx context.Context, name string) {
	g.gate("run", name)
	g.in.RunJobIfExists(ctx, name)
}

func (g *c03GatedSched) ListJobs(ctx context.Context) []string { return g.in.ListJobs(ctx) }

var _ scheduler.Service = (*c03GatedSched)(nil)

// noteTable records a change of the job table (called under the recording scheduler's lock).
func (h *c03Harness) noteTable(op string, name string) {
	k, n := c03ParseName(name)
	switch k {
	case "att", "prop", "early", "syncprep", "syncmsg", "prepepoch":
	default:
		return
	}
	h.mu.Lock()
	h.tableLog = append(h.tableLog, c03Call{Op: op, K: k, N: n})
	h.mu.Unlock()
}

// TakeCalls returns the changes of the job table since the last call, in the order they were made.
func (h *c03Harness) TakeCalls() []c03Call {
	h.mu.Lock()
	defer h.mu.Unlock()
	res := append([]c03Call{}, h.tableLog...)
	h.tableLog = nil
	return res
}

func (h *c03Harness) AttesterDuties(_ context.Context, opts *api.AttesterDutiesOpts) (*api.Response[[]*apiv1.AttesterDuty], error) {
	h.mu.Lock()
	h.calls++
	e := uint64(opts.Epoch)
	ver := h.ver(int64(e) - 1)
	h.fetches = append(h.fetches, c03Fetch{K: "att", Key: e, Ver: ver})
	w := h.wanted(opts.Indices)
	res := make([]*apiv1.AttesterDuty, 0)
	for _, d := range h.Oracle.Att {
		if d.E == e && d.Ver == ver && w[d.V] {
			res = append(res, &apiv1.AttesterDuty{
				Slot:                    phase0.Slot(d.Slot),
				ValidatorIndex:          phase0.ValidatorIndex(d.V),
				CommitteeIndex:          phase0.CommitteeIndex(d.V % 2),
				CommitteeLength:         8,
				CommitteesAtSlot:        2,
				ValidatorCommitteeIndex: d.V,
			})
		}
	}
	h.mu.Unlock()
	h.hold("att", e, ver)
	return &api.Response[[]*apiv1.AttesterDuty]{Data: res, Metadata: map[string]any{}}, nil
}

func (h *c03Harness) ProposerDuties(_ context.Context, opts *api.ProposerDutiesOpts) (*api.Response[[]*apiv1.ProposerDuty], error) {
	h.mu.Lock()
	h.calls++
	e := uint64(opts.Epoch)
	ver := h.ver(int64(e))
	h.fetches = append(h.fetches, c03Fetch{K: "prop", Key: e, Ver: ver})
	w := h.wanted(opts.Indices)
	res := make([]*apiv1.ProposerDuty, 0)
	for _, d := range h.Oracle.Prop {
		if d.E == e && d.Ver == ver && w[d.V] {
			res = append(res, &apiv1.ProposerDuty{Slot: phase0.Slot(d.Slot), ValidatorIndex: phase0.ValidatorIndex(d.V)})
		}
	}
	h.mu.Unlock()
	h.hold("prop", e, ver)
	return &api.Response[[]*apiv1.ProposerDuty]{Data: res, Metadata: map[string]any{}}, nil
}

func (h *c03Harness) SyncCommitteeDuties(_ context.Context, opts *api.SyncCommitteeDutiesOpts) (*api.Response[[]*apiv1.SyncCommitteeDuty], error) {
	h.mu.Lock()
	h.calls++
	e := uint64(opts.Epoch)
	if e < h.Cfg.Fork {
		// A node has no sync committees before Altair.
		h.fetches = append(h.fetches, c03Fetch{K: "syncprefork", Key: e, Ver: 0})
		h.mu.Unlock()
		return nil, errors.New("epoch is before the Altair fork")
	}
	p := e / h.Cfg.EP
	ver := h.ver((int64(p) - 1) * int64(h.Cfg.EP))
	h.fetches = append(h.fetches, c03Fetch{K: "sync", Key: p, Ver: ver})
	w := h.wanted(opts.Indices)
	res := make([]*apiv1.SyncCommitteeDuty, 0)
	for _, d := range h.Oracle.Sync {
		if d.P == p && d.Ver == ver && w[d.V] {
			res = append(res, &apiv1.SyncCommitteeDuty{
				ValidatorIndex:                phase0.ValidatorIndex(d.V),
				ValidatorSyncCommitteeIndices: []phase0.CommitteeIndex{phase0.CommitteeIndex(d.V)},
			})
		}
	}
	h.mu.Unlock()
	h.hold("sync", p, ver)
	return &api.Response[[]*apiv1.SyncCommitteeDuty]{Data: res, Metadata: map[string]any{}}, nil
}

func (h *c03Harness) BeaconBlockHeader(ctx context.Context, _ *api.BeaconBlockHeaderOpts) (*api.Response[*apiv1.BeaconBlockHeader], error) {
	if c03ProbeOf(ctx) != nil {
		return nil, errC03Probe
	}
	h.note()
	h.mu.Lock()
	hs := h.headSlot
	h.mu.Unlock()
	if hs < 0 {
		return nil, errors.New("scripted: no head")
	}
	return &api.Response[*apiv1.BeaconBlockHeader]{
		Data: &apiv1.BeaconBlockHeader{
			Root:      c03Root(100, int(hs)),
			Canonical: true,
			Header:    &phase0.SignedBeaconBlockHeader{Message: &phase0.BeaconBlockHeader{Slot: phase0.Slot(hs)}},
		},
		Metadata: map[string]any{},
	}, nil
}

func (h *c03Harness) Events(_ context.Context, topics []string, handler eth2client.EventHandlerFunc) error {
	for _, t := range topics {
		h.handlers[t] = handler
	}
	return nil
}

// ---------------------------------------------------------------------------------------------
// scripted accounts

func (h *c03Harness) accounts(indices []phase0.ValidatorIndex, all bool) map[phase0.ValidatorIndex]e2wtypes.Account {
	res := map[phase0.ValidatorIndex]e2wtypes.Account{}
	w := h.wanted(indices)
	for _, v := range h.Cfg.Vals {
		if all || w[v] {
			res[phase0.ValidatorIndex(v)] = &c03Account{index: v}
		}
	}
	return res
}

// SetAccounts scripts what the accounts provider answers from now on to the lookups "all accounts of the
// epoch" (ValidatingAccountsForEpoch, SyncCommitteeAccountsForEpoch): the active validators vals (any
// subset of Cfg.Vals, also none), or an error.  A lookup that waits at the delaying interface "acct" gets
// the answer in force when it is let through.  The by-index lookups keep answering from Cfg.Vals.
func (h *c03Harness) SetAccounts(vals []uint64, fail bool) {
	h.mu.Lock()
	h.acctSet, h.acctVals, h.acctErr = true, append([]uint64{}, vals...), fail
	h.mu.Unlock()
}

// active answers a lookup of all accounts now.
func (h *c03Harness) active() (map[phase0.ValidatorIndex]e2wtypes.Account, error) {
	h.mu.Lock()
	set, vals, fail := h.acctSet, h.acctVals, h.acctErr
	h.mu.Unlock()
	if !set {
		return h.accounts(nil, true), nil
	}
	if fail {
		return nil, errors.New("scripted: accounts lookup failed")
	}
	res := map[phase0.ValidatorIndex]e2wtypes.Account{}
	for _, v := range vals {
		res[phase0.ValidatorIndex(v)] = &c03Account{index: v}
	}
	return res, nil
}

func (h *c03Harness) ValidatingAccountsForEpoch(ctx context.Context, epoch phase0.Epoch) (map[phase0.ValidatorIndex]e2wtypes.Account, error) {
	if c03ProbeOf(ctx) != nil {
		return nil, errC03Probe
	}
	h.note()
	h.park("acct", uint64(epoch), 0, "")
	return h.active()
}

func (h *c03Harness) ValidatingAccountsForEpochByIndex(_ context.Context, _ phase0.Epoch, indices []phase0.ValidatorIndex) (map[phase0.ValidatorIndex]e2wtypes.Account, error) {
	h.note()
	return h.accounts(indices, false), nil
}

func (h *c03Harness) SyncCommitteeAccountsForEpoch(_ context.Context, _ phase0.Epoch) (map[phase0.ValidatorIndex]e2wtypes.Account, error) {
	h.note()
	return h.active()
}

func (h *c03Harness) SyncCommitteeAccountsForEpochByIndex(_ context.Context, _ phase0.Epoch, indices []phase0.ValidatorIndex) (map[phase0.ValidatorIndex]e2wtypes.Account, error) {
	h.note()
	return h.accounts(indices, false), nil
}

func (h *c03Harness) Refresh(_ context.Context) { h.note() }

func (h *c03Harness) UpdatePreparations(_ context.Context) error { h.note(); return nil }

// ---------------------------------------------------------------------------------------------
// recording duty services

func c03Indices(in []phase0.ValidatorIndex) []uint64 {
	set := map[uint64]bool{}
	for _, v := range in {
		set[uint64(v)] = true
	}
	res := make([]uint64, 0, len(set))
	for v := range set {
		res = append(res, v)
	}
	sort.Slice(res, func(i, j int) bool { return res[i] < res[j] })
	return res
}

func (h *c03Harness) record(ctx context.Context, executedDuty bool, k string, n uint64, vals []uint64) bool {
	if p := c03ProbeOf(ctx); p != nil {
		p.vals = vals
		p.hit = true
		return true
	}
	h.mu.Lock()
	h.calls++
	if executedDuty {
		h.executed = append(h.executed, c03Done{K: k, N: n, Vals: vals})
	} else {
		h.other = append(h.other, c03Done{K: k, N: n, Vals: vals})
	}
	h.mu.Unlock()
	return false
}

type c03Attester struct{ h *c03Harness }

func (a *c03Attester) Attest(ctx context.Context, duty *attester.Duty) ([]*phase0.Attestation, error) {
	if a.h.record(ctx, true, "att", uint64(duty.Slot()), c03Indices(duty.ValidatorIndices())) {
		return nil, errC03Probe
	}
	return []*phase0.Attestation{}, nil
}

type c03Proposer struct{ h *c03Harness }

func (p *c03Proposer) Prepare(ctx context.Context, duty *beaconblockproposer.Duty) error {
	p.h.record(ctx, false, "propprepare", uint64(duty.Slot()), []uint64{uint64(duty.ValidatorIndex())})
	return nil
}

func (p *c03Proposer) Propose(ctx context.Context, duty *beaconblockproposer.Duty) {
	p.h.record(ctx, true, "prop", uint64(duty.Slot()), []uint64{uint64(duty.ValidatorIndex())})
}

type c03Messenger struct{ h *c03Harness }

func (m *c03Messenger) Prepare(ctx context.Context, duty *synccommitteemessenger.Duty) error {
	if m.h.record(ctx, false, "syncprepare", uint64(duty.Slot()), c03Indices(duty.ValidatorIndices())) {
		return errC03Probe
	}
	return nil
}

func (m *c03Messenger) Message(ctx context.Context, duty *synccommitteemessenger.Duty) ([]*altair.SyncCommitteeMessage, error) {
	if m.h.record(ctx, true, "syncmsg", uint64(duty.Slot()), c03Indices(duty.ValidatorIndices())) {
		return nil, errC03Probe
	}
	return []*altair.SyncCommitteeMessage{}, nil
}

func (*c03Messenger) GetDataUsedForSlot(_ phase0.Slot) (synccommitteemessenger.SlotData, bool) {
	return synccommitteemessenger.SlotData{}, false
}

func (*c03Messenger) RemoveHistoricDataUsedForSlotVerification(_ phase0.Slot) {}

type c03SyncAggregator struct{ h *c03Harness }

func (*c03SyncAggregator) SetBeaconBlockRoot(_ phase0.Slot, _ phase0.Root) {}

func (a *c03SyncAggregator) Aggregate(ctx context.Context, duty *synccommitteeaggregator.Duty) {
	a.h.record(ctx, false, "syncagg", uint64(duty.Slot), c03Indices(duty.ValidatorIndices))
}

type c03AttAggregator struct{ h *c03Harness }

func (a *c03AttAggregator) Aggregate(ctx context.Context, duty *attestationaggregator.Duty) {
	a.h.record(ctx, false, "attagg", uint64(duty.Slot), []uint64{uint64(duty.ValidatorIndex)})
}

func (*c03AttAggregator) AggregatorsAndSignatures(_ context.Context, accounts []e2wtypes.Account, _ phase0.Slot, _ []uint64) ([]phase0.BLSSignature, []bool, error) {
	return make([]phase0.BLSSignature, len(accounts)), make([]bool, len(accounts)), nil
}

type c03BCSubscriber struct{ h *c03Harness }

func (s *c03BCSubscriber) Subscribe(_ context.Context, _ phase0.Epoch, _ map[phase0.ValidatorIndex]e2wtypes.Account) (map[phase0.Slot]map[phase0.CommitteeIndex]*beaconcommitteesubscriber.Subscription, error) {
	s.h.note()
	return map[phase0.Slot]map[phase0.CommitteeIndex]*beaconcommitteesubscriber.Subscription{}, nil
}

type c03SyncSubscriber struct{ h *c03Harness }

func (s *c03SyncSubscriber) Subscribe(_ context.Context, _ phase0.Epoch, _ []*apiv1.SyncCommitteeDuty) error {
	s.h.note()
	return nil
}

// ---------------------------------------------------------------------------------------------
// stimuli

// Now returns the clock.
func (h *c03Harness) Now() uint64 { return uint64(h.ChainTime.CurrentSlot()) }

// Start constructs the real controller with the clock at slot (a restart when called again: the old
// service and its scheduler are dropped, the executed-duty log is kept).
func (h *c03Harness) Start(slot uint64, waitedForGenesis bool) error {
	h.ChainTime.SetSlot(slot)
	h.Sched = verifsupport.NewScheduler()
	h.Sched.OnCall = func(op string, name string, _ time.Time, err error) {
		if err != nil {
			return
		}
		switch op {
		case "ScheduleJob":
			h.noteTable("add", name)
		case "CancelJob", "RunJob":
			h.noteTable("rm", name)
		}
	}
	h.mu.Lock()
	h.holdKinds = map[string]bool{}
	h.tableLog = nil
	h.mu.Unlock()
	h.handlers = map[string]eth2client.EventHandlerFunc{}
	syncCommitteePreparationEpochs = h.Cfg.Prep
	h.baseline = runtime.NumGoroutine()
	params := []Parameter{
		WithLogLevel(zerolog.Disabled),
		WithMonitor(nullmetrics.New()),
		WithSpecProvider(h),
		WithChainTimeService(h.ChainTime),
		WithWaitedForGenesis(waitedForGenesis),
		WithProposerDutiesProvider(h),
		WithAttesterDutiesProvider(h),
		WithSyncCommitteeDutiesProvider(h),
		WithEventsProvider(h),
		WithValidatingAccountsProvider(h),
		WithProposalsPreparer(h),
		WithScheduler(&c03GatedSched{h: h, in: h.Sched}),
		WithAttester(h.Attester),
		WithSyncCommitteeMessenger(h.Messenger),
		WithSyncCommitteeAggregator(h.SyncAggregator),
		WithSyncCommitteeSubscriber(h.SyncSubscriber),
		WithBeaconBlockProposer(h.Proposer),
		WithBeaconCommitteeSubscriber(h.BeaconCommitteeSubscriber),
		WithAttestationAggregator(h.AttAggregator),
		WithAccountsRefresher(h),
		WithBlockToSlotSetter(mockcache.New(map[phase0.Root]phase0.Slot{}).(cache.BlockRootToSlotSetter)),
		WithBeaconBlockHeadersProvider(h),
		WithSignedBeaconBlockProvider(mock.NewSignedBeaconBlockProvider()),
		WithMaxAttestationDelay(time.Duration(h.Cfg.AttDelay) * time.Second),
		WithMaxProposalDelay(time.Duration(h.Cfg.PropDelay) * time.Second),
		WithMaxSyncCommitteeMessageDelay(time.Duration(h.Cfg.SyncDelay) * time.Second),
		WithFastTrackAttestations(h.Cfg.FT),
		WithFastTrackSyncCommittees(h.Cfg.FT),
		WithFastTrackGrace(0),
	}
	params = append(params, h.ExtraParams...)
	svc, err := New(h.Ctx, params...)
	if err != nil {
		return err
	}
	h.Svc = svc
	if h.handlers["head"] == nil {
		return errors.New("controller registered no head event handler")
	}
	return h.Quiesce()
}

// Crash drops the service (volatile state is lost; executed duties are history).
func (h *c03Harness) Crash() {
	h.Svc = nil
	h.Sched = nil
	h.mu.Lock()
	h.tableLog = nil
	h.mu.Unlock()
}

// Advance moves the clock to the next slot.
func (h *c03Harness) Advance() { h.ChainTime.SetSlot(h.Now() + 1) }

// Reorg changes the duty-dependent root of boundary b.
func (h *c03Harness) Reorg(b int64) {
	h.mu.Lock()
	h.depVer[b]++
	h.mu.Unlock()
}

// HeadEvent delivers a head event for the current slot with the roots in force.
func (h *c03Harness) HeadEvent() error {
	h.begin()
	slot := h.Now()
	e := int64(slot / h.Cfg.P)
	h.mu.Lock()
	prev := c03Root(e-1, h.ver(e-1))
	cur := c03Root(e, h.ver(e))
	delayedRun := h.holdKinds["run"]
	h.mu.Unlock()
	ev := &apiv1.Event{
		Topic: "head",
		Data: &apiv1.HeadEvent{
			Slot:                      phase0.Slot(slot),
			Block:                     c03Root(200, int(slot)),
			PreviousDutyDependentRoot: prev,
			CurrentDutyDependentRoot:  cur,
		},
	}
	if delayedRun || h.Watchdog {
		// the handler itself fast-tracks (RunJobIfExists): it may have to wait there
		go h.handlers["head"](ev)
	} else {
		h.handlers["head"](ev)
	}
	return h.Quiesce()
}

// FireTicker runs the periodic epoch ticker job.
func (h *c03Harness) FireTicker() (bool, error) {
	h.begin()
	return h.fire("Epoch ticker")
}

// fire starts the named job as the scheduler's timer does (with the watchdog: on a goroutine of its own,
// as the real scheduler does, so that a job that never returns does not take the driver with it).
func (h *c03Harness) fire(name string) (bool, error) {
	if !h.Watchdog {
		ok := h.Sched.Fire(h.Ctx, name)
		return ok, h.Quiesce()
	}
	if h.Sched.Get(name) == nil {
		return false, h.Quiesce()
	}
	go h.Sched.Fire(h.Ctx, name)
	return true, h.Quiesce()
}

// SetHeadSlot scripts the head slot the node reports to proposeEarly (-1: error).
func (h *c03Harness) SetHeadSlot(slot int64) {
	h.mu.Lock()
	h.headSlot = slot
	h.mu.Unlock()
}

// FireJob starts the named job as the scheduler's timer would.
func (h *c03Harness) FireJob(name string) (bool, error) {
	h.begin()
	if h.Sched.Get(name) != nil {
		h.noteTable("rm", name)
	}
	return h.fire(name)
}

// Hold makes an interface delaying: the scripted node keeps back replies for duty kind k (att, prop,
// sync), the accounts provider its answer (acct), the scheduler gate its calls (cancel, sched, run),
// each until released.  Switching off does not release what waits already.
func (h *c03Harness) Hold(k string, on bool) {
	h.mu.Lock()
	h.holdKinds[k] = on
	h.mu.Unlock()
}

// Held lists the calls waiting at a delaying interface, oldest first.
func (h *c03Harness) Held() []c03Parked {
	h.mu.Lock()
	defer h.mu.Unlock()
	res := make([]c03Parked, 0, len(h.held))
	for _, x := range h.held {
		res = append(res, c03Parked{K: x.K, Key: x.Key, Ver: x.Ver, Jk: x.Jk})
	}
	return res
}

// Release delivers the oldest kept-back reply for (k, key) made at version ver; false if there is none.
func (h *c03Harness) Release(k string, key uint64, ver int) (bool, error) {
	return h.ReleaseCall(k, key, ver, "")
}

// ReleaseCall lets the oldest waiting call (k, key, ver, jk) through; false if there is none.
func (h *c03Harness) ReleaseCall(k string, key uint64, ver int, jk string) (bool, error) {
	h.begin()
	h.mu.Lock()
	var x *c03Held
	for i, c := range h.held {
		if c.K == k && c.Key == key && c.Ver == ver && c.Jk == jk {
			x = c
			h.held = append(h.held[:i], h.held[i+1:]...)
			break
		}
	}
	h.mu.Unlock()
	if x == nil {
		return false, nil
	}
	close(x.release)
	return true, h.Quiesce()
}

func (h *c03Harness) begin() {
	h.mu.Lock()
	nh := len(h.held)
	h.mu.Unlock()
	h.baseline = runtime.NumGoroutine() - nh
}

// Quiesce waits until every goroutine the controller spawned has finished (goroutine count back at
// the level before the stimulus, plus the replies the scripted node keeps back).  Fallback, should
// the process have grown an unrelated goroutine: goroutine count and fake-call counter unchanged
// for 400 ms.  Bounded by 20 s; expiry is an error (a broken run, never a verdict).
func (h *c03Harness) Quiesce() error {
	deadline := time.Now().Add(20 * time.Second)
	var lastN int
	var lastCalls int64
	stableSince := time.Now()
	for i := 0; ; i++ {
		h.mu.Lock()
		nh := len(h.held)
		calls := h.calls
		h.mu.Unlock()
		n := runtime.NumGoroutine()
		if n <= h.baseline+nh {
			return nil
		}
		if n != lastN || calls != lastCalls {
			lastN, lastCalls = n, calls
			stableSince = time.Now()
		} else if time.Since(stableSince) > 400*time.Millisecond {
			if h.Watchdog && !h.watch(deadline) {
				// something moved after all
				lastN, lastCalls = 0, 0
				stableSince = time.Now()
				continue
			}
			h.baseline = n - nh
			return nil
		}
		if time.Now().After(deadline) {
			return fmt.Errorf("no quiescence: %d goroutines, baseline %d, held %d", n, h.baseline, nh)
		}
		if i < 50 {
			runtime.Gosched()
		} else {
			time.Sleep(200 * time.Microsecond)
		}
	}
}

// ---------------------------------------------------------------------------------------------
// watchdog

var (
	c03GoroutineHead = regexp.MustCompile(`^goroutine (\d+) \[([^\],]+)`)
	c03ServiceFrame  = regexp.MustCompile(`services/controller/standard\.\(\*Service\)\.([A-Za-z0-9_]+)`)
)

// lingering lists the goroutines that have a method of the controller's Service on their stack and do
// not wait at one of the harness's delaying interfaces: id -> (innermost Service method, state).
func (h *c03Harness) lingering() map[string]c03Hung {
	buf := make([]byte, 1<<20)
	for {
		n := runtime.Stack(buf, true)
		if n < len(buf) {
			buf = buf[:n]
			break
		}
		buf = make([]byte, 2*len(buf))
	}
	res := map[string]c03Hung{}
	for _, g := range strings.Split(string(buf), "\n\n") {
		m := c03GoroutineHead.FindStringSubmatch(g)
		if m == nil {
			continue
		}
		f := c03ServiceFrame.FindStringSubmatch(g)
		if f == nil || strings.Contains(g, "c03Harness).park") {
			continue
		}
		res[m[1]] = c03Hung{Fn: f[1], State: m[2]}
	}
	return res
}

func c03Blocked(state string) bool {
	switch state {
	case "running", "runnable", "syscall", "sleep":
		return false
	}
	return true
}

// watch is called when nothing has moved for a while although more goroutines are there than before the
// stimulus.  Goroutines of the controller that are blocked (not merely slow), wait at none of the scripted
// interfaces and stay so for another 1.5 s are recorded as hung (each once) and true is returned: the
// caller gets used to them.  False: something is still moving, keep waiting.
func (h *c03Harness) watch(deadline time.Time) bool {
	first := h.lingering()
	for id, g := range first {
		if h.hungIDs[id] {
			delete(first, id)
		} else if !c03Blocked(g.State) {
			return false
		}
	}
	if len(first) == 0 {
		return true // an unrelated goroutine
	}
	until := time.Now().Add(1500 * time.Millisecond)
	for time.Now().Before(until) && time.Now().Before(deadline) {
		time.Sleep(50 * time.Millisecond)
		now := h.lingering()
		for id, g := range first {
			if x, ok := now[id]; !ok || x != g {
				return false
			}
		}
	}
	if h.hungIDs == nil {
		h.hungIDs = map[string]bool{}
	}
	ids := make([]string, 0, len(first))
	for id := range first {
		ids = append(ids, id)
	}
	sort.Strings(ids)
	for _, id := range ids {
		h.hungIDs[id] = true
		h.hung = append(h.hung, first[id])
	}
	return true
}

// TakeHung returns the goroutines of the controller found hung since the last call.
func (h *c03Harness) TakeHung() []c03Hung {
	res := h.hung
	h.hung = nil
	sort.Slice(res, func(i, j int) bool { return res[i].Fn < res[j].Fn })
	return res
}

// ---------------------------------------------------------------------------------------------
// projections

var c03NamePatterns = []struct {
	k  string
	re *regexp.Regexp
}{
	{"att", regexp.MustCompile(`^Attestations for slot (\d+)$`)},
	{"prop", regexp.MustCompile(`^Beacon block proposal for slot (\d+)$`)},
	{"early", regexp.MustCompile(`^Early beacon block proposal for slot (\d+)$`)},
	{"syncprep", regexp.MustCompile(`^Prepare sync committee messages for slot (\d+)$`)},
	{"syncmsg", regexp.MustCompile(`^Sync committee messages for slot (\d+)$`)},
	{"syncagg", regexp.MustCompile(`^Sync committee aggregation for slot (\d+)$`)},
	{"attagg", regexp.MustCompile(`^Beacon block attestation aggregation for slot (\d+) committee \d+$`)},
	{"prepepoch", regexp.MustCompile(`^Prepare for epoch (\d+)$`)},
}

// C03JobName is the controller's job name for (kind, n).
func c03JobName(k string, n uint64) string {
	switch k {
	case "att":
		return fmt.Sprintf("Attestations for slot %d", n)
	case "prop":
		return fmt.Sprintf("Beacon block proposal for slot %d", n)
	case "early":
		return fmt.Sprintf("Early beacon block proposal for slot %d", n)
	case "syncprep":
		return fmt.Sprintf("Prepare sync committee messages for slot %d", n)
	case "syncmsg":
		return fmt.Sprintf("Sync committee messages for slot %d", n)
	case "syncagg":
		return fmt.Sprintf("Sync committee aggregation for slot %d", n)
	case "prepepoch":
		return fmt.Sprintf("Prepare for epoch %d", n)
	}
	return ""
}

func c03ParseName(name string) (string, uint64) {
	for _, p := range c03NamePatterns {
		if m := p.re.FindStringSubmatch(name); m != nil {
			n, _ := strconv.ParseUint(m[1], 10, 64)
			return p.k, n
		}
	}
	return "other", 0
}

// probe runs the job's function with a probe context: the recording fakes note which validators
// the job's duty covers and make the function return at once (nothing is executed or scheduled).
func (h *c03Harness) probe(j verifsupport.Job, k string, n uint64) []uint64 {
	if k == "prepepoch" || k == "early" || k == "other" {
		return []uint64{}
	}
	p := &c03Probe{}
	var pending bool
	if k == "att" {
		h.Svc.pendingAttestationsMutex.RLock()
		pending = h.Svc.pendingAttestations[phase0.Slot(n)]
		h.Svc.pendingAttestationsMutex.RUnlock()
	}
	j.Func(context.WithValue(h.Ctx, c03ProbeKey{}, p))
	if k == "att" && pending {
		// AttestAndScheduleAggregate clears the pending mark when it returns: put it back.
		h.Svc.pendingAttestationsMutex.Lock()
		h.Svc.pendingAttestations[phase0.Slot(n)] = true
		h.Svc.pendingAttestationsMutex.Unlock()
	}
	if !p.hit || p.vals == nil {
		return []uint64{}
	}
	return p.vals
}

// Jobs is the projected job table (one-off jobs), sorted by kind and slot; call at quiescence only.
func (h *c03Harness) Jobs() []c03Job {
	res := []c03Job{}
	if h.Sched == nil {
		return res
	}
	for _, j := range h.Sched.Snapshot() {
		if j.Periodic {
			continue
		}
		k, n := c03ParseName(j.Name)
		job := c03Job{K: k, N: n, T: int64(j.Runtime.Sub(h.ChainTime.Genesis) / time.Second), Vals: h.probe(j, k, n)}
		if d := j.Runtime.Sub(h.ChainTime.Genesis); d%time.Second != 0 {
			job.K, job.Name = "other", j.Name+" (time not in whole seconds)"
		}
		if k == "other" {
			job.Name = j.Name
		}
		res = append(res, job)
	}
	sort.Slice(res, func(i, j int) bool {
		if res[i].K != res[j].K {
			return res[i].K < res[j].K
		}
		if res[i].N != res[j].N {
			return res[i].N < res[j].N
		}
		return res[i].Name < res[j].Name
	})
	return res
}

// Periodic lists the periodic jobs.
func (h *c03Harness) Periodic() []string {
	res := []string{}
	if h.Sched == nil {
		return res
	}
	for _, j := range h.Sched.Snapshot() {
		if j.Periodic {
			res = append(res, j.Name)
		}
	}
	return res
}

// Executed is the log of executed duties (att, prop, syncmsg), in execution order.
func (h *c03Harness) Executed() []c03Done {
	h.mu.Lock()
	defer h.mu.Unlock()
	return append([]c03Done{}, h.executed...)
}

// Other is the log of the other recorded calls (proposal prepare, sync prepare, aggregations).
func (h *c03Harness) Other() []c03Done {
	h.mu.Lock()
	defer h.mu.Unlock()
	return append([]c03Done{}, h.other...)
}

// TakeFetches returns the duty requests the node has seen since the last call (as a set, sorted).
func (h *c03Harness) TakeFetches() []c03Fetch {
	h.mu.Lock()
	defer h.mu.Unlock()
	seen := map[c03Fetch]bool{}
	res := []c03Fetch{}
	for _, f := range h.fetches {
		if !seen[f] {
			seen[f] = true
			res = append(res, f)
		}
	}
	h.fetches = nil
	sort.Slice(res, func(i, j int) bool {
		if res[i].K != res[j].K {
			return res[i].K < res[j].K
		}
		if res[i].Key != res[j].Key {
			return res[i].Key < res[j].Key
		}
		return res[i].Ver < res[j].Ver
	})
	return res
}

var _ scheduler.Service = (*verifsupport.Scheduler)(nil)
