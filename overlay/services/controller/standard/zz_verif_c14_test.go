package standard

// Conformance driver for property C14 (spec/Subscriber.tla).  Injected with -overlay by /verif/check.
//
// Binding: the REAL beaconcommitteesubscriber/standard.Service (Subscribe) with the REAL
// attestationaggregator/standard.Service (AggregatorsAndSignatures) behind it, called through the REAL
// controller's subscribeToBeaconCommittees (which stores the subscription info), and the REAL
// controller's AttestAndScheduleAggregate working on that stored info.  Scripted: attester duties
// provider, slot-selection signer (chooses signatures so that the scalar h of the aggregator rule is
// the one the scenario asks for), attester, chain time, scheduler (verifsupport), recording
// subscriptions submitter, recording Aggregate sink.
//
// History of the controller's subscription-info store: a re-org is driven through the REAL
// HandleHeadEvent (a head event whose previous / current duty dependent root differs ->
// checkEventForReorg -> refreshAttesterDutiesForEpoch -> go subscribeToBeaconCommittees).  The duties
// provider of the real subscriber sits behind a gate: while the driver sends the re-org head event the
// gate holds the re-subscription (it is "in flight"); a later Resub step lets it go, answering or
// failing.  AttestAndScheduleAggregate runs at whatever point of that history the scenario says.
//
// ONE real controller, ONE real beacon committee subscriber and ONE real attestation aggregator per
// HISTORY (built at Reset, never in between): every (re-)subscription of a scenario - with the oracle
// as the re-org left it: a validator that kept its slot in another committee or in a committee of
// another length - runs on the instances the earlier ones ran on.  Overlap: a Fetch step lets a held
// re-subscription fetch the duties and parks its SignSlotSelections call for one slot inside the
// scripted signer (the call is then inside the real AggregatorsAndSignatures) while the following steps
// (other subscriptions, oracle changes, attestation jobs) run to completion on the same instances; a
// Finish step answers the parked call.

import (
	"context"
	"crypto/sha256"
	"encoding/binary"
	"errors"
	"fmt"
	"math/rand"
	"runtime"
	"sort"
	"sync"
	"testing"
	"time"

	eth2client "github.com/attestantio/go-eth2-client"
	"github.com/attestantio/go-eth2-client/api"
	apiv1 "github.com/attestantio/go-eth2-client/api/v1"
	"github.com/attestantio/go-eth2-client/spec/phase0"
	"github.com/attestantio/vouch/mock"
	mockaccountmanager "github.com/attestantio/vouch/services/accountmanager/mock"
	"github.com/attestantio/vouch/services/attestationaggregator"
	standardattestationaggregator "github.com/attestantio/vouch/services/attestationaggregator/standard"
	"github.com/attestantio/vouch/services/attester"
	mockbeaconblockproposer "github.com/attestantio/vouch/services/beaconblockproposer/mock"
	standardbeaconcommitteesubscriber "github.com/attestantio/vouch/services/beaconcommitteesubscriber/standard"
	"github.com/attestantio/vouch/services/cache"
	mockcache "github.com/attestantio/vouch/services/cache/mock"
	nullmetrics "github.com/attestantio/vouch/services/metrics/null"
	mockproposalpreparer "github.com/attestantio/vouch/services/proposalpreparer/mock"
	"github.com/attestantio/vouch/services/signer"
	mocksigner "github.com/attestantio/vouch/services/signer/mock"
	"github.com/attestantio/vouch/services/submitter"
	"github.com/attestantio/vouch/verifsupport"
	"github.com/prysmaticlabs/go-bitfield"
	"github.com/rs/zerolog"
	e2types "github.com/wealdtech/go-eth2-types/v2"
	e2wtypes "github.com/wealdtech/go-eth2-wallet-types/v2"
)

const (
	c14HMod          = 840 // h is logged modulo this; every modulus of the scenarios divides it
	c14SlotDuration  = 12 * time.Second
	c14AggDelay      = 8 * time.Second
	c14CommitteesMax = 8
)

type c14Step struct {
	Ev         string   `json:"ev"`
	Now        uint64   `json:"now"`
	Target     uint64   `json:"target"`
	V          uint64   `json:"v"`
	Slot       uint64   `json:"slot"`
	Committee  uint64   `json:"committee"`
	Size       uint64   `json:"size"`
	H          uint64   `json:"h"`
	Committees []uint64 `json:"committees"`
	Ok         bool     `json:"ok"`
	Op         string   `json:"op"`    // Duty: "add" (default), "drop", "move" (same validator and slot, new committee / size), "resize"
	Hs         uint64   `json:"hs"`    // Fetch: the slot whose selection call is parked in the signer
	ID         int      `json:"id"`    // Finish: number of the parked call
	Sfail      []uint64 `json:"sfail"` // Subscribe / Resub: slots whose selection call the scripted signer refuses
	Fail       bool     `json:"fail"`  // Subscribe / Resub: the scripted beacon node fails the duties request
	Reorg      bool     `json:"reorg"` // Head: the event carries a changed duty dependent root for the epoch
	Spe        uint64   `json:"spe"`   // Reset: slots per epoch
	Ep         uint64   `json:"ep"`    // Reset: epoch of the scenario's duties (before the shift)
}

type c14Scenario struct {
	Sc    int       `json:"sc"`
	Spe   uint64    `json:"spe"`  // slots per epoch the scenario's slot numbers assume
	Wide  bool      `json:"wide"` // shift the epoch to a seeded far-away position
	// wired family (zz_verif_c14_wired_test.go): the real signer, real submitter and real aggregation behind the
	// same controller / subscriber / aggregator; a scenario validator stands for a block of accounts
	Wired *c14Wiring `json:"wired"`
	Steps []c14Step `json:"steps"`
}

// ---- accounts -------------------------------------------------------------------------------

type c14PubKey struct{ b [48]byte }

func (p *c14PubKey) Marshal() []byte            { return p.b[:] }
func (*c14PubKey) Aggregate(_ e2types.PublicKey) {}
func (p *c14PubKey) Copy() e2types.PublicKey    { c := *p; return &c }

// c14Account is an inert account.  The embedded (nil) interface supplies the ID method, which nothing
// in the code under test calls (naming its result type would need a module that the repository
// requires only indirectly).
type c14Account struct {
	e2wtypes.Account
	index uint64
	pub   *c14PubKey
}

func c14NewAccount(index uint64) *c14Account {
	a := &c14Account{index: index, pub: &c14PubKey{}}
	binary.LittleEndian.PutUint64(a.pub.b[:8], index)
	a.pub.b[47] = 0xc1
	return a
}

func (a *c14Account) Name() string                 { return fmt.Sprintf("c14 validator %d", a.index) }
func (a *c14Account) PublicKey() e2types.PublicKey { return a.pub }

// ---- scripted fakes -------------------------------------------------------------------------

type c14Spec struct{ spe, target uint64 }

func (s *c14Spec) Spec(_ context.Context, _ *api.SpecOpts) (*api.Response[map[string]any], error) {
	return &api.Response[map[string]any]{
		Data: map[string]any{
			"SECONDS_PER_SLOT":                 c14SlotDuration,
			"SLOTS_PER_EPOCH":                  s.spe,
			"TARGET_AGGREGATORS_PER_COMMITTEE": s.target,
			// read by handleCurrentDependentRootChanged (modulus)
			"EPOCHS_PER_SYNC_COMMITTEE_PERIOD": uint64(256),
			// read by the real signer of the wired family
			"DOMAIN_BEACON_ATTESTER":     phase0.DomainType{0x00, 0x00, 0x00, 0x00},
			"DOMAIN_BEACON_PROPOSER":     phase0.DomainType{0x01, 0x00, 0x00, 0x00},
			"DOMAIN_RANDAO":              phase0.DomainType{0x02, 0x00, 0x00, 0x00},
			"DOMAIN_SELECTION_PROOF":     c14wDomainSelection,
			"DOMAIN_AGGREGATE_AND_PROOF": c14wDomainAggregate,
		},
		Metadata: map[string]any{},
	}, nil
}

// c14H is the scalar of the aggregator rule: little-endian uint64 of the first eight bytes of the
// SHA-256 of the signature (consensus specification, is_aggregator), reduced modulo c14HMod.
func c14H(sig phase0.BLSSignature) uint64 {
	h := sha256.Sum256(sig[:])
	return binary.LittleEndian.Uint64(h[:8]) % c14HMod
}

// c14FindSig finds a signature of (validator, slot) whose scalar is want.
func c14FindSig(v, slot, want uint64) phase0.BLSSignature {
	var sig phase0.BLSSignature
	binary.LittleEndian.PutUint64(sig[0:8], v)
	binary.LittleEndian.PutUint64(sig[8:16], slot)
	sig[95] = 0x14
	for nonce := uint64(1); ; nonce++ {
		binary.LittleEndian.PutUint64(sig[16:24], nonce)
		if c14H(sig) == want%c14HMod {
			return sig
		}
	}
}

type c14Parked struct {
	id int
	ch chan struct{}
}

type c14Signer struct {
	mu   sync.Mutex
	sigs map[[2]uint64]phase0.BLSSignature
	// whose slot signature a signature is (validator index; the slot signatures of a scenario are all different)
	owner map[phase0.BLSSignature]uint64
	// overlap: the next call for slot holdSlot is parked (it stays inside the real AggregatorsAndSignatures)
	armed    bool
	holdSlot uint64
	nparked  int // calls ever parked
	parked   []*c14Parked
	calls    int
	// failure: calls for these slots are refused; refused = the slots really refused since setFail
	failSlots map[uint64]bool
	refused   map[uint64]bool
}

func (s *c14Signer) setFail(slots []uint64, off uint64) {
	s.mu.Lock()
	s.failSlots, s.refused = map[uint64]bool{}, map[uint64]bool{}
	for _, x := range slots {
		s.failSlots[x+off] = true
	}
	s.mu.Unlock()
}

// refuse says whether the script refuses the selection of the slot (wired family: asked by the accounts).
func (s *c14Signer) refuse(slot uint64) bool {
	s.mu.Lock()
	defer s.mu.Unlock()
	if s.failSlots[slot] {
		s.refused[slot] = true
		return true
	}
	return false
}

// own is the slot signature of the validator, if the scenario has given it a duty in the slot.
func (s *c14Signer) own(v, slot uint64) (phase0.BLSSignature, bool) {
	s.mu.Lock()
	defer s.mu.Unlock()
	sig, ok := s.sigs[[2]uint64{v, slot}]
	return sig, ok
}

// ownerOf names the validator whose slot signature sig is (0: nobody's).
func (s *c14Signer) ownerOf(sig phase0.BLSSignature) uint64 {
	s.mu.Lock()
	defer s.mu.Unlock()
	return s.owner[sig]
}

// takeRefused ends the failure script and says which slots were refused.
func (s *c14Signer) takeRefused() []uint64 {
	s.mu.Lock()
	defer s.mu.Unlock()
	res := make([]uint64, 0, len(s.refused))
	for x := range s.refused {
		res = append(res, x)
	}
	sort.Slice(res, func(i, j int) bool { return res[i] < res[j] })
	s.failSlots, s.refused = nil, nil
	return res
}

func (s *c14Signer) SignSlotSelections(_ context.Context, accounts []e2wtypes.Account, slot phase0.Slot) ([]phase0.BLSSignature, error) {
	s.mu.Lock()
	s.calls++
	if s.failSlots[uint64(slot)] {
		s.refused[uint64(slot)] = true
		s.mu.Unlock()
		return nil, errors.New("c14: scripted refusal of the slot-selection signer")
	}
	if s.armed && uint64(slot) == s.holdSlot {
		s.armed = false
		s.nparked++
		p := &c14Parked{id: s.nparked, ch: make(chan struct{})}
		s.parked = append(s.parked, p)
		s.mu.Unlock()
		<-p.ch
		s.mu.Lock()
	}
	defer s.mu.Unlock()
	res := make([]phase0.BLSSignature, len(accounts))
	for i, a := range accounts {
		acc, ok := a.(*c14Account)
		if !ok {
			return nil, errors.New("c14: not a scripted account")
		}
		sig, ok := s.sigs[[2]uint64{acc.index, uint64(slot)}]
		if !ok {
			return nil, fmt.Errorf("c14: no scripted signature for validator %d slot %d", acc.index, slot)
		}
		res[i] = sig
	}
	return res, nil
}

func (s *c14Signer) arm(slot uint64, on bool) {
	s.mu.Lock()
	s.armed, s.holdSlot = on, slot
	s.mu.Unlock()
}

func (s *c14Signer) nowParked() int {
	s.mu.Lock()
	defer s.mu.Unlock()
	return len(s.parked)
}

func (s *c14Signer) everParked() int {
	s.mu.Lock()
	defer s.mu.Unlock()
	return s.nparked
}

// answer lets the parked call id go; false if there is none.
func (s *c14Signer) answer(id int) bool {
	s.mu.Lock()
	for i, p := range s.parked {
		if p.id == id {
			s.parked = append(s.parked[:i:i], s.parked[i+1:]...)
			s.mu.Unlock()
			close(p.ch)
			return true
		}
	}
	s.mu.Unlock()
	return false
}

type c14Duties struct {
	mu     sync.Mutex
	spe    uint64
	duties []*apiv1.AttesterDuty
}

func (d *c14Duties) AttesterDuties(_ context.Context, opts *api.AttesterDutiesOpts) (*api.Response[[]*apiv1.AttesterDuty], error) {
	d.mu.Lock()
	defer d.mu.Unlock()
	want := map[phase0.ValidatorIndex]bool{}
	for _, i := range opts.Indices {
		want[i] = true
	}
	res := make([]*apiv1.AttesterDuty, 0)
	for _, x := range d.duties {
		if want[x.ValidatorIndex] && uint64(x.Slot)/d.spe == uint64(opts.Epoch) {
			c := *x
			res = append(res, &c)
		}
	}
	return &api.Response[[]*apiv1.AttesterDuty]{Data: res, Metadata: map[string]any{}}, nil
}

// c14Gate stands at the beacon node's AttesterDuties endpoint as seen by the real subscriber.  While
// hold is set, a call is held (the subscription it belongs to is in flight) until the driver lets it
// go with a verdict; otherwise it passes, or fails when fail is set.
type c14Gate struct {
	mu   sync.Mutex
	hold bool
	fail bool
	held []chan bool // one per held call, in order of arrival
}

func (g *c14Gate) enter() bool {
	g.mu.Lock()
	if !g.hold {
		ok := !g.fail
		g.mu.Unlock()
		return ok
	}
	ch := make(chan bool, 1)
	g.held = append(g.held, ch)
	g.mu.Unlock()
	return <-ch
}

func (g *c14Gate) set(hold, fail bool) {
	g.mu.Lock()
	g.hold, g.fail = hold, fail
	g.mu.Unlock()
}

func (g *c14Gate) nheld() int {
	g.mu.Lock()
	defer g.mu.Unlock()
	return len(g.held)
}

// release lets the oldest held call go; false if none is held.
func (g *c14Gate) release(ok bool) bool {
	g.mu.Lock()
	if len(g.held) == 0 {
		g.mu.Unlock()
		return false
	}
	ch := g.held[0]
	g.held = g.held[1:]
	g.mu.Unlock()
	ch <- ok
	return true
}

// c14GatedDuties is the duties provider given to the real beacon committee subscriber.
type c14GatedDuties struct {
	gate  *c14Gate
	inner *c14Duties
}

func (d *c14GatedDuties) AttesterDuties(ctx context.Context, opts *api.AttesterDutiesOpts) (*api.Response[[]*apiv1.AttesterDuty], error) {
	if !d.gate.enter() {
		return nil, errors.New("c14: scripted failure of the beacon node")
	}
	// the oracle is read when the call is let go
	return d.inner.AttesterDuties(ctx, opts)
}

type c14Submitter struct {
	mu    sync.Mutex
	calls int
	subs  []*apiv1.BeaconCommitteeSubscription
}

func (s *c14Submitter) SubmitBeaconCommitteeSubscriptions(_ context.Context, subs []*apiv1.BeaconCommitteeSubscription) error {
	s.mu.Lock()
	defer s.mu.Unlock()
	s.calls++
	s.subs = append(s.subs, subs...)
	return nil
}

func (s *c14Submitter) reset() {
	s.mu.Lock()
	s.calls = 0
	s.subs = nil
	s.mu.Unlock()
}

// collect is what the submitter received since reset.
func (s *c14Submitter) collect() ([]verifsupport.Ev, int) {
	s.mu.Lock()
	subs := make([]verifsupport.Ev, 0, len(s.subs))
	for _, x := range s.subs {
		subs = append(subs, verifsupport.Ev{"slot": uint64(x.Slot), "committee": uint64(x.CommitteeIndex),
			"v": uint64(x.ValidatorIndex), "agg": x.IsAggregator})
	}
	calls := s.calls
	s.mu.Unlock()
	c14Sort(subs)
	return subs, calls
}

type c14Attester struct {
	fail       bool
	committees []uint64
	count      map[uint64]int // attestations per committee (one per validator of Vouch in it)
	roots      map[uint64]phase0.Root
	spe        uint64
	note       func(root phase0.Root, data *phase0.AttestationData) // wired family: the node can serve the aggregate
}

func (a *c14Attester) Attest(_ context.Context, duty *attester.Duty) ([]*phase0.Attestation, error) {
	if a.fail {
		return nil, errors.New("c14: scripted attestation failure")
	}
	res := make([]*phase0.Attestation, 0)
	a.roots = map[uint64]phase0.Root{}
	for _, c := range a.committees {
		data := &phase0.AttestationData{
			Slot:   duty.Slot(),
			Index:  phase0.CommitteeIndex(c),
			Source: &phase0.Checkpoint{Epoch: phase0.Epoch(uint64(duty.Slot())/a.spe) - 0},
			Target: &phase0.Checkpoint{Epoch: phase0.Epoch(uint64(duty.Slot()) / a.spe)},
		}
		data.BeaconBlockRoot[0] = byte(c + 1)
		data.BeaconBlockRoot[31] = 0x14
		root, err := data.HashTreeRoot()
		if err != nil {
			return nil, err
		}
		a.roots[c] = root
		if a.note != nil {
			a.note(root, data)
		}
		n := a.count[c]
		if n == 0 {
			n = 1
		}
		for k := 0; k < n; k++ {
			bits := bitfield.NewBitlist(8)
			bits.SetBitAt(uint64(k), true)
			res = append(res, &phase0.Attestation{AggregationBits: bits, Data: data})
		}
	}
	return res, nil
}

// c14Aggregator is what the controller is given as attestation aggregator: it records the duties of
// Aggregate and hands AggregatorsAndSignatures to the real service.
type c14Aggregator struct {
	real   attestationaggregator.Service
	mu     sync.Mutex
	duties []*attestationaggregator.Duty
}

func (a *c14Aggregator) Aggregate(_ context.Context, duty *attestationaggregator.Duty) {
	a.mu.Lock()
	defer a.mu.Unlock()
	a.duties = append(a.duties, duty)
}

func (a *c14Aggregator) AggregatorsAndSignatures(ctx context.Context, accounts []e2wtypes.Account, slot phase0.Slot, committeeSizes []uint64) ([]phase0.BLSSignature, []bool, error) {
	return a.real.AggregatorsAndSignatures(ctx, accounts, slot, committeeSizes)
}

// c14Quiesce waits until the goroutines started since base was taken have ended.
func c14Quiesce(t *testing.T, base int, what string) {
	t.Helper()
	deadline := time.Now().Add(20 * time.Second)
	for runtime.NumGoroutine() > base {
		if time.Now().After(deadline) {
			t.Fatalf("c14: no quiescence after %s (%d goroutines, base %d)", what, runtime.NumGoroutine(), base)
		}
		runtime.Gosched()
		time.Sleep(50 * time.Microsecond)
	}
}

// c14QuiesceHeld waits until every goroutine started since base was taken (base = goroutines that were
// running, i.e. not held at the gate) has ended or is held at the gate.
func c14QuiesceHeld(t *testing.T, g c14Holder, base int, what string) {
	t.Helper()
	deadline := time.Now().Add(20 * time.Second)
	for runtime.NumGoroutine()-g.nheld() > base {
		if time.Now().After(deadline) {
			if c14OnHung != nil && c14OnHung(what) {
				// wired family: something the step started never ended - an event of the trace (Hung), not a dead driver
				return
			}
			t.Fatalf("c14: no quiescence after %s (%d goroutines, %d held, base %d)", what, runtime.NumGoroutine(), g.nheld(), base)
		}
		runtime.Gosched()
		time.Sleep(50 * time.Microsecond)
	}
}

// c14OnHung, when set (wired family), turns a step that does not come to rest into a Hung line of the trace.
var c14OnHung func(what string) bool

// c14Guarded runs a synchronous call of the code under test with a watchdog: a panic on the calling goroutine is a
// Crash line, a call that does not return a Hung line (no action of the specification allows either).
func c14Guarded(tr *verifsupport.Trace, sc int, what string, fn func()) bool {
	done := make(chan interface{}, 1)
	go func() {
		defer func() { done <- recover() }()
		fn()
	}()
	select {
	case p := <-done:
		if p != nil {
			tr.Emit(verifsupport.Ev{"sc": sc, "ev": "Crash", "what": what, "panic": fmt.Sprint(p)})
			return false
		}
		return true
	case <-time.After(30 * time.Second):
		tr.Emit(verifsupport.Ev{"sc": sc, "ev": "Hung", "what": what})
		return false
	}
}

// c14Holder says how many goroutines are blocked on purpose.
type c14Holder interface{ nheld() int }

// c14Holds: a re-subscription held at the beacon node is one goroutine (go subscribeToBeaconCommittees);
// one whose selection call is parked in the signer is two (that one, waiting for its per-slot
// goroutines, and the per-slot goroutine inside AggregatorsAndSignatures).
type c14Holds struct {
	gate   *c14Gate
	signer *c14Signer
}

func (h *c14Holds) nheld() int { return h.gate.nheld() + 2*h.signer.nowParked() }

type c14World struct {
	spe     uint64
	off     uint64
	ct      *verifsupport.ChainTime
	sched   *verifsupport.Scheduler
	duties  *c14Duties
	signer  *c14Signer
	sub     *c14Submitter
	sub2    *c14Submitter // second beacon node behind the multinode submitter (wired family)
	wired   *c14Wired     // nil: the fake-based family
	dead    bool          // wired family: a Crash / Hung line ended the history
	att     *c14Attester
	agg     *c14Aggregator
	accts   *mockaccountmanager.ValidatingAccountsProvider
	accMap  map[phase0.ValidatorIndex]e2wtypes.Account
	svc     *Service
	allDuty []c14Step // real slots
	gate    *c14Gate
	holds   *c14Holds
	epoch   uint64 // epoch of the scenario's duties (real)
	haveEp  bool
	// head events sent so far: the dependent roots the controller knows
	primed    bool
	headEpoch uint64
	prevRoot  phase0.Root
	curRoot   phase0.Root
	rootCtr   uint64
	// Reset line of a scenario that does not name its epoch: emitted with the first duty
	pendingReset verifsupport.Ev
}

func (w *c14World) freshRoot() phase0.Root {
	w.rootCtr++
	var r phase0.Root
	binary.LittleEndian.PutUint64(r[0:8], w.rootCtr)
	r[31] = 0x14
	return r
}

// sendHead hands a head event for the current slot to the real controller and waits until everything
// the handler started has ended or is held at the gate.  Returns the number of newly held calls.
func (w *c14World) sendHead(t *testing.T, what string) int {
	t.Helper()
	slot := w.ct.CurrentSlot()
	before := w.gate.nheld()
	base := runtime.NumGoroutine() - w.holds.nheld()
	var block phase0.Root
	block = w.freshRoot()
	w.svc.HandleHeadEvent(&apiv1.Event{
		Topic: "head",
		Data: &apiv1.HeadEvent{
			Slot:                      slot,
			Block:                     block,
			State:                     w.freshRoot(),
			PreviousDutyDependentRoot: w.prevRoot,
			CurrentDutyDependentRoot:  w.curRoot,
		},
	})
	c14QuiesceHeld(t, w.holds, base, what)
	return w.gate.nheld() - before
}

// neutralHead sends a head event that is consistent with what the controller knows (no re-org): the
// first one fixes the roots; across an epoch boundary the old current root becomes the previous one.
func (w *c14World) neutralHead(t *testing.T) int {
	t.Helper()
	e := uint64(w.ct.CurrentEpoch())
	switch {
	case !w.primed:
		w.prevRoot, w.curRoot = w.freshRoot(), w.freshRoot()
		w.primed = true
	case e > w.headEpoch:
		w.prevRoot, w.curRoot = w.curRoot, w.freshRoot()
	}
	w.headEpoch = e
	return w.sendHead(t, "head event")
}

func (w *c14World) emitHead(tr *verifsupport.Trace, sc int, reorg bool, resub int) {
	info, present := w.projectInfo(phase0.Epoch(w.epoch))
	tr.Emit(verifsupport.Ev{"sc": sc, "ev": "Head", "reorg": reorg, "resub": resub, "info": info, "present": present,
		"now": uint64(w.ct.CurrentSlot()), "inflight": w.gate.nheld()})
}

// drain ends what is still in flight (not part of the trace).
func (w *c14World) drain(t *testing.T) {
	t.Helper()
	w.signer.arm(0, false)
	for w.signer.nowParked() > 0 {
		base := runtime.NumGoroutine() - w.holds.nheld()
		w.signer.mu.Lock()
		id := w.signer.parked[0].id
		w.signer.mu.Unlock()
		w.signer.answer(id)
		c14QuiesceHeld(t, w.holds, base, "drain")
	}
	for w.gate.nheld() > 0 {
		base := runtime.NumGoroutine() - w.holds.nheld()
		w.gate.release(false)
		c14QuiesceHeld(t, w.holds, base, "drain")
	}
}

func c14Build(t *testing.T, ctx context.Context, spe, target, now uint64, wiring *c14Wiring) *c14World {
	t.Helper()
	w := &c14World{spe: spe}
	w.ct = verifsupport.NewChainTime(spe, c14SlotDuration)
	w.ct.SetSlot(now)
	w.sched = verifsupport.NewScheduler()
	w.duties = &c14Duties{spe: spe}
	w.gate = &c14Gate{}
	w.signer = &c14Signer{sigs: map[[2]uint64]phase0.BLSSignature{}, owner: map[phase0.BLSSignature]uint64{}}
	w.holds = &c14Holds{gate: w.gate, signer: w.signer}
	w.sub = &c14Submitter{}
	w.att = &c14Attester{spe: spe}
	w.accts = mockaccountmanager.NewValidatingAccountsProvider()
	w.accMap = map[phase0.ValidatorIndex]e2wtypes.Account{}
	spec := &c14Spec{spe: spe, target: target}

	// what the services are given: scripted fakes, or (wired family) the real neighbours as main.go wires them
	var (
		aggregateProvider   eth2client.AggregateAttestationProvider         = mock.NewAggregateAttestationProvider()
		aggregatesSubmitter submitter.AggregateAttestationsSubmitter        = mock.NewAggregateAttestationsSubmitter()
		selectionSigner     signer.SlotSelectionSigner                      = w.signer
		aggregateSigner     signer.AggregateAndProofSigner                  = mocksigner.New()
		subscriptionsSink   submitter.BeaconCommitteeSubscriptionsSubmitter = w.sub
	)
	if wiring != nil {
		w.wired = c14wNew(t, *wiring, spe, w.signer)
		w.att.note = w.wired.noteData
		realSigner := c14wSigner(t, ctx, spec)
		realSubmitter := c14wSubmitter(t, ctx, w)
		aggregateProvider = w.wired
		aggregatesSubmitter = realSubmitter.(submitter.AggregateAttestationsSubmitter)
		selectionSigner, aggregateSigner = realSigner, realSigner
		subscriptionsSink = realSubmitter.(submitter.BeaconCommitteeSubscriptionsSubmitter)
	}

	realAgg, err := standardattestationaggregator.New(ctx,
		standardattestationaggregator.WithLogLevel(zerolog.Disabled),
		standardattestationaggregator.WithMonitor(nullmetrics.New()),
		standardattestationaggregator.WithSpecProvider(spec),
		standardattestationaggregator.WithValidatingAccountsProvider(w.accts),
		standardattestationaggregator.WithAggregateAttestationProvider(aggregateProvider),
		standardattestationaggregator.WithAggregateAttestationsSubmitter(aggregatesSubmitter),
		standardattestationaggregator.WithSlotSelectionSigner(selectionSigner),
		standardattestationaggregator.WithAggregateAndProofSigner(aggregateSigner),
		standardattestationaggregator.WithChainTime(w.ct),
	)
	if err != nil {
		t.Fatalf("c14: attestation aggregator New: %v", err)
	}
	w.agg = &c14Aggregator{real: realAgg}
	var controllerAggregator attestationaggregator.Service = w.agg
	if wiring != nil {
		// the aggregation jobs run the real Aggregate
		controllerAggregator = realAgg
	}

	subscriber, err := standardbeaconcommitteesubscriber.New(ctx,
		standardbeaconcommitteesubscriber.WithLogLevel(zerolog.Disabled),
		standardbeaconcommitteesubscriber.WithProcessConcurrency(4),
		standardbeaconcommitteesubscriber.WithMonitor(nullmetrics.New()),
		standardbeaconcommitteesubscriber.WithChainTimeService(w.ct),
		standardbeaconcommitteesubscriber.WithAttesterDutiesProvider(&c14GatedDuties{gate: w.gate, inner: w.duties}),
		standardbeaconcommitteesubscriber.WithAttestationAggregator(realAgg),
		standardbeaconcommitteesubscriber.WithBeaconCommitteeSubmitter(subscriptionsSink),
	)
	if err != nil {
		t.Fatalf("c14: beacon committee subscriber New: %v", err)
	}

	base := runtime.NumGoroutine()
	w.svc, err = New(ctx,
		WithLogLevel(zerolog.Disabled),
		WithMonitor(nullmetrics.New()),
		WithSpecProvider(spec),
		WithChainTimeService(w.ct),
		WithWaitedForGenesis(false),
		WithProposerDutiesProvider(mock.NewProposerDutiesProvider()),
		WithAttesterDutiesProvider(w.duties),
		WithEventsProvider(mock.NewEventsProvider()),
		WithValidatingAccountsProvider(w.accts),
		WithProposalsPreparer(mockproposalpreparer.New()),
		WithScheduler(w.sched),
		WithAttester(w.att),
		WithBeaconBlockProposer(mockbeaconblockproposer.New()),
		WithBeaconBlockHeadersProvider(mock.NewBeaconBlockHeadersProvider()),
		WithSignedBeaconBlockProvider(mock.NewSignedBeaconBlockProvider()),
		WithAttestationAggregator(controllerAggregator),
		WithBeaconCommitteeSubscriber(subscriber),
		WithAccountsRefresher(mockaccountmanager.NewRefresher()),
		WithBlockToSlotSetter(mockcache.New(map[phase0.Root]phase0.Slot{}).(cache.BlockRootToSlotSetter)),
		WithMaxAttestationDelay(4*time.Second),
		WithMaxProposalDelay(4*time.Second),
		WithAttestationAggregationDelay(c14AggDelay),
	)
	if err != nil {
		t.Fatalf("c14: controller New: %v", err)
	}
	// The controller starts its start-up work (for an empty set of accounts) on goroutines.
	c14Quiesce(t, base, "controller New")
	return w
}

func (w *c14World) account(v uint64) e2wtypes.Account {
	idx := phase0.ValidatorIndex(v)
	if a, ok := w.accMap[idx]; ok {
		return a
	}
	var a e2wtypes.Account
	if w.wired != nil {
		a = w.wired.newAccount(v, w.wired.inner[v])
	} else {
		a = c14NewAccount(v)
	}
	w.accMap[idx] = a
	w.accts.AddAccount(idx, a)
	return a
}

// resetSubs / collect: what the beacon node(s) received since the last reset (both nodes of the multinode style).
func (w *c14World) resetSubs() {
	w.sub.reset()
	if w.sub2 != nil {
		w.sub2.reset()
	}
}

func (w *c14World) collect() ([]verifsupport.Ev, int) {
	subs, calls := w.sub.collect()
	if w.sub2 != nil {
		subs2, calls2 := w.sub2.collect()
		subs, calls = append(subs, subs2...), calls+calls2
		c14Sort(subs)
	}
	return subs, calls
}

// scriptCall hands the latency script of the next (re-)subscription to the accounts (wired family).
func (w *c14World) scriptCall(rng *rand.Rand) {
	if w.wired == nil {
		return
	}
	w.duties.mu.Lock()
	ds := make([][2]uint64, 0, len(w.duties.duties))
	for _, d := range w.duties.duties {
		ds = append(ds, [2]uint64{uint64(d.ValidatorIndex), uint64(d.Slot)})
	}
	w.duties.mu.Unlock()
	w.wired.script(ds, rng)
}

// callStats adds what the accounts saw during the call: local signings, how many of them ran at the same time,
// how many waited for the script (described in the trace; not read by the trace specification).
func (w *c14World) callStats(ev verifsupport.Ev) verifsupport.Ev {
	if w.wired != nil {
		ev["signer"] = w.wired.stats()
	}
	return ev
}

// members are the validators a scenario validator stands for (itself in the fake-based family).
func (w *c14World) members(t *testing.T, v uint64) []uint64 {
	if w.wired == nil {
		return []uint64{v}
	}
	return w.wired.block(t, v)
}

// pubKey is the public key the beacon node reports for the validator.
func (w *c14World) pubKey(v uint64) phase0.BLSPubKey {
	var res phase0.BLSPubKey
	copy(res[:], w.accMap[phase0.ValidatorIndex(v)].PublicKey().Marshal())
	return res
}

// projectInfo is the controller's stored subscription info for the epoch, and whether the store has an
// entry for the epoch at all.
func (w *c14World) projectInfo(epoch phase0.Epoch) ([]verifsupport.Ev, bool) {
	w.svc.subscriptionInfosMutex.Lock()
	defer w.svc.subscriptionInfosMutex.Unlock()
	res := make([]verifsupport.Ev, 0)
	_, present := w.svc.subscriptionInfos[epoch]
	for slot, m := range w.svc.subscriptionInfos[epoch] {
		for committee, sub := range m {
			if sub == nil || sub.Duty == nil {
				continue
			}
			// sv: whose slot signature is stored as the selection proof of the entry
			res = append(res, verifsupport.Ev{"slot": uint64(slot), "committee": uint64(committee),
				"v": uint64(sub.Duty.ValidatorIndex), "agg": sub.IsAggregator, "sv": w.signer.ownerOf(sub.Signature)})
		}
	}
	c14Sort(res)
	return res, present
}

func c14Sort(evs []verifsupport.Ev) {
	key := func(e verifsupport.Ev) [3]uint64 {
		return [3]uint64{e["slot"].(uint64), e["committee"].(uint64), e["v"].(uint64)}
	}
	sort.Slice(evs, func(i, j int) bool {
		a, b := key(evs[i]), key(evs[j])
		for k := range a {
			if a[k] != b[k] {
				return a[k] < b[k]
			}
		}
		return false
	})
}

// dutyStep changes the duty oracle as the step says (one validator; "resize": one committee) and logs it.
func (w *c14World) dutyStep(t *testing.T, tr *verifsupport.Trace, scID int, st c14Step, spe, off uint64) {
	t.Helper()
	slot := st.Slot + off
	if st.Op == "resize" {
		// after the re-org the committee has another length; its validators keep slot and index
		w.duties.mu.Lock()
		for _, d := range w.duties.duties {
			if uint64(d.Slot) == slot && uint64(d.CommitteeIndex) == st.Committee {
				d.CommitteeLength = st.Size
				d.ValidatorCommitteeIndex = uint64(d.ValidatorIndex) % st.Size
			}
		}
		w.duties.mu.Unlock()
		tr.Emit(verifsupport.Ev{"sc": scID, "ev": "Duty", "op": "resize", "v": uint64(0), "slot": slot, "committee": st.Committee,
			"size": st.Size, "h": uint64(0)})
		return
	}
	if !w.haveEp {
		w.epoch, w.haveEp = slot/spe, true
	}
	if w.pendingReset != nil {
		w.pendingReset["epoch"] = w.epoch
		tr.Emit(w.pendingReset)
		w.pendingReset = nil
	}
	w.account(st.V)
	key := [2]uint64{st.V, slot}
	w.signer.mu.Lock()
	sig, ok := w.signer.sigs[key]
	if !ok {
		// a validator has one signature per slot, whatever the oracle says
		if w.wired != nil {
			// the ORACLE of the wired family: the slot signature from the validator's own key
			sig = w.wired.ownSig(st.V, slot)
		} else {
			sig = c14FindSig(st.V, slot, st.H)
		}
		w.signer.sigs[key] = sig
		w.signer.owner[sig] = st.V
	}
	w.signer.mu.Unlock()
	if st.Op == "move" {
		// the re-org leaves the validator its slot: another committee and / or another length
		w.duties.mu.Lock()
		var oc, oz uint64
		found := false
		for _, d := range w.duties.duties {
			if uint64(d.Slot) == slot && uint64(d.ValidatorIndex) == st.V {
				oc, oz, found = uint64(d.CommitteeIndex), d.CommitteeLength, true
				d.CommitteeIndex = phase0.CommitteeIndex(st.Committee)
				d.CommitteeLength = st.Size
				d.ValidatorCommitteeIndex = st.V % st.Size
				break
			}
		}
		w.duties.mu.Unlock()
		if !found {
			t.Fatalf("c14: scenario %d moves a duty that the oracle does not have", scID)
		}
		tr.Emit(verifsupport.Ev{"sc": scID, "ev": "Duty", "op": "move", "v": st.V, "slot": slot, "committee": st.Committee,
			"size": st.Size, "h": c14H(sig), "ocommittee": oc, "osize": oz})
		return
	}
	if st.Op == "drop" {
		w.duties.mu.Lock()
		kept := w.duties.duties[:0:0]
		size := st.Size
		found := false
		for _, d := range w.duties.duties {
			if !found && uint64(d.Slot) == slot && uint64(d.ValidatorIndex) == st.V && uint64(d.CommitteeIndex) == st.Committee {
				found = true
				size = d.CommitteeLength
				continue
			}
			kept = append(kept, d)
		}
		w.duties.duties = kept
		w.duties.mu.Unlock()
		if !found {
			t.Fatalf("c14: scenario %d drops a duty that the oracle does not have", scID)
		}
		tr.Emit(verifsupport.Ev{"sc": scID, "ev": "Duty", "op": "drop", "v": st.V, "slot": slot, "committee": st.Committee,
			"size": size, "h": c14H(sig)})
		return
	}
	w.duties.mu.Lock()
	w.duties.duties = append(w.duties.duties, &apiv1.AttesterDuty{
		PubKey:                  w.pubKey(st.V),
		Slot:                    phase0.Slot(slot),
		ValidatorIndex:          phase0.ValidatorIndex(st.V),
		CommitteeIndex:          phase0.CommitteeIndex(st.Committee),
		CommitteeLength:         st.Size,
		CommitteesAtSlot:        c14CommitteesMax,
		ValidatorCommitteeIndex: st.V % st.Size,
	})
	w.duties.mu.Unlock()
	real := st
	real.Slot = slot
	w.allDuty = append(w.allDuty, real)
	tr.Emit(verifsupport.Ev{"sc": scID, "ev": "Duty", "op": "add", "v": st.V, "slot": slot, "committee": st.Committee,
		"size": st.Size, "h": c14H(sig)})
}

func TestVerifC14(t *testing.T) {
	var scenarios []c14Scenario
	verifsupport.Scenarios(t, &scenarios)
	tr := verifsupport.OpenTrace(t)
	defer tr.Close()
	ctx := context.Background()

	for _, sc := range scenarios {
		var w *c14World
		spe := sc.Spe
		if spe == 0 {
			spe = 4
		}
		rng := rand.New(rand.NewSource(verifsupport.Seed()*7919 + int64(sc.Sc)))
		off := uint64(0)
		if sc.Wide {
			off = uint64(rng.Intn(1<<18)) * spe // keeps slots well below 2^31
		}
		c14OnHung = nil
		for _, st := range sc.Steps {
			if w != nil && w.dead {
				break
			}
			switch st.Ev {
			case "Reset":
				if st.Spe != 0 {
					spe = st.Spe
				}
				w = c14Build(t, ctx, spe, st.Target, st.Now+off, sc.Wired)
				w.off = off
				if sc.Wired != nil {
					world, scID := w, sc.Sc
					c14OnHung = func(what string) bool {
						if !world.dead {
							world.dead = true
							tr.Emit(verifsupport.Ev{"sc": scID, "ev": "Hung", "what": what})
						}
						return true
					}
				}
				// Vouch's validators (accounts) are the same throughout: a re-org changes duties, not accounts.
				for _, x := range sc.Steps {
					if x.Ev == "Duty" && x.Op != "resize" {
						for _, rv := range w.members(t, x.V) {
							w.account(rv)
						}
					}
				}
				if st.Ep != 0 {
					w.epoch, w.haveEp = st.Ep+off/spe, true
				} else {
					// scenario without an epoch: the epoch of the first duty (0 until then)
					w.epoch = 0
				}
				ev := verifsupport.Ev{"sc": sc.Sc, "ev": "Reset", "now": st.Now + off, "target": st.Target, "spe": spe, "off": off}
				if sc.Wired != nil {
					ev["wired"] = *sc.Wired
				}
				if w.haveEp {
					ev["epoch"] = w.epoch
					tr.Emit(ev)
				} else {
					w.pendingReset = ev
				}
			case "Duty":
				if st.Op == "resize" {
					w.dutyStep(t, tr, sc.Sc, st, spe, off)
					break
				}
				for _, rv := range w.members(t, st.V) {
					stm := st
					stm.V = rv
					w.dutyStep(t, tr, sc.Sc, stm, spe, off)
				}
			case "Advance":
				w.ct.SetSlot(st.Now + off)
				tr.Emit(verifsupport.Ev{"sc": sc.Sc, "ev": "Advance", "now": st.Now + off})
			case "Subscribe":
				// A synchronous subscription for the epoch of the scenario's duties (epoch preparation).
				if !w.haveEp {
					t.Fatalf("c14: Subscribe without duties in scenario %d", sc.Sc)
				}
				epoch := phase0.Epoch(w.epoch)
				w.resetSubs()
				accounts := make(map[phase0.ValidatorIndex]e2wtypes.Account, len(w.accMap))
				for k, v := range w.accMap {
					accounts[k] = v
				}
				w.gate.set(false, st.Fail)
				w.signer.setFail(st.Sfail, off)
				w.scriptCall(rng)
				base := runtime.NumGoroutine() - w.holds.nheld()
				if sc.Wired != nil {
					if !c14Guarded(tr, sc.Sc, "Subscribe", func() { w.svc.subscribeToBeaconCommittees(ctx, epoch, accounts) }) {
						w.dead = true
						break
					}
				} else {
					w.svc.subscribeToBeaconCommittees(ctx, epoch, accounts)
				}
				c14QuiesceHeld(t, w.holds, base, "Subscribe")
				if w.dead {
					break
				}
				w.gate.set(false, false)
				subs, calls := w.collect()
				info, present := w.projectInfo(epoch)
				tr.Emit(w.callStats(verifsupport.Ev{"sc": sc.Sc, "ev": "Subscribe", "ok": !st.Fail, "epoch": uint64(epoch), "info": info, "present": present,
					"subs": subs, "calls": calls, "sfail": w.signer.takeRefused()}))
			case "Head":
				// A head event for the current slot through the real HandleHeadEvent.  With reorg, the event
				// carries a changed previous (current) duty dependent root when the epoch of the duties is the
				// current (next) one, which makes the controller refresh the attester duties of that epoch; the
				// re-subscription it starts is held at the gate.
				e := uint64(w.ct.CurrentEpoch())
				applicable := w.haveEp && (e == w.epoch || e+1 == w.epoch)
				if !st.Reorg || !applicable {
					w.emitHead(tr, sc.Sc, false, w.neutralHead(t))
					break
				}
				if !w.primed || w.headEpoch != e {
					// the controller compares with the roots of the last head event of this epoch
					w.emitHead(tr, sc.Sc, false, w.neutralHead(t))
				}
				if e == w.epoch {
					w.prevRoot = w.freshRoot()
				} else {
					w.curRoot = w.freshRoot()
				}
				w.gate.set(true, false)
				n := w.sendHead(t, "re-org head event")
				w.gate.set(false, false)
				w.emitHead(tr, sc.Sc, true, n)
			case "Resub":
				// A re-subscription in flight is let go: the beacon node answers (with the duties as they are
				// now) or fails.
				w.resetSubs()
				w.signer.setFail(st.Sfail, off)
				w.scriptCall(rng)
				base := runtime.NumGoroutine() - w.holds.nheld()
				released := w.gate.release(!st.Fail)
				// the goroutine let go runs on until the subscription has ended
				c14QuiesceHeld(t, w.holds, base, "Resub")
				if w.dead {
					break
				}
				subs, calls := w.collect()
				info, present := w.projectInfo(phase0.Epoch(w.epoch))
				tr.Emit(w.callStats(verifsupport.Ev{"sc": sc.Sc, "ev": "Resub", "ok": released && !st.Fail, "released": released, "info": info,
					"present": present, "subs": subs, "calls": calls, "inflight": w.gate.nheld(), "sfail": w.signer.takeRefused()}))
			case "Fetch":
				// A re-subscription in flight is let go at the beacon node (it fetches the duties as they are
				// now); its selection call for slot hs is parked inside the scripted signer.  If the call never
				// asks the signer for that slot it runs to its end: that is a Resub.
				w.sub.reset()
				base := runtime.NumGoroutine() - w.holds.nheld()
				before := w.signer.everParked()
				w.signer.arm(st.Hs+off, true)
				released := w.gate.release(true)
				// (the call may be parked before its subscription has started the selection calls of the other
				// slots: quiescent means quiescent for a while)
				for k := 0; k < 4; k++ {
					c14QuiesceHeld(t, w.holds, base, "Fetch")
					time.Sleep(150 * time.Microsecond)
				}
				c14QuiesceHeld(t, w.holds, base, "Fetch")
				w.signer.arm(0, false)
				if id := w.signer.everParked(); id > before {
					tr.Emit(verifsupport.Ev{"sc": sc.Sc, "ev": "Fetch", "hs": st.Hs + off, "id": id, "inflight": w.gate.nheld()})
					break
				}
				subs, calls := w.sub.collect()
				info, present := w.projectInfo(phase0.Epoch(w.epoch))
				tr.Emit(verifsupport.Ev{"sc": sc.Sc, "ev": "Resub", "ok": released, "released": released, "info": info,
					"present": present, "subs": subs, "calls": calls, "inflight": w.gate.nheld(), "unparked": st.Hs + off, "sfail": []uint64{}})
			case "Finish":
				// The parked selection call is answered: the subscription it belongs to runs to its end.
				w.sub.reset()
				base := runtime.NumGoroutine() - w.holds.nheld()
				if !w.signer.answer(st.ID) {
					// the call was never parked (logged as Resub at its Fetch step): nothing to finish
					break
				}
				c14QuiesceHeld(t, w.holds, base, "Finish")
				subs, calls := w.sub.collect()
				info, present := w.projectInfo(phase0.Epoch(w.epoch))
				tr.Emit(verifsupport.Ev{"sc": sc.Sc, "ev": "Finish", "id": st.ID, "info": info, "present": present,
					"subs": subs, "calls": calls, "inflight": w.gate.nheld()})
			case "Attest":
				slot := st.Slot + off
				var slotDuties []*apiv1.AttesterDuty
				count := map[uint64]int{}
				w.duties.mu.Lock()
				for _, d := range w.duties.duties {
					if uint64(d.Slot) == slot {
						c := *d
						slotDuties = append(slotDuties, &c)
						count[uint64(d.CommitteeIndex)]++
					}
				}
				w.duties.mu.Unlock()
				var duty *attester.Duty
				if merged, err := attester.MergeDuties(ctx, slotDuties); err == nil && len(merged) == 1 {
					duty = merged[0]
				} else {
					var err2 error
					duty, err2 = attester.NewDuty(ctx, phase0.Slot(slot), c14CommitteesMax, nil, nil, nil, map[phase0.CommitteeIndex]uint64{})
					if err2 != nil {
						t.Fatalf("c14: NewDuty: %v", err2)
					}
				}
				w.att.fail = !st.Ok
				w.att.committees = st.Committees
				w.att.count = count
				w.agg.mu.Lock()
				w.agg.duties = nil
				w.agg.mu.Unlock()
				at := uint64(w.ct.CurrentSlot())
				attestBase := runtime.NumGoroutine() - w.holds.nheld()

				// After a refresh the controller has made its own attestation job for the slot (from the duties
				// it re-fetched): that one runs.  Otherwise the job of the epoch preparation, which the driver
				// stands in for.
				via := "direct"
				if w.sched.Fire(ctx, fmt.Sprintf("Attestations for slot %d", slot)) {
					via = "job"
				} else {
					w.svc.AttestAndScheduleAggregate(ctx, duty)
				}

				jobs := make([]verifsupport.Ev, 0)
				for _, job := range w.sched.Snapshot() {
					var js, jc uint64
					if n, _ := fmt.Sscanf(job.Name, "Beacon block attestation aggregation for slot %d committee %d", &js, &jc); n != 2 {
						continue
					}
					w.agg.mu.Lock()
					before := len(w.agg.duties)
					w.agg.mu.Unlock()
					if w.wired != nil {
						w.wired.takeAggregates()
						// the job runs the real Aggregate (real signer, real submitter) on this goroutine
						name := job.Name
						if !c14Guarded(tr, sc.Sc, name, func() { w.sched.Fire(ctx, name) }) {
							w.dead = true
							break
						}
					} else {
						w.sched.Fire(ctx, job.Name)
					}
					w.agg.mu.Lock()
					var ad *attestationaggregator.Duty
					if len(w.agg.duties) == before+1 {
						ad = w.agg.duties[before]
					}
					w.agg.mu.Unlock()
					ev := verifsupport.Ev{"slot": js, "committee": jc, "at": at, "name": job.Name,
						"v": uint64(0), "sigok": false, "rootok": false,
						"inslot": !job.Runtime.Before(w.ct.StartOfSlot(phase0.Slot(js))) && job.Runtime.Before(w.ct.StartOfSlot(phase0.Slot(js+1))),
						"delay_ms": job.Runtime.Sub(w.ct.StartOfSlot(phase0.Slot(js))).Milliseconds()}
					if ad != nil {
						ev["v"] = uint64(ad.ValidatorIndex)
						w.signer.mu.Lock()
						sig, ok := w.signer.sigs[[2]uint64{uint64(ad.ValidatorIndex), js}]
						w.signer.mu.Unlock()
						ev["sigok"] = ok && sig == ad.SlotSignature
						root, ok := w.att.roots[jc]
						ev["rootok"] = ok && root == ad.AttestationDataRoot && uint64(ad.Slot) == js
					}
					if w.wired != nil {
						// the job ran the real Aggregate: judged by the signed aggregate-and-proof at the beacon node
						if saps := w.wired.takeAggregates(); len(saps) == 1 {
							root, ok := w.att.roots[jc]
							v, sigok, rootok := w.wired.judge(saps[0], js, w.signer.own, root, ok)
							ev["v"], ev["sigok"], ev["rootok"] = v, sigok, rootok
						} else {
							ev["delivered"] = len(saps)
						}
					}
					jobs = append(jobs, ev)
				}
				if w.dead {
					break
				}
				if w.wired != nil {
					// the real submitters behind the aggregation jobs work on goroutines of their own (the multinode style
					// keeps a timer goroutine for its timeout): they have ended before the next step takes its bearings
					c14QuiesceHeld(t, w.holds, attestBase, "Attest")
				}
				c14Sort(jobs)
				committees := st.Committees
				if committees == nil {
					committees = []uint64{}
				}
				tr.Emit(verifsupport.Ev{"sc": sc.Sc, "ev": "Attest", "slot": slot, "committees": committees, "ok": st.Ok, "jobs": jobs, "via": via,
					"pending": w.svc.HasPendingAttestations(ctx, phase0.Slot(slot))})
			default:
				t.Fatalf("c14: unknown step %q", st.Ev)
			}
		}
		if w != nil && !w.dead {
			w.drain(t)
		}
		c14OnHung = nil
	}
}
