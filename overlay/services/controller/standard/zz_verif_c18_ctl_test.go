package standard

// Conformance driver for property C18 (spec/Cache.tla), the controller's side: the controller's block and head
// event handlers are the second writer of the block-root cache (HandleBlockEvent hands the event's root and slot
// to SetBlockRootToSlot).  The same TLC-generated behaviours as TestVerifC18 are run against the REAL cache
// service behind the REAL handlers of the controller; the cache's content is read back through its public
// interface only (a lookup whose header fetch fails answers from the map or not at all, and changes nothing).
// Injected with -overlay by /verif/check.

import (
	"context"
	"errors"
	"testing"
	"time"

	eth2client "github.com/attestantio/go-eth2-client"
	"github.com/attestantio/go-eth2-client/api"
	apiv1 "github.com/attestantio/go-eth2-client/api/v1"
	"github.com/attestantio/go-eth2-client/spec"
	"github.com/attestantio/go-eth2-client/spec/altair"
	"github.com/attestantio/go-eth2-client/spec/phase0"
	cachestandard "github.com/attestantio/vouch/services/cache/standard"
	nullmetrics "github.com/attestantio/vouch/services/metrics/null"
	"github.com/attestantio/vouch/verifsupport"
	"github.com/rs/zerolog"
)

type c18ctlStep struct {
	Ev     string   `json:"ev"`
	Root   int      `json:"root"`
	Fetch  string   `json:"fetch"`
	Now    uint64   `json:"now"`
	Chain  []uint64 `json:"chain"`
	Parent []int    `json:"parent"`
	Ok     bool     `json:"ok"`
}

type c18ctlScenario struct {
	Sc    int          `json:"sc"`
	Steps []c18ctlStep `json:"steps"`
}

func c18ctlRoot(i int) phase0.Root {
	var r phase0.Root
	if i == 0 {
		r[0], r[1] = 0xee, 0xee // a block outside the model
		return r
	}
	r[0] = byte(i)
	r[31] = byte(i)
	return r
}

type c18ctlEvents struct {
	handlers map[string]eth2client.EventHandlerFunc
}

func (e *c18ctlEvents) Events(_ context.Context, topics []string, handler eth2client.EventHandlerFunc) error {
	for _, t := range topics {
		e.handlers[t] = handler
	}
	return nil
}

// c18ctlNode is the scripted beacon node: headers and (Altair, payload-free) signed blocks of the chain.
type c18ctlNode struct {
	chain  []uint64
	parent []int
	mode   string // outcome of the next header fetch
	called string
	bmode  string // outcome of the next block fetch
	bcall  string
}

func (n *c18ctlNode) index(block string) int {
	for i := range n.chain {
		if c18ctlRoot(i+1).String() == block {
			return i
		}
	}
	return -1
}

func (n *c18ctlNode) BeaconBlockHeader(_ context.Context, opts *api.BeaconBlockHeaderOpts) (*api.Response[*apiv1.BeaconBlockHeader], error) {
	i := n.index(opts.Block)
	if n.mode == "err" || i < 0 {
		n.called = "err"
		return nil, errors.New("scripted failure")
	}
	n.called = "ok"
	return &api.Response[*apiv1.BeaconBlockHeader]{
		Data: &apiv1.BeaconBlockHeader{Root: c18ctlRoot(i + 1), Canonical: true,
			Header: &phase0.SignedBeaconBlockHeader{Message: &phase0.BeaconBlockHeader{Slot: phase0.Slot(n.chain[i])}}},
		Metadata: map[string]any{},
	}, nil
}

func (n *c18ctlNode) SignedBeaconBlock(_ context.Context, opts *api.SignedBeaconBlockOpts) (*api.Response[*spec.VersionedSignedBeaconBlock], error) {
	i := n.index(opts.Block)
	if n.bmode == "err" || i < 0 {
		n.bcall = "err"
		return nil, errors.New("scripted failure")
	}
	n.bcall = "ok"
	return &api.Response[*spec.VersionedSignedBeaconBlock]{
		Data: &spec.VersionedSignedBeaconBlock{Version: spec.DataVersionAltair,
			Altair: &altair.SignedBeaconBlock{Message: &altair.BeaconBlock{Slot: phase0.Slot(n.chain[i]),
				ParentRoot: c18ctlRoot(n.parent[i]), Body: &altair.BeaconBlockBody{}}}},
		Metadata: map[string]any{},
	}, nil
}

func TestVerifC18Ctl(t *testing.T) {
	var scenarios []c18ctlScenario
	verifsupport.Scenarios(t, &scenarios)
	tr := verifsupport.OpenTrace(t)
	defer tr.Close()
	ctx := context.Background()

	for _, sc := range scenarios {
		var cache *cachestandard.Service
		var ctl *Service
		var node *c18ctlNode
		var events *c18ctlEvents
		var sched *verifsupport.Scheduler
		var ct, ctlClock *verifsupport.ChainTime

		// the content of the cache, through its public interface: with the header fetch failing a lookup
		// answers from the map or not at all and changes nothing
		project := func() [][2]uint64 {
			res := make([][2]uint64, 0, len(node.chain))
			mode := node.mode
			node.mode = "err"
			for i := range node.chain {
				if slot, err := cache.BlockRootToSlot(ctx, c18ctlRoot(i+1)); err == nil {
					res = append(res, [2]uint64{uint64(i + 1), uint64(slot)})
				}
			}
			node.mode = mode
			return res
		}

		for _, st := range sc.Steps {
			switch st.Ev {
			case "Reset":
				ct = verifsupport.NewChainTime(32, 12*time.Second)
				ct.SetSlot(st.Now)
				parent := st.Parent
				if parent == nil {
					parent = make([]int, len(st.Chain))
				}
				node = &c18ctlNode{chain: st.Chain, parent: parent, mode: "ok", bmode: "ok"}
				events = &c18ctlEvents{handlers: map[string]eth2client.EventHandlerFunc{}}
				sched = verifsupport.NewScheduler()
				var err error
				cache, err = cachestandard.New(ctx,
					cachestandard.WithLogLevel(zerolog.Disabled),
					cachestandard.WithMonitor(nullmetrics.New()),
					cachestandard.WithChainTime(ct),
					cachestandard.WithSignedBeaconBlockProvider(node),
					cachestandard.WithBeaconBlockHeadersProvider(node),
					cachestandard.WithEventsProvider(events),
					cachestandard.WithScheduler(sched),
				)
				if err != nil {
					t.Fatalf("cache New: %v", err)
				}
				// The controller as far as its event handlers need it.  Its clock is kept away from the slots of
				// the model's blocks: a head event that is not for the current slot ends after the handler's
				// preamble (everything after that is the duty machinery, properties C01-C05).
				ctlClock = verifsupport.NewChainTime(32, 12*time.Second)
				ctlClock.SetSlot(1 << 40)
				ctl = &Service{
					log:               zerolog.Nop(),
					blockToSlotSetter: cache,
					chainTimeService:  ctlClock,
					slotsPerEpoch:     32,
				}
				tr.Emit(verifsupport.Ev{"sc": sc.Sc, "ev": "Reset", "chain": st.Chain, "parent": parent, "now": st.Now})
			case "Advance":
				ct.SetSlot(st.Now)
				tr.Emit(verifsupport.Ev{"sc": sc.Sc, "ev": "Advance", "now": st.Now})
			case "BlockEvent":
				events.handlers["block"](&apiv1.Event{Topic: "block",
					Data: &apiv1.BlockEvent{Slot: phase0.Slot(node.chain[st.Root-1]), Block: c18ctlRoot(st.Root)}})
				tr.Emit(verifsupport.Ev{"sc": sc.Sc, "ev": "BlockEvent", "root": st.Root, "map": project()})
			case "CtlBlockEvent":
				ctl.HandleBlockEvent(&apiv1.Event{Topic: "block",
					Data: &apiv1.BlockEvent{Slot: phase0.Slot(node.chain[st.Root-1]), Block: c18ctlRoot(st.Root)}})
				tr.Emit(verifsupport.Ev{"sc": sc.Sc, "ev": "CtlBlockEvent", "root": st.Root, "map": project()})
			case "CtlHeadEvent":
				// the dependent roots a node reports are those of earlier blocks: here the parent
				ctl.HandleHeadEvent(&apiv1.Event{Topic: "head",
					Data: &apiv1.HeadEvent{Slot: phase0.Slot(node.chain[st.Root-1]), Block: c18ctlRoot(st.Root),
						CurrentDutyDependentRoot:  c18ctlRoot(node.parent[st.Root-1]),
						PreviousDutyDependentRoot: c18ctlRoot(node.parent[st.Root-1])}})
				tr.Emit(verifsupport.Ev{"sc": sc.Sc, "ev": "CtlHeadEvent", "root": st.Root, "map": project()})
			case "HeadEvent":
				node.bcall = "none"
				node.bmode = "ok"
				if !st.Ok {
					node.bmode = "err"
				}
				events.handlers["head"](&apiv1.Event{Topic: "head",
					Data: &apiv1.HeadEvent{Slot: phase0.Slot(node.chain[st.Root-1]), Block: c18ctlRoot(st.Root)}})
				// blocks of this driver carry no execution payload: the execution head never moves
				hash, _ := cache.ExecutionChainHead(ctx)
				ehead := 0
				if hash != (phase0.Hash32{}) {
					ehead = -1
				}
				tr.Emit(verifsupport.Ev{"sc": sc.Sc, "ev": "HeadEvent", "root": st.Root, "ok": node.bcall == "ok",
					"ehead": ehead, "map": project()})
			case "ExecHead":
				hash, _ := cache.ExecutionChainHead(ctx)
				head := 0
				if hash != (phase0.Hash32{}) {
					head = -1
				}
				tr.Emit(verifsupport.Ev{"sc": sc.Sc, "ev": "ExecHead", "head": head})
			case "Lookup":
				node.called = "none"
				node.mode = "ok"
				if st.Fetch == "err" {
					node.mode = "err"
				}
				slot, err := cache.BlockRootToSlot(ctx, c18ctlRoot(st.Root))
				fetch := node.called
				ev := verifsupport.Ev{"sc": sc.Sc, "ev": "Lookup", "root": st.Root, "fetch": fetch}
				if err != nil {
					ev["ok"] = false
					ev["slot"] = -1
				} else {
					ev["ok"] = true
					ev["slot"] = uint64(slot)
				}
				ev["map"] = project()
				tr.Emit(ev)
			case "Clean":
				ran := false
				for _, name := range sched.ListJobs(ctx) {
					if sched.Fire(ctx, name) {
						ran = true
					}
				}
				if !ran {
					t.Fatalf("cache registered no periodic job")
				}
				tr.Emit(verifsupport.Ev{"sc": sc.Sc, "ev": "Clean", "map": project()})
			case "Use":
				// the consumers are driven by TestVerifC18Use (verifdrivers/c18use)
			default:
				t.Fatalf("unknown step %q", st.Ev)
			}
		}
	}
}
