package standard

// Conformance driver for the scheduling-path family of property C15 (spec/SyncPaths.tla).  Injected with
// -overlay by /verif/check.
//
// ONE wired instance per history, wired the way main.go wires it:
//   - the REAL controller (New with its start-up scheduling, the "Epoch ticker" periodic job with the Altair
//     fork handler and the period preparation, HandleHeadEvent with checkEventForReorg and
//     refreshSyncCommitteeDutiesForEpochPeriod, the "Account refresh ticker" periodic job),
//   - the REAL scheduler/advanced (behind a pass-through that only notes when a job function has returned
//     or panicked); jobs are started with RunJob, never by their timers: the chain's genesis is put an hour
//     ahead of the wall clock and the chain clock is moved by hand,
//   - the REAL accountmanager/wallet over a filesystem store with real keystore accounts and the REAL
//     validatorsmanager/standard (c13support), the REAL signer/standard,
//   - the REAL synccommitteemessenger, synccommitteeaggregator and synccommitteesubscriber.
// Fakes one layer further out: the beacon node (validator records - c13support.Node -, sync committee duties
// per period, head root, contributions, spec, domain, recording submitters) and the wallet store's content.
//
// A job that panics is logged as Crash, one that does not return as Hung; neither is an action of the
// specification.

import (
	"context"
	"fmt"
	"runtime"
	"sort"
	"sync"
	"testing"
	"time"

	"github.com/attestantio/go-eth2-client/api"
	apiv1 "github.com/attestantio/go-eth2-client/api/v1"
	"github.com/attestantio/go-eth2-client/spec/altair"
	"github.com/attestantio/go-eth2-client/spec/phase0"
	"github.com/attestantio/vouch/mock"
	standardwallet "github.com/attestantio/vouch/services/accountmanager/wallet"
	mockattestationaggregator "github.com/attestantio/vouch/services/attestationaggregator/mock"
	mockattester "github.com/attestantio/vouch/services/attester/mock"
	mockbeaconblockproposer "github.com/attestantio/vouch/services/beaconblockproposer/mock"
	mockbeaconcommitteesubscriber "github.com/attestantio/vouch/services/beaconcommitteesubscriber/mock"
	"github.com/attestantio/vouch/services/cache"
	mockcache "github.com/attestantio/vouch/services/cache/mock"
	nullmetrics "github.com/attestantio/vouch/services/metrics/null"
	mockproposalpreparer "github.com/attestantio/vouch/services/proposalpreparer/mock"
	"github.com/attestantio/vouch/services/scheduler"
	advancedscheduler "github.com/attestantio/vouch/services/scheduler/advanced"
	standardsigner "github.com/attestantio/vouch/services/signer/standard"
	standardsynccommitteeaggregator "github.com/attestantio/vouch/services/synccommitteeaggregator/standard"
	standardsynccommitteemessenger "github.com/attestantio/vouch/services/synccommitteemessenger/standard"
	standardsynccommitteesubscriber "github.com/attestantio/vouch/services/synccommitteesubscriber/standard"
	"github.com/attestantio/vouch/services/validatorsmanager"
	"github.com/attestantio/vouch/verifdrivers/c13support"
	"github.com/attestantio/vouch/verifsupport"
	"github.com/prysmaticlabs/go-bitfield"
	"github.com/rs/zerolog"
	e2types "github.com/wealdtech/go-eth2-types/v2"
	filesystem "github.com/wealdtech/go-eth2-wallet-store-filesystem"
)

const (
	c15pWallet   = "W"
	c15pMaxV     = 3
	c15pPatience = 40 * time.Second
)

// committee positions of our validators (the same in every period): size 32 on 4 subnets, target 16, so
// that the aggregator modulus is 1 and every member is an aggregator of its subcommittees
var c15pPositions = map[uint64][]phase0.CommitteeIndex{1: {0}, 2: {9}, 3: {17, 30}}

var c15pHead = phase0.Root{0x15, 0x05, 0x0e}

type c15pLife struct {
	V       uint64 `json:"v"`
	Exit    uint64 `json:"exit"`
	Wd      uint64 `json:"wd"`
	Slashed bool   `json:"slashed"`
}

type c15pStep struct {
	Ev    string     `json:"ev"`
	Spe   uint64     `json:"spe"`
	Epp   uint64     `json:"epp"`
	Prep  uint64     `json:"prep"`
	Fork  uint64     `json:"fork"`
	Start uint64     `json:"start"`
	Acct  []uint64   `json:"acct"`
	Comm  [][]uint64 `json:"comm"`
	Life  []c15pLife `json:"life"`
	Epoch uint64     `json:"epoch"`
	Root  uint64     `json:"root"`
	To    uint64     `json:"to"`
	V     uint64     `json:"v"`
	X     uint64     `json:"x"`
	Slot  uint64     `json:"slot"`
}

type c15pScenario struct {
	Sc    int        `json:"sc"`
	Steps []c15pStep `json:"steps"`
}

func c15pName(v uint64) c13support.Name {
	return c13support.Name{W: c15pWallet, A: []string{fmt.Sprintf("v%d", v)}}
}

// ---- the beacon node (everything but the validator records, which c13support.Node serves) ----------------

type c15pNode struct {
	mu       sync.Mutex
	epp      uint64
	comm     [][]uint64
	asked    []string
	msgs     []*altair.SyncCommitteeMessage
	contribs []*altair.SignedContributionAndProof
}

func (n *c15pNode) SyncCommitteeDuties(_ context.Context, opts *api.SyncCommitteeDutiesOpts) (*api.Response[[]*apiv1.SyncCommitteeDuty], error) {
	n.mu.Lock()
	defer n.mu.Unlock()
	indices := make([]uint64, 0, len(opts.Indices))
	for _, i := range opts.Indices {
		indices = append(indices, uint64(i))
	}
	sort.Slice(indices, func(i, j int) bool { return indices[i] < indices[j] })
	n.asked = append(n.asked, fmt.Sprintf("epoch %d indices %v", opts.Epoch, indices))
	res := make([]*apiv1.SyncCommitteeDuty, 0)
	period := uint64(opts.Epoch) / n.epp
	if period < uint64(len(n.comm)) {
		in := map[uint64]bool{}
		for _, v := range n.comm[period] {
			in[v] = true
		}
		for _, v := range indices {
			if in[v] {
				res = append(res, &apiv1.SyncCommitteeDuty{
					ValidatorIndex:                phase0.ValidatorIndex(v),
					ValidatorSyncCommitteeIndices: append([]phase0.CommitteeIndex{}, c15pPositions[v]...),
				})
			}
		}
	}
	return &api.Response[[]*apiv1.SyncCommitteeDuty]{Data: res, Metadata: map[string]any{}}, nil
}

func (n *c15pNode) takeAsked() []string {
	n.mu.Lock()
	defer n.mu.Unlock()
	res := n.asked
	n.asked = nil
	if res == nil {
		res = []string{}
	}
	sort.Strings(res)
	return res
}

func (*c15pNode) BeaconBlockRoot(_ context.Context, _ *api.BeaconBlockRootOpts) (*api.Response[*phase0.Root], error) {
	root := c15pHead
	return &api.Response[*phase0.Root]{Data: &root, Metadata: map[string]any{}}, nil
}

func (*c15pNode) SyncCommitteeContribution(_ context.Context, opts *api.SyncCommitteeContributionOpts) (*api.Response[*altair.SyncCommitteeContribution], error) {
	return &api.Response[*altair.SyncCommitteeContribution]{
		Data: &altair.SyncCommitteeContribution{
			Slot:              opts.Slot,
			BeaconBlockRoot:   opts.BeaconBlockRoot,
			SubcommitteeIndex: opts.SubcommitteeIndex,
			AggregationBits:   bitfield.NewBitvector128(),
		},
		Metadata: map[string]any{},
	}, nil
}

func (n *c15pNode) SubmitSyncCommitteeMessages(_ context.Context, msgs []*altair.SyncCommitteeMessage) error {
	n.mu.Lock()
	n.msgs = append(n.msgs, msgs...)
	n.mu.Unlock()
	return nil
}

func (n *c15pNode) SubmitSyncCommitteeContributions(_ context.Context, cps []*altair.SignedContributionAndProof) error {
	n.mu.Lock()
	n.contribs = append(n.contribs, cps...)
	n.mu.Unlock()
	return nil
}

func (*c15pNode) SubmitSyncCommitteeSubscriptions(_ context.Context, _ []*apiv1.SyncCommitteeSubscription) error {
	return nil
}

// ---- the scheduler: the real advanced scheduler behind a pass-through that notes job returns ---------------

type c15pSched struct {
	real    scheduler.Service
	mu      sync.Mutex
	running int
	done    map[string]int
	crashes []string
}

func (s *c15pSched) wrap(name string, job scheduler.JobFunc) scheduler.JobFunc {
	return func(ctx context.Context) {
		s.mu.Lock()
		s.running++
		s.mu.Unlock()
		defer func() {
			r := recover()
			s.mu.Lock()
			s.running--
			s.done[name]++
			if r != nil {
				s.crashes = append(s.crashes, fmt.Sprintf("%s: %v", name, r))
			}
			s.mu.Unlock()
		}()
		job(ctx)
	}
}

func (s *c15pSched) doneCount(name string) int {
	s.mu.Lock()
	defer s.mu.Unlock()
	return s.done[name]
}

func (s *c15pSched) state() (int, []string) {
	s.mu.Lock()
	defer s.mu.Unlock()
	return s.running, append([]string{}, s.crashes...)
}

func (s *c15pSched) ScheduleJob(ctx context.Context, class string, name string, runtime time.Time, job scheduler.JobFunc) error {
	return s.real.ScheduleJob(ctx, class, name, runtime, s.wrap(name, job))
}

func (s *c15pSched) SchedulePeriodicJob(ctx context.Context, class string, name string, runtime scheduler.RuntimeFunc, job scheduler.JobFunc) error {
	return s.real.SchedulePeriodicJob(ctx, class, name, runtime, s.wrap(name, job))
}

func (s *c15pSched) CancelJob(ctx context.Context, name string) error {
	return s.real.CancelJob(ctx, name)
}
func (s *c15pSched) CancelJobIfExists(ctx context.Context, name string) {
	s.real.CancelJobIfExists(ctx, name)
}
func (s *c15pSched) CancelJobs(ctx context.Context, prefix string) { s.real.CancelJobs(ctx, prefix) }
func (s *c15pSched) RunJob(ctx context.Context, name string) error { return s.real.RunJob(ctx, name) }
func (s *c15pSched) JobExists(ctx context.Context, name string) bool {
	return s.real.JobExists(ctx, name)
}
func (s *c15pSched) RunJobIfExists(ctx context.Context, name string) {
	s.real.RunJobIfExists(ctx, name)
}
func (s *c15pSched) ListJobs(ctx context.Context) []string { return s.real.ListJobs(ctx) }

// ---- the world -------------------------------------------------------------------------------------------

type c15pWorld struct {
	t      *testing.T
	ctx    context.Context
	cancel context.CancelFunc
	u      *c13support.Universe
	ct     *verifsupport.ChainTime
	node   *c15pNode
	vnode  *c13support.Node
	recs   map[uint64]c15pLife
	am     *standardwallet.Service
	vm     validatorsmanager.Service
	sched  *c15pSched
	svc    *Service
	base   int
	spe    uint64
}

func (w *c15pWorld) script() {
	recs := make([]c13support.Rec, 0, len(w.recs))
	for v := uint64(1); v <= c15pMaxV; v++ {
		r, ok := w.recs[v]
		if !ok {
			continue
		}
		recs = append(recs, c13support.Rec{N: c15pName(v), Index: v, Elig: 0, Act: 0, Exit: r.Exit, Wd: r.Wd, Slashed: r.Slashed})
	}
	w.vnode.Script("ok", recs)
}

// settle waits until every job function that was started has returned and no goroutine other than those of
// the scheduler's pending jobs is left of what the step started.  It reports a job that has not returned.
func (w *c15pWorld) settle(what string) (hung bool) {
	w.t.Helper()
	deadline := time.Now().Add(c15pPatience)
	stable := 0
	var lowSince time.Time
	for {
		running, _ := w.sched.state()
		have, want := runtime.NumGoroutine(), w.base+len(w.sched.real.ListJobs(w.ctx))
		if running == 0 && have == want {
			stable++
			if stable >= 3 {
				return false
			}
		} else {
			stable = 0
		}
		// Fewer goroutines than the base and the scheduler's jobs account for: a goroutine of the construction
		// phase (e.g. the wallet's account iterator) was still winding down when the base was taken.  Nothing
		// the controller starts can make the count too low, so the base is corrected.
		if running == 0 && have < want {
			if lowSince.IsZero() {
				lowSince = time.Now()
			} else if time.Since(lowSince) > 500*time.Millisecond {
				w.base -= want - have
				lowSince = time.Time{}
			}
		} else {
			lowSince = time.Time{}
		}
		if time.Now().After(deadline) {
			if running > 0 {
				return true
			}
			buf := make([]byte, 1<<18)
			buf = buf[:runtime.Stack(buf, true)]
			w.t.Fatalf("c15 paths: no quiescence after %s (%d goroutines, base %d, %d jobs: %v)\n%s", what,
				runtime.NumGoroutine(), w.base, len(w.sched.real.ListJobs(w.ctx)), w.sched.real.ListJobs(w.ctx), buf)
		}
		runtime.Gosched()
		time.Sleep(100 * time.Microsecond)
	}
}

// c15pStableGoroutines is the goroutine count once it has not changed for 30 ms (goroutines of the construction
// phase have wound down).
func c15pStableGoroutines() int {
	n, since := runtime.NumGoroutine(), time.Now()
	deadline := time.Now().Add(5 * time.Second)
	for time.Since(since) < 30*time.Millisecond && time.Now().Before(deadline) {
		runtime.Gosched()
		time.Sleep(time.Millisecond)
		if m := runtime.NumGoroutine(); m != n {
			n, since = m, time.Now()
		}
	}
	return n
}

func (w *c15pWorld) prepSlots() []uint64 {
	res := make([]uint64, 0)
	for _, name := range w.sched.real.ListJobs(w.ctx) {
		var slot uint64
		if n, err := fmt.Sscanf(name, "Prepare sync committee messages for slot %d", &slot); err == nil && n == 1 {
			res = append(res, slot)
		}
	}
	sort.Slice(res, func(i, j int) bool { return res[i] < res[j] })
	return res
}

func c15pBuild(t *testing.T, u *c13support.Universe, dir string, st c15pStep) *c15pWorld {
	t.Helper()
	ctx, cancel := context.WithCancel(context.Background())
	w := &c15pWorld{t: t, ctx: ctx, cancel: cancel, u: u, recs: map[uint64]c15pLife{}, spe: st.Spe}
	offer := make([]c13support.Name, 0, len(st.Acct))
	for _, v := range st.Acct {
		offer = append(offer, c15pName(v))
	}
	if err := u.ShowOnly(dir, offer); err != nil {
		t.Fatalf("c15 paths: %v", err)
	}
	for _, l := range st.Life {
		w.recs[l.V] = l
	}
	w.vnode = c13support.NewNode(u)
	w.script()
	w.node = &c15pNode{epp: st.Epp, comm: st.Comm}
	spec := &c15Spec{spe: st.Spe, epp: st.Epp, fork: st.Fork, size: 32, subnets: 4, target: 16}
	// every slot of the history lies in the wall clock's future: no job is ever started by its timer
	w.ct = verifsupport.NewChainTime(st.Spe, c15SlotDuration)
	w.ct.Genesis = time.Now().Add(time.Hour)
	w.ct.SetSlot(st.Start)
	monitor := nullmetrics.New()

	vm := c13support.NewValidatorsManager(ctx, t, w.vnode)
	w.vm = vm
	var err error
	w.am, err = standardwallet.New(ctx,
		standardwallet.WithLogLevel(zerolog.Disabled),
		standardwallet.WithMonitor(monitor),
		standardwallet.WithProcessConcurrency(4),
		standardwallet.WithLocations([]string{dir}),
		standardwallet.WithAccountPaths([]string{c15pWallet}),
		standardwallet.WithPassphrases([][]byte{[]byte(c13support.Passphrase)}),
		standardwallet.WithValidatorsManager(vm),
		standardwallet.WithSpecProvider(spec),
		standardwallet.WithFarFutureEpochProvider(mock.NewFarFutureEpochProvider(c13support.FarFutureEpoch)),
		standardwallet.WithDomainProvider(mock.NewDomainProvider()),
		standardwallet.WithCurrentEpochProvider(w.ct),
	)
	if err != nil {
		t.Fatalf("c15 paths: wallet account manager New: %v", err)
	}
	signerSvc, err := standardsigner.New(ctx,
		standardsigner.WithLogLevel(zerolog.Disabled),
		standardsigner.WithMonitor(monitor),
		standardsigner.WithClientMonitor(nullmetrics.New()),
		standardsigner.WithSpecProvider(spec),
		standardsigner.WithDomainProvider(mock.NewDomainProvider()),
	)
	if err != nil {
		t.Fatalf("c15 paths: signer New: %v", err)
	}
	realSched, err := advancedscheduler.New(ctx,
		advancedscheduler.WithLogLevel(zerolog.Disabled),
		advancedscheduler.WithMonitor(monitor),
	)
	if err != nil {
		t.Fatalf("c15 paths: scheduler New: %v", err)
	}
	w.sched = &c15pSched{real: realSched, done: map[string]int{}}
	subscriber, err := standardsynccommitteesubscriber.New(ctx,
		standardsynccommitteesubscriber.WithLogLevel(zerolog.Disabled),
		standardsynccommitteesubscriber.WithMonitor(monitor),
		standardsynccommitteesubscriber.WithSyncCommitteeSubmitter(w.node),
	)
	if err != nil {
		t.Fatalf("c15 paths: sync committee subscriber New: %v", err)
	}
	agg, err := standardsynccommitteeaggregator.New(ctx,
		standardsynccommitteeaggregator.WithLogLevel(zerolog.Disabled),
		standardsynccommitteeaggregator.WithMonitor(monitor),
		standardsynccommitteeaggregator.WithSpecProvider(spec),
		standardsynccommitteeaggregator.WithBeaconBlockRootProvider(w.node),
		standardsynccommitteeaggregator.WithContributionAndProofSigner(signerSvc),
		standardsynccommitteeaggregator.WithValidatingAccountsProvider(w.am),
		standardsynccommitteeaggregator.WithSyncCommitteeContributionProvider(w.node),
		standardsynccommitteeaggregator.WithSyncCommitteeContributionsSubmitter(w.node),
		standardsynccommitteeaggregator.WithChainTime(w.ct),
	)
	if err != nil {
		t.Fatalf("c15 paths: sync committee aggregator New: %v", err)
	}
	mess, err := standardsynccommitteemessenger.New(ctx,
		standardsynccommitteemessenger.WithLogLevel(zerolog.Disabled),
		standardsynccommitteemessenger.WithProcessConcurrency(2),
		standardsynccommitteemessenger.WithMonitor(monitor),
		standardsynccommitteemessenger.WithSpecProvider(spec),
		standardsynccommitteemessenger.WithChainTimeService(w.ct),
		standardsynccommitteemessenger.WithSyncCommitteeAggregator(agg),
		standardsynccommitteemessenger.WithBeaconBlockRootProvider(w.node),
		standardsynccommitteemessenger.WithSyncCommitteeMessagesSubmitter(w.node),
		standardsynccommitteemessenger.WithValidatingAccountsProvider(w.am),
		standardsynccommitteemessenger.WithSyncCommitteeRootSigner(signerSvc),
		standardsynccommitteemessenger.WithSyncCommitteeSelectionSigner(signerSvc),
		standardsynccommitteemessenger.WithSyncCommitteeSubscriptionsSubmitter(w.node),
	)
	if err != nil {
		t.Fatalf("c15 paths: sync committee messenger New: %v", err)
	}

	w.base = c15pStableGoroutines()
	w.svc, err = New(ctx,
		WithLogLevel(zerolog.Disabled),
		WithMonitor(monitor),
		WithSpecProvider(spec),
		WithChainTimeService(w.ct),
		WithProposerDutiesProvider(mock.NewProposerDutiesProvider()),
		WithAttesterDutiesProvider(mock.NewAttesterDutiesProvider()),
		WithSyncCommitteeDutiesProvider(w.node),
		WithEventsProvider(mock.NewEventsProvider()),
		WithScheduler(w.sched),
		WithValidatingAccountsProvider(w.am),
		WithAttester(mockattester.New()),
		WithSyncCommitteeMessenger(mess),
		WithSyncCommitteeAggregator(agg),
		WithBeaconBlockProposer(mockbeaconblockproposer.New()),
		WithBeaconBlockHeadersProvider(mock.NewBeaconBlockHeadersProvider()),
		WithSignedBeaconBlockProvider(mock.NewSignedBeaconBlockProvider()),
		WithProposalsPreparer(mockproposalpreparer.New()),
		WithAttestationAggregator(mockattestationaggregator.New()),
		WithBeaconCommitteeSubscriber(mockbeaconcommitteesubscriber.New()),
		WithSyncCommitteeSubscriber(subscriber),
		WithAccountsRefresher(w.am),
		WithBlockToSlotSetter(mockcache.New(map[phase0.Root]phase0.Slot{}).(cache.BlockRootToSlotSetter)),
		WithMaxProposalDelay(4*time.Second),
		WithMaxAttestationDelay(4*time.Second),
		WithAttestationAggregationDelay(8*time.Second),
		WithMaxSyncCommitteeMessageDelay(4*time.Second),
		WithSyncCommitteeAggregationDelay(8*time.Second),
	)
	if err != nil {
		t.Fatalf("c15 paths: controller New: %v", err)
	}
	return w
}

// close ends the instance: every pending job goroutine of the scheduler leaves with the context.
func (w *c15pWorld) close() {
	// (jobs set up from a head event carry a context of their own - HandleHeadEvent starts from
	// context.Background() - so they are cancelled by name)
	for _, name := range w.sched.real.ListJobs(w.ctx) {
		_ = w.sched.real.CancelJob(w.ctx, name)
	}
	w.cancel()
	deadline := time.Now().Add(c15pPatience)
	for runtime.NumGoroutine() > w.base && time.Now().Before(deadline) {
		runtime.Gosched()
		time.Sleep(200 * time.Microsecond)
	}
}

// runJob starts a job of the real scheduler by name and waits for it.
func (w *c15pWorld) runJob(name string) (existed bool, hung bool) {
	before := w.sched.doneCount(name)
	if err := w.sched.RunJob(w.ctx, name); err != nil {
		return false, false
	}
	// RunJob only signals the job's goroutine: wait until the job function has been entered and left
	deadline := time.Now().Add(c15pPatience)
	for w.sched.doneCount(name) == before {
		if time.Now().After(deadline) {
			return true, true
		}
		runtime.Gosched()
		time.Sleep(100 * time.Microsecond)
	}
	return true, w.settle(name)
}

// verify says whether the message is signed by validator v's key over the node's head root.
func (w *c15pWorld) verify(m *altair.SyncCommitteeMessage) bool {
	acc, ok := w.u.Accounts[c15pName(uint64(m.ValidatorIndex)).Text()]
	if !ok || m.BeaconBlockRoot != c15pHead {
		return false
	}
	sig, err := e2types.BLSSignatureFromBytes(m.Signature[:])
	if err != nil {
		return false
	}
	var domain phase0.Domain
	copy(domain[:], []byte{0x07, 0x00, 0x00, 0x00})
	container := phase0.SigningData{ObjectRoot: c15pHead, Domain: domain}
	root, err := container.HashTreeRoot()
	if err != nil {
		return false
	}
	return sig.Verify(root[:], acc.PublicKey())
}

func c15pSet(in map[uint64]bool) []uint64 {
	res := make([]uint64, 0, len(in))
	for v := range in {
		res = append(res, v)
	}
	sort.Slice(res, func(i, j int) bool { return res[i] < res[j] })
	return res
}

func TestVerifC15Paths(t *testing.T) {
	var scenarios []c15pScenario
	verifsupport.Scenarios(t, &scenarios)
	tr := verifsupport.OpenTrace(t)
	defer tr.Close()
	bg := context.Background()

	dir := t.TempDir()
	store := filesystem.New(filesystem.WithLocation(dir))
	wallets := map[string][][]string{c15pWallet: {}}
	for v := uint64(1); v <= c15pMaxV; v++ {
		wallets[c15pWallet] = append(wallets[c15pWallet], c15pName(v).A)
	}
	u := c13support.BuildUniverse(bg, t, store, wallets)

	for i := range scenarios {
		sc := &scenarios[i]
		var w *c15pWorld
		dead := false
		// abnormal logs a job that panicked or did not return; the history ends there.
		abnormal := func(st c15pStep, hung bool) bool {
			_, crashes := w.sched.state()
			if len(crashes) == 0 && !hung {
				return false
			}
			ev := verifsupport.Ev{"sc": sc.Sc, "ev": "Crash", "step": st.Ev, "what": fmt.Sprint(crashes)}
			if hung {
				ev["ev"] = "Hung"
			}
			tr.Emit(ev)
			dead = true
			return true
		}
		for _, st := range sc.Steps {
			if dead {
				break
			}
			switch st.Ev {
			case "Reset":
				if st.Spe == 0 || st.Epp == 0 || len(st.Life) == 0 {
					t.Fatalf("scenario %d: incomplete Reset", sc.Sc)
				}
				w = c15pBuild(t, u, dir, st)
				acct := st.Acct
				if acct == nil {
					acct = []uint64{}
				}
				tr.Emit(verifsupport.Ev{"sc": sc.Sc, "ev": "Reset", "spe": st.Spe, "epp": st.Epp, "prep": syncCommitteePreparationEpochs,
					"fork": st.Fork, "start": st.Start, "acct": acct, "comm": st.Comm, "life": st.Life,
					"svcfork": uint64(w.svc.altairForkEpoch), "altair": w.svc.handlingAltair})
			case "Start":
				// New() has returned in Reset; its goroutines are the start-up scheduling
				hung := w.settle("controller New")
				if abnormal(st, hung) {
					break
				}
				tr.Emit(verifsupport.Ev{"sc": sc.Sc, "ev": "Start", "prep": w.prepSlots(), "asked": w.node.takeAsked()})
			case "Advance":
				w.ct.SetSlot(st.To)
				tr.Emit(verifsupport.Ev{"sc": sc.Sc, "ev": "Advance", "to": st.To})
			case "Tick":
				existed, hung := w.runJob("Epoch ticker")
				if !existed {
					t.Fatalf("scenario %d: the controller has no epoch ticker", sc.Sc)
				}
				if abnormal(st, hung) {
					break
				}
				tr.Emit(verifsupport.Ev{"sc": sc.Sc, "ev": "Tick", "epoch": uint64(w.ct.CurrentEpoch()), "prep": w.prepSlots(), "asked": w.node.takeAsked()})
			case "Head":
				var root phase0.Root
				root[0] = byte(st.Root)
				root[31] = 0x5c
				w.svc.HandleHeadEvent(&apiv1.Event{Topic: "head", Data: &apiv1.HeadEvent{
					Slot:                      w.ct.CurrentSlot(),
					Block:                     phase0.Root{0xb1, byte(st.Root)},
					State:                     phase0.Root{0x57, byte(st.Root)},
					CurrentDutyDependentRoot:  root,
					PreviousDutyDependentRoot: phase0.Root{0x9e},
				}})
				if abnormal(st, w.settle("head event")) {
					break
				}
				tr.Emit(verifsupport.Ev{"sc": sc.Sc, "ev": "Head", "root": st.Root, "prep": w.prepSlots(), "asked": w.node.takeAsked()})
			case "Exit":
				w.recs[st.V] = c15pLife{V: st.V, Exit: st.X, Wd: st.X + 3, Slashed: false}
				w.script()
				tr.Emit(verifsupport.Ev{"sc": sc.Sc, "ev": "Exit", "v": st.V, "x": st.X})
			case "Slash":
				w.recs[st.V] = c15pLife{V: st.V, Exit: st.X, Wd: st.X + 3, Slashed: true}
				w.script()
				tr.Emit(verifsupport.Ev{"sc": sc.Sc, "ev": "Slash", "v": st.V, "x": st.X})
			case "RefreshAccounts":
				existed, hung := w.runJob("Account refresh ticker")
				if !existed {
					t.Fatalf("scenario %d: the controller has no accounts refresher", sc.Sc)
				}
				if abnormal(st, hung) {
					break
				}
				// what the validators manager holds now, through the account manager's own view of it
				table := make([]c15pLife, 0, c15pMaxV)
				for v := uint64(1); v <= c15pMaxV; v++ {
					val := w.vm.ValidatorsByIndex(w.ctx, []phase0.ValidatorIndex{phase0.ValidatorIndex(v)})[phase0.ValidatorIndex(v)]
					if val == nil {
						continue
					}
					l := c15pLife{V: v, Exit: uint64(val.ExitEpoch), Wd: uint64(val.WithdrawableEpoch), Slashed: val.Slashed}
					if val.ExitEpoch == c13support.FarFutureEpoch {
						l.Exit = c13support.ModelFFE
					}
					if val.WithdrawableEpoch == c13support.FarFutureEpoch {
						l.Wd = c13support.ModelFFE
					}
					table = append(table, l)
				}
				tr.Emit(verifsupport.Ev{"sc": sc.Sc, "ev": "RefreshAccounts", "table": table})
			case "RunSlot":
				slot := uint64(w.ct.CurrentSlot())
				fired, hung := w.runJob(fmt.Sprintf("Prepare sync committee messages for slot %d", slot))
				if abnormal(st, hung) {
					break
				}
				msgjob, aggjob := false, false
				if fired {
					msgjob, hung = w.runJob(fmt.Sprintf("Sync committee messages for slot %d", slot))
					if abnormal(st, hung) {
						break
					}
				}
				if msgjob {
					aggjob, hung = w.runJob(fmt.Sprintf("Sync committee aggregation for slot %d", slot))
					if abnormal(st, hung) {
						break
					}
				}
				msgs, aggs := map[uint64]bool{}, map[uint64]bool{}
				rootok := true
				w.node.mu.Lock()
				for _, m := range w.node.msgs {
					if uint64(m.Slot) != slot {
						continue
					}
					msgs[uint64(m.ValidatorIndex)] = true
					if !w.verify(m) {
						rootok = false
					}
				}
				for _, c := range w.node.contribs {
					if uint64(c.Message.Contribution.Slot) == slot {
						aggs[uint64(c.Message.AggregatorIndex)] = true
						if c.Message.Contribution.BeaconBlockRoot != c15pHead {
							rootok = false
						}
					}
				}
				w.node.mu.Unlock()
				tr.Emit(verifsupport.Ev{"sc": sc.Sc, "ev": "RunSlot", "slot": slot, "fired": fired, "msgjob": msgjob, "aggjob": aggjob,
					"msgs": c15pSet(msgs), "aggs": c15pSet(aggs), "rootok": rootok})
			default:
				t.Fatalf("scenario %d: unknown step %q", sc.Sc, st.Ev)
			}
		}
		if w != nil {
			w.close()
		}
	}
}
