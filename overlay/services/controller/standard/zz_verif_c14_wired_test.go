package standard

// Wired family of the conformance driver for property C14 (spec/Subscriber.tla, spec/SubscriberSigner.tla).
//
// The fake-based family (zz_verif_c14_test.go) scripts the slot-selection signer.  This family wires the
// REAL neighbours the way main.go does and puts the fakes one layer further out:
//
//	controller/standard -> beaconcommitteesubscriber/standard -> attestationaggregator/standard
//	    -> signer/standard (SignSlotSelections -> signRootsByAccountType -> signRootsMulti)
//	        -> accounts that hold REAL BLS keys (in-memory nd wallet): wallet accounts sign locally (Sign),
//	           Dirk accounts are multi-signers (SignGenericMulti: the stand-in for the remote signer signs with
//	           the accounts' keys and answers positionally); either kind may be a distributed account
//	    -> submitter/immediate or submitter/multinode -> recording beacon node(s)
//	controller AttestAndScheduleAggregate -> aggregation job -> the real attestationaggregator Aggregate
//	    -> aggregate attestation from the beacon node, real signer SignAggregateAndProof, real submitter
//
// Fakes: the beacon node (attester duties behind the gate, spec, signature domains, aggregate attestations,
// the submission endpoints), the accounts provider (a table), clock and scheduler (verifsupport).
//
// The ORACLE: every validator's slot signature is computed by the driver directly from the validator's key
// (get_slot_signature of the consensus specification), independently of the signer under test; the Duty
// lines carry the scalar h of THAT signature, info entries say whose slot signature is stored as selection
// proof (sv), aggregation jobs are judged by the signed aggregate-and-proof that reached the beacon node.
//
// Latency script: the environment of SubscriberSigner.tla chooses the order in which the individual
// signings complete.  A wallet account's Sign() waits until every account of its slot batch that the script
// ranks before it has signed, or until a grace period has passed (a signer that signs a batch account by
// account never lets a later account sign first: after the first expired wait of a batch the script stands
// back).  A scenario validator stands for a block of `width` accounts (up to 64 accounts in one slot).

import (
	"context"
	"encoding/binary"
	"errors"
	"fmt"
	"math/rand"
	"sort"
	"sync"
	"testing"
	"time"

	eth2client "github.com/attestantio/go-eth2-client"
	"github.com/attestantio/go-eth2-client/api"
	"github.com/attestantio/go-eth2-client/spec/phase0"
	"github.com/attestantio/vouch/mock"
	nullmetrics "github.com/attestantio/vouch/services/metrics/null"
	standardsigner "github.com/attestantio/vouch/services/signer/standard"
	"github.com/attestantio/vouch/services/submitter"
	immediatesubmitter "github.com/attestantio/vouch/services/submitter/immediate"
	multinodesubmitter "github.com/attestantio/vouch/services/submitter/multinode"
	"github.com/attestantio/vouch/verifsupport"
	"github.com/prysmaticlabs/go-bitfield"
	"github.com/rs/zerolog"
	e2types "github.com/wealdtech/go-eth2-types/v2"
	keystorev4 "github.com/wealdtech/go-eth2-wallet-encryptor-keystorev4"
	nd "github.com/wealdtech/go-eth2-wallet-nd/v2"
	scratch "github.com/wealdtech/go-eth2-wallet-store-scratch"
	e2wtypes "github.com/wealdtech/go-eth2-wallet-types/v2"
)

const (
	c14wMaxWidth = 64
	c14wBlocks   = 8 // scenario validators 1..c14wBlocks
	c14wGrace    = 25 * time.Millisecond
)

// c14Wiring is the header of a wired scenario.
type c14Wiring struct {
	Mix       string `json:"mix"`       // kinds of Vouch's accounts (the constant Mix of SubscriberSigner.tla)
	Width     int    `json:"width"`     // accounts per scenario validator
	Order     string `json:"order"`     // latency script: "inorder", "reverse", "firstlast", "random"
	Submitter string `json:"submitter"` // "immediate" or "multinode"
}

var (
	c14wDomainSelection = phase0.DomainType{0x05, 0x00, 0x00, 0x00}
	c14wDomainAggregate = phase0.DomainType{0x06, 0x00, 0x00, 0x00}
)

// ---- keys ---------------------------------------------------------------------------------------

var (
	c14wKeysOnce sync.Once
	c14wKeys     []e2wtypes.Account
	c14wKeysErr  error
)

// c14wKeyPool creates the real BLS accounts once per test process (in-memory nd wallet, cheap keystore).
func c14wKeyPool(t *testing.T) []e2wtypes.Account {
	t.Helper()
	c14wKeysOnce.Do(func() {
		ctx := context.Background()
		if c14wKeysErr = e2types.InitBLS(); c14wKeysErr != nil {
			return
		}
		wallet, err := nd.CreateWallet(ctx, "c14", scratch.New(), keystorev4.New(keystorev4.WithCost(t, 4)))
		if err != nil {
			c14wKeysErr = err
			return
		}
		if err := wallet.(e2wtypes.WalletLocker).Unlock(ctx, nil); err != nil {
			c14wKeysErr = err
			return
		}
		for i := 0; i < c14wBlocks*c14wMaxWidth; i++ {
			acc, err := wallet.(e2wtypes.WalletAccountCreator).CreateAccount(ctx, fmt.Sprintf("c14 key %d", i), []byte("pass"))
			if err != nil {
				c14wKeysErr = err
				return
			}
			if err := acc.(e2wtypes.AccountLocker).Unlock(ctx, []byte("pass")); err != nil {
				c14wKeysErr = err
				return
			}
			c14wKeys = append(c14wKeys, acc)
		}
	})
	if c14wKeysErr != nil {
		t.Fatalf("c14: key pool: %v", c14wKeysErr)
	}
	return c14wKeys
}

// ---- the beacon node's signature domains ----------------------------------------------------------

type c14wDomains struct{}

func c14wDomainOf(domainType phase0.DomainType, _ phase0.Epoch) phase0.Domain {
	var d phase0.Domain
	copy(d[:4], domainType[:])
	for i := 4; i < 32; i++ {
		d[i] = byte(0xc0 + i)
	}
	return d
}

func (*c14wDomains) Domain(_ context.Context, domainType phase0.DomainType, epoch phase0.Epoch) (phase0.Domain, error) {
	return c14wDomainOf(domainType, epoch), nil
}

func (*c14wDomains) GenesisDomain(_ context.Context, domainType phase0.DomainType) (phase0.Domain, error) {
	return c14wDomainOf(domainType, 0), nil
}

func c14wSigningRoot(object phase0.Root, domain phase0.Domain) [32]byte {
	root, err := (&phase0.SigningData{ObjectRoot: object, Domain: domain}).HashTreeRoot()
	if err != nil {
		panic(err)
	}
	return root
}

func c14wSlotRoot(slot uint64) phase0.Root {
	var r phase0.Root
	binary.LittleEndian.PutUint64(r[:], slot)
	return r
}

// ---- the latency / refusal script and the oracle --------------------------------------------------

type c14Wired struct {
	cfg     c14Wiring
	spe     uint64
	mu      sync.Mutex
	inner   map[uint64]e2wtypes.Account // real validator index -> the nd account holding its key
	members map[uint64][]uint64         // scenario validator -> real validator indices
	// selection signing root -> slot (the script only concerns slot selections)
	rootSlot map[[32]byte]uint64
	// the current call: rank of an account in the completion order the environment wants for its slot batch,
	// how many accounts of each slot have each rank, how many of them have signed
	rank     map[uint64]int
	need     map[uint64]map[int]int
	signed   map[uint64]map[int]int
	stoodBy  map[uint64]bool
	inflight int
	// what happened (described in the Subscribe lines; not part of the verdict)
	signs, maxInflight, overtaken, waits, unscripted int
	// aggregate-and-proofs that reached the beacon node
	aggregates []*phase0.SignedAggregateAndProof
	datas      map[phase0.Root]*phase0.AttestationData
	signer     *c14Signer // shares the refusal script and the table of own signatures
}

// ownSig is the oracle: the slot signature of the validator, from its own key.
func (x *c14Wired) ownSig(v, slot uint64) phase0.BLSSignature {
	acc := x.inner[v]
	root := c14wSigningRoot(c14wSlotRoot(slot), c14wDomainOf(c14wDomainSelection, phase0.Epoch(slot/x.spe)))
	x.mu.Lock()
	x.rootSlot[root] = slot
	x.mu.Unlock()
	sig, err := acc.(e2wtypes.AccountSigner).Sign(context.Background(), root[:])
	if err != nil {
		panic(fmt.Sprintf("c14: oracle signature: %v", err))
	}
	var res phase0.BLSSignature
	copy(res[:], sig.Marshal())
	return res
}

// script sets the completion order the environment wants for the next call: duties = (validator, slot).
func (x *c14Wired) script(duties [][2]uint64, rng *rand.Rand) {
	x.mu.Lock()
	defer x.mu.Unlock()
	x.rank, x.need, x.signed, x.stoodBy = map[uint64]int{}, map[uint64]map[int]int{}, map[uint64]map[int]int{}, map[uint64]bool{}
	x.inflight = 0
	bySlot := map[uint64][]uint64{}
	for _, d := range duties {
		bySlot[d[1]] = append(bySlot[d[1]], d[0])
	}
	for slot, vs := range bySlot {
		sort.Slice(vs, func(i, j int) bool { return vs[i] < vs[j] })
		x.need[slot], x.signed[slot] = map[int]int{}, map[int]int{}
		for i, v := range vs {
			r := 0
			switch x.cfg.Order {
			case "reverse":
				r = len(vs) - 1 - i
			case "firstlast":
				if i == 0 {
					r = 1
				}
			case "random":
				r = rng.Intn(4)
			}
			// (a validator has one duty per slot, and a call signs one slot per batch)
			x.rank[v<<20|slot&0xfffff] = r
			x.need[slot][r]++
		}
	}
}

// before is called by a wallet account about to sign data; it returns an error for a scripted refusal.
func (x *c14Wired) before(v uint64, data []byte) (uint64, int, bool, error) {
	var root [32]byte
	copy(root[:], data)
	x.mu.Lock()
	slot, isSelection := x.rootSlot[root]
	if !isSelection {
		x.mu.Unlock()
		return 0, 0, false, nil
	}
	x.mu.Unlock()
	if x.signer.refuse(slot) {
		return 0, 0, false, errors.New("c14: scripted refusal of the account")
	}
	x.mu.Lock()
	r := x.rank[v<<20|slot&0xfffff]
	x.signs++
	x.inflight++
	if x.inflight > x.maxInflight {
		x.maxInflight = x.inflight
	}
	below := func() bool {
		for q, n := range x.need[slot] {
			if q < r && x.signed[slot][q] < n {
				return true
			}
		}
		return false
	}
	if r > 0 && below() && !x.stoodBy[slot] {
		x.waits++
		deadline := time.Now().Add(c14wGrace)
		for below() && !x.stoodBy[slot] {
			if time.Now().After(deadline) {
				// the signer is not signing this batch in parallel: stand back for the rest of it
				x.stoodBy[slot] = true
				break
			}
			x.mu.Unlock()
			time.Sleep(100 * time.Microsecond)
			x.mu.Lock()
		}
	}
	x.mu.Unlock()
	return slot, r, true, nil
}

func (x *c14Wired) after(slot uint64, r int) {
	x.mu.Lock()
	for q, n := range x.need[slot] {
		if q < r && x.signed[slot][q] < n {
			x.overtaken++ // an account ranked later has signed first
			break
		}
	}
	if x.signed[slot] == nil {
		// a selection the script did not expect (no duty in that slot when the call began)
		x.unscripted++
		x.signed[slot] = map[int]int{}
	}
	x.signed[slot][r]++
	x.inflight--
	x.mu.Unlock()
}

func (x *c14Wired) stats() verifsupport.Ev {
	x.mu.Lock()
	defer x.mu.Unlock()
	ev := verifsupport.Ev{"signs": x.signs, "parallel": x.maxInflight, "waits": x.waits, "overtaken": x.overtaken, "unscripted": x.unscripted}
	x.signs, x.maxInflight, x.waits, x.overtaken, x.unscripted = 0, 0, 0, 0, 0
	return ev
}

// ---- accounts -------------------------------------------------------------------------------------

type c14wBase struct {
	e2wtypes.Account // the nd account: name, public key (its Sign is not part of this interface)
	v                uint64
	x                *c14Wired
}

func (a *c14wBase) signRoot(ctx context.Context, data []byte) (e2types.Signature, error) {
	slot, r, scripted, err := a.x.before(a.v, data)
	if err != nil {
		return nil, err
	}
	sig, err := a.Account.(e2wtypes.AccountSigner).Sign(ctx, data)
	if scripted {
		a.x.after(slot, r)
	}
	return sig, err
}

// kind "local": a wallet account, signs with its own key.
type c14wLocal struct{ c14wBase }

func (a *c14wLocal) Sign(ctx context.Context, data []byte) (e2types.Signature, error) {
	return a.signRoot(ctx, data)
}

type c14wDist struct{}

func (c14wDist) SigningThreshold() uint32 { return 2 }
func (c14wDist) Participants() map[uint64]string {
	return map[uint64]string{1: "a:1", 2: "b:1", 3: "c:1"}
}

// kind "localdist": a local share of a distributed key.
type c14wLocalDist struct {
	c14wLocal
	c14wDist
}

func (a *c14wLocalDist) CompositePublicKey() e2types.PublicKey { return a.Account.PublicKey() }

// kind "multi": a Dirk account (protecting signer and multi-signer, no Sign).  The remote signer is stood in
// for by the accounts' own keys; its answer is positional, an account that refuses fails the request.
type c14wMulti struct{ c14wBase }

func (a *c14wMulti) key() *c14wBase { return &a.c14wBase }

type c14wKeyed interface{ key() *c14wBase }

func c14wRemoteSign(ctx context.Context, accounts []e2wtypes.Account, data [][]byte, domain []byte) ([]e2types.Signature, error) {
	if len(accounts) != len(data) {
		return nil, errors.New("c14: remote signer: accounts and data do not match")
	}
	var dom phase0.Domain
	copy(dom[:], domain)
	res := make([]e2types.Signature, len(accounts))
	// the remote signer works through the request from the back (its order is its own business)
	for i := len(accounts) - 1; i >= 0; i-- {
		k, ok := accounts[i].(c14wKeyed)
		if !ok {
			return nil, errors.New("c14: remote signer: not one of its accounts")
		}
		var object phase0.Root
		copy(object[:], data[i])
		root := c14wSigningRoot(object, dom)
		sig, err := k.key().signRoot(ctx, root[:])
		if err != nil {
			return nil, err
		}
		res[i] = sig
	}
	return res, nil
}

func (a *c14wMulti) SignGeneric(ctx context.Context, data []byte, domain []byte) (e2types.Signature, error) {
	sigs, err := c14wRemoteSign(ctx, []e2wtypes.Account{a}, [][]byte{data}, domain)
	if err != nil {
		return nil, err
	}
	return sigs[0], nil
}

func (*c14wMulti) SignBeaconProposal(context.Context, uint64, uint64, []byte, []byte, []byte, []byte) (e2types.Signature, error) {
	return nil, errors.New("c14: not scripted")
}

func (*c14wMulti) SignBeaconAttestation(context.Context, uint64, uint64, []byte, uint64, []byte, uint64, []byte, []byte) (e2types.Signature, error) {
	return nil, errors.New("c14: not scripted")
}

func (*c14wMulti) SignBeaconAttestations(context.Context, uint64, []e2wtypes.Account, []uint64, []byte, uint64, []byte, uint64, []byte, []byte) ([]e2types.Signature, error) {
	return nil, errors.New("c14: not scripted")
}

func (*c14wMulti) SignGenericMulti(ctx context.Context, accounts []e2wtypes.Account, data [][]byte, domain []byte) ([]e2types.Signature, error) {
	return c14wRemoteSign(ctx, accounts, data, domain)
}

// kind "multidist": a Dirk distributed account.
type c14wMultiDist struct {
	c14wMulti
	c14wDist
}

func (a *c14wMultiDist) CompositePublicKey() e2types.PublicKey { return a.Account.PublicKey() }

func (a *c14wMultiDist) SignGeneric(ctx context.Context, data []byte, domain []byte) (e2types.Signature, error) {
	sigs, err := c14wRemoteSign(ctx, []e2wtypes.Account{a}, [][]byte{data}, domain)
	if err != nil {
		return nil, err
	}
	return sigs[0], nil
}

var (
	_ e2wtypes.AccountSigner                = (*c14wLocal)(nil)
	_ e2wtypes.AccountSigner                = (*c14wLocalDist)(nil)
	_ e2wtypes.DistributedAccount           = (*c14wLocalDist)(nil)
	_ e2wtypes.AccountProtectingSigner      = (*c14wMulti)(nil)
	_ e2wtypes.AccountProtectingMultiSigner = (*c14wMulti)(nil)
	_ e2wtypes.AccountProtectingMultiSigner = (*c14wMultiDist)(nil)
	_ e2wtypes.DistributedAccount           = (*c14wMultiDist)(nil)
)

// kindOf is KindOf of SubscriberSigner.tla.
func (x *c14Wired) kindOf(v uint64) string {
	switch x.cfg.Mix {
	case "multi":
		return "multi"
	case "dist":
		return "multidist"
	case "mixed":
		if v%2 == 0 {
			return "multidist"
		}
		return "multi"
	case "localmixed":
		if v%2 == 0 {
			return "localdist"
		}
		return "local"
	}
	return "local"
}

func (x *c14Wired) newAccount(v uint64, inner e2wtypes.Account) e2wtypes.Account {
	base := c14wBase{Account: inner, v: v, x: x}
	switch x.kindOf(v) {
	case "multi":
		return &c14wMulti{c14wBase: base}
	case "multidist":
		return &c14wMultiDist{c14wMulti: c14wMulti{c14wBase: base}}
	case "localdist":
		return &c14wLocalDist{c14wLocal: c14wLocal{c14wBase: base}}
	}
	return &c14wLocal{c14wBase: base}
}

// ---- the beacon node's aggregation endpoints ------------------------------------------------------

func (x *c14Wired) AggregateAttestation(_ context.Context, opts *api.AggregateAttestationOpts) (*api.Response[*phase0.Attestation], error) {
	x.mu.Lock()
	data, ok := x.datas[opts.AttestationDataRoot]
	x.mu.Unlock()
	if !ok || data.Slot != opts.Slot {
		return nil, errors.New("c14: no aggregate for that slot and root")
	}
	bits := bitfield.NewBitlist(8)
	bits.SetBitAt(0, true)
	bits.SetBitAt(1, true)
	att := &phase0.Attestation{AggregationBits: bits, Data: data}
	att.Signature[0] = 0xa9
	return &api.Response[*phase0.Attestation]{Data: att, Metadata: map[string]any{}}, nil
}

func (x *c14Wired) SubmitAggregateAttestations(_ context.Context, aggregates []*phase0.SignedAggregateAndProof) error {
	x.mu.Lock()
	x.aggregates = append(x.aggregates, aggregates...)
	x.mu.Unlock()
	return nil
}

func (x *c14Wired) noteData(root phase0.Root, data *phase0.AttestationData) {
	x.mu.Lock()
	x.datas[root] = data
	x.mu.Unlock()
}

func (x *c14Wired) takeAggregates() []*phase0.SignedAggregateAndProof {
	x.mu.Lock()
	defer x.mu.Unlock()
	res := x.aggregates
	x.aggregates = nil
	return res
}

// judge describes the aggregate-and-proof an aggregation job delivered: its validator, whether the selection
// proof is that validator's own slot signature, whether it is about the attested data and signed by the
// validator's key over exactly that message.
func (x *c14Wired) judge(sap *phase0.SignedAggregateAndProof, slot uint64, own func(v, slot uint64) (phase0.BLSSignature, bool), dataRoot phase0.Root, haveRoot bool) (uint64, bool, bool) {
	v := uint64(sap.Message.AggregatorIndex)
	sig, ok := own(v, slot)
	sigok := ok && sig == sap.Message.SelectionProof
	rootok := false
	if root, err := sap.Message.Aggregate.Data.HashTreeRoot(); err == nil && haveRoot && root == dataRoot && uint64(sap.Message.Aggregate.Data.Slot) == slot {
		if inner, have := x.inner[v]; have {
			if msgRoot, err := sap.Message.HashTreeRoot(); err == nil {
				signingRoot := c14wSigningRoot(msgRoot, c14wDomainOf(c14wDomainAggregate, phase0.Epoch(slot/x.spe)))
				if want, err := inner.(e2wtypes.AccountSigner).Sign(context.Background(), signingRoot[:]); err == nil {
					var w phase0.BLSSignature
					copy(w[:], want.Marshal())
					rootok = w == sap.Signature
				}
			}
		}
	}
	return v, sigok, rootok
}

// ---- wiring ---------------------------------------------------------------------------------------

// c14wSubmitter builds the real submitter in front of the recording beacon node(s), as main.go's
// selectSubmitterStrategy does for the two styles.
func c14wSubmitter(t *testing.T, ctx context.Context, w *c14World) submitter.Service {
	t.Helper()
	x := w.wired
	if x.cfg.Submitter == "multinode" {
		w.sub2 = &c14Submitter{}
		svc, err := multinodesubmitter.New(ctx,
			multinodesubmitter.WithLogLevel(zerolog.Disabled),
			multinodesubmitter.WithClientMonitor(nullmetrics.New()),
			multinodesubmitter.WithProcessConcurrency(4),
			multinodesubmitter.WithTimeout(30*time.Millisecond),
			multinodesubmitter.WithProposalSubmitters(map[string]eth2client.ProposalSubmitter{"a": mock.NewProposalSubmitter()}),
			multinodesubmitter.WithAttestationsSubmitters(map[string]eth2client.AttestationsSubmitter{"a": mock.NewAttestationsSubmitter()}),
			multinodesubmitter.WithAggregateAttestationsSubmitters(map[string]eth2client.AggregateAttestationsSubmitter{"a": x}),
			multinodesubmitter.WithProposalPreparationsSubmitters(map[string]eth2client.ProposalPreparationsSubmitter{"a": mock.NewProposalPreparationsSubmitter()}),
			multinodesubmitter.WithBeaconCommitteeSubscriptionsSubmitters(map[string]eth2client.BeaconCommitteeSubscriptionsSubmitter{"a": w.sub, "b": w.sub2}),
			multinodesubmitter.WithSyncCommitteeMessagesSubmitters(map[string]eth2client.SyncCommitteeMessagesSubmitter{"a": mock.NewSyncCommitteeMessagesSubmitter()}),
			multinodesubmitter.WithSyncCommitteeSubscriptionsSubmitters(map[string]eth2client.SyncCommitteeSubscriptionsSubmitter{"a": mock.NewSyncCommitteeSubscriptionsSubmitter()}),
			multinodesubmitter.WithSyncCommitteeContributionsSubmitters(map[string]eth2client.SyncCommitteeContributionsSubmitter{"a": mock.NewSyncCommitteeContributionsSubmitter()}),
		)
		if err != nil {
			t.Fatalf("c14: multinode submitter New: %v", err)
		}
		return svc
	}
	svc, err := immediatesubmitter.New(ctx,
		immediatesubmitter.WithLogLevel(zerolog.Disabled),
		immediatesubmitter.WithClientMonitor(nullmetrics.New()),
		immediatesubmitter.WithProposalSubmitter(mock.NewProposalSubmitter()),
		immediatesubmitter.WithAttestationsSubmitter(mock.NewAttestationsSubmitter()),
		immediatesubmitter.WithSyncCommitteeMessagesSubmitter(mock.NewSyncCommitteeMessagesSubmitter()),
		immediatesubmitter.WithSyncCommitteeSubscriptionsSubmitter(mock.NewSyncCommitteeSubscriptionsSubmitter()),
		immediatesubmitter.WithSyncCommitteeContributionsSubmitter(mock.NewSyncCommitteeContributionsSubmitter()),
		immediatesubmitter.WithBeaconCommitteeSubscriptionsSubmitter(w.sub),
		immediatesubmitter.WithAggregateAttestationsSubmitter(x),
		immediatesubmitter.WithProposalPreparationsSubmitter(mock.NewProposalPreparationsSubmitter()),
	)
	if err != nil {
		t.Fatalf("c14: immediate submitter New: %v", err)
	}
	return svc
}

// c14wSigner builds the real signer as main.go's startSigner does.
func c14wSigner(t *testing.T, ctx context.Context, spec *c14Spec) *standardsigner.Service {
	t.Helper()
	svc, err := standardsigner.New(ctx,
		standardsigner.WithLogLevel(zerolog.Disabled),
		standardsigner.WithMonitor(nullmetrics.New()),
		standardsigner.WithClientMonitor(nullmetrics.New()),
		standardsigner.WithSpecProvider(spec),
		standardsigner.WithDomainProvider(&c14wDomains{}),
	)
	if err != nil {
		t.Fatalf("c14: signer New: %v", err)
	}
	return svc
}

func c14wNew(t *testing.T, cfg c14Wiring, spe uint64, signer *c14Signer) *c14Wired {
	t.Helper()
	if cfg.Width < 1 || cfg.Width > c14wMaxWidth {
		t.Fatalf("c14: width %d", cfg.Width)
	}
	return &c14Wired{cfg: cfg, spe: spe, rank: map[uint64]int{}, need: map[uint64]map[int]int{}, signed: map[uint64]map[int]int{}, stoodBy: map[uint64]bool{}, inner: map[uint64]e2wtypes.Account{}, members: map[uint64][]uint64{},
		rootSlot: map[[32]byte]uint64{}, datas: map[phase0.Root]*phase0.AttestationData{}, signer: signer}
}

// block creates the accounts a scenario validator stands for.
func (x *c14Wired) block(t *testing.T, v uint64) []uint64 {
	t.Helper()
	if m, ok := x.members[v]; ok {
		return m
	}
	if v < 1 || v > c14wBlocks {
		t.Fatalf("c14: wired scenario with validator %d", v)
	}
	pool := c14wKeyPool(t)
	for k := 0; k < x.cfg.Width; k++ {
		rv := v*1000 + uint64(k)
		x.inner[rv] = pool[int(v-1)*c14wMaxWidth+k]
		x.members[v] = append(x.members[v], rv)
	}
	return x.members[v]
}
