//go:build verif

package advanced

import "sync"

// VerifVouchHoldTimer is a seam for the system-level driver of /verif (spec/Vouch.tla; injected with
// -overlay, never committed; declarations only).  It makes the goroutine of the one-off job now
// registered under name wait at the point where its select has taken the timer branch (before it reads
// the active flag and takes its entry off the jobs list), until release is called.  held is closed when
// the goroutine has arrived there.  ok is false if there is no such job.  The hook is process-wide: one
// held job at a time.
func VerifVouchHoldTimer(s *Service, name string) (held <-chan struct{}, release func(), ok bool) {
	s.jobsMutex.RLock()
	target, exists := s.jobs[name]
	s.jobsMutex.RUnlock()
	if !exists {
		return nil, func() {}, false
	}
	arrived := make(chan struct{})
	gate := make(chan struct{})
	var once, onceRelease sync.Once
	hook := func(j *job, point string) {
		if j == target && point == "GSelTimer" {
			once.Do(func() { close(arrived) })
			<-gate
		}
	}
	verifHook.Store(&hook)
	return arrived, func() {
		onceRelease.Do(func() {
			close(gate)
			verifHook.Store(nil)
		})
	}, true
}
