//go:build verif

package advanced

// Conformance driver for property C02 (spec/Scheduler.tla, spec/Trace_Scheduler.tla).
// Injected with -overlay by /verif/check; uses the committed tag-guarded verifPoint hooks.
//
// gated mode: every hook is a gate.  The driver follows a TLC-generated schedule (a list of
//   "let thread X take its next step" tokens), releasing one thread at a time, and records every
//   hook event.  Go's select cannot be forced; whatever the real code does is what is recorded.
// free mode: nothing is gated; run-now / cancel requests are aimed at the scheduled instant.

import (
	"runtime"
	"context"
	"fmt"
	"math/rand"
	"os"
	"sync"
	"sync/atomic"
	"testing"
	"time"

	nullmetrics "github.com/attestantio/vouch/services/metrics/null"
	"github.com/attestantio/vouch/services/scheduler"
	"github.com/attestantio/vouch/verifsupport"
	"github.com/rs/zerolog"
)

type c02Token struct {
	Op  string `json:"op"`  // call | step | timer | ctx
	Who string `json:"who"` // c1.. (run-now), k1.. (cancel), g (job goroutine)
}

type c02Scenario struct {
	Sc       int        `json:"sc"`
	Mode     string     `json:"mode"` // gated | free
	Periodic bool       `json:"periodic"`
	Hold     bool       `json:"hold"` // gated: keep the goroutine before its select until its first step
	Plan     []c02Token `json:"plan"`
	// free mode
	DelayMs   int   `json:"delay_ms"`   // scheduled time = now + delay
	CallersUs []int `json:"callers_us"` // run-now requests at scheduled time + offset (µs)
	CancelsUs []int `json:"cancels_us"` // cancel requests at scheduled time + offset (µs)
	// free mode: thread names of the requests (the name's first letter selects the entry point, see c02Call)
	CallerNames []string `json:"caller_names"`
	CancelNames []string `json:"cancel_names"`
	CtxUs     int   `json:"ctx_us"`     // 0 = never; otherwise cancel the context at scheduled time + offset
	Instances int   `json:"instances"`  // periodic: number of instances
}

type c02Arrival struct {
	th    string
	point string // hook point, or "ret", or "exit"
}

type c02Gate struct {
	point   string
	release chan struct{}
}

// c02Ctl controls one job.
type c02Ctl struct {
	sc      int
	tr      *verifsupport.Trace
	gated   bool
	mu      sync.Mutex
	parked  map[string]*c02Gate
	moverR  string
	moverK  string
	gen     map[string]int // number of times the thread has parked at a gate, returned or exited
	seen    map[string]int // value of gen the driver has already taken into account
	runs    int32
	gexit   int32
	settle  time.Duration
	null    bool // a successor job scheduled under the same name: its hooks are ignored
}

var c02Ctls sync.Map // *job -> *c02Ctl

// c02Threads by goroutine: a hook inside RunJob / CancelJob runs on its caller's goroutine, so the thread a
// hook belongs to is known exactly (two callers can be inside runJob at once: "the one that moved last" is a guess).
var c02ByGoroutine sync.Map // goroutine id -> thread name

func c02GoID() uint64 {
	var buf [64]byte
	n := runtime.Stack(buf[:], false)
	// "goroutine 123 [running]:"
	var id uint64
	for _, ch := range buf[len("goroutine "):n] {
		if ch < '0' || ch > '9' {
			break
		}
		id = id*10 + uint64(ch-'0')
	}
	return id
}

func c02Install() {
	h := func(j *job, point string) {
		var ctl *c02Ctl
		for i := 0; i < 4000; i++ {
			if v, ok := c02Ctls.Load(j); ok {
				ctl = v.(*c02Ctl)
				break
			}
			time.Sleep(250 * time.Microsecond)
		}
		if ctl == nil || ctl.null {
			return
		}
		ctl.hook(point)
	}
	verifHook.Store(&h)
}

func (c *c02Ctl) emit(ev verifsupport.Ev) {
	ev["sc"] = c.sc
	c.tr.Emit(ev)
}

func (c *c02Ctl) hook(point string) {
	th := "g"
	switch point[0] {
	case 'R':
		c.mu.Lock()
		th = c.moverR
		c.mu.Unlock()
	case 'K':
		c.mu.Lock()
		th = c.moverK
		c.mu.Unlock()
	}
	if point[0] == 'R' || point[0] == 'K' {
		if v, ok := c02ByGoroutine.Load(c02GoID()); ok {
			th = v.(string)
		}
	}
	if point == "GExit" {
		atomic.StoreInt32(&c.gexit, 1)
		c.emit(verifsupport.Ev{"ev": "GExit", "th": "g"})
		c.notify(c02Arrival{th: "g", point: "exit"})
		return
	}
	if !c.gated {
		return // free mode: hook events other than GExit are not recorded (see Trace_Scheduler.tla)
	}
	if point != "GStart" {
		c.emit(verifsupport.Ev{"ev": point, "th": th})
	}
	c.park(th, point)
}

func (c *c02Ctl) park(th, point string) {
	g := &c02Gate{point: point, release: make(chan struct{})}
	c.mu.Lock()
	c.parked[th] = g
	c.gen[th]++
	c.mu.Unlock()
	<-g.release
}

func (c *c02Ctl) notify(a c02Arrival) {
	c.mu.Lock()
	c.gen[a.th]++
	c.mu.Unlock()
}

// release lets a parked thread continue; false if it is not parked.
func (c *c02Ctl) release(th string) bool {
	c.mu.Lock()
	g := c.parked[th]
	delete(c.parked, th)
	if c02IsRunner(th) {
		c.moverR = th
	}
	if c02IsCanceller(th) {
		c.moverK = th
	}
	c.mu.Unlock()
	if g == nil {
		return false
	}
	c.mu.Lock()
	c.seen[th] = c.gen[th]
	c.mu.Unlock()
	close(g.release)
	return true
}

func (c *c02Ctl) isParked(th string) bool {
	c.mu.Lock()
	defer c.mu.Unlock()
	return c.parked[th] != nil
}

// await waits until thread th has reported something new (a gate, a return, its exit) since the
// driver last looked, or until the settle period has passed.  It is state based (generation
// counters), so a report can be neither lost nor counted twice.
func (c *c02Ctl) await(th string, d time.Duration) bool {
	deadline := time.Now().Add(d)
	for {
		c.mu.Lock()
		if c.gen[th] > c.seen[th] {
			c.seen[th] = c.gen[th]
			c.mu.Unlock()
			return true
		}
		c.mu.Unlock()
		if time.Now().After(deadline) {
			return false
		}
		time.Sleep(50 * time.Microsecond)
	}
}

// drainArrivals forgets reports the driver has not looked at.
func (c *c02Ctl) drainArrivals() {
	c.mu.Lock()
	for th, g := range c.gen {
		c.seen[th] = g
	}
	c.mu.Unlock()
}

// The thread's name says which entry point of the scheduler it uses: every one of them is part of the
// protocol (the controller uses the IfExists and prefix forms far more than the plain ones).
//   c* RunJob   i* RunJobIfExists   k* CancelJob   j* CancelJobIfExists   p* CancelJobs(prefix)
var c02Threads = []string{"g", "c1", "c2", "c3", "i1", "i2", "k1", "k2", "j1", "p1"}

func c02IsRunner(th string) bool    { return th[0] == 'c' || th[0] == 'i' }
func c02IsCanceller(th string) bool { return th[0] == 'k' || th[0] == 'j' || th[0] == 'p' }

// c02Call makes thread th's call and names its result ("none": the entry point returns nothing).
func c02Call(ctx context.Context, s *Service, th, name string) string {
	switch th[0] {
	case 'c':
		return c02Result(s.RunJob(ctx, name))
	case 'i':
		s.RunJobIfExists(ctx, name)
	case 'k':
		return c02Result(s.CancelJob(ctx, name))
	case 'j':
		s.CancelJobIfExists(ctx, name)
	case 'p':
		// the job's name without its last character: matches this scenario's job (and its successor) only
		s.CancelJobs(ctx, name[:len(name)-1])
	}
	return "none"
}

func c02Result(err error) string {
	switch err {
	case nil:
		return "ok"
	case scheduler.ErrNoSuchJob, scheduler.ErrJobRunning, scheduler.ErrJobFinalised:
		return "refused"
	}
	return "error:" + err.Error()
}

func c02NewService(t testing.TB) *Service {
	s, err := New(context.Background(), WithLogLevel(zerolog.Disabled), WithMonitor(&nullmetrics.Service{}))
	if err != nil {
		t.Fatalf("scheduler New: %v", err)
	}
	return s
}

const (
	c02NearMargin = 150 * time.Millisecond
	c02DueMargin  = 15 * time.Millisecond
)

// c02Gated runs one gated scenario.
func c02Gated(t testing.TB, tr *verifsupport.Trace, sc c02Scenario, settle time.Duration, lead time.Duration) {
	s := c02NewService(t)
	ctx, cancel := context.WithCancel(context.Background())
	defer cancel()
	ctl := &c02Ctl{sc: sc.Sc, tr: tr, gated: true, parked: map[string]*c02Gate{}, gen: map[string]int{}, seen: map[string]int{}, settle: settle}
	name := fmt.Sprintf("job %d", sc.Sc)
	ctl.emit(verifsupport.Ev{"ev": "Reset", "mode": "gated", "periodic": sc.Periodic})

	var mu sync.Mutex
	runtime := time.Now().Add(lead)
	phase := "early"
	instances := 0
	maxInstances := sc.Instances
	if maxInstances == 0 {
		maxInstances = 3
	}
	jobFunc := func(_ context.Context) {
		atomic.AddInt32(&ctl.runs, 1)
		ctl.emit(verifsupport.Ev{"ev": "JobStart", "th": "g"})
		ctl.park("g", "JobStart")
		ctl.emit(verifsupport.Ev{"ev": "JobEnd", "th": "g"})
	}
	clock := func() {
		mu.Lock()
		defer mu.Unlock()
		if phase == "early" && time.Now().After(runtime.Add(-c02NearMargin)) {
			phase = "near"
			ctl.emit(verifsupport.Ev{"ev": "ClockNear"})
		}
	}

	var err error
	if sc.Periodic {
		err = s.SchedulePeriodicJob(ctx, "Test", name, func(_ context.Context) (time.Time, error) {
			mu.Lock()
			instances++
			if instances > maxInstances {
				mu.Unlock()
				ctl.emit(verifsupport.Ev{"ev": "PNoMore", "th": "g"})
				return time.Time{}, scheduler.ErrNoMoreInstances
			}
			runtime = time.Now().Add(lead)
			phase = "early"
			mu.Unlock()
			ctl.emit(verifsupport.Ev{"ev": "PNext", "th": "g"})
			ctl.park("g", "PNext")
			mu.Lock()
			rt := runtime
			mu.Unlock()
			return rt, nil
		}, jobFunc)
	} else {
		err = s.ScheduleJob(ctx, "Test", name, runtime, jobFunc)
	}
	if err != nil {
		t.Fatalf("schedule: %v", err)
	}
	s.jobsMutex.RLock()
	j := s.jobs[name]
	s.jobsMutex.RUnlock()
	if j == nil {
		t.Fatalf("job not in table after ScheduleJob")
	}
	c02Ctls.Store(j, ctl)
	defer c02Ctls.Delete(j)

	// The goroutine parks at GStart (one-off) or at GStart then PNext (periodic).
	ctl.await("g", 2*time.Second)
	if sc.Periodic {
		// leave GStart; the goroutine parks again inside the runtime function (PNext)
		ctl.release("g")
		ctl.await("g", 2*time.Second)
	}
	if !sc.Hold {
		ctl.release("g")
		ctl.await("g", settle/4)
	}

	var wg sync.WaitGroup
	pending := map[string]bool{} // callers that have been started and have not returned
	var pmu sync.Mutex
	call := func(who string) {
		pmu.Lock()
		if pending[who] {
			pmu.Unlock()
			return
		}
		pending[who] = true
		pmu.Unlock()
		ctl.mu.Lock()
		if c02IsRunner(who) {
			ctl.moverR = who
		} else {
			ctl.moverK = who
		}
		ctl.mu.Unlock()
		ctl.emit(verifsupport.Ev{"ev": "Call", "th": who})
		wg.Add(1)
		go func() {
			defer wg.Done()
			gid := c02GoID()
			c02ByGoroutine.Store(gid, who)
			defer c02ByGoroutine.Delete(gid)
			var err error
			res := ""
			func() {
				defer func() {
					if r := recover(); r != nil {
						err = fmt.Errorf("panic: %v", r)
					}
				}()
				res = c02Call(ctx, s, who, name)
			}()
			if err != nil {
				res = c02Result(err)
			}
			ctl.emit(verifsupport.Ev{"ev": "Ret", "th": who, "res": res})
			pmu.Lock()
			pending[who] = false
			pmu.Unlock()
			ctl.notify(c02Arrival{th: who, point: "ret"})
		}()
		ctl.await(who, settle)
	}
	started := map[string]bool{}
	waitTimer := func() {
		mu.Lock()
		rt := runtime
		mu.Unlock()
		if d := time.Until(rt.Add(-c02NearMargin)); d > 0 {
			// nothing else moves while the driver sleeps: still "early" when it wakes
			time.Sleep(d)
		}
		clock()
		if d := time.Until(rt.Add(c02DueMargin)); d > 0 {
			time.Sleep(d)
		}
		mu.Lock()
		if phase != "due" {
			phase = "due"
			ctl.emit(verifsupport.Ev{"ev": "ClockDue"})
		}
		mu.Unlock()
		if !ctl.isParked("g") {
			ctl.await("g", settle)
		}
	}
	step := func(who string) {
		if who == "g" {
			if ctl.release("g") {
				ctl.await("g", settle)
			} else if atomic.LoadInt32(&ctl.gexit) == 0 {
				ctl.await("g", settle/2)
			}
			return
		}
		if !started[who] {
			return
		}
		if ctl.release(who) {
			ctl.await(who, settle)
		}
	}

	for _, tok := range sc.Plan {
		clock()
		switch tok.Op {
		case "call":
			if !started[tok.Who] {
				started[tok.Who] = true
				call(tok.Who)
			}
		case "step":
			step(tok.Who)
		case "resched":
			// the same name is scheduled again (far in the future): accepted iff the name is free
			// (its own parent context: the successor is a different duty and outlives the scenario's context)
			bctx, bcancel := context.WithCancel(context.Background())
			defer bcancel()
			err := s.ScheduleJob(bctx, "Test", name, time.Now().Add(time.Hour), func(context.Context) {})
			if err == nil {
				s.jobsMutex.RLock()
				jb := s.jobs[name]
				s.jobsMutex.RUnlock()
				if jb != nil && jb != j {
					c02Ctls.Store(jb, &c02Ctl{null: true})
					defer c02Ctls.Delete(jb)
				}
			}
			ctl.emit(verifsupport.Ev{"ev": "Resched", "ok": err == nil})
		case "probe":
			ctl.emit(verifsupport.Ev{"ev": "Probe", "exists": s.JobExists(ctx, name)})
		case "timer":
			waitTimer()
		case "ctx":
			ctl.emit(verifsupport.Ev{"ev": "CtxCancel"})
			cancel()
			if !ctl.isParked("g") {
				ctl.await("g", settle)
			}
		case "quiet":
			// nothing moved for a settle period while the goroutine sits in its select
			ctl.drainArrivals()
			if ctl.isParked("g") || atomic.LoadInt32(&ctl.gexit) == 1 {
				break
			}
			if !ctl.await("g", settle) {
				ctl.emit(verifsupport.Ev{"ev": "Quiet"})
			}
		}
	}

	// Drain: let everything finish.
	stuck := false
	idle := 0
	for round := 0; round < 400; round++ {
		clock()
		progressed := false
		for _, th := range c02Threads {
			if ctl.release(th) {
				ctl.await(th, settle)
				progressed = true
			}
		}
		pmu.Lock()
		anyPending := false
		for _, p := range pending {
			anyPending = anyPending || p
		}
		pmu.Unlock()
		done := atomic.LoadInt32(&ctl.gexit) == 1
		if done && !anyPending {
			break
		}
		if progressed {
			idle = 0
			continue
		}
		mu.Lock()
		due := phase == "due"
		mu.Unlock()
		if !done && sc.Periodic && ctx.Err() == nil {
			// A periodic job is ended by cancelling the context once its plan is through.
			ctl.emit(verifsupport.Ev{"ev": "CtxCancel"})
			cancel()
			ctl.await("g", settle)
			continue
		}
		if !done && !due {
			waitTimer()
			continue
		}
		if !ctl.await("g", settle) {
			idle++
		}
		if idle > 12 {
			stuck = true
			break
		}
	}
	wg2 := make(chan struct{})
	go func() { wg.Wait(); close(wg2) }()
	select {
	case <-wg2:
	case <-time.After(20 * settle):
		stuck = true
	}
	if stuck {
		ctl.emit(verifsupport.Ev{"ev": "Stuck"})
		// Unblock whatever is left so the test process can end.
		cancel()
		for i := 0; i < 50; i++ {
			for _, th := range c02Threads {
				ctl.release(th)
			}
			time.Sleep(2 * time.Millisecond)
		}
		return
	}
	ctl.emit(verifsupport.Ev{"ev": "Quiesce", "runs": int(atomic.LoadInt32(&ctl.runs)),
		"gexit": atomic.LoadInt32(&ctl.gexit) == 1, "intable": s.JobExists(ctx, name)})
}

func c02SpinUntil(t time.Time) {
	if d := time.Until(t) - 300*time.Microsecond; d > 0 {
		time.Sleep(d)
	}
	for time.Now().Before(t) {
	}
}

// c02Free runs one free-running scenario on its own service instance.
func c02Free(t testing.TB, tr *verifsupport.Trace, sc c02Scenario) {
	s := c02NewService(t)
	ctx, cancel := context.WithCancel(context.Background())
	defer cancel()
	ctl := &c02Ctl{sc: sc.Sc, tr: tr, gated: false, parked: map[string]*c02Gate{}, gen: map[string]int{}, seen: map[string]int{}}
	name := fmt.Sprintf("job %d", sc.Sc)
	ctl.emit(verifsupport.Ev{"ev": "Reset", "mode": "free", "periodic": false})
	runtime := time.Now().Add(time.Duration(sc.DelayMs) * time.Millisecond)
	jobFunc := func(_ context.Context) {
		atomic.AddInt32(&ctl.runs, 1)
		ctl.emit(verifsupport.Ev{"ev": "JobStart", "th": "g"})
		ctl.emit(verifsupport.Ev{"ev": "JobEnd", "th": "g"})
	}
	// The whole scenario lies within the margin of the scheduled time.
	ctl.emit(verifsupport.Ev{"ev": "ClockNear"})
	if err := s.ScheduleJob(ctx, "Test", name, runtime, jobFunc); err != nil {
		t.Fatalf("schedule: %v", err)
	}
	s.jobsMutex.RLock()
	j := s.jobs[name]
	s.jobsMutex.RUnlock()
	if j != nil {
		c02Ctls.Store(j, ctl)
		defer c02Ctls.Delete(j)
	}
	var wg sync.WaitGroup
	for i, off := range sc.CallersUs {
		who := fmt.Sprintf("c%d", i+1)
		if i < len(sc.CallerNames) {
			who = sc.CallerNames[i]
		}
		at := runtime.Add(time.Duration(off) * time.Microsecond)
		wg.Add(1)
		go func() {
			defer wg.Done()
			c02SpinUntil(at)
			ctl.emit(verifsupport.Ev{"ev": "Call", "th": who})
			res := c02Call(ctx, s, who, name)
			ctl.emit(verifsupport.Ev{"ev": "Ret", "th": who, "res": res})
		}()
	}
	for i, off := range sc.CancelsUs {
		who := fmt.Sprintf("k%d", i+1)
		if i < len(sc.CancelNames) {
			who = sc.CancelNames[i]
		}
		at := runtime.Add(time.Duration(off) * time.Microsecond)
		wg.Add(1)
		go func() {
			defer wg.Done()
			c02SpinUntil(at)
			ctl.emit(verifsupport.Ev{"ev": "Call", "th": who})
			res := c02Call(ctx, s, who, name)
			ctl.emit(verifsupport.Ev{"ev": "Ret", "th": who, "res": res})
		}()
	}
	if sc.CtxUs != 0 {
		at := runtime.Add(time.Duration(sc.CtxUs) * time.Microsecond)
		wg.Add(1)
		go func() {
			defer wg.Done()
			c02SpinUntil(at)
			ctl.emit(verifsupport.Ev{"ev": "CtxCancel"})
			cancel()
		}()
	}
	wg.Wait()
	if d := time.Until(runtime.Add(c02DueMargin)); d > 0 {
		time.Sleep(d)
	}
	ctl.emit(verifsupport.Ev{"ev": "ClockDue"})
	// Wait for the goroutine to end (it must, now that its time has come).
	deadline := time.Now().Add(3 * time.Second)
	for atomic.LoadInt32(&ctl.gexit) == 0 && time.Now().Before(deadline) {
		time.Sleep(500 * time.Microsecond)
	}
	if atomic.LoadInt32(&ctl.gexit) == 0 {
		ctl.emit(verifsupport.Ev{"ev": "Stuck"})
		return
	}
	ctl.emit(verifsupport.Ev{"ev": "Quiesce", "runs": int(atomic.LoadInt32(&ctl.runs)),
		"gexit": true, "intable": s.JobExists(ctx, name)})
}

func TestVerifC02(t *testing.T) {
	var scenarios []c02Scenario
	verifsupport.Scenarios(t, &scenarios)
	tr := verifsupport.OpenTrace(t)
	defer tr.Close()
	c02Install()
	rand.Seed(verifsupport.Seed())

	settle := 40 * time.Millisecond
	lead := 320 * time.Millisecond
	par := 8
	switch os.Getenv("VERIF_C02_CONFIRM") {
	case "1":
		par = 1
	case "2":
		// confirmation re-run of a rejected scenario: generous timing, nothing else running
		settle = 150 * time.Millisecond
		lead = 600 * time.Millisecond
		par = 1
	}
	sem := make(chan struct{}, par)
	var wg sync.WaitGroup
	for _, sc := range scenarios {
		sc := sc
		sem <- struct{}{}
		wg.Add(1)
		go func() {
			defer wg.Done()
			defer func() { <-sem }()
			if sc.Mode == "free" {
				c02Free(t, tr, sc)
			} else {
				c02Gated(t, tr, sc, settle, lead)
			}
		}()
	}
	wg.Wait()
}
