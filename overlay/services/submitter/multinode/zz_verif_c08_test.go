package multinode_test

// Conformance driver for property C08 (spec/Submitter.tla): the real multinode and immediate
// submitters with scripted beacon-node fakes, and util.Scatter.  Uses exported interfaces only.
// Injected with -overlay by /verif/check; never committed to the repository.

import (
	"context"
	"errors"
	"fmt"
	"os"
	"sort"
	"strconv"
	"sync"
	"testing"
	"time"

	eth2client "github.com/attestantio/go-eth2-client"
	"github.com/attestantio/go-eth2-client/api"
	apiv1 "github.com/attestantio/go-eth2-client/api/v1"
	"github.com/attestantio/go-eth2-client/spec"
	"github.com/attestantio/go-eth2-client/spec/altair"
	"github.com/attestantio/go-eth2-client/spec/capella"
	"github.com/attestantio/go-eth2-client/spec/phase0"
	nullmetrics "github.com/attestantio/vouch/services/metrics/null"
	"github.com/attestantio/vouch/services/submitter/immediate"
	"github.com/attestantio/vouch/services/submitter/multinode"
	"github.com/attestantio/vouch/util"
	"github.com/attestantio/vouch/verifsupport"
	"github.com/rs/zerolog"
)

// Timing (DESIGN 2.2): T is the configured time-out, eps the tolerance (25 % of T, at least 40 ms).
const (
	c08T        = 200 * time.Millisecond
	c08Eps      = 50 * time.Millisecond
	c08Slow     = 60 * time.Millisecond  // slow-in-time reply (rank not said: rank 2)
	c08Step     = 30 * time.Millisecond  // one rank of delay of a slow-in-time reply (lat 1, 2, 3 -> 30, 60, 90 ms)
	c08Late     = 400 * time.Millisecond // slow-late reply
	c08Settle   = c08T + c08Eps + 15*time.Millisecond
	c08Hard     = c08T + 1500*time.Millisecond // a call that has not returned by now never returns in time
	c08NoiseMax = 20 * time.Millisecond        // a scheduling stall above this voids the timing classes
)

type c08NodeSpec struct {
	Client string `json:"client"`
	Ver    string `json:"ver"` // "ok" | "fail": does the node answer its version query during THIS submission
	Out    string `json:"out"`
	Reason string `json:"reason"`
	Lat    int    `json:"lat"` // "slowok" / "slowerr": rank of the delay (0: the default, 60 ms)
}

// c08CallSpec is one submission of a history on one instance.
type c08CallSpec struct {
	Kind  string        `json:"kind"`
	Items int           `json:"items"`
	Nodes []c08NodeSpec `json:"nodes"`
}

// A scenario is a HISTORY of submissions on ONE submitter instance (Calls); a scenario without
// Calls is the history of one submission described by Kind / Items / Nodes.
type c08Scenario struct {
	Sc      int           `json:"sc"`
	Sub     string        `json:"sub"`
	Kind    string        `json:"kind"`
	Conc    int           `json:"conc"`
	Items   int           `json:"items"`
	Nodes   []c08NodeSpec `json:"nodes"`
	Calls   []c08CallSpec `json:"calls"`
	MaxConc int           `json:"maxConc"` // scatter scenarios
	// Conf is the node list of every kind of submission on this instance: kind -> peers of the pool
	// (1-based).  A kind that is not mentioned is configured with the whole pool.
	Conf map[string][]int `json:"conf"`
}

var c08Kinds = []string{"att", "agg", "proposal", "syncmsg", "contrib", "bcsub", "scsub", "prep"}

// confOf returns the peers (1-based, increasing) configured for a kind on a pool of `pool` peers.
func (sc *c08Scenario) confOf(kind string, pool int) []int {
	out := []int{}
	l, ok := sc.Conf[kind]
	if !ok || sc.Sub == "immediate" {
		for i := 1; i <= pool; i++ {
			out = append(out, i)
		}
		return out
	}
	for _, i := range l {
		if i >= 1 && i <= pool {
			out = append(out, i)
		}
	}
	sort.Ints(out)
	return out
}

// confAll is the whole configuration as it is written to the trace.
func (sc *c08Scenario) confAll(pool int) map[string][]int {
	m := map[string][]int{}
	for _, k := range c08Kinds {
		m[k] = sc.confOf(k, pool)
	}
	return m
}

// calls returns the history with defaults filled in.
func (sc *c08Scenario) calls() []c08CallSpec {
	cs := sc.Calls
	if len(cs) == 0 {
		cs = []c08CallSpec{{Kind: sc.Kind, Items: sc.Items, Nodes: sc.Nodes}}
	}
	out := make([]c08CallSpec, len(cs))
	for i, c := range cs {
		out[i] = c08CallSpec{Kind: c.Kind, Items: c.Items, Nodes: append([]c08NodeSpec{}, c.Nodes...)}
		for k := range out[i].Nodes {
			if out[i].Nodes[k].Ver == "" {
				out[i].Nodes[k].Ver = "ok"
			}
		}
	}
	return out
}

// ---------------------------------------------------------------------------------------------
// scheduling-noise probe: how late do sleeping goroutines wake up on this machine right now?

type c08Gap struct {
	at  time.Time
	gap time.Duration
}

type c08Probe struct {
	mu   sync.Mutex
	gaps []c08Gap
}

func c08StartProbe(stop <-chan struct{}) *c08Probe {
	p := &c08Probe{}
	for i := 0; i < 4; i++ {
		go func() {
			for {
				select {
				case <-stop:
					return
				default:
				}
				t := time.Now()
				time.Sleep(time.Millisecond)
				gap := time.Since(t) - time.Millisecond
				if gap > 4*time.Millisecond {
					p.mu.Lock()
					p.gaps = append(p.gaps, c08Gap{at: t, gap: gap})
					p.mu.Unlock()
				}
			}
		}()
	}
	return p
}

// maxGap returns the largest wake-up delay of a probe sleep overlapping [from, to].
func (p *c08Probe) maxGap(from, to time.Time) time.Duration {
	p.mu.Lock()
	defer p.mu.Unlock()
	var m time.Duration
	for _, g := range p.gaps {
		end := g.at.Add(g.gap + time.Millisecond)
		if end.Before(from) || g.at.After(to) {
			continue
		}
		if g.gap > m {
			m = g.gap
		}
	}
	return m
}

// ---------------------------------------------------------------------------------------------
// scripted beacon node

// c08Node is what one node does at ONE submission of the history (and what was seen of it).
type c08Node struct {
	idx     int
	spec    c08NodeSpec
	kind    string
	t0      time.Time
	index   map[any]int // payload element (pointer identity) -> index
	items   int
	closed  chan struct{} // the history is over
	release chan struct{} // "held" replies: the next submission of the history has returned
	onEnter func()        // held nodes: tells the history that the node has been called

	mu        sync.Mutex
	chunks    [][]int
	firstCall time.Duration
	entered   int
	returned  int
	lastRet   time.Duration
	anyErr    bool
	aborted   bool
	// the call was ended by the cancellation of the context the submitter handed it while the
	// scenario (and the driver's own context) was still live: the submitter tore the delivery down
	ctxAborted bool
	abortAt    time.Duration
	verAsked  int
	verOK     int
}

// c08CallKey marks the context of a submission with its index in the history: the submitter hands
// the caller's context to every node call and version query, so the fakes know which submission
// they are serving also when two submissions overlap.
type c08CallKey struct{}

// c08Peer is a beacon node as the long-lived submitter instance sees it: one object, one address
// and one client type for the whole history; what it does is scripted per submission.
type c08Peer struct {
	idx    int
	client string

	mu    sync.Mutex
	calls map[int]*c08Node
	last  int
}

func (p *c08Peer) Name() string    { return "c08-" + p.client }
func (p *c08Peer) Address() string { return fmt.Sprintf("node%d:5052", p.idx) }
func (p *c08Peer) IsActive() bool  { return true }
func (p *c08Peer) IsSynced() bool  { return true }

func (p *c08Peer) begin(call int, n *c08Node) {
	p.mu.Lock()
	p.calls[call] = n
	p.last = call
	p.mu.Unlock()
}

// node returns the script of the submission that ctx belongs to (the latest submission if the
// code under test did not pass the caller's context on).
func (p *c08Peer) node(ctx context.Context) *c08Node {
	id, ok := ctx.Value(c08CallKey{}).(int)
	p.mu.Lock()
	defer p.mu.Unlock()
	if !ok {
		id = p.last
	}
	return p.calls[id]
}

func (p *c08Peer) submit(ctx context.Context, elems []any) error {
	n := p.node(ctx)
	if n == nil {
		return errors.New("c08: no submission in progress")
	}
	return n.submit(ctx, elems)
}

var c08Versions = map[string]string{
	"lighthouse": "Lighthouse/v5.1.3-3058b96/x86_64-linux",
	"teku":       "teku/v24.4.0/linux-x86_64/-eclipseadoptium-openjdk64bitservervm-java-17",
	"nimbus":     "Nimbus/v24.3.0-dc19b0-stateofus",
	"prysm":      "Prysm/v5.0.3 (linux amd64)",
	"lodestar":   "Lodestar/v1.18.0/eca6ef4",
}

// c08Versioned is a node that has a version endpoint.  Whether it answers is part of the script of
// the submission the query belongs to (ver "fail", or client "broken": never).
type c08Versioned struct{ *c08Peer }

func (p c08Versioned) NodeVersion(ctx context.Context, _ *api.NodeVersionOpts) (*api.Response[string], error) {
	n := p.node(ctx)
	v, ok := c08Versions[p.client]
	if n != nil {
		n.mu.Lock()
		n.verAsked++
		if ok && n.spec.Ver != "fail" {
			n.verOK++
		}
		n.mu.Unlock()
	}
	if !ok || n == nil || n.spec.Ver == "fail" {
		return nil, errors.New("GET failed with status 503")
	}
	return &api.Response[string]{Data: v, Metadata: map[string]any{}}, nil
}

// c08ErrorText is the error a go-eth2-client HTTP node would hand back for each reply shape.
func c08ErrorText(reason string, client string) string {
	if client == "teku" {
		// teku's dialect (as the submitter's tekuErrorResponse defines it): code and index are strings
		switch reason {
		case "noFailures":
			return `POST failed with status 500: {"code":"500","message":"Internal server error"}`
		case "emptyFailures":
			return `POST failed with status 400: {"code":"400","message":"Some items failed to publish, refer to errors for details","failures":[]}`
		}
	}
	const lhSync = `Verification: PriorSyncCommitteeMessageKnown { validator_index: 11, slot: Slot(1) }`
	const tekuDup = `Ignoring sync committee message as a duplicate was processed during validation`
	switch reason {
	case "lhPrior":
		return `POST failed with status 400: {"code":400,"message":"BAD_REQUEST: error processing attestations","failures":[{"index":0,"message":"PriorAttestationKnown { validator_index: 11, epoch: Epoch(2) }"}]}`
	case "lhUnknownHead":
		return `POST failed with status 400: {"code":400,"message":"BAD_REQUEST: error processing attestations","failures":[{"index":0,"message":"UnknownHeadBlock { beacon_block_root: 0x0101010101010101010101010101010101010101010101010101010101010101 }"}]}`
	case "nimbusTarget":
		return `POST failed with status 400: {"code":400,"message":"Attestation object validation failed","failures":[{"index":0,"message":"Attempt to send attestation for unknown target"}]}`
	case "lhDupAll":
		return `POST failed with status 400: {"code":400,"message":"BAD_REQUEST: errors processing sync messages","failures":[{"index":0,"message":"` + lhSync + `"},{"index":2,"message":"` + lhSync + `"}]}`
	case "lhDupSome":
		return `POST failed with status 400: {"code":400,"message":"BAD_REQUEST: errors processing sync messages","failures":[{"index":0,"message":"` + lhSync + `"},{"index":1,"message":"Verification: InvalidSignature"}]}`
	case "tekuDupAll":
		return `POST failed with status 400: {"code":"400","message":"Some items failed to publish, refer to errors for details","failures":[{"index":"0","message":"` + tekuDup + `"}]}`
	case "tekuDupSome":
		return `POST failed with status 400: {"code":"400","message":"Some items failed to publish, refer to errors for details","failures":[{"index":"0","message":"` + tekuDup + `"},{"index":"1","message":"Rejecting sync committee message because the signature is invalid"}]}`
	case "lhAggKnownAll":
		return `POST failed with status 400: {"code":400,"message":"BAD_REQUEST: errors processing contributions","failures":[{"index":0,"message":"Verification: AggregatorAlreadyKnown(11)"}]}`
	case "lhAggKnownSome":
		return `POST failed with status 400: {"code":400,"message":"BAD_REQUEST: errors processing contributions","failures":[{"index":0,"message":"Verification: AggregatorAlreadyKnown(11)"},{"index":1,"message":"Verification: InvalidSignature"}]}`
	case "noFailures":
		return `POST failed with status 500: {"code":500,"message":"INTERNAL_SERVER_ERROR: database unavailable","stacktraces":[]}`
	case "emptyFailures":
		return `POST failed with status 400: {"code":400,"message":"BAD_REQUEST: body could not be processed","failures":[]}`
	case "badJson":
		return `POST failed with status 502: <html>{bad gateway</html>`
	default:
		return "POST failed with status 500: internal server error"
	}
}

// c08Err is the error value of a reply shape ("deadline": what a node client that gave up hands back).
func c08Err(reason string, client string) error {
	if reason == "deadline" {
		return fmt.Errorf("failed to call POST endpoint: %w", context.DeadlineExceeded)
	}
	return errors.New(c08ErrorText(reason, client))
}

func (n *c08Node) submit(ctx context.Context, elems []any) error {
	ids := make([]int, len(elems))
	for i, e := range elems {
		if id, ok := n.index[e]; ok {
			ids[i] = id
		} else {
			ids[i] = -1
		}
	}
	n.mu.Lock()
	if n.entered == 0 {
		n.firstCall = time.Since(n.t0)
	}
	n.entered++
	n.chunks = append(n.chunks, ids)
	n.mu.Unlock()
	if n.onEnter != nil {
		n.onEnter()
	}

	byCtx := false
	wait := func(d time.Duration) bool {
		tm := time.NewTimer(d)
		defer tm.Stop()
		select {
		case <-tm.C:
			return true
		case <-n.closed:
			return false
		case <-ctx.Done():
			byCtx = true
			return false
		}
	}
	live := true
	var err error
	switch n.spec.Out {
	case "held":
		// the reply is held back until the next submission on the instance has returned
		select {
		case <-n.release:
		case <-n.closed:
			live = false
		case <-ctx.Done():
			byCtx = true
			live = false
		}
		if n.spec.Reason != "none" && n.spec.Reason != "" {
			err = c08Err(n.spec.Reason, n.spec.Client)
		}
	case "accept":
	case "slowerr":
		// a rejection (of whatever shape) that takes a while, still well within the time-out
		live = wait(c08Delay(n.spec.Lat))
		err = c08Err(n.spec.Reason, n.spec.Client)
	case "error":
		reason := n.spec.Reason
		if reason == "attMixed" {
			// Part of the payload is rejected for a real reason.  The already-known part answers a
			// little later, so that its error is the last one the caller collects.
			reason = "plain"
			if len(ids) < n.items && len(ids) > 0 && ids[0] == 0 {
				reason = "lhPrior"
				live = wait(8 * time.Millisecond)
			}
		}
		err = c08Err(reason, n.spec.Client)
	case "slowok":
		live = wait(c08Delay(n.spec.Lat))
	case "late":
		live = wait(c08Late)
	default: // hang
		live = wait(24 * time.Hour)
	}
	n.mu.Lock()
	defer n.mu.Unlock()
	if !live {
		// The scenario is over (or the caller gave up): not a reply of the scripted node.
		n.aborted = true
		if byCtx {
			select {
			case <-n.closed:
			default:
				if !n.ctxAborted {
					n.ctxAborted = true
					n.abortAt = time.Since(n.t0)
				}
				return ctx.Err()
			}
		}
		return errors.New("c08: scenario is over")
	}
	n.returned++
	n.lastRet = time.Since(n.t0)
	if err != nil {
		n.anyErr = true
	}
	return err
}

// c08Delay is the delay of a slow-in-time reply of rank lat.
func c08Delay(lat int) time.Duration {
	if lat <= 0 {
		return c08Slow
	}
	return time.Duration(lat) * c08Step
}

func c08Any[T any](in []*T) []any {
	out := make([]any, len(in))
	for i := range in {
		out[i] = in[i]
	}
	return out
}

func (n *c08Peer) SubmitAttestations(ctx context.Context, a []*phase0.Attestation) error {
	return n.submit(ctx, c08Any(a))
}

func (n *c08Peer) SubmitAggregateAttestations(ctx context.Context, a []*phase0.SignedAggregateAndProof) error {
	return n.submit(ctx, c08Any(a))
}

func (n *c08Peer) SubmitProposal(ctx context.Context, opts *api.SubmitProposalOpts) error {
	if opts == nil {
		return n.submit(ctx, []any{nil})
	}
	return n.submit(ctx, []any{opts.Proposal})
}

func (n *c08Peer) SubmitSyncCommitteeMessages(ctx context.Context, a []*altair.SyncCommitteeMessage) error {
	return n.submit(ctx, c08Any(a))
}

func (n *c08Peer) SubmitSyncCommitteeContributions(ctx context.Context, a []*altair.SignedContributionAndProof) error {
	return n.submit(ctx, c08Any(a))
}

func (n *c08Peer) SubmitBeaconCommitteeSubscriptions(ctx context.Context, a []*apiv1.BeaconCommitteeSubscription) error {
	return n.submit(ctx, c08Any(a))
}

func (n *c08Peer) SubmitSyncCommitteeSubscriptions(ctx context.Context, a []*apiv1.SyncCommitteeSubscription) error {
	return n.submit(ctx, c08Any(a))
}

func (n *c08Peer) SubmitProposalPreparations(ctx context.Context, a []*apiv1.ProposalPreparation) error {
	return n.submit(ctx, c08Any(a))
}

// c08All is everything a submitter service wants from a node.
type c08All interface {
	eth2client.Service
	eth2client.AttestationsSubmitter
	eth2client.AggregateAttestationsSubmitter
	eth2client.ProposalSubmitter
	eth2client.SyncCommitteeMessagesSubmitter
	eth2client.SyncCommitteeContributionsSubmitter
	eth2client.BeaconCommitteeSubscriptionsSubmitter
	eth2client.SyncCommitteeSubscriptionsSubmitter
	eth2client.ProposalPreparationsSubmitter
}

// ---------------------------------------------------------------------------------------------
// payloads

type c08Payload struct {
	items int
	elems []any
	call  func(s c08Submitter) error
}

type c08Submitter interface {
	SubmitAttestations(ctx context.Context, a []*phase0.Attestation) error
	SubmitAggregateAttestations(ctx context.Context, a []*phase0.SignedAggregateAndProof) error
	SubmitProposal(ctx context.Context, p *api.VersionedSignedProposal) error
	SubmitSyncCommitteeMessages(ctx context.Context, a []*altair.SyncCommitteeMessage) error
	SubmitSyncCommitteeContributions(ctx context.Context, a []*altair.SignedContributionAndProof) error
	SubmitBeaconCommitteeSubscriptions(ctx context.Context, a []*apiv1.BeaconCommitteeSubscription) error
	SubmitSyncCommitteeSubscriptions(ctx context.Context, a []*apiv1.SyncCommitteeSubscription) error
	SubmitProposalPreparations(ctx context.Context, a []*apiv1.ProposalPreparation) error
}

func c08AttData(i int) *phase0.AttestationData {
	return &phase0.AttestationData{Slot: 33, Index: phase0.CommitteeIndex(i), Source: &phase0.Checkpoint{}, Target: &phase0.Checkpoint{Epoch: 1}}
}

func c08BuildPayload(ctx context.Context, kind string, items int) (*c08Payload, error) {
	p := &c08Payload{items: items}
	switch kind {
	case "att":
		a := make([]*phase0.Attestation, items)
		for i := range a {
			a[i] = &phase0.Attestation{Data: c08AttData(i)}
		}
		p.elems = c08Any(a)
		p.call = func(s c08Submitter) error { return s.SubmitAttestations(ctx, a) }
	case "agg":
		a := make([]*phase0.SignedAggregateAndProof, items)
		for i := range a {
			a[i] = &phase0.SignedAggregateAndProof{Message: &phase0.AggregateAndProof{
				AggregatorIndex: phase0.ValidatorIndex(i), Aggregate: &phase0.Attestation{Data: c08AttData(i)}}}
		}
		p.elems = c08Any(a)
		p.call = func(s c08Submitter) error { return s.SubmitAggregateAttestations(ctx, a) }
	case "proposal":
		// (VersionedSignedProposal.Slot() of the pinned go-eth2-client knows bellatrix and later only)
		prop := &api.VersionedSignedProposal{Version: spec.DataVersionCapella,
			Capella: &capella.SignedBeaconBlock{Message: &capella.BeaconBlock{Slot: 33, Body: &capella.BeaconBlockBody{ETH1Data: &phase0.ETH1Data{}}}}}
		p.items = 1
		p.elems = []any{prop}
		p.call = func(s c08Submitter) error { return s.SubmitProposal(ctx, prop) }
	case "syncmsg":
		a := make([]*altair.SyncCommitteeMessage, items)
		for i := range a {
			a[i] = &altair.SyncCommitteeMessage{Slot: 33, ValidatorIndex: phase0.ValidatorIndex(i)}
		}
		p.elems = c08Any(a)
		p.call = func(s c08Submitter) error { return s.SubmitSyncCommitteeMessages(ctx, a) }
	case "contrib":
		a := make([]*altair.SignedContributionAndProof, items)
		for i := range a {
			a[i] = &altair.SignedContributionAndProof{Message: &altair.ContributionAndProof{
				AggregatorIndex: phase0.ValidatorIndex(i), Contribution: &altair.SyncCommitteeContribution{Slot: 33}}}
		}
		p.elems = c08Any(a)
		p.call = func(s c08Submitter) error { return s.SubmitSyncCommitteeContributions(ctx, a) }
	case "bcsub":
		a := make([]*apiv1.BeaconCommitteeSubscription, items)
		for i := range a {
			a[i] = &apiv1.BeaconCommitteeSubscription{ValidatorIndex: phase0.ValidatorIndex(i), Slot: 33, CommitteesAtSlot: 4}
		}
		p.elems = c08Any(a)
		p.call = func(s c08Submitter) error { return s.SubmitBeaconCommitteeSubscriptions(ctx, a) }
	case "scsub":
		a := make([]*apiv1.SyncCommitteeSubscription, items)
		for i := range a {
			a[i] = &apiv1.SyncCommitteeSubscription{ValidatorIndex: phase0.ValidatorIndex(i), UntilEpoch: 256}
		}
		p.elems = c08Any(a)
		p.call = func(s c08Submitter) error { return s.SubmitSyncCommitteeSubscriptions(ctx, a) }
	case "prep":
		a := make([]*apiv1.ProposalPreparation, items)
		for i := range a {
			a[i] = &apiv1.ProposalPreparation{ValidatorIndex: phase0.ValidatorIndex(i)}
		}
		p.elems = c08Any(a)
		p.call = func(s c08Submitter) error { return s.SubmitProposalPreparations(ctx, a) }
	default:
		return nil, fmt.Errorf("unknown kind %q", kind)
	}
	return p, nil
}

// ---------------------------------------------------------------------------------------------
// services

// c08Maps is the node list of one kind: the peers configured for it, by address.
func c08Maps[T any](nodes []c08All, sel []int, conv func(c08All) T) map[string]T {
	m := make(map[string]T, len(sel))
	for _, i := range sel {
		m[fmt.Sprintf("node%d", i)] = conv(nodes[i-1])
	}
	return m
}

func c08NewService(ctx context.Context, sc *c08Scenario, nodes []c08All) (c08Submitter, error) {
	if sc.Sub == "immediate" {
		n := nodes[0]
		return immediate.New(ctx,
			immediate.WithLogLevel(zerolog.Disabled),
			immediate.WithClientMonitor(nullmetrics.New()),
			immediate.WithProposalSubmitter(n),
			immediate.WithAttestationsSubmitter(n),
			immediate.WithSyncCommitteeMessagesSubmitter(n),
			immediate.WithSyncCommitteeSubscriptionsSubmitter(n),
			immediate.WithSyncCommitteeContributionsSubmitter(n),
			immediate.WithBeaconCommitteeSubscriptionsSubmitter(n),
			immediate.WithAggregateAttestationsSubmitter(n),
			immediate.WithProposalPreparationsSubmitter(n),
		)
	}
	// every kind of submission has its own node list on the ONE instance
	of := func(kind string) []int { return sc.confOf(kind, len(nodes)) }
	return multinode.New(ctx,
		multinode.WithLogLevel(zerolog.Disabled),
		multinode.WithClientMonitor(nullmetrics.New()),
		multinode.WithTimeout(c08T),
		multinode.WithProcessConcurrency(int64(sc.Conc)),
		multinode.WithProposalSubmitters(c08Maps(nodes, of("proposal"), func(n c08All) eth2client.ProposalSubmitter { return n })),
		multinode.WithAttestationsSubmitters(c08Maps(nodes, of("att"), func(n c08All) eth2client.AttestationsSubmitter { return n })),
		multinode.WithAggregateAttestationsSubmitters(c08Maps(nodes, of("agg"), func(n c08All) eth2client.AggregateAttestationsSubmitter { return n })),
		multinode.WithProposalPreparationsSubmitters(c08Maps(nodes, of("prep"), func(n c08All) eth2client.ProposalPreparationsSubmitter { return n })),
		multinode.WithBeaconCommitteeSubscriptionsSubmitters(c08Maps(nodes, of("bcsub"), func(n c08All) eth2client.BeaconCommitteeSubscriptionsSubmitter { return n })),
		multinode.WithSyncCommitteeMessagesSubmitters(c08Maps(nodes, of("syncmsg"), func(n c08All) eth2client.SyncCommitteeMessagesSubmitter { return n })),
		multinode.WithSyncCommitteeSubscriptionsSubmitters(c08Maps(nodes, of("scsub"), func(n c08All) eth2client.SyncCommitteeSubscriptionsSubmitter { return n })),
		multinode.WithSyncCommitteeContributionsSubmitters(c08Maps(nodes, of("contrib"), func(n c08All) eth2client.SyncCommitteeContributionsSubmitter { return n })),
	)
}

// ---------------------------------------------------------------------------------------------
// one observed submission

type c08Event struct {
	at   time.Duration
	rank int // tie-break: Call < Complete < Return
	ev   verifsupport.Ev
}

func c08Whole(chunks [][]int, items int) bool {
	seen := make([]int, items)
	for _, c := range chunks {
		for _, id := range c {
			if id < 0 || id >= items {
				return false
			}
			seen[id]++
		}
	}
	for _, k := range seen {
		if k != 1 {
			return false
		}
	}
	return true
}

func c08ClassT(d time.Duration, noisy bool) string {
	switch {
	case noisy:
		return "amb"
	case d < c08T-c08Eps:
		return "before"
	case d > c08T+c08Eps:
		return "after"
	default:
		return "amb"
	}
}

func c08ClassCall(d time.Duration, noisy bool) string {
	switch {
	case noisy:
		return "amb"
	case d < c08Eps/2:
		return "early"
	case d > c08Eps:
		return "late"
	default:
		return "amb"
	}
}

// c08History is one submitter instance and the submissions made on it.
type c08History struct {
	sc     *c08Scenario
	calls  []c08CallSpec
	conc   int
	svc    c08Submitter
	peers  []*c08Peer
	closed chan struct{}
	probe  *c08Probe

	returned []chan struct{} // per submission: closed when it has returned (or was given up)
	release  []chan struct{} // per submission: closed when its held replies may go
	entered  []chan struct{} // per submission: closed when one of its held nodes has been called
}

// c08Observe runs the scenario - a history of submissions on ONE instance - once.  Submissions run
// one after the other, except that a submission with a "held" node reply is overlapped by the next
// one: the next submission starts as soon as the held node has been called (or after a short grace
// if the code never gets there) and the held reply is let go once that next submission has
// returned.  It returns the trace lines (submission by submission, in the order they were started)
// and whether the observation should be repeated: the machine was too noisy for the timing classes
// to mean anything (probe), or some instant is late in a way that a descheduled thread could explain
// (the probe cannot see a stall that hits a single OS thread).  Lateness only counts when it shows
// in every attempt.
func c08Observe(sc *c08Scenario, probe *c08Probe, attempt int) ([]verifsupport.Ev, bool, error) {
	ctx, cancel := context.WithCancel(context.Background())
	defer cancel()
	calls := sc.calls()
	if len(calls) == 0 || len(calls[0].Nodes) == 0 {
		return nil, false, errors.New("scenario without nodes")
	}
	h := &c08History{sc: sc, calls: calls, conc: sc.Conc, closed: make(chan struct{}), probe: probe}
	if sc.Sub == "immediate" {
		h.conc = 1
	}
	nodes := make([]c08All, len(calls[0].Nodes))
	for i, ns := range calls[0].Nodes {
		p := &c08Peer{idx: i + 1, client: ns.Client, calls: map[int]*c08Node{}}
		h.peers = append(h.peers, p)
		if ns.Client == "unknown" {
			nodes[i] = p
		} else {
			nodes[i] = c08Versioned{p}
		}
	}
	for _, c := range calls {
		if len(c.Nodes) != len(h.peers) {
			return nil, false, errors.New("history with a varying number of nodes")
		}
		for i, ns := range c.Nodes {
			if ns.Client != h.peers[i].client {
				return nil, false, errors.New("history in which a node changes its client")
			}
		}
	}
	svc, err := c08NewService(ctx, sc, nodes)
	if err != nil {
		return nil, false, err
	}
	h.svc = svc
	for range calls {
		h.returned = append(h.returned, make(chan struct{}))
		h.release = append(h.release, make(chan struct{}))
		h.entered = append(h.entered, make(chan struct{}))
	}

	type result struct {
		lines []verifsupport.Ev
		again bool
		err   error
	}
	results := make([]result, len(calls))
	var wg sync.WaitGroup
	for i := range calls {
		i := i
		wg.Add(1)
		go func() {
			defer wg.Done()
			l, again, err := h.observeCall(ctx, i, attempt)
			results[i] = result{l, again, err}
		}()
		hasHeld := false
		for _, ns := range calls[i].Nodes {
			if ns.Out == "held" {
				hasHeld = true
			}
		}
		if hasHeld {
			// overlap: let go of the held replies once the NEXT submission has returned
			go func() {
				if i+1 < len(calls) {
					<-h.returned[i+1]
				}
				close(h.release[i])
			}()
			select {
			case <-h.entered[i]:
			case <-h.returned[i]:
			case <-time.After(30 * time.Millisecond):
			}
			continue
		}
		close(h.release[i])
		wg.Wait()
	}
	wg.Wait()
	close(h.closed)
	var lines []verifsupport.Ev
	again := false
	for _, r := range results {
		if r.err != nil {
			return nil, false, r.err
		}
		lines = append(lines, r.lines...)
		again = again || r.again
	}
	return lines, again, nil
}

// observeCall makes submission i of the history and watches it.
func (h *c08History) observeCall(ctx context.Context, ci int, attempt int) ([]verifsupport.Ev, bool, error) {
	sc := h.sc
	call := h.calls[ci]
	cctx := context.WithValue(ctx, c08CallKey{}, ci+1)
	payload, err := c08BuildPayload(cctx, call.Kind, call.Items)
	if err != nil {
		close(h.returned[ci])
		return nil, false, err
	}
	index := make(map[any]int, len(payload.elems))
	for i, e := range payload.elems {
		index[e] = i
	}
	// The nodes of this submission are the peers configured for ITS kind; the other peers of the pool
	// get a script too, so that a call that reaches one of them is seen (and explained by nothing).
	raw := make([]*c08Node, len(call.Nodes))
	mine := make([]bool, len(call.Nodes))
	nMine := 0
	for _, i := range sc.confOf(call.Kind, len(call.Nodes)) {
		mine[i-1] = true
		nMine++
	}
	allQuick := true
	var enteredOnce sync.Once
	for i, ns := range call.Nodes {
		raw[i] = &c08Node{idx: i + 1, spec: ns, kind: call.Kind, index: index, items: payload.items, closed: h.closed,
			release: h.release[ci], firstCall: -1}
		if !mine[i] {
			raw[i].spec.Out = "accept"
			continue
		}
		if ns.Out == "held" {
			raw[i].onEnter = func() { enteredOnce.Do(func() { close(h.entered[ci]) }) }
		}
		if ns.Out != "accept" && ns.Out != "error" {
			allQuick = false
		}
	}
	conc := h.conc
	needOffer := conc >= nMine || allQuick

	var retMu sync.Mutex
	returned := false
	var retAt time.Duration
	var retErr error
	// The origin of all instants is taken on the calling goroutine immediately before the call, so
	// that the time this goroutine waits to be scheduled is not attributed to the submitter.
	startCh := make(chan time.Time, 1)
	var retOnce sync.Once
	markReturned := func() { retOnce.Do(func() { close(h.returned[ci]) }) }
	go func() {
		w0 := time.Now()
		for i, n := range raw {
			n.t0 = w0
			h.peers[i].begin(ci+1, n)
		}
		startCh <- w0
		e := payload.call(h.svc)
		d := time.Since(w0)
		retMu.Lock()
		returned, retAt, retErr = true, d, e
		retMu.Unlock()
		markReturned()
	}()
	wall0 := <-startCh

	for {
		time.Sleep(2 * time.Millisecond)
		el := time.Since(wall0)
		retMu.Lock()
		r := returned
		retMu.Unlock()
		settled, offeredOK := true, true
		for i, n := range raw {
			if !mine[i] {
				continue
			}
			n.mu.Lock()
			complete := n.entered > 0 && n.returned == n.entered
			whole := n.entered > 0 && c08Whole(n.chunks, payload.items)
			n.mu.Unlock()
			if !complete && el <= c08Settle {
				settled = false
			}
			if needOffer && !whole {
				offeredOK = false
			}
		}
		// With room for every node (or only quick nodes) the property promises delivery to all of
		// them: wait for it up to the hard limit, so that a stalled machine cannot look like a
		// node that was never called.
		if r && settled && offeredOK {
			break
		}
		if el > c08Hard {
			break
		}
	}
	// a submission that has not returned by now never returns in time: the history goes on without it
	markReturned()

	// Snapshot (every fake that is still blocked is let go when the history ends).
	var evs []c08Event
	retMu.Lock()
	r, rAt, rErr := returned, retAt, retErr
	retMu.Unlock()
	type snap struct {
		called   bool
		first    time.Duration
		chunks   [][]int
		complete bool
		last     time.Duration
		anyErr   bool
		verAsked int
		verOK    int
		ctxAbort bool
		abortAt  time.Duration
	}
	snaps := make([]snap, len(raw))
	for i, n := range raw {
		n.mu.Lock()
		s := snap{called: n.entered > 0, first: n.firstCall, complete: n.entered > 0 && n.returned == n.entered && !n.aborted,
			last: n.lastRet, anyErr: n.anyErr, verAsked: n.verAsked, verOK: n.verOK, ctxAbort: n.ctxAborted, abortAt: n.abortAt}
		for _, c := range n.chunks {
			s.chunks = append(s.chunks, append([]int{}, c...))
		}
		n.mu.Unlock()
		sort.Slice(s.chunks, func(a, b int) bool {
			if len(s.chunks[a]) == 0 || len(s.chunks[b]) == 0 {
				return len(s.chunks[a]) < len(s.chunks[b])
			}
			return s.chunks[a][0] < s.chunks[b][0]
		})
		snaps[i] = s
	}
	end := time.Now()
	noise := h.probe.maxGap(wall0, end)
	noisy := noise > c08NoiseMax

	suspect := !r
	for i, s := range snaps {
		if mine[i] && (!s.called || !c08Whole(s.chunks, payload.items)) {
			if needOffer {
				suspect = true
			}
		}
		if !s.called {
			continue
		}
		if conc >= nMine && c08ClassCall(s.first, noisy) == "late" {
			suspect = true
		}
		if r && rErr != nil && s.complete && !s.anyErr && c08ClassT(s.last, noisy) == "before" {
			suspect = true
		}
		evs = append(evs, c08Event{at: s.first, rank: 0, ev: verifsupport.Ev{
			"sc": sc.Sc, "ev": "Call", "call": ci + 1, "node": i + 1, "chunks": s.chunks, "at": c08ClassCall(s.first, noisy), "us": s.first.Microseconds(),
			"verAsked": s.verAsked, "verOK": s.verOK}})
		if s.ctxAbort {
			// the submitter cancelled the context of a node call it had made: no action of the property explains it
			// within the time-out (DeliveredToEach)
			evs = append(evs, c08Event{at: s.abortAt, rank: 1, ev: verifsupport.Ev{
				"sc": sc.Sc, "ev": "Complete", "call": ci + 1, "node": i + 1, "reply": "aborted", "at": c08ClassT(s.abortAt, noisy), "us": s.abortAt.Microseconds()}})
		} else if s.complete {
			reply := "accept"
			if s.anyErr {
				reply = "error"
			}
			evs = append(evs, c08Event{at: s.last, rank: 1, ev: verifsupport.Ev{
				"sc": sc.Sc, "ev": "Complete", "call": ci + 1, "node": i + 1, "reply": reply, "at": c08ClassT(s.last, noisy), "us": s.last.Microseconds()}})
		}
	}
	if r {
		if sc.Sub != "immediate" && c08ClassT(rAt, noisy) == "after" {
			suspect = true
		}
		ev := verifsupport.Ev{"sc": sc.Sc, "ev": "Return", "call": ci + 1, "ok": rErr == nil, "at": c08ClassT(rAt, noisy), "us": rAt.Microseconds()}
		if rErr != nil {
			ev["error"] = rErr.Error()
		}
		if sc.Sub == "immediate" && !noisy {
			// no time-out is configured for the immediate submitter: its return instant is not judged
			ev["at"] = "before"
		}
		evs = append(evs, c08Event{at: rAt, rank: 2, ev: ev})
	}
	sort.SliceStable(evs, func(a, b int) bool {
		if evs[a].at != evs[b].at {
			return evs[a].at < evs[b].at
		}
		return evs[a].rank < evs[b].rank
	})
	items := payload.items
	head := "Reset"
	if ci > 0 {
		head = "NextCall"
	}
	lines := []verifsupport.Ev{{"sc": sc.Sc, "ev": head, "call": ci + 1, "calls": len(h.calls), "sub": sc.Sub, "kind": call.Kind, "conc": conc, "items": items,
		"nodes": call.Nodes, "conf": sc.confAll(len(call.Nodes)), "T": c08T.Milliseconds(), "noiseUs": noise.Microseconds(), "noisy": noisy, "attempt": attempt + 1}}
	for _, e := range evs {
		lines = append(lines, e.ev)
	}
	lines = append(lines, verifsupport.Ev{"sc": sc.Sc, "ev": "Finish", "call": ci + 1, "us": end.Sub(wall0).Microseconds()})
	return lines, noisy || suspect, nil
}

// c08Stalled tells whether the noise recorded in a scenario's Reset line is beyond anything the
// ambiguous classes can absorb (a call that "never returned" would be meaningless).
func c08Stalled(lines []verifsupport.Ev) bool {
	for _, l := range lines {
		if us, ok := l["noiseUs"].(int64); ok && us > 400000 {
			return true
		}
	}
	return false
}

// ---------------------------------------------------------------------------------------------
// util.Scatter

func c08Scatter(sc *c08Scenario) []verifsupport.Ev {
	lines := []verifsupport.Ev{{"sc": sc.Sc, "ev": "Reset", "sub": "scatter", "kind": "att", "conc": 1, "items": sc.Items,
		"nodes": []c08NodeSpec{}, "conf": sc.confAll(0), "T": 0, "noiseUs": 0, "noisy": false}}
	for conc := 0; conc <= sc.MaxConc; conc++ {
		var mu sync.Mutex
		extents := [][2]int{}
		res, err := util.Scatter(sc.Items, conc, func(offset int, entries int, _ *sync.RWMutex) (interface{}, error) {
			mu.Lock()
			extents = append(extents, [2]int{offset, entries})
			mu.Unlock()
			return offset, nil
		})
		sort.Slice(extents, func(a, b int) bool { return extents[a][0] < extents[b][0] })
		offsets := []int{}
		for _, r := range res {
			if r == nil {
				offsets = append(offsets, -1)
				continue
			}
			if v, ok := r.Extent.(int); !ok || v != r.Offset {
				offsets = append(offsets, -2)
				continue
			}
			offsets = append(offsets, r.Offset)
		}
		sort.Ints(offsets)
		lines = append(lines, verifsupport.Ev{"sc": sc.Sc, "ev": "Scatter", "items": sc.Items, "conc": conc,
			"extents": extents, "results": offsets, "err": err != nil})
	}
	return lines
}

// ---------------------------------------------------------------------------------------------

func TestVerifC08(t *testing.T) {
	var scenarios []c08Scenario
	verifsupport.Scenarios(t, &scenarios)
	tr := verifsupport.OpenTrace(t)
	defer tr.Close()

	stop := make(chan struct{})
	defer close(stop)
	probe := c08StartProbe(stop)

	par := 24
	if v, err := strconv.Atoi(os.Getenv("VERIF_C08_PAR")); err == nil && v > 0 {
		par = v
	}
	var emitMu sync.Mutex
	var failMu sync.Mutex
	var failure error
	noisyCount, retries := 0, 0
	work := make(chan *c08Scenario)
	var wg sync.WaitGroup
	for w := 0; w < par; w++ {
		wg.Add(1)
		go func() {
			defer wg.Done()
			for sc := range work {
				var lines []verifsupport.Ev
				{
					for attempt := 0; ; attempt++ {
						l, noisy, err := c08Observe(sc, probe, attempt)
						if err != nil {
							failMu.Lock()
							failure = fmt.Errorf("scenario %d: %w", sc.Sc, err)
							failMu.Unlock()
							break
						}
						lines = l
						if !noisy {
							break
						}
						if attempt == 2 && c08Stalled(l) {
							failMu.Lock()
							failure = fmt.Errorf("scenario %d: the machine stalled for more than 400 ms in three attempts: no observation possible", sc.Sc)
							failMu.Unlock()
						}
						failMu.Lock()
						retries++
						failMu.Unlock()
						if attempt == 2 {
							failMu.Lock()
							noisyCount++
							failMu.Unlock()
							break
						}
						time.Sleep(time.Duration(100+400*attempt) * time.Millisecond)
					}
				}
				emitMu.Lock()
				for _, l := range lines {
					tr.Emit(l)
				}
				emitMu.Unlock()
			}
		}()
	}
	// Timed scenarios first; the CPU-bound Scatter runs only start when no instant is being measured.
	for i := range scenarios {
		if scenarios[i].Sub != "scatter" {
			work <- &scenarios[i]
		}
	}
	close(work)
	wg.Wait()
	for i := range scenarios {
		if scenarios[i].Sub == "scatter" {
			for _, l := range c08Scatter(&scenarios[i]) {
				tr.Emit(l)
			}
		}
	}
	if failure != nil {
		t.Fatal(failure)
	}
	t.Logf("c08: %d scenarios, %d repeated observations, %d still noisy or late in the third attempt", len(scenarios), retries, noisyCount)
}
