package standard

// The WIRED family of the C05 driver: the auction as a component (spec/Proposer.tla, cfg.strategy =
// "best" | "deadline").  Behind the proposer's BlockAuctioneer interface stands what main.go puts there:
//
//	beaconblockproposer/standard  ->  services/blockrelay/standard (AuctionBlock: account lookup,
//	                                  execution configuration read through majordomo at start-up, bid cache)
//	                              ->  strategies/builderbid/best  or  strategies/builderbid/deadline
//	                              ->  util.FetchBuilderClient (one client per relay address)
//	                              ->  the relays
//
// - ONE such chain per history, built when the instance is built and used for every duty of the history.
// The fakes are one layer further out: the relays are builder clients registered under the addresses of
// the execution configuration (overlay seam util.VerifSetBuilderClient) that answer a request for a bid
// with a real VersionedSignedBuilderBid (the strategies' own eligibility checks run), with no bid (204),
// with an error - or ACCEPT THE REQUEST AND STAY SILENT until their context ends; the "configuration
// server" is a majordomo that serves the version 2 execution configuration naming cfg.conf; the block
// relay's accounts provider answers for the key it is asked about (or fails: the only way AuctionBlock
// itself returns an error).  The same relay objects unblind.
//
// Recorded: AuctionStart (the block relay looked the account up), Bid (a relay received a request while
// the auction was going on), and - by a pass-through shim between proposer and block relay that changes
// nothing - Auction: what AuctionBlock really returned: an error, results (AllProviders / Providers as
// relay numbers), or neither ("nilnil").  A panic in the goroutine of Propose is recorded as Crash.

import (
	"math/big"
	"context"
	"encoding/json"
	"errors"
	"fmt"
	"strings"
	"sync"
	"sync/atomic"
	"testing"
	"time"

	"github.com/attestantio/go-block-relay/services/blockauctioneer"
	builderapi "github.com/attestantio/go-builder-client/api"
	builderdeneb "github.com/attestantio/go-builder-client/api/deneb"
	builderspec "github.com/attestantio/go-builder-client/spec"
	"github.com/attestantio/go-eth2-client/api"
	consensusspec "github.com/attestantio/go-eth2-client/spec"
	"github.com/attestantio/go-eth2-client/spec/bellatrix"
	"github.com/attestantio/go-eth2-client/spec/deneb"
	"github.com/attestantio/go-eth2-client/spec/phase0"
	"github.com/attestantio/vouch/mock"
	"github.com/attestantio/vouch/services/blockrelay"
	standardblockrelay "github.com/attestantio/vouch/services/blockrelay/standard"
	nullmetrics "github.com/attestantio/vouch/services/metrics/null"
	mocksigner "github.com/attestantio/vouch/services/signer/mock"
	"github.com/attestantio/vouch/strategies/builderbid"
	bestbuilderbid "github.com/attestantio/vouch/strategies/builderbid/best"
	deadlinebuilderbid "github.com/attestantio/vouch/strategies/builderbid/deadline"
	"github.com/attestantio/vouch/util"
	"github.com/attestantio/vouch/verifsupport"
	"github.com/holiman/uint256"
	"github.com/rs/zerolog"
	e2wtypes "github.com/wealdtech/go-eth2-wallet-types/v2"
)

const (
	// best: hard time-out (soft = half of it); deadline: deadline into the slot, which starts when Propose is called
	c05WTimeout = 400 * time.Millisecond
	c05WBidGap  = 150 * time.Millisecond
)

var c05WSerial atomic.Uint64

// c05WExcludedBuilder is the builder the block relay service's catalogue excludes (main.go: obtainBuilderConfigs,
// blockrelay.excluded-builders).
var c05WExcludedBuilder = phase0.BLSPubKey{0xee, 0xee, 0x01}

// c05ChainTime is the virtual chain time with per-slot start instants: the deadline strategy derives its
// deadline from StartOfSlot(slot), and a bid must carry that time stamp.
type c05ChainTime struct {
	*verifsupport.ChainTime
	mu     sync.RWMutex
	starts map[phase0.Slot]time.Time
}

func (c *c05ChainTime) StartOfSlot(slot phase0.Slot) time.Time {
	c.mu.RLock()
	t, ok := c.starts[slot]
	c.mu.RUnlock()
	if ok {
		return t
	}
	return c.ChainTime.StartOfSlot(slot)
}

func (c *c05ChainTime) setStart(slot phase0.Slot, t time.Time) {
	c.mu.Lock()
	if c.starts == nil {
		c.starts = map[phase0.Slot]time.Time{}
	}
	c.starts[slot] = t
	c.mu.Unlock()
}

// ---- the configuration server ------------------------------------------------------------------

type c05WMajordomo struct{ doc []byte }

func (m *c05WMajordomo) Fetch(_ context.Context, _ string) ([]byte, error) { return m.doc, nil }

// ---- the block relay's accounts --------------------------------------------------------------------

// c05WAccounts is what the block relay service is given as accounts provider / validating accounts
// provider (main.go: the account manager).  It answers for the key it is asked about.
type c05WAccounts struct {
	h          *c05Hist
	validators []uint64
}

func (a *c05WAccounts) all() map[phase0.ValidatorIndex]e2wtypes.Account {
	res := map[phase0.ValidatorIndex]e2wtypes.Account{}
	for _, v := range a.validators {
		res[phase0.ValidatorIndex(v)] = c05NewAccount(v)
	}
	return res
}

func (a *c05WAccounts) ValidatingAccountsForEpoch(_ context.Context, _ phase0.Epoch) (map[phase0.ValidatorIndex]e2wtypes.Account, error) {
	return a.all(), nil
}

func (a *c05WAccounts) ValidatingAccountsForEpochByIndex(_ context.Context, _ phase0.Epoch, indices []phase0.ValidatorIndex) (map[phase0.ValidatorIndex]e2wtypes.Account, error) {
	res := map[phase0.ValidatorIndex]e2wtypes.Account{}
	for _, i := range indices {
		res[i] = c05NewAccount(uint64(i))
	}
	return res, nil
}

func (a *c05WAccounts) SyncCommitteeAccountsForEpoch(_ context.Context, _ phase0.Epoch) (map[phase0.ValidatorIndex]e2wtypes.Account, error) {
	return map[phase0.ValidatorIndex]e2wtypes.Account{}, nil
}

func (a *c05WAccounts) SyncCommitteeAccountsForEpochByIndex(_ context.Context, _ phase0.Epoch, _ []phase0.ValidatorIndex) (map[phase0.ValidatorIndex]e2wtypes.Account, error) {
	return map[phase0.ValidatorIndex]e2wtypes.Account{}, nil
}

// AccountByPublicKey is the first thing AuctionBlock does.
func (a *c05WAccounts) AccountByPublicKey(ctx context.Context, pubkey phase0.BLSPubKey) (e2wtypes.Account, error) {
	v := c05PubkeyID(pubkey)
	run, ok := ctx.Value(c05CtxKey{}).(*c05Run)
	if !ok || run == nil {
		// not on behalf of a Propose (the REST side of the block relay, registrations): just answer
		if v < 0 {
			return nil, errors.New("unknown key")
		}
		return c05NewAccount(uint64(v)), nil
	}
	out := "ok"
	if run.sc.Aacct == "err" || v < 0 {
		out = "err"
	}
	run.hist.mu.Lock()
	if run.inAuction {
		run.auctionOpen = true
		run.emitLocked(verifsupport.Ev{"ev": "AuctionStart", "pubv": v, "out": out})
	}
	run.hist.mu.Unlock()
	if out == "err" {
		return nil, errors.New("scripted account lookup failure")
	}
	return c05NewAccount(uint64(v)), nil
}

// ---- relays ------------------------------------------------------------------------------------

// c05WRelay is the builder client of relay n of the history's execution configuration.  It serves every
// duty of the history; which duty a request belongs to it learns from the context.
type c05WRelay struct {
	hist *c05Hist
	ct   *c05ChainTime
	n    int
	addr string
}

func (r *c05WRelay) Name() string              { return fmt.Sprintf("c05wrelay%d", r.n) }
func (r *c05WRelay) Address() string           { return r.addr }
func (r *c05WRelay) Pubkey() *phase0.BLSPubKey { return nil }

// c05WBid builds a real bid: the relays TLC names as Providers offer the highest value with one and the
// same header, the others less (each its own header).
func (r *c05WRelay) bid(run *c05Run, opts *builderapi.BuilderBidOpts, excluded bool) *builderspec.VersionedSignedBuilderBid {
	top := r.n-1 < len(run.sc.Auction.Providers) && run.sc.Auction.Providers[r.n-1]
	value, hdr := uint64(1000+r.n), byte(r.n)
	if top {
		value, hdr = 5000, 0x77
	}
	var builder phase0.BLSPubKey
	builder[0], builder[1] = 0xb1, hdr
	if excluded {
		builder = c05WExcludedBuilder
	}
	return &builderspec.VersionedSignedBuilderBid{
		Version: consensusspec.DataVersionDeneb,
		Deneb: &builderdeneb.SignedBuilderBid{
			Message: &builderdeneb.BuilderBid{
				Header: &deneb.ExecutionPayloadHeader{
					ParentHash: opts.ParentHash, FeeRecipient: bellatrix.ExecutionAddress{0x11, 0x22, 0x33},
					StateRoot: phase0.Root{0x51, hdr}, BlockNumber: 100, GasLimit: 30000000, GasUsed: 21000,
					Timestamp: uint64(r.ct.StartOfSlot(opts.Slot).Unix()), ExtraData: []byte{},
					BaseFeePerGas: uint256.NewInt(7), BlockHash: phase0.Hash32{0xb0, hdr},
					TransactionsRoot: phase0.Root{0x7a, hdr},
				},
				BlobKZGCommitments: []deneb.KZGCommitment{},
				Value:              uint256.NewInt(value),
				Pubkey:             builder,
			},
		},
	}
}

func (r *c05WRelay) BuilderBid(ctx context.Context, opts *builderapi.BuilderBidOpts) (*builderapi.Response[*builderspec.VersionedSignedBuilderBid], error) {
	run := r.hist.runOf(ctx)
	out := "nobid"
	if r.n-1 < len(run.sc.Bids) {
		switch run.sc.Bids[r.n-1] {
		case "bid", "err", "silent":
			out = run.sc.Bids[r.n-1]
		}
	}
	run.hist.mu.Lock()
	run.bidAttempts[r.n]++
	attempt := run.bidAttempts[r.n]
	if run.auctionOpen {
		// (a request that arrives when AuctionBlock has returned - the deadline strategy's goroutines ask once
		// more after the deadline - has no bearing on the auction and is not part of the record)
		run.emitLocked(verifsupport.Ev{"ev": "Bid", "relay": r.n, "attempt": run.bidAttempts[r.n], "out": out})
	}
	run.hist.mu.Unlock()
	switch out {
	case "bid":
		return &builderapi.Response[*builderspec.VersionedSignedBuilderBid]{Data: r.bid(run, opts, false), Metadata: map[string]any{}}, nil
	case "err":
		return nil, errors.New("GET failed with status 500: scripted relay failure")
	case "silent":
		// the relay has accepted the request and says nothing: the call ends with its context (the real
		// client: with its own time-out, which main.go sets no shorter than the strategy's)
		<-ctx.Done()
		return nil, ctx.Err()
	}
	// nothing this relay can win with: 204 (no bid), or - decided by scenario, relay and attempt, so that a scenario
	// re-run alone behaves the same - the bid of a builder the operator excluded (catalogue factor 0: it takes part in the auction, scores zero, never wins)
	if (run.hist.sc/2+r.n+attempt)%2 == 0 {
		return &builderapi.Response[*builderspec.VersionedSignedBuilderBid]{Data: r.bid(run, opts, true), Metadata: map[string]any{}}, nil
	}
	return &builderapi.Response[*builderspec.VersionedSignedBuilderBid]{Metadata: map[string]any{}}, nil
}

func (r *c05WRelay) UnblindProposal(ctx context.Context, opts *builderapi.UnblindProposalOpts) (*builderapi.Response[*api.VersionedSignedProposal], error) {
	run := r.hist.runOf(ctx)
	script := "none"
	if r.n-1 < len(run.sc.Relays) {
		script = run.sc.Relays[r.n-1]
	}
	return (&c05Relay{run: run, n: r.n, script: script}).UnblindProposal(ctx, opts)
}

// ---- the recording shim between proposer and block relay -------------------------------------------

type c05WAuctioneer struct {
	h      *c05Hist
	real   blockauctioneer.BlockAuctioneer
	relays map[string]int
}

func (a *c05WAuctioneer) numbers(providers []any) []int {
	res := []int{}
	for _, p := range providers {
		n := -2 // not a relay of this instance
		if r, ok := p.(*c05WRelay); ok && r != nil {
			if m, known := a.relays[strings.ToLower(r.Address())]; known {
				n = m
			}
		}
		res = append(res, n)
	}
	return res
}

// AuctionBlock hands the call to the real block relay service and records what came back.  It changes nothing:
// arguments, results, error and panics pass through.
func (a *c05WAuctioneer) AuctionBlock(ctx context.Context, slot phase0.Slot, parentHash phase0.Hash32, pubkey phase0.BLSPubKey) (*blockauctioneer.Results, error) {
	run := a.h.runOf(ctx)
	run.pass()
	run.hist.mu.Lock()
	run.inAuction = true
	run.hist.mu.Unlock()
	returned := false
	defer func() {
		if !returned {
			// a panic below: the auction is over without an answer (the Crash line is written by the caller)
			run.hist.mu.Lock()
			run.inAuction, run.auctionOpen = false, false
			run.hist.mu.Unlock()
		}
	}()
	res, err := a.real.AuctionBlock(ctx, slot, parentHash, pubkey)
	run.hist.mu.Lock()
	out, all, providers := "results", []int{}, []int{}
	switch {
	case err != nil:
		out = "err"
	case res == nil:
		out = "nilnil"
	default:
		ps := make([]any, 0, len(res.AllProviders))
		for _, p := range res.AllProviders {
			ps = append(ps, p)
		}
		all = a.numbers(ps)
		ps = ps[:0]
		for _, p := range res.Providers {
			ps = append(ps, p)
		}
		providers = a.numbers(ps)
		run.candidates = len(all)
	}
	if !run.auctionOpen {
		// AuctionBlock returned without looking the account up: record the call as it is known to the specification
		run.emitLocked(verifsupport.Ev{"ev": "AuctionStart", "pubv": int64(-3), "out": "ok"})
	}
	run.emitLocked(verifsupport.Ev{"ev": "Auction", "slot": uint64(slot), "pubv": c05PubkeyID(pubkey), "out": out, "all": all, "providers": providers})
	run.inAuction, run.auctionOpen = false, false
	returned = true
	run.hist.mu.Unlock()
	return res, err
}

// ---- wiring ------------------------------------------------------------------------------------

type c05Wired struct {
	auctioneer blockauctioneer.BlockAuctioneer
	cancel     context.CancelFunc
}

// c05Wire builds the chain behind the auctioneer interface for one history, as main.go does
// (startBlockRelay / selectBuilderBidProvider).
func c05Wire(t *testing.T, hist *c05Hist, h *c05History, ct *c05ChainTime) *c05Wired {
	ctx, cancel := context.WithCancel(context.Background())
	uniq := fmt.Sprintf("h%d-%d", h.Sc, c05WSerial.Add(1))

	relays := map[string]int{}
	confRelays := map[string]any{}
	for _, n := range h.Cfg.Conf {
		addr := fmt.Sprintf("http://relay%d.%s.c05.verif", n, uniq)
		r := &c05WRelay{hist: hist, ct: ct, n: n, addr: addr}
		relays[strings.ToLower(addr)] = n
		confRelays[addr] = map[string]any{}
		// the relay's client is in place before anything asks util.FetchBuilderClient for it
		util.VerifSetBuilderClient(addr, r)
	}
	doc, err := json.Marshal(map[string]any{
		"version": 2, "fee_recipient": "0x0200000000000000000000000000000000000000", "gas_limit": "30000000",
		"relays": confRelays,
	})
	if err != nil {
		t.Fatalf("c05: execution configuration: %v", err)
	}

	validators := []uint64{}
	for _, d := range h.Duties {
		validators = append(validators, d.V)
	}
	accounts := &c05WAccounts{h: hist, validators: validators}

	specProvider, domainProvider := mock.NewSpecProvider(), mock.NewDomainProvider()
	var strategy builderbid.Provider
	switch h.Cfg.Strategy {
	case "deadline":
		strategy, err = deadlinebuilderbid.New(ctx,
			deadlinebuilderbid.WithLogLevel(zerolog.Disabled),
			deadlinebuilderbid.WithMonitor(nullmetrics.New()),
			deadlinebuilderbid.WithSpecProvider(specProvider),
			deadlinebuilderbid.WithDomainProvider(domainProvider),
			deadlinebuilderbid.WithChainTime(ct),
			deadlinebuilderbid.WithDeadline(c05WTimeout),
			deadlinebuilderbid.WithBidGap(c05WBidGap),
			deadlinebuilderbid.WithReleaseVersion("verif"),
		)
	default:
		strategy, err = bestbuilderbid.New(ctx,
			bestbuilderbid.WithLogLevel(zerolog.Disabled),
			bestbuilderbid.WithMonitor(nullmetrics.New()),
			bestbuilderbid.WithSpecProvider(specProvider),
			bestbuilderbid.WithDomainProvider(domainProvider),
			bestbuilderbid.WithChainTime(ct),
			bestbuilderbid.WithTimeout(c05WTimeout),
			bestbuilderbid.WithReleaseVersion("verif"),
		)
	}
	if err != nil {
		t.Fatalf("c05: %s builder bid strategy: %v", h.Cfg.Strategy, err)
	}

	blockRelay, err := standardblockrelay.New(ctx,
		standardblockrelay.WithLogLevel(zerolog.Disabled),
		standardblockrelay.WithMonitor(nullmetrics.New()),
		standardblockrelay.WithMajordomo(&c05WMajordomo{doc: doc}),
		standardblockrelay.WithScheduler(verifsupport.NewScheduler()),
		standardblockrelay.WithListenAddress("127.0.0.1:0"),
		standardblockrelay.WithChainTime(ct),
		standardblockrelay.WithConfigURL("file:///c05/"+uniq+"/execconfig.json"),
		standardblockrelay.WithFallbackFeeRecipient(bellatrix.ExecutionAddress{0x01}),
		standardblockrelay.WithFallbackGasLimit(30000000),
		standardblockrelay.WithAccountsProvider(accounts),
		standardblockrelay.WithValidatorsProvider(mock.NewValidatorsProvider()),
		standardblockrelay.WithValidatingAccountsProvider(accounts),
		standardblockrelay.WithValidatorRegistrationSigner(mocksigner.New()),
		standardblockrelay.WithReleaseVersion("verif"),
		standardblockrelay.WithBuilderBidProvider(strategy),
		standardblockrelay.WithBuilderConfigs(map[phase0.BLSPubKey]*blockrelay.BuilderConfig{
			c05WExcludedBuilder: {Category: "excluded", Factor: big.NewInt(0)},
		}),
		// blockrelay.log-results (main.go: startBlockRelay) is part of the configuration the histories range over
		standardblockrelay.WithLogResults(h.Sc%2 == 0),
	)
	if err != nil {
		t.Fatalf("c05: block relay service: %v", err)
	}
	return &c05Wired{auctioneer: &c05WAuctioneer{h: hist, real: blockRelay, relays: relays}, cancel: cancel}
}
