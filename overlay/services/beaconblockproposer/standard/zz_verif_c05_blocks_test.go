package standard

// Block construction for the C05 conformance driver (spec/Proposer.tla): minimal well-formed
// proposals of every version, full and blinded, on which the library's BodyRoot()/ParentRoot()/
// StateRoot() accessors work, and the full blocks a relay returns for a signed blinded block.
// Every builder is a pure function of its arguments and shares no memory with them, so calling it
// twice yields the object handed to the code and an independent pristine copy to compare with.

import (
	"encoding/binary"

	"github.com/attestantio/go-eth2-client/api"
	apiv1bellatrix "github.com/attestantio/go-eth2-client/api/v1/bellatrix"
	apiv1capella "github.com/attestantio/go-eth2-client/api/v1/capella"
	apiv1deneb "github.com/attestantio/go-eth2-client/api/v1/deneb"
	"github.com/attestantio/go-eth2-client/spec"
	"github.com/attestantio/go-eth2-client/spec/altair"
	"github.com/attestantio/go-eth2-client/spec/bellatrix"
	"github.com/attestantio/go-eth2-client/spec/capella"
	"github.com/attestantio/go-eth2-client/spec/deneb"
	"github.com/attestantio/go-eth2-client/spec/phase0"
	"github.com/holiman/uint256"
)

var c05Versions = map[string]spec.DataVersion{
	"phase0":    spec.DataVersionPhase0,
	"altair":    spec.DataVersionAltair,
	"bellatrix": spec.DataVersionBellatrix,
	"capella":   spec.DataVersionCapella,
	"deneb":     spec.DataVersionDeneb,
}

func c05VersionName(v spec.DataVersion) string {
	for name, dv := range c05Versions {
		if dv == v {
			return name
		}
	}
	return "other"
}

// c05Seed is everything a block's content is derived from.
type c05Seed struct {
	slot     uint64
	proposer uint64
	id       int    // the how-manieth proposal of the scenario
	salt     uint32 // scenario specific
	reveal   phase0.BLSSignature
	graffiti [32]byte
}

// c05TagRoot makes the parent ('P') and state ('S') roots recognisable.
func c05TagRoot(kind byte, id int, salt uint32) phase0.Root {
	var r phase0.Root
	r[0] = kind
	r[1] = byte(id)
	binary.LittleEndian.PutUint32(r[2:6], salt)
	for i := 6; i < 32; i++ {
		r[i] = byte(i) ^ kind
	}
	return r
}

func c05TagHash(kind byte, id int, salt uint32) phase0.Hash32 {
	return phase0.Hash32(c05TagRoot(kind, id, salt))
}

func c05ETH1(s c05Seed) *phase0.ETH1Data {
	bh := c05TagRoot('E', s.id, s.salt)
	return &phase0.ETH1Data{
		DepositRoot:  c05TagRoot('D', s.id, s.salt),
		DepositCount: uint64(s.id) + 17,
		BlockHash:    append([]byte{}, bh[:]...),
	}
}

func c05Sync(s c05Seed) *altair.SyncAggregate {
	bits := make([]byte, 64)
	bits[0] = byte(s.id)
	bits[63] = 0x80
	var sig phase0.BLSSignature
	sig[0] = 0xc0
	sig[5] = byte(s.id)
	return &altair.SyncAggregate{SyncCommitteeBits: bits, SyncCommitteeSignature: sig}
}

func c05Attestations(s c05Seed) []*phase0.Attestation {
	var sig phase0.BLSSignature
	sig[0] = 0xa7
	return []*phase0.Attestation{{
		AggregationBits: []byte{0x03, 0x01},
		Data: &phase0.AttestationData{
			Slot:            phase0.Slot(s.slot) - 1,
			Index:           phase0.CommitteeIndex(s.id),
			BeaconBlockRoot: c05TagRoot('A', s.id, s.salt),
			Source:          &phase0.Checkpoint{Epoch: 1, Root: c05TagRoot('a', s.id, s.salt)},
			Target:          &phase0.Checkpoint{Epoch: 2, Root: c05TagRoot('b', s.id, s.salt)},
		},
		Signature: sig,
	}}
}

// header fields shared by the payload header in a blinded block and the payload a relay reveals.
type c05Exec struct {
	parentHash   phase0.Hash32
	feeRecipient bellatrix.ExecutionAddress
	stateRoot    [32]byte
	receiptsRoot [32]byte
	prevRandao   [32]byte
	blockNumber  uint64
	gasLimit     uint64
	gasUsed      uint64
	timestamp    uint64
	extraData    []byte
	baseFee      [32]byte
	blockHash    phase0.Hash32
}

func c05ExecOf(s c05Seed) c05Exec {
	e := c05Exec{
		parentHash:   c05TagHash('h', s.id, s.salt),
		stateRoot:    c05TagRoot('s', s.id, s.salt),
		receiptsRoot: c05TagRoot('r', s.id, s.salt),
		prevRandao:   c05TagRoot('p', s.id, s.salt),
		blockNumber:  1000 + uint64(s.id),
		gasLimit:     30000000,
		gasUsed:      21000 * uint64(s.id+1),
		timestamp:    1700000000 + s.slot*12,
		extraData:    []byte{'c', '0', '5', byte(s.id)},
		blockHash:    c05TagHash('H', s.id, s.salt),
	}
	e.feeRecipient[0] = 0xfe
	e.feeRecipient[19] = byte(s.id)
	e.baseFee[0] = 7
	return e
}

func c05Tx(relay int) []bellatrix.Transaction {
	return []bellatrix.Transaction{{0x02, 0xc0, 0x05, byte(relay)}, {0x01, byte(relay)}}
}

func c05Withdrawals() []*capella.Withdrawal {
	w := &capella.Withdrawal{Index: 5, ValidatorIndex: 9, Amount: 123456}
	w.Address[3] = 0x77
	return []*capella.Withdrawal{w}
}

func c05Commitments(s c05Seed) []deneb.KZGCommitment {
	var c deneb.KZGCommitment
	c[0] = 0xc0
	c[1] = byte(s.id)
	return []deneb.KZGCommitment{c}
}

func c05Blobs(tag byte) ([]deneb.KZGProof, []deneb.Blob) {
	var p deneb.KZGProof
	p[0] = 0xc0
	p[1] = tag
	blobs := make([]deneb.Blob, 1)
	blobs[0][0] = tag
	blobs[0][131071] = 0x05
	return []deneb.KZGProof{p}, blobs
}

// ---- bodies -----------------------------------------------------------------------------------

func c05BellatrixPayload(e c05Exec, relay int) *bellatrix.ExecutionPayload {
	return &bellatrix.ExecutionPayload{
		ParentHash: e.parentHash, FeeRecipient: e.feeRecipient, StateRoot: e.stateRoot, ReceiptsRoot: e.receiptsRoot,
		PrevRandao: e.prevRandao, BlockNumber: e.blockNumber, GasLimit: e.gasLimit, GasUsed: e.gasUsed,
		Timestamp: e.timestamp, ExtraData: append([]byte{}, e.extraData...), BaseFeePerGas: e.baseFee,
		BlockHash: e.blockHash, Transactions: c05Tx(relay),
	}
}

func c05BellatrixHeader(e c05Exec) *bellatrix.ExecutionPayloadHeader {
	return &bellatrix.ExecutionPayloadHeader{
		ParentHash: e.parentHash, FeeRecipient: e.feeRecipient, StateRoot: e.stateRoot, ReceiptsRoot: e.receiptsRoot,
		PrevRandao: e.prevRandao, BlockNumber: e.blockNumber, GasLimit: e.gasLimit, GasUsed: e.gasUsed,
		Timestamp: e.timestamp, ExtraData: append([]byte{}, e.extraData...), BaseFeePerGas: e.baseFee,
		BlockHash: e.blockHash, TransactionsRoot: phase0.Root{0x7a},
	}
}

func c05CapellaPayload(e c05Exec, relay int) *capella.ExecutionPayload {
	return &capella.ExecutionPayload{
		ParentHash: e.parentHash, FeeRecipient: e.feeRecipient, StateRoot: e.stateRoot, ReceiptsRoot: e.receiptsRoot,
		PrevRandao: e.prevRandao, BlockNumber: e.blockNumber, GasLimit: e.gasLimit, GasUsed: e.gasUsed,
		Timestamp: e.timestamp, ExtraData: append([]byte{}, e.extraData...), BaseFeePerGas: e.baseFee,
		BlockHash: e.blockHash, Transactions: c05Tx(relay), Withdrawals: c05Withdrawals(),
	}
}

func c05CapellaHeader(e c05Exec) *capella.ExecutionPayloadHeader {
	return &capella.ExecutionPayloadHeader{
		ParentHash: e.parentHash, FeeRecipient: e.feeRecipient, StateRoot: e.stateRoot, ReceiptsRoot: e.receiptsRoot,
		PrevRandao: e.prevRandao, BlockNumber: e.blockNumber, GasLimit: e.gasLimit, GasUsed: e.gasUsed,
		Timestamp: e.timestamp, ExtraData: append([]byte{}, e.extraData...), BaseFeePerGas: e.baseFee,
		BlockHash: e.blockHash, TransactionsRoot: phase0.Root{0x7a}, WithdrawalsRoot: phase0.Root{0x7b},
	}
}

func c05DenebPayload(e c05Exec, relay int) *deneb.ExecutionPayload {
	return &deneb.ExecutionPayload{
		ParentHash: e.parentHash, FeeRecipient: e.feeRecipient, StateRoot: e.stateRoot, ReceiptsRoot: e.receiptsRoot,
		PrevRandao: e.prevRandao, BlockNumber: e.blockNumber, GasLimit: e.gasLimit, GasUsed: e.gasUsed,
		Timestamp: e.timestamp, ExtraData: append([]byte{}, e.extraData...), BaseFeePerGas: uint256.NewInt(7),
		BlockHash: e.blockHash, Transactions: c05Tx(relay), Withdrawals: c05Withdrawals(),
		BlobGasUsed: 131072, ExcessBlobGas: 3,
	}
}

func c05DenebHeader(e c05Exec) *deneb.ExecutionPayloadHeader {
	return &deneb.ExecutionPayloadHeader{
		ParentHash: e.parentHash, FeeRecipient: e.feeRecipient, StateRoot: e.stateRoot, ReceiptsRoot: e.receiptsRoot,
		PrevRandao: e.prevRandao, BlockNumber: e.blockNumber, GasLimit: e.gasLimit, GasUsed: e.gasUsed,
		Timestamp: e.timestamp, ExtraData: append([]byte{}, e.extraData...), BaseFeePerGas: uint256.NewInt(7),
		BlockHash: e.blockHash, TransactionsRoot: phase0.Root{0x7a}, WithdrawalsRoot: phase0.Root{0x7b},
		BlobGasUsed: 131072, ExcessBlobGas: 3,
	}
}

// ---- full blocks (relay = 0: built by the beacon node itself) ----------------------------------

func c05Phase0Block(s c05Seed) *phase0.BeaconBlock {
	return &phase0.BeaconBlock{
		Slot: phase0.Slot(s.slot), ProposerIndex: phase0.ValidatorIndex(s.proposer),
		ParentRoot: c05TagRoot('P', s.id, s.salt), StateRoot: c05TagRoot('S', s.id, s.salt),
		Body: &phase0.BeaconBlockBody{
			RANDAOReveal: s.reveal, ETH1Data: c05ETH1(s), Graffiti: s.graffiti, Attestations: c05Attestations(s),
		},
	}
}

func c05AltairBlock(s c05Seed) *altair.BeaconBlock {
	return &altair.BeaconBlock{
		Slot: phase0.Slot(s.slot), ProposerIndex: phase0.ValidatorIndex(s.proposer),
		ParentRoot: c05TagRoot('P', s.id, s.salt), StateRoot: c05TagRoot('S', s.id, s.salt),
		Body: &altair.BeaconBlockBody{
			RANDAOReveal: s.reveal, ETH1Data: c05ETH1(s), Graffiti: s.graffiti, Attestations: c05Attestations(s),
			SyncAggregate: c05Sync(s),
		},
	}
}

func c05BellatrixBlock(s c05Seed, relay int) *bellatrix.BeaconBlock {
	return &bellatrix.BeaconBlock{
		Slot: phase0.Slot(s.slot), ProposerIndex: phase0.ValidatorIndex(s.proposer),
		ParentRoot: c05TagRoot('P', s.id, s.salt), StateRoot: c05TagRoot('S', s.id, s.salt),
		Body: &bellatrix.BeaconBlockBody{
			RANDAOReveal: s.reveal, ETH1Data: c05ETH1(s), Graffiti: s.graffiti, Attestations: c05Attestations(s),
			SyncAggregate: c05Sync(s), ExecutionPayload: c05BellatrixPayload(c05ExecOf(s), relay),
		},
	}
}

func c05CapellaBlock(s c05Seed, relay int) *capella.BeaconBlock {
	return &capella.BeaconBlock{
		Slot: phase0.Slot(s.slot), ProposerIndex: phase0.ValidatorIndex(s.proposer),
		ParentRoot: c05TagRoot('P', s.id, s.salt), StateRoot: c05TagRoot('S', s.id, s.salt),
		Body: &capella.BeaconBlockBody{
			RANDAOReveal: s.reveal, ETH1Data: c05ETH1(s), Graffiti: s.graffiti, Attestations: c05Attestations(s),
			SyncAggregate: c05Sync(s), ExecutionPayload: c05CapellaPayload(c05ExecOf(s), relay),
		},
	}
}

func c05DenebBlock(s c05Seed, relay int) *deneb.BeaconBlock {
	return &deneb.BeaconBlock{
		Slot: phase0.Slot(s.slot), ProposerIndex: phase0.ValidatorIndex(s.proposer),
		ParentRoot: c05TagRoot('P', s.id, s.salt), StateRoot: c05TagRoot('S', s.id, s.salt),
		Body: &deneb.BeaconBlockBody{
			RANDAOReveal: s.reveal, ETH1Data: c05ETH1(s), Graffiti: s.graffiti, Attestations: c05Attestations(s),
			SyncAggregate: c05Sync(s), ExecutionPayload: c05DenebPayload(c05ExecOf(s), relay),
			BlobKZGCommitments: c05Commitments(s),
		},
	}
}

// ---- blinded blocks ---------------------------------------------------------------------------

func c05BellatrixBlinded(s c05Seed) *apiv1bellatrix.BlindedBeaconBlock {
	return &apiv1bellatrix.BlindedBeaconBlock{
		Slot: phase0.Slot(s.slot), ProposerIndex: phase0.ValidatorIndex(s.proposer),
		ParentRoot: c05TagRoot('P', s.id, s.salt), StateRoot: c05TagRoot('S', s.id, s.salt),
		Body: &apiv1bellatrix.BlindedBeaconBlockBody{
			RANDAOReveal: s.reveal, ETH1Data: c05ETH1(s), Graffiti: s.graffiti, Attestations: c05Attestations(s),
			SyncAggregate: c05Sync(s), ExecutionPayloadHeader: c05BellatrixHeader(c05ExecOf(s)),
		},
	}
}

func c05CapellaBlinded(s c05Seed) *apiv1capella.BlindedBeaconBlock {
	return &apiv1capella.BlindedBeaconBlock{
		Slot: phase0.Slot(s.slot), ProposerIndex: phase0.ValidatorIndex(s.proposer),
		ParentRoot: c05TagRoot('P', s.id, s.salt), StateRoot: c05TagRoot('S', s.id, s.salt),
		Body: &apiv1capella.BlindedBeaconBlockBody{
			RANDAOReveal: s.reveal, ETH1Data: c05ETH1(s), Graffiti: s.graffiti, Attestations: c05Attestations(s),
			SyncAggregate: c05Sync(s), ExecutionPayloadHeader: c05CapellaHeader(c05ExecOf(s)),
		},
	}
}

func c05DenebBlinded(s c05Seed) *apiv1deneb.BlindedBeaconBlock {
	return &apiv1deneb.BlindedBeaconBlock{
		Slot: phase0.Slot(s.slot), ProposerIndex: phase0.ValidatorIndex(s.proposer),
		ParentRoot: c05TagRoot('P', s.id, s.salt), StateRoot: c05TagRoot('S', s.id, s.salt),
		Body: &apiv1deneb.BlindedBeaconBlockBody{
			RANDAOReveal: s.reveal, ETH1Data: c05ETH1(s), Graffiti: s.graffiti, Attestations: c05Attestations(s),
			SyncAggregate: c05Sync(s), ExecutionPayloadHeader: c05DenebHeader(c05ExecOf(s)),
			BlobKZGCommitments: c05Commitments(s),
		},
	}
}

// c05BuildProposal is what the fake beacon node answers to Proposal().
func c05BuildProposal(version string, blinded bool, s c05Seed) *api.VersionedProposal {
	p := &api.VersionedProposal{Version: c05Versions[version], Blinded: blinded}
	switch {
	case version == "phase0":
		p.Phase0 = c05Phase0Block(s)
	case version == "altair":
		p.Altair = c05AltairBlock(s)
	case version == "bellatrix" && blinded:
		p.BellatrixBlinded = c05BellatrixBlinded(s)
	case version == "bellatrix":
		p.Bellatrix = c05BellatrixBlock(s, 0)
	case version == "capella" && blinded:
		p.CapellaBlinded = c05CapellaBlinded(s)
	case version == "capella":
		p.Capella = c05CapellaBlock(s, 0)
	case version == "deneb" && blinded:
		p.DenebBlinded = c05DenebBlinded(s)
	case version == "deneb":
		proofs, blobs := c05Blobs(byte(s.id))
		p.Deneb = &apiv1deneb.BlockContents{Block: c05DenebBlock(s, 0), KZGProofs: proofs, Blobs: blobs}
	}
	return p
}

// c05BuildFull is the answer of relay `relay` for the blinded block derived from s, carrying
// signature sig: same header, the body's payload header replaced by the payload.  Returns the
// response data and the container in it (nil, nil for versions without a blinded form).
func c05BuildFull(version string, s c05Seed, relay int, sig phase0.BLSSignature) (*api.VersionedSignedProposal, any) {
	resp := &api.VersionedSignedProposal{Version: c05Versions[version]}
	switch version {
	case "bellatrix":
		resp.Bellatrix = &bellatrix.SignedBeaconBlock{Message: c05BellatrixBlock(s, relay), Signature: sig}
		return resp, resp.Bellatrix
	case "capella":
		resp.Capella = &capella.SignedBeaconBlock{Message: c05CapellaBlock(s, relay), Signature: sig}
		return resp, resp.Capella
	case "deneb":
		proofs, blobs := c05Blobs(byte(relay))
		resp.Deneb = &apiv1deneb.SignedBlockContents{
			SignedBlock: &deneb.SignedBeaconBlock{Message: c05DenebBlock(s, relay), Signature: sig},
			KZGProofs:   proofs,
			Blobs:       blobs,
		}
		return resp, resp.Deneb
	}
	return nil, nil
}
