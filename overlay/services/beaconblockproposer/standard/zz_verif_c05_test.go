package standard

// Conformance driver for property C05 (spec/Proposer.tla).  Injected with -overlay by /verif/check.
//
// Each scenario (the history of one service instance: duty objects and a schedule of calls on them;
// emitted by TLC from spec/Scen_Proposer.tla) builds the real proposer service ONCE with scripted
// fakes at every interface, makes one beaconblockproposer.Duty per duty object of the history and
// calls Prepare / Propose for them as the schedule says - every call in a goroutine of its own, as
// the controller does.  Calls overlap: every fake is a gate at which the calling goroutine waits
// until the schedule lets it pass ("step"), so a call can be held inside the accounts lookup, the
// signer, the graffiti provider, the auction, the proposal fetch or the submitter - or inside a
// relay ("heldfull" until "release") - while other calls of the instance start, proceed or run to
// completion.  A fake learns which call it is serving from the context the code passed to it.
// One event per interface call the real code makes - with the arguments it really passed, decoded
// with the library's own accessors - is recorded under the history's lock when the call passes the
// gate, tagged with the duty object (h); a Switch line is written whenever the next event belongs
// to another duty object than the one before.  Every wait of the schedule is under a watchdog: a
// call that neither reaches an interface nor returns long after its context ended is recorded as
// Hung (no action of the specification explains that line) and the instance is abandoned.
// Scenarios run concurrently (the code sleeps 250 ms between relay retries); each scenario's events
// are written contiguously, in the order in which they happened.

import (
	"context"
	"encoding/binary"
	"encoding/json"
	"errors"
	"fmt"
	"os"
	"reflect"
	"runtime"
	"strings"
	"sync"
	"testing"
	"time"

	"github.com/attestantio/go-block-relay/services/blockauctioneer"
	builderclient "github.com/attestantio/go-builder-client"
	builderapi "github.com/attestantio/go-builder-client/api"
	builderspec "github.com/attestantio/go-builder-client/spec"
	consensusclient "github.com/attestantio/go-eth2-client"
	"github.com/attestantio/go-eth2-client/api"
	"github.com/attestantio/go-eth2-client/spec/phase0"
	"github.com/attestantio/vouch/services/beaconblockproposer"
	nullmetrics "github.com/attestantio/vouch/services/metrics/null"
	"github.com/attestantio/vouch/verifsupport"
	"github.com/rs/zerolog"
	e2types "github.com/wealdtech/go-eth2-types/v2"
	e2wtypes "github.com/wealdtech/go-eth2-wallet-types/v2"
)

type c05Cfg struct {
	Graffiti   bool `json:"graffiti"`
	Nodeclient bool `json:"nodeclient"` // the proposal provider implements NodeClientProvider
	Auctioneer bool `json:"auctioneer"`
	UnblindAll bool `json:"unblindAll"`
	// what stands behind the auctioneer interface: "opaque" (or empty: the scripted c05Auctioneer), or the real
	// block relay service with the "best" / "deadline" builder bid strategy and the relays Conf configured
	// (zz_verif_c05_wired_test.go)
	Strategy string `json:"strategy"`
	Conf     []int  `json:"conf"`
}

func (c c05Cfg) wired() bool { return c.Strategy == "best" || c.Strategy == "deadline" }

// c05History is a scenario: one service instance, the duty objects it is handed (in the order in
// which they are made) and the schedule of the calls.  Without a schedule every duty is prepared and
// proposed before the next one is made.
type c05History struct {
	Sc     int           `json:"sc"`
	Salt   uint32        `json:"salt"`
	Cfg    c05Cfg        `json:"cfg"`
	Duties []c05Scenario `json:"duties"`
	Sched  []c05Step     `json:"sched"`
}

// c05Step is one step of the schedule, on duty object H (1-based):
//
//	prepare  make the duty object and call Prepare; the call goes up to its first interface call
//	propose  call Propose (after Prepare has returned); the call goes up to its first interface call
//	step     the call passes the interface call it is waiting at and goes on to the next one (or returns)
//	run      the call goes on until it returns
//	release  the relays that hold the call (script heldfull) answer
//	drop     the duty is never proposed (the controller cancelled its job)
type c05Step struct {
	Op string `json:"op"`
	H  int    `json:"h"`
}

// c05Scenario is the environment's side of one duty (Sc, Salt and Cfg are those of its history).
type c05Scenario struct {
	Sc         int    `json:"sc"`
	Slot       uint64 `json:"slot"`
	V          uint64 `json:"v"`
	Salt       uint32 `json:"salt"`
	Cfg        c05Cfg `json:"cfg"`
	Accounts   string `json:"accounts"`
	Randao     string `json:"randao"`
	Graffiti   string `json:"graffiti"`   // static | template | err
	Nodeclient string `json:"nodeclient"` // ok | err (| na)
	Auction    struct {
		Kind      string `json:"kind"`
		All       []bool `json:"all"`
		Providers []bool `json:"providers"`
	} `json:"auction"`
	// the auction as a component (wired histories): what the block relay's account lookup answers, and what each
	// configured relay does with a request for a bid (bid | nobid | err | silent)
	Aacct    string   `json:"aacct"`
	Bids     []string `json:"bids"`
	Proposal struct {
		Out     string `json:"out"`
		Version string `json:"version"`
		Blinded bool   `json:"blinded"`
		Dslot   int    `json:"dslot"`
	} `json:"proposal"`
	Sign   string   `json:"sign"`
	Relays []string `json:"relays"`
	Submit string   `json:"submit"`
}

const (
	c05SigBlock  = 0xb5
	c05SigRandao = 0xa5
)

// ---- accounts ---------------------------------------------------------------------------------

type c05PubKey struct{ b [48]byte }

func (p *c05PubKey) Marshal() []byte             { return p.b[:] }
func (*c05PubKey) Aggregate(_ e2types.PublicKey) {}
func (p *c05PubKey) Copy() e2types.PublicKey     { c := *p; return &c }

// c05Account is the account of validator v.  ID() is never called on these paths (google/uuid is
// only an indirect requirement of the repository, so the method comes from the embedded interface).
type c05Account struct {
	e2wtypes.Account
	v   uint64
	pub *c05PubKey
}

func c05NewAccount(v uint64) *c05Account {
	a := &c05Account{v: v, pub: &c05PubKey{}}
	binary.LittleEndian.PutUint64(a.pub.b[:8], v)
	a.pub.b[47] = 0xc5
	return a
}

func (a *c05Account) Name() string                 { return fmt.Sprintf("c05 validator %d", a.v) }
func (a *c05Account) PublicKey() e2types.PublicKey { return a.pub }

func c05AccountID(account e2wtypes.Account) int64 {
	if account == nil {
		return 0
	}
	if a, ok := account.(*c05Account); ok && a != nil {
		return int64(a.v)
	}
	return -2
}

func c05PubkeyID(pk phase0.BLSPubKey) int64 {
	if pk[47] != 0xc5 {
		return -2
	}
	return int64(binary.LittleEndian.Uint64(pk[:8]))
}

func c05MakeSig(kind byte, token int) phase0.BLSSignature {
	var s phase0.BLSSignature
	s[0] = kind
	binary.LittleEndian.PutUint32(s[1:5], uint32(token))
	for i := 5; i < 96; i++ {
		s[i] = 0x11
	}
	return s
}

// c05SigToken: 0 for the zero signature, the token for a signature of the given kind, -2 otherwise.
func c05SigToken(kind byte, s phase0.BLSSignature) int64 {
	if s.IsZero() {
		return 0
	}
	if s[0] != kind {
		return -2
	}
	for i := 5; i < 96; i++ {
		if s[i] != 0x11 {
			return -2
		}
	}
	return int64(binary.LittleEndian.Uint32(s[1:5]))
}

// ---- one scenario -----------------------------------------------------------------------------

type c05RootTag struct {
	id   int
	kind string
}

type c05Obtained struct {
	id       int
	seed     c05Seed
	version  string
	blinded  bool
	obtained *api.VersionedProposal // handed to the code
	pristine *api.VersionedProposal // never handed out
}

type c05Revealed struct {
	relay    int
	ptr      any // container handed to the code
	pristine any
	q        verifsupport.Ev
}

// c05Hist is the recording side of a history: one lock, one list of events for the whole instance.
type c05Hist struct {
	mu     sync.Mutex
	sc     int
	events []verifsupport.Ev
	lastH  int // duty object of the last event written
	made   int // duty objects made so far
	tokens int
	runs   []*c05Run
	orphan *c05Run
	hung   bool
	note   chan struct{} // something happened: a call reached a gate, was held in a relay, or returned
}

type c05CtxKey struct{}

// runOf: the call an interface call belongs to is the one whose context the code passed.  If the
// context does not tell and exactly one call is running on the instance it is that one; otherwise
// the event goes to duty object 0, which the specification does not know.
func (h *c05Hist) runOf(ctx context.Context) *c05Run {
	if run, ok := ctx.Value(c05CtxKey{}).(*c05Run); ok && run != nil {
		return run
	}
	h.mu.Lock()
	defer h.mu.Unlock()
	var only *c05Run
	n := 0
	for _, run := range h.runs {
		if run.inCall {
			only = run
			n++
		}
	}
	if n == 1 {
		return only
	}
	return h.orphan
}

func (h *c05Hist) notify() {
	select {
	case h.note <- struct{}{}:
	default:
	}
}

// c05Run records one duty object: its Prepare and its Propose.
type c05Run struct {
	sc   *c05Scenario
	hist *c05Hist
	h    int // number of the duty object in the trace (order of making), 0: not made yet
	duty *beaconblockproposer.Duty

	// all fields below are guarded by hist.mu
	closed    bool // Propose has returned (or the watchdog gave up): nothing is recorded any more
	roots     map[phase0.Root]c05RootTag
	obtained  []*c05Obtained
	revealed  []*c05Revealed
	attempts  map[int]int
	finished  map[int]bool // relay reached a terminal state without revealing a block
	delivers  map[int]bool
	expected  []int
	cancel    context.CancelFunc
	cancelled bool
	crash     string

	// the auction as a component (wired histories)
	inAuction   bool        // the proposer is inside AuctionBlock
	auctionOpen bool        // ... and the block relay has looked the account up: requests for bids are recorded
	bidAttempts map[int]int // requests for a bid per relay
	candidates  int         // relays the last auction of this duty object returned as AllProviders

	// the schedule's side
	inCall   bool          // a call (Prepare or Propose) is running
	prepared bool          // Prepare has returned
	proposed bool          // Propose was called
	dropped  bool
	atGate   int           // goroutines of the call waiting at an interface
	held     int           // relay goroutines holding the call (script heldfull)
	free     bool          // the gates are open for the rest of the call
	freeCh   chan struct{} // closed when free is set
	gateCh   chan struct{} // one receive = one pass
	relCh    chan struct{} // closed by release
	released bool
}

func c05NewRun(hist *c05Hist, sc *c05Scenario) *c05Run {
	return &c05Run{
		sc: sc, hist: hist, roots: map[phase0.Root]c05RootTag{}, attempts: map[int]int{}, finished: map[int]bool{},
		delivers: map[int]bool{}, bidAttempts: map[int]int{}, freeCh: make(chan struct{}), gateCh: make(chan struct{}), relCh: make(chan struct{}),
	}
}

// emitLocked appends an event of this duty object to the history (hist.mu held), preceded by a Switch
// line if the last event belonged to another duty object.
func (run *c05Run) emitLocked(ev verifsupport.Ev) {
	if run.closed {
		return
	}
	h := run.hist
	// (making a duty object - NewDuty - is itself the switch to it)
	if len(h.events) > 0 && h.lastH != run.h && ev["ev"] != "NewDuty" {
		h.events = append(h.events, verifsupport.Ev{"sc": h.sc, "ev": "Switch", "h": run.h})
	}
	h.lastH = run.h
	ev["sc"] = h.sc
	ev["h"] = run.h
	h.events = append(h.events, ev)
}

func (run *c05Run) emit(ev verifsupport.Ev) {
	run.hist.mu.Lock()
	defer run.hist.mu.Unlock()
	run.emitLocked(ev)
}

// pass is the gate at the entry of every gated fake: the calling goroutine waits here until the schedule
// lets the call go on.  The event of the interface call is written after the gate.
func (run *c05Run) pass() {
	h := run.hist
	h.mu.Lock()
	if run.free || run.h == 0 {
		h.mu.Unlock()
		return
	}
	run.atGate++
	freeCh := run.freeCh
	h.mu.Unlock()
	h.notify()
	select {
	case <-run.gateCh: // the schedule has taken this goroutine off the gate (atGate-- is done by the granter)
	case <-freeCh:
		h.mu.Lock()
		run.atGate--
		h.mu.Unlock()
	}
}

// setFreeLocked opens the gates for the rest of the running call.
func (run *c05Run) setFreeLocked() {
	if !run.free {
		run.free = true
		close(run.freeCh)
	}
}

func (run *c05Run) releaseLocked() {
	if !run.released {
		run.released = true
		close(run.relCh)
	}
}

// nextToken: tokens are unique over the whole history of the instance (hist.mu held).
func (run *c05Run) nextToken() int {
	run.hist.tokens++
	return int(run.sc.Salt%1000)*100 + run.hist.tokens
}

func (run *c05Run) rootTag(r phase0.Root) verifsupport.Ev {
	if t, ok := run.roots[r]; ok {
		return verifsupport.Ev{"id": t.id, "kind": t.kind}
	}
	return verifsupport.Ev{"id": -2, "kind": "unknown"}
}

// c05Flags turns the scenario's membership flags into relay numbers.
func c05Flags(flags []bool) []int {
	res := []int{}
	for i, f := range flags {
		if f {
			res = append(res, i+1)
		}
	}
	return res
}

// ---- fakes ------------------------------------------------------------------------------------

type c05Accounts struct{ h *c05Hist }

func (a *c05Accounts) ValidatingAccountsForEpoch(_ context.Context, _ phase0.Epoch) (map[phase0.ValidatorIndex]e2wtypes.Account, error) {
	return nil, errors.New("not used")
}

// The provider is faithful: it answers for the indices it is asked about.
func (a *c05Accounts) ValidatingAccountsForEpochByIndex(ctx context.Context, epoch phase0.Epoch, indices []phase0.ValidatorIndex) (map[phase0.ValidatorIndex]e2wtypes.Account, error) {
	idxs := make([]uint64, 0, len(indices))
	for _, i := range indices {
		idxs = append(idxs, uint64(i))
	}
	run := a.h.runOf(ctx)
	run.pass()
	out := run.sc.Accounts
	run.emit(verifsupport.Ev{"ev": "Accounts", "epoch": uint64(epoch), "idxs": idxs, "out": out})
	switch out {
	case "err":
		return nil, errors.New("scripted accounts failure")
	case "empty":
		return map[phase0.ValidatorIndex]e2wtypes.Account{}, nil
	}
	res := make(map[phase0.ValidatorIndex]e2wtypes.Account, len(indices))
	for _, i := range indices {
		res[i] = c05NewAccount(uint64(i))
	}
	return res, nil
}

func (a *c05Accounts) SyncCommitteeAccountsForEpoch(_ context.Context, _ phase0.Epoch) (map[phase0.ValidatorIndex]e2wtypes.Account, error) {
	return nil, errors.New("not used")
}

func (a *c05Accounts) SyncCommitteeAccountsForEpochByIndex(_ context.Context, _ phase0.Epoch, _ []phase0.ValidatorIndex) (map[phase0.ValidatorIndex]e2wtypes.Account, error) {
	return nil, errors.New("not used")
}

type c05Signer struct{ h *c05Hist }

func (s *c05Signer) SignRANDAOReveal(ctx context.Context, account e2wtypes.Account, slot phase0.Slot) (phase0.BLSSignature, error) {
	run := s.h.runOf(ctx)
	run.pass()
	run.hist.mu.Lock()
	defer run.hist.mu.Unlock()
	out := run.sc.Randao
	if out != "err" {
		out = "ok"
	}
	token := run.nextToken()
	run.emitLocked(verifsupport.Ev{"ev": "Randao", "account": c05AccountID(account), "slot": uint64(slot), "out": out, "token": token})
	if out == "err" {
		return phase0.BLSSignature{}, errors.New("scripted RANDAO signing failure")
	}
	return c05MakeSig(c05SigRandao, token), nil
}

func (s *c05Signer) SignBeaconBlockProposal(ctx context.Context, account e2wtypes.Account, slot phase0.Slot,
	proposerIndex phase0.ValidatorIndex, parentRoot phase0.Root, stateRoot phase0.Root, bodyRoot phase0.Root,
) (phase0.BLSSignature, error) {
	run := s.h.runOf(ctx)
	run.pass()
	run.hist.mu.Lock()
	defer run.hist.mu.Unlock()
	out := run.sc.Sign
	if out != "err" {
		out = "ok"
	}
	token := run.nextToken()
	run.emitLocked(verifsupport.Ev{
		"ev": "Sign", "account": c05AccountID(account), "slot": uint64(slot), "v": uint64(proposerIndex),
		"parent": run.rootTag(parentRoot), "state": run.rootTag(stateRoot), "body": run.rootTag(bodyRoot),
		"out": out, "token": token,
	})
	if out == "err" {
		return phase0.BLSSignature{}, errors.New("scripted block signing failure")
	}
	return c05MakeSig(c05SigBlock, token), nil
}

func (s *c05Signer) SignBlobSidecar(_ context.Context, _ e2wtypes.Account, _ phase0.Slot, _ phase0.Root) (phase0.BLSSignature, error) {
	return phase0.BLSSignature{}, errors.New("not used")
}

type c05GraffitiProvider struct{ h *c05Hist }

func (g *c05GraffitiProvider) Graffiti(ctx context.Context, slot phase0.Slot, validatorIndex phase0.ValidatorIndex) ([]byte, error) {
	run := g.h.runOf(ctx)
	run.pass()
	out := run.sc.Graffiti
	if out != "err" && out != "template" {
		out = "static"
	}
	run.emit(verifsupport.Ev{"ev": "Graffiti", "slot": uint64(slot), "v": uint64(validatorIndex), "out": out})
	switch out {
	case "err":
		return nil, errors.New("scripted graffiti failure")
	case "template":
		return []byte(fmt.Sprintf("c05 {{CLIENT}} %d", run.sc.Salt)), nil
	}
	return []byte(fmt.Sprintf("c05 graffiti %d", run.sc.Salt)), nil
}

type c05Head struct{}

func (c05Head) ExecutionChainHead(_ context.Context) (phase0.Hash32, uint64) {
	return phase0.Hash32{0xee}, 12345
}

type c05Auctioneer struct{ h *c05Hist }

func (a *c05Auctioneer) AuctionBlock(ctx context.Context, slot phase0.Slot, _ phase0.Hash32, pubkey phase0.BLSPubKey) (*blockauctioneer.Results, error) {
	run := a.h.runOf(ctx)
	run.pass()
	sc := run.sc
	// the relays of this auction belong to this call: goroutines that outlive it keep writing to its
	// (closed) record, not to another duty's
	relays := make([]*c05Relay, len(sc.Relays))
	for i := range relays {
		relays[i] = &c05Relay{run: run, n: i + 1, script: sc.Relays[i]}
	}
	all, providers := c05Flags(sc.Auction.All), c05Flags(sc.Auction.Providers)
	out := "results"
	if sc.Auction.Kind == "err" {
		out, all, providers = "err", []int{}, []int{}
	}
	run.emit(verifsupport.Ev{"ev": "Auction", "slot": uint64(slot), "pubv": c05PubkeyID(pubkey), "out": out, "all": all, "providers": providers})
	if out == "err" {
		return nil, errors.New("scripted auction failure")
	}
	res := &blockauctioneer.Results{Participation: map[string]*blockauctioneer.Participation{}}
	for _, r := range all {
		res.AllProviders = append(res.AllProviders, relays[r-1])
	}
	for _, r := range providers {
		res.Providers = append(res.Providers, relays[r-1])
	}
	return res, nil
}

type c05ProposalProvider struct{ h *c05Hist }

// c05ProposalProviderNC is a proposal provider that also implements consensusclient.NodeClientProvider
// (as real beacon node clients do): obtainGraffiti asks it for the name of the node's client when the
// graffiti contains {{CLIENT}}.
type c05ProposalProviderNC struct{ c05ProposalProvider }

func (p *c05ProposalProviderNC) NodeClient(ctx context.Context) (*api.Response[string], error) {
	run := p.h.runOf(ctx)
	run.pass()
	out := run.sc.Nodeclient
	if out != "err" {
		out = "ok"
	}
	run.emit(verifsupport.Ev{"ev": "NodeClient", "out": out})
	if out == "err" {
		return nil, errors.New("scripted node client failure")
	}
	return &api.Response[string]{Data: "c05client", Metadata: map[string]any{}}, nil
}

func (p *c05ProposalProvider) Proposal(ctx context.Context, opts *api.ProposalOpts) (*api.Response[*api.VersionedProposal], error) {
	run := p.h.runOf(ctx)
	run.pass()
	run.hist.mu.Lock()
	defer run.hist.mu.Unlock()
	sc := run.sc
	ev := verifsupport.Ev{
		"ev": "Proposal", "slot": uint64(opts.Slot), "zerograffiti": opts.Graffiti == [32]byte{},
		"reveal": c05SigToken(c05SigRandao, opts.RandaoReveal),
	}
	if sc.Proposal.Out != "ok" {
		ev["out"] = "err"
		ev["p"] = verifsupport.Ev{"version": "none", "blinded": false, "slot": -1, "id": 0}
		run.emitLocked(ev)
		return nil, errors.New("scripted proposal failure")
	}
	blinded := sc.Proposal.Blinded
	if blinded && sc.Cfg.wired() && run.candidates == 0 {
		// Env_BlindedNeedsAuction: a beacon node only hands out a blinded proposal when the auction - the real one
		// here - produced results that name a relay; what is recorded is what was handed out
		blinded = false
	}
	id := len(run.obtained) + 1
	seed := c05Seed{
		slot:     uint64(int64(sc.Slot) + int64(sc.Proposal.Dslot)),
		proposer: sc.V,
		id:       id,
		salt:     sc.Salt,
		reveal:   opts.RandaoReveal,
		graffiti: opts.Graffiti,
	}
	o := &c05Obtained{
		id: id, seed: seed, version: sc.Proposal.Version, blinded: blinded,
		obtained: c05BuildProposal(sc.Proposal.Version, blinded, seed),
		pristine: c05BuildProposal(sc.Proposal.Version, blinded, seed),
	}
	// The oracle for the roots is the library's accessor on the obtained object.
	parent, err1 := o.obtained.ParentRoot()
	state, err2 := o.obtained.StateRoot()
	body, err3 := o.obtained.BodyRoot()
	slot, err4 := o.obtained.Slot()
	if err1 != nil || err2 != nil || err3 != nil || err4 != nil {
		panic(fmt.Sprintf("c05: malformed proposal built by the driver: %v %v %v %v", err1, err2, err3, err4))
	}
	run.roots[parent] = c05RootTag{id, "parent"}
	run.roots[state] = c05RootTag{id, "state"}
	run.roots[body] = c05RootTag{id, "body"}
	run.obtained = append(run.obtained, o)
	ev["out"] = "ok"
	ev["p"] = verifsupport.Ev{"version": sc.Proposal.Version, "blinded": blinded, "slot": uint64(slot), "id": id}
	run.emitLocked(ev)
	return &api.Response[*api.VersionedProposal]{Data: o.obtained, Metadata: map[string]any{}}, nil
}

// ---- relays -----------------------------------------------------------------------------------

type c05Relay struct {
	run    *c05Run
	n      int
	script string
}

func (r *c05Relay) Name() string              { return fmt.Sprintf("c05relay%d", r.n) }
func (r *c05Relay) Address() string           { return fmt.Sprintf("relay%d.c05.invalid", r.n) }
func (r *c05Relay) Pubkey() *phase0.BLSPubKey { return nil }

func (r *c05Relay) BuilderBid(_ context.Context, _ *builderapi.BuilderBidOpts) (*builderapi.Response[*builderspec.VersionedSignedBuilderBid], error) {
	return nil, errors.New("not used")
}

// describeSent describes what the relay was sent: which fields are set, whether the message is the
// obtained blinded block untouched, and the signature.  It also returns the seed of the block the
// relay reveals and the signature it will carry.
func (run *c05Run) describeSent(p *api.VersionedSignedBlindedProposal) (verifsupport.Ev, *c05Seed, phase0.BLSSignature) {
	q := verifsupport.Ev{"version": "none", "containers": []string{}, "id": 0, "sig": 0, "intact": false}
	if p == nil {
		return q, nil, phase0.BLSSignature{}
	}
	q["version"] = c05VersionName(p.Version)
	containers := []string{}
	var msg any
	var sig phase0.BLSSignature
	var parent phase0.Root
	if p.Bellatrix != nil {
		containers = append(containers, "bellatrix")
		msg, sig = p.Bellatrix.Message, p.Bellatrix.Signature
		if p.Bellatrix.Message != nil {
			parent = p.Bellatrix.Message.ParentRoot
		}
	}
	if p.Capella != nil {
		containers = append(containers, "capella")
		msg, sig = p.Capella.Message, p.Capella.Signature
		if p.Capella.Message != nil {
			parent = p.Capella.Message.ParentRoot
		}
	}
	if p.Deneb != nil {
		containers = append(containers, "deneb")
		msg, sig = p.Deneb.Message, p.Deneb.Signature
		if p.Deneb.Message != nil {
			parent = p.Deneb.Message.ParentRoot
		}
	}
	q["containers"] = containers
	if len(containers) != 1 {
		return q, nil, phase0.BLSSignature{}
	}
	q["sig"] = c05SigToken(c05SigBlock, sig)
	tag, known := run.roots[parent]
	if !known || tag.kind != "parent" {
		return q, nil, sig
	}
	o := run.obtained[tag.id-1]
	q["id"] = o.id
	var pristine any
	switch containers[0] {
	case "bellatrix":
		pristine = o.pristine.BellatrixBlinded
	case "capella":
		pristine = o.pristine.CapellaBlinded
	case "deneb":
		pristine = o.pristine.DenebBlinded
	}
	q["intact"] = reflect.DeepEqual(msg, pristine)
	return q, &o.seed, sig
}

func (r *c05Relay) UnblindProposal(ctx context.Context, opts *builderapi.UnblindProposalOpts) (*builderapi.Response[*api.VersionedSignedProposal], error) {
	run := r.run
	run.hist.mu.Lock()
	run.attempts[r.n]++
	attempt := run.attempts[r.n]
	var sent *api.VersionedSignedBlindedProposal
	if opts != nil {
		sent = opts.Proposal
	}
	q, seed, sig := run.describeSent(sent)

	out := r.script
	held := false
	switch {
	case r.script == "errfull" && attempt == 1:
		out = "err"
	case r.script == "errfull":
		out = "full"
	case r.script == "heldfull":
		// reveals the block, but only when the schedule releases it (or the context ends)
		out, held = "full", true
	}
	var resp *api.VersionedSignedProposal
	if out == "full" || out == "nildata" || out == "emptydata" {
		// A lenient relay: it knows the payload of the bid it made for this slot, and reveals it
		// with whatever signature it was sent, even if the request is not the signed blinded block.
		version := q["version"].(string)
		if seed == nil && len(run.obtained) > 0 {
			last := run.obtained[len(run.obtained)-1]
			if last.blinded {
				seed, version = &last.seed, last.version
			}
		}
		var ptr, pristine any
		if seed != nil {
			resp, ptr = c05BuildFull(version, *seed, r.n, sig)
			_, pristine = c05BuildFull(version, *seed, r.n, sig)
		}
		if ptr == nil {
			out, resp = "err", nil
		} else if out == "full" {
			run.revealed = append(run.revealed, &c05Revealed{relay: r.n, ptr: ptr, pristine: pristine, q: q})
		}
	}
	if out == "full" {
		run.delivers[r.n] = true
	}
	switch {
	case out == "err" && r.script == "err" && attempt >= 3, out == "bad400", out == "nilresp", out == "never",
		out == "err" && r.script != "err" && r.script != "errfull":
		run.finished[r.n] = true
	}
	logged := out
	if out == "nildata" || out == "emptydata" {
		logged = "err" // probes only; never part of a C05 scenario
	}
	run.emitLocked(verifsupport.Ev{"ev": "Unblind", "relay": r.n, "attempt": attempt, "q": q, "out": logged})
	run.maybeCancelLocked()
	if held && !run.released {
		run.held++
		relCh := run.relCh
		run.hist.mu.Unlock()
		run.hist.notify()
		select {
		case <-relCh:
		case <-ctx.Done():
		}
		run.hist.mu.Lock()
		run.held--
	}
	run.hist.mu.Unlock()

	switch out {
	case "full":
		return &builderapi.Response[*api.VersionedSignedProposal]{Data: resp, Metadata: map[string]any{}}, nil
	case "nildata":
		return &builderapi.Response[*api.VersionedSignedProposal]{Metadata: map[string]any{}}, nil
	case "emptydata":
		return &builderapi.Response[*api.VersionedSignedProposal]{Data: &api.VersionedSignedProposal{Version: resp.Version}, Metadata: map[string]any{}}, nil
	case "bad400":
		return nil, errors.New("POST failed with status 400: {\"code\":400,\"message\":\"unknown payload\"}")
	case "nilresp":
		//nolint:nilnil
		return nil, nil
	case "never":
		<-ctx.Done()
		return nil, ctx.Err()
	}
	return nil, errors.New("scripted relay failure")
}

// maybeCancelLocked ends the job context once it is known that no relay will reveal a block: the
// production context has no deadline, the driver stands in for "the slot is over".
func (run *c05Run) maybeCancelLocked() {
	if run.cancelled || run.closed || run.cancel == nil || len(run.expected) == 0 {
		return
	}
	for _, r := range run.expected {
		if run.delivers[r] || !run.finished[r] {
			return
		}
	}
	run.cancelled = true
	run.emitLocked(verifsupport.Ev{"ev": "Cancel", "why": "no relay will reveal a block"})
	run.cancel()
}

// ---- submitter --------------------------------------------------------------------------------

type c05Submitter struct{ h *c05Hist }

// describeSubmitted describes the container handed to SubmitProposal: where it comes from (the
// obtained proposal, a relay's answer, neither), and whether it is untouched, comparing field by
// field (reflect.DeepEqual) with the pristine copies.
func (run *c05Run) describeSubmitted(p *api.VersionedSignedProposal) verifsupport.Ev {
	noQ := verifsupport.Ev{"version": "none", "containers": []string{}, "id": 0, "sig": 0, "intact": false}
	d := verifsupport.Ev{
		"src": "other", "version": "none", "blinded": false, "containers": []string{}, "id": 0, "sig": 0,
		"relay": 0, "q": noQ, "intact": false,
	}
	if p == nil {
		return d
	}
	d["version"] = c05VersionName(p.Version)
	d["blinded"] = p.Blinded

	type part struct {
		name      string
		container any
		msg       any
		extra     any // deneb: proofs and blobs
		sig       phase0.BLSSignature
		parent    phase0.Root
	}
	var parts []part
	if p.Phase0 != nil {
		x := part{name: "phase0", container: p.Phase0, msg: p.Phase0.Message, sig: p.Phase0.Signature}
		if p.Phase0.Message != nil {
			x.parent = p.Phase0.Message.ParentRoot
		}
		parts = append(parts, x)
	}
	if p.Altair != nil {
		x := part{name: "altair", container: p.Altair, msg: p.Altair.Message, sig: p.Altair.Signature}
		if p.Altair.Message != nil {
			x.parent = p.Altair.Message.ParentRoot
		}
		parts = append(parts, x)
	}
	if p.Bellatrix != nil {
		x := part{name: "bellatrix", container: p.Bellatrix, msg: p.Bellatrix.Message, sig: p.Bellatrix.Signature}
		if p.Bellatrix.Message != nil {
			x.parent = p.Bellatrix.Message.ParentRoot
		}
		parts = append(parts, x)
	}
	if p.BellatrixBlinded != nil {
		x := part{name: "bellatrix_blinded", container: p.BellatrixBlinded, msg: p.BellatrixBlinded.Message, sig: p.BellatrixBlinded.Signature}
		if p.BellatrixBlinded.Message != nil {
			x.parent = p.BellatrixBlinded.Message.ParentRoot
		}
		parts = append(parts, x)
	}
	if p.Capella != nil {
		x := part{name: "capella", container: p.Capella, msg: p.Capella.Message, sig: p.Capella.Signature}
		if p.Capella.Message != nil {
			x.parent = p.Capella.Message.ParentRoot
		}
		parts = append(parts, x)
	}
	if p.CapellaBlinded != nil {
		x := part{name: "capella_blinded", container: p.CapellaBlinded, msg: p.CapellaBlinded.Message, sig: p.CapellaBlinded.Signature}
		if p.CapellaBlinded.Message != nil {
			x.parent = p.CapellaBlinded.Message.ParentRoot
		}
		parts = append(parts, x)
	}
	if p.Deneb != nil {
		x := part{name: "deneb", container: p.Deneb, extra: [2]any{p.Deneb.KZGProofs, p.Deneb.Blobs}}
		if p.Deneb.SignedBlock != nil {
			x.msg, x.sig = p.Deneb.SignedBlock.Message, p.Deneb.SignedBlock.Signature
			if p.Deneb.SignedBlock.Message != nil {
				x.parent = p.Deneb.SignedBlock.Message.ParentRoot
			}
		}
		parts = append(parts, x)
	}
	if p.DenebBlinded != nil {
		x := part{name: "deneb_blinded", container: p.DenebBlinded, msg: p.DenebBlinded.Message, sig: p.DenebBlinded.Signature}
		if p.DenebBlinded.Message != nil {
			x.parent = p.DenebBlinded.Message.ParentRoot
		}
		parts = append(parts, x)
	}
	names := []string{}
	for _, x := range parts {
		names = append(names, x.name)
	}
	d["containers"] = names
	if len(parts) != 1 {
		return d
	}
	x := parts[0]
	d["sig"] = c05SigToken(c05SigBlock, x.sig)
	if tag, known := run.roots[x.parent]; known && tag.kind == "parent" {
		d["id"] = tag.id
	}

	// a relay's answer?
	for _, rv := range run.revealed {
		if x.container == rv.ptr || reflect.DeepEqual(x.container, rv.pristine) {
			d["src"] = "relay"
			d["relay"] = rv.relay
			d["q"] = rv.q
			d["intact"] = reflect.DeepEqual(x.container, rv.pristine)
			return d
		}
	}
	// the obtained proposal?
	for _, o := range run.obtained {
		var own, ownPristine, extraPristine any
		switch x.name {
		case "phase0":
			own, ownPristine = o.obtained.Phase0, o.pristine.Phase0
		case "altair":
			own, ownPristine = o.obtained.Altair, o.pristine.Altair
		case "bellatrix":
			own, ownPristine = o.obtained.Bellatrix, o.pristine.Bellatrix
		case "bellatrix_blinded":
			own, ownPristine = o.obtained.BellatrixBlinded, o.pristine.BellatrixBlinded
		case "capella":
			own, ownPristine = o.obtained.Capella, o.pristine.Capella
		case "capella_blinded":
			own, ownPristine = o.obtained.CapellaBlinded, o.pristine.CapellaBlinded
		case "deneb":
			if o.obtained.Deneb != nil {
				own, ownPristine = o.obtained.Deneb.Block, o.pristine.Deneb.Block
				extraPristine = [2]any{o.pristine.Deneb.KZGProofs, o.pristine.Deneb.Blobs}
			}
		case "deneb_blinded":
			own, ownPristine = o.obtained.DenebBlinded, o.pristine.DenebBlinded
		}
		if own == nil || reflect.ValueOf(own).IsNil() {
			continue
		}
		if x.msg == own || reflect.DeepEqual(x.msg, ownPristine) {
			d["src"] = "own"
			d["id"] = o.id
			d["intact"] = reflect.DeepEqual(x.msg, ownPristine) && reflect.DeepEqual(x.extra, extraPristine)
			return d
		}
	}
	return d
}

func (s *c05Submitter) SubmitProposal(ctx context.Context, proposal *api.VersionedSignedProposal) error {
	run := s.h.runOf(ctx)
	run.pass()
	run.hist.mu.Lock()
	defer run.hist.mu.Unlock()
	out := run.sc.Submit
	if out != "err" {
		out = "ok"
	}
	run.emitLocked(verifsupport.Ev{"ev": "Submit", "desc": run.describeSubmitted(proposal), "out": out})
	if out == "err" {
		return errors.New("scripted submission failure")
	}
	return nil
}

// ---- running a scenario -----------------------------------------------------------------------

func c05Candidates(sc *c05Scenario) []int {
	providers, all := c05Flags(sc.Auction.Providers), c05Flags(sc.Auction.All)
	if len(providers) == 0 || sc.Cfg.UnblindAll {
		return all
	}
	return providers
}

// c05HistoryResult is what one history produced: the events of the instance, in order.
type c05HistoryResult struct {
	hist *c05Hist
	hung bool
}

func (res *c05HistoryResult) events() []verifsupport.Ev {
	res.hist.mu.Lock()
	defer res.hist.mu.Unlock()
	return append([]verifsupport.Ev{}, res.hist.events...)
}

func (res *c05HistoryResult) crash() string {
	res.hist.mu.Lock()
	defer res.hist.mu.Unlock()
	for _, run := range res.hist.runs {
		if run.crash != "" {
			return run.crash
		}
	}
	return ""
}

// c05DefaultSched: every duty is prepared and proposed before the next one is made.
func c05DefaultSched(n int) []c05Step {
	var sched []c05Step
	for h := 1; h <= n; h++ {
		sched = append(sched, c05Step{"prepare", h}, c05Step{"run", h}, c05Step{"propose", h}, c05Step{"run", h})
	}
	return sched
}

// c05Sched runs the schedule of one history on one service instance.
type c05Sched struct {
	ctx        context.Context
	s          *Service
	h          *c05History
	hist       *c05Hist
	ct         *c05ChainTime
	fallback   time.Duration
	patience   time.Duration
	autoCancel bool
}

// settle waits until the call on run has reached an interface (or is held in a relay) or has returned.
// If it does neither for `patience` - its context, if any, has ended long ago by then - it is recorded as
// Hung and the instance is given up.
func (x *c05Sched) settle(run *c05Run, untilReturn bool) {
	deadline := time.NewTimer(x.patience)
	defer deadline.Stop()
	for {
		x.hist.mu.Lock()
		settled := !run.inCall || (!untilReturn && (run.atGate > 0 || (run.held > 0 && !run.released)))
		x.hist.mu.Unlock()
		if settled {
			return
		}
		select {
		case <-x.hist.note:
		case <-time.After(20 * time.Millisecond):
		case <-deadline.C:
			x.hist.mu.Lock()
			if run.inCall && !run.closed {
				run.emitLocked(verifsupport.Ev{"ev": "Hung", "after_ms": x.patience.Milliseconds()})
				run.closed = true
				x.hist.hung = true
			}
			x.hist.mu.Unlock()
			return
		}
	}
}

func (x *c05Sched) guarded(run *c05Run, what string, fn func()) {
	defer func() {
		if r := recover(); r != nil {
			x.hist.mu.Lock()
			run.crash = fmt.Sprintf("%s: %v", what, r)
			x.hist.mu.Unlock()
		}
	}()
	fn()
}

// startCall: a new call on the duty object starts with closed gates.
func (x *c05Sched) startCallLocked(run *c05Run) {
	run.inCall = true
	run.free = false
	run.freeCh = make(chan struct{})
}

// prepare makes the duty object and calls Prepare for it, in a goroutine of its own as the controller does.
func (x *c05Sched) prepare(run *c05Run) {
	sc := run.sc
	x.hist.mu.Lock()
	x.hist.made++
	run.h = x.hist.made
	run.duty = beaconblockproposer.NewDuty(phase0.Slot(sc.Slot), phase0.ValidatorIndex(sc.V))
	if run.h == 1 {
		strategy, conf := "opaque", []int{}
		if x.h.Cfg.wired() {
			strategy, conf = x.h.Cfg.Strategy, append(conf, x.h.Cfg.Conf...)
		}
		run.emitLocked(verifsupport.Ev{"ev": "Reset", "slot": sc.Slot, "v": sc.V, "cfg": verifsupport.Ev{
			"graffiti": x.h.Cfg.Graffiti, "nodeclient": x.h.Cfg.Nodeclient, "auctioneer": x.h.Cfg.Auctioneer,
			"unblindAll": x.h.Cfg.UnblindAll, "strategy": strategy, "conf": conf,
		}})
	} else {
		run.emitLocked(verifsupport.Ev{"ev": "NewDuty", "slot": sc.Slot, "v": sc.V})
	}
	x.startCallLocked(run)
	x.hist.mu.Unlock()
	ctx := context.WithValue(x.ctx, c05CtxKey{}, run)
	go func() {
		var err error
		x.guarded(run, "Prepare", func() { err = x.s.Prepare(ctx, run.duty) })
		out := "ok"
		if err != nil {
			out = "err"
		}
		x.hist.mu.Lock()
		run.emitLocked(verifsupport.Ev{"ev": "PrepRet", "out": out})
		run.inCall, run.prepared = false, true
		x.hist.mu.Unlock()
		x.hist.notify()
	}()
}

// propose calls Propose for the duty object, as the scheduler job of its slot would.
func (x *c05Sched) propose(run *c05Run) {
	sc := run.sc
	if x.ct.CurrentSlot() < phase0.Slot(sc.Slot) {
		x.ct.SetSlot(sc.Slot)
	}
	if x.h.Cfg.wired() {
		// the slot of the duty starts now (the scheduler job runs at the start of the slot): the deadline strategy
		// counts its deadline from here
		x.ct.setStart(phase0.Slot(sc.Slot), time.Now())
	}
	// The controller only schedules Propose after a successful Prepare; the driver calls it
	// regardless, so that validateDuty is exercised too.
	jobCtx, cancel := context.WithCancel(context.WithValue(x.ctx, c05CtxKey{}, run))
	x.hist.mu.Lock()
	run.proposed = true
	run.cancel = cancel
	if x.autoCancel {
		run.expected = c05Candidates(sc)
	}
	run.emitLocked(verifsupport.Ev{"ev": "ProposeCall"})
	x.startCallLocked(run)
	x.hist.mu.Unlock()
	timer := time.AfterFunc(x.fallback, func() {
		x.hist.mu.Lock()
		defer x.hist.mu.Unlock()
		if run.cancelled || run.closed {
			return
		}
		run.cancelled = true
		run.emitLocked(verifsupport.Ev{"ev": "Cancel", "why": "driver fallback deadline"})
		cancel()
	})
	go func() {
		x.guarded(run, "Propose", func() { x.s.Propose(jobCtx, run.duty) })
		timer.Stop()
		x.hist.mu.Lock()
		ret := verifsupport.Ev{"ev": "Ret"}
		if run.crash != "" {
			ret["crash"] = run.crash
			if x.h.Cfg.wired() {
				// the goroutine of Propose panicked (the scheduler has no recover(): Vouch would be gone)
				ret["ev"] = "Crash"
			}
		}
		run.emitLocked(ret)
		run.closed = true
		run.inCall = false
		x.hist.mu.Unlock()
		cancel()
		x.hist.notify()
	}()
}

// step lets the call pass the interface call it is waiting at.
func (x *c05Sched) step(run *c05Run) {
	x.hist.mu.Lock()
	waiting := run.inCall && run.atGate > 0
	x.hist.mu.Unlock()
	if !waiting {
		return // the code is not where the schedule expects it (it made fewer calls): nothing to let pass
	}
	select {
	case run.gateCh <- struct{}{}:
		x.hist.mu.Lock()
		run.atGate--
		x.hist.mu.Unlock()
	case <-time.After(2 * time.Second):
	}
}

// c05RunHistory builds ONE real service and runs the schedule of the history on it.
// fallback: the job context of a Propose is ended after this long at the latest; grace: a call that has
// neither reached an interface nor returned this long after the fallback is recorded as Hung and the
// instance abandoned (its goroutine is left behind; nothing else waits for it).
func c05RunHistory(t *testing.T, h *c05History, fallback time.Duration, grace time.Duration, autoCancel bool) *c05HistoryResult {
	hist := &c05Hist{sc: h.Sc, note: make(chan struct{}, 1)}
	hist.orphan = c05NewRun(hist, &c05Scenario{Sc: h.Sc, Salt: h.Salt, Cfg: h.Cfg, Accounts: "ok", Randao: "ok", Sign: "ok", Submit: "ok"})
	ctx := context.Background()
	ct := &c05ChainTime{ChainTime: verifsupport.NewChainTime(32, 12*time.Second)}
	if len(h.Duties) > 0 {
		ct.SetSlot(h.Duties[0].Slot)
	}

	signer := &c05Signer{h: hist}
	params := []Parameter{
		WithLogLevel(zerolog.Disabled),
		WithMonitor(nullmetrics.New()),
		WithChainTime(ct),
		WithValidatingAccountsProvider(&c05Accounts{h: hist}),
		WithProposalSubmitter(&c05Submitter{h: hist}),
		WithRANDAORevealSigner(signer),
		WithBeaconBlockSigner(signer),
		WithBlobSidecarSigner(signer),
		WithUnblindFromAllRelays(h.Cfg.UnblindAll),
		WithBuilderBoostFactor(100),
	}
	if h.Cfg.Nodeclient {
		params = append(params, WithProposalDataProvider(&c05ProposalProviderNC{c05ProposalProvider{h: hist}}))
	} else {
		params = append(params, WithProposalDataProvider(&c05ProposalProvider{h: hist}))
	}
	if h.Cfg.Graffiti {
		params = append(params, WithGraffitiProvider(&c05GraffitiProvider{h: hist}))
	}
	if h.Cfg.wired() {
		// the real block relay service and builder bid strategy behind the auctioneer interface, as in main.go
		wired := c05Wire(t, hist, h, ct)
		defer wired.cancel()
		params = append(params,
			WithBlockAuctioneer(wired.auctioneer),
			WithExecutionChainHeadProvider(c05Head{}))
	} else if h.Cfg.Auctioneer {
		params = append(params,
			WithBlockAuctioneer(&c05Auctioneer{h: hist}),
			WithExecutionChainHeadProvider(c05Head{}))
	}
	s, err := New(ctx, params...)
	if err != nil {
		t.Fatalf("beaconblockproposer New: %v", err)
	}

	for i := range h.Duties {
		sc := &h.Duties[i]
		sc.Sc, sc.Salt, sc.Cfg = h.Sc, h.Salt, h.Cfg
		hist.runs = append(hist.runs, c05NewRun(hist, sc))
	}
	sched := h.Sched
	if len(sched) == 0 {
		sched = c05DefaultSched(len(h.Duties))
	}
	x := &c05Sched{ctx: ctx, s: s, h: h, hist: hist, ct: ct, fallback: fallback, patience: fallback + grace, autoCancel: autoCancel}
	for _, st := range sched {
		if st.H < 1 || st.H > len(hist.runs) {
			continue
		}
		run := hist.runs[st.H-1]
		hist.mu.Lock()
		inCall, made, prepared, over := run.inCall, run.h != 0, run.prepared, run.proposed || run.dropped
		hist.mu.Unlock()
		switch st.Op {
		case "prepare":
			if made {
				continue
			}
			x.prepare(run)
			x.settle(run, false)
		case "propose":
			if !made || inCall || !prepared || over {
				continue
			}
			x.propose(run)
			x.settle(run, false)
		case "step":
			if !inCall {
				continue
			}
			x.step(run)
			x.settle(run, false)
		case "run":
			if !inCall {
				continue
			}
			hist.mu.Lock()
			run.setFreeLocked()
			run.releaseLocked()
			hist.mu.Unlock()
			x.settle(run, true)
		case "release":
			if !inCall {
				continue
			}
			hist.mu.Lock()
			run.releaseLocked()
			hist.mu.Unlock()
			// the relay answers; the call goes on to the submitter (or returns)
			x.settle(run, false)
		case "drop":
			if !made || inCall || !prepared || over {
				continue
			}
			hist.mu.Lock()
			run.dropped = true
			run.emitLocked(verifsupport.Ev{"ev": "Drop"})
			hist.mu.Unlock()
		}
		hist.mu.Lock()
		hung := hist.hung
		hist.mu.Unlock()
		if hung {
			break
		}
	}
	// the schedule is over: whatever is still running goes on to its end
	for _, run := range hist.runs {
		hist.mu.Lock()
		run.setFreeLocked()
		run.releaseLocked()
		hist.mu.Unlock()
	}
	for _, run := range hist.runs {
		hist.mu.Lock()
		hung := hist.hung
		hist.mu.Unlock()
		if hung {
			break
		}
		x.settle(run, true)
	}
	hist.mu.Lock()
	hung := hist.hung
	for _, run := range hist.runs {
		// nothing is recorded any more; the instance is given up, goroutines that are stuck are left behind
		run.closed = true
		if run.cancel != nil {
			defer run.cancel()
		}
	}
	hist.mu.Unlock()
	return &c05HistoryResult{hist: hist, hung: hung}
}

// c05BlockedInUnblind counts goroutines that still sit in unblindProposal's relay closure.
func c05BlockedInUnblind() (total int, chanSend int) {
	buf := make([]byte, 64<<20)
	n := runtime.Stack(buf, true)
	for _, g := range strings.Split(string(buf[:n]), "\n\n") {
		if strings.Contains(g, "unblindProposal.func1") {
			total++
			if strings.Contains(g, "[chan send") {
				chanSend++
			}
		}
	}
	return total, chanSend
}

func TestVerifC05(t *testing.T) {
	if _, is := any(&c05ProposalProvider{}).(consensusclient.NodeClientProvider); is {
		t.Fatal("c05ProposalProvider must not implement NodeClientProvider")
	}
	var scenarios []c05History
	verifsupport.Scenarios(t, &scenarios)
	tr := verifsupport.OpenTrace(t)
	defer tr.Close()

	fallback := 15 * time.Second
	grace := 15 * time.Second
	workers := 192
	if len(scenarios) < workers {
		workers = len(scenarios)
	}
	runs := make([]*c05HistoryResult, len(scenarios))
	var wg sync.WaitGroup
	next := make(chan int)
	for w := 0; w < workers; w++ {
		wg.Add(1)
		go func() {
			defer wg.Done()
			for i := range next {
				runs[i] = c05RunHistory(t, &scenarios[i], fallback, grace, true)
			}
		}()
	}
	for i := range scenarios {
		next <- i
	}
	close(next)
	wg.Wait()

	crashes := []string{}
	fallbacks := 0
	hung := 0
	for i, run := range runs {
		for _, ev := range run.events() {
			if ev["ev"] == "Cancel" && ev["why"] == "driver fallback deadline" {
				fallbacks++
			}
			tr.Emit(ev)
		}
		if run.hung {
			hung++
		}
		if c := run.crash(); c != "" {
			crashes = append(crashes, fmt.Sprintf("scenario %d: %s", scenarios[i].Sc, c))
		}
	}

	// Observations that belong to other properties (C16: crashes; C20: goroutines left behind);
	// never part of C05's verdict.
	if path := os.Getenv("VERIF_C05_OBS"); path != "" {
		obs := map[string]any{"scenarios": len(scenarios), "crashes_in_scenarios": crashes, "fallback_cancels": fallbacks, "hung": hung}
		// Every job context of the driver has been cancelled; what is left now is blocked for good.
		time.Sleep(1500 * time.Millisecond)
		total, sending := c05BlockedInUnblind()
		obs["goroutines_left_in_unblindProposal"] = total
		obs["of_which_blocked_sending_result"] = sending
		obs["probes"] = c05Probes(t)
		data, err := json.MarshalIndent(obs, "", " ")
		if err == nil {
			_ = os.WriteFile(path, data, 0o600)
		}
	}
}

// c05Probes runs the shapes that C05's scenarios leave out because they end in a panic (property
// C16) or leave goroutines behind (property C20), and reports what happens.
func c05Probes(t *testing.T) []map[string]any {
	mk := func(name string, mut func(sc *c05Scenario)) (string, *c05Scenario) {
		sc := &c05Scenario{Sc: -1, Slot: 4242, V: 11, Salt: 77, Accounts: "ok", Randao: "ok", Graffiti: "static", Nodeclient: "na", Sign: "ok", Submit: "ok"}
		sc.Cfg.Graffiti, sc.Cfg.Auctioneer = true, true
		sc.Auction.Kind, sc.Auction.All, sc.Auction.Providers = "results", []bool{true, true, true}, []bool{true, false, false}
		sc.Proposal.Out, sc.Proposal.Version, sc.Proposal.Blinded = "ok", "capella", true
		sc.Relays = []string{"full", "none", "none"}
		mut(sc)
		return name, sc
	}
	type probe struct {
		name string
		sc   *c05Scenario
	}
	single := func(sc *c05Scenario, fallback time.Duration, autoCancel bool) *c05HistoryResult {
		return c05RunHistory(t, &c05History{Sc: sc.Sc, Salt: sc.Salt, Cfg: sc.Cfg, Duties: []c05Scenario{*sc}}, fallback, 10*time.Second, autoCancel)
	}
	var probes []probe
	add := func(name string, sc *c05Scenario) { probes = append(probes, probe{name, sc}) }
	add(mk("blinded proposal, no auctioneer configured", func(sc *c05Scenario) { sc.Cfg.Auctioneer = false }))
	add(mk("blinded proposal, auction failed", func(sc *c05Scenario) { sc.Auction.Kind = "err" }))
	add(mk("relay answers with nil Data", func(sc *c05Scenario) { sc.Relays[0] = "nildata" }))
	add(mk("relay answers with Data that has no block in it", func(sc *c05Scenario) { sc.Relays[0] = "emptydata" }))
	add(mk("three relays reveal the block at once", func(sc *c05Scenario) {
		sc.Cfg.UnblindAll = true
		sc.Relays = []string{"full", "full", "full"}
	}))
	add(mk("all relays fail, context without deadline (driver cancels after 2 s)", func(sc *c05Scenario) {
		sc.Cfg.UnblindAll = true
		sc.Relays = []string{"err", "bad400", "nilresp"}
	}))
	res := []map[string]any{}
	for _, p := range probes {
		before, _ := c05BlockedInUnblind()
		started := time.Now()
		var run *c05HistoryResult
		if strings.HasPrefix(p.name, "all relays fail") {
			// no early cancel: show that Propose only returns when the context ends
			run = single(p.sc, 2*time.Second, false)
		} else {
			run = single(p.sc, 5*time.Second, true)
		}
		elapsed := time.Since(started)
		time.Sleep(1200 * time.Millisecond)
		after, sending := c05BlockedInUnblind()
		evs := []string{}
		for _, ev := range run.events() {
			evs = append(evs, fmt.Sprint(ev["ev"]))
		}
		submitted := ""
		for _, ev := range run.events() {
			if ev["ev"] == "Submit" {
				b, _ := json.Marshal(ev["desc"])
				submitted = string(b)
			}
		}
		res = append(res, map[string]any{
			"probe": p.name, "crash": run.crash(), "events": strings.Join(evs, " "), "submitted": submitted,
			"propose_returned_after_ms":          elapsed.Milliseconds(),
			"goroutines_left_in_unblindProposal": after - before, "blocked_sending_total": sending,
		})
	}
	return res
}

var _ builderclient.UnblindedProposalProvider = (*c05Relay)(nil)
var _ builderclient.BuilderBidProvider = (*c05Relay)(nil)

// the interface obtainGraffiti looks for on the proposal provider
var _ consensusclient.NodeClientProvider = (*c05ProposalProviderNC)(nil)
var _ consensusclient.ProposalProvider = (*c05ProposalProvider)(nil)
