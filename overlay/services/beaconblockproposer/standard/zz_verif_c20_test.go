package standard

// Conformance driver for property C20 (spec/Unblind.tla, Trace_Unblind.tla), part (b): the goroutines
// unblindProposal starts.  Injected with -overlay by /verif/check; nothing of it is committed.
//
// Every scenario is an initial state of Unblind.tla with kind "unblind" (number of relays, whether the
// context has a deadline, what each relay does over its tries) plus the driver's policy for the point
// between a relay goroutine's semaphore check and its final acquire ("hold": let every relay that has
// the block reach that point before any goes on - relays that answer all at once; "free": go on at
// once).  The driver builds the REAL service with New(...), calls the real unblindProposal with
// scripted relays, and steers the goroutines at two points only: the relay's answer (the fake) and the
// trace-level log line "Unblinded block" that the code writes between the check and the final acquire
// (the log writer of the service blocks there until the driver lets the goroutine pass).
//
// After the call has returned, every relay has answered or seen its request end, and a quiescence
// period has passed, a goroutine of the call still parked in the channel send is logged as
// BlockedSender; a call that has not returned although every relay goroutine has given up is logged
// as Stuck (and then freed by cancelling its context).  No action of the specification allows either.

import (
	"bytes"
	"context"
	"encoding/json"
	"errors"
	"fmt"
	"os"
	"regexp"
	"runtime/pprof"
	"strconv"
	"strings"
	"sync"
	"testing"
	"time"

	builderclient "github.com/attestantio/go-builder-client"
	builderapi "github.com/attestantio/go-builder-client/api"
	"github.com/attestantio/go-eth2-client/api"
	apiv1deneb "github.com/attestantio/go-eth2-client/api/v1/deneb"
	mockconsensusclient "github.com/attestantio/go-eth2-client/mock"
	"github.com/attestantio/go-eth2-client/spec"
	"github.com/attestantio/go-eth2-client/spec/phase0"
	mockaccountmanager "github.com/attestantio/vouch/services/accountmanager/mock"
	nullmetrics "github.com/attestantio/vouch/services/metrics/null"
	mocksigner "github.com/attestantio/vouch/services/signer/mock"
	"github.com/attestantio/vouch/verifsupport"
	"github.com/rs/zerolog"
	zerologger "github.com/rs/zerolog/log"
)

const c20Retries = 3

type c20Scenario struct {
	Sc       int      `json:"sc"`
	Kind     string   `json:"kind"`
	N        int      `json:"n"`
	Deadline bool     `json:"deadline"`
	Plan     []string `json:"plan"`
	Hold     bool     `json:"hold"`
	Patient  int      `json:"patient"`
	// Hist: EARLIER calls of unblindProposal made on the same service instance before the call described above
	// (the proposer is long-lived: one scenario = one history of calls on it)
	Hist []c20HistCall `json:"hist"`
}

type c20HistCall struct {
	N        int      `json:"n"`
	Deadline bool     `json:"deadline"`
	Plan     []string `json:"plan"`
	Hold     bool     `json:"hold"`
}

// c20RunHistory makes the calls of the scenario's history, then its own call, one after the other on the service.
func c20RunHistory(s *Service, gate *c20Gate, sc *c20Scenario) (*c20Call, error) {
	var events []verifsupport.Ev
	for i, h := range sc.Hist {
		one := &c20Scenario{Sc: sc.Sc, Kind: sc.Kind, N: h.N, Deadline: h.Deadline, Plan: h.Plan, Hold: h.Hold, Patient: sc.Patient}
		call, err := c20RunCall(s, gate, one)
		if err != nil {
			return nil, fmt.Errorf("call %d of the history: %w", i+1, err)
		}
		events = append(events, call.events...)
	}
	call, err := c20RunCall(s, gate, sc)
	if err != nil {
		return nil, err
	}
	call.events = append(events, call.events...)
	return call, nil
}

// c20Outcome is the relay's reply to try number t (1-based); "none": nothing but the end of the context.
func c20Outcome(plan string, t int) string {
	switch plan {
	case "ok", "nil", "err400":
		return plan
	case "err3":
		return "err"
	case "errok":
		if t == 1 {
			return "err"
		}
		return "ok"
	}
	return "none"
}

// c20Note is something a relay goroutine of the call did, as the driver sees it.
type c20Note struct {
	what string // entered | replied | gate | dropped | failed | nothing
	try  int
}

type c20Call struct {
	sc     *c20Scenario
	mu     sync.Mutex
	events []verifsupport.Ev
	relays []*c20Relay
}

func (c *c20Call) emit(ev verifsupport.Ev) {
	c.mu.Lock()
	defer c.mu.Unlock()
	ev["sc"] = c.sc.Sc
	c.events = append(c.events, ev)
}

// c20Relay is one scripted relay.
type c20Relay struct {
	call    *c20Call
	idx     int
	plan    string
	addr    string
	notes   chan c20Note  // what its goroutine did, in order
	release chan struct{} // one token per answer the driver allows
	pass    chan struct{} // one token per passage of the log gate
	mu      sync.Mutex
	tries   int
}

func (r *c20Relay) Name() string              { return "c20relay" }
func (r *c20Relay) Address() string           { return r.addr }
func (r *c20Relay) Pubkey() *phase0.BLSPubKey { return nil }

func (r *c20Relay) UnblindProposal(ctx context.Context, _ *builderapi.UnblindProposalOpts) (*builderapi.Response[*api.VersionedSignedProposal], error) {
	r.mu.Lock()
	r.tries++
	try := r.tries
	r.mu.Unlock()
	r.notes <- c20Note{what: "entered", try: try}
	out := c20Outcome(r.plan, try)
	if out == "none" {
		<-ctx.Done()
		out = "err"
	} else {
		<-r.release // a relay that has the answer gives it, whatever has happened to the context meanwhile
	}
	r.call.emit(verifsupport.Ev{"ev": "Reply", "p": r.idx, "r": out})
	r.notes <- c20Note{what: "replied", try: try}
	switch out {
	case "ok":
		return &builderapi.Response[*api.VersionedSignedProposal]{
			Data: &api.VersionedSignedProposal{Version: spec.DataVersionDeneb, Deneb: &apiv1deneb.SignedBlockContents{}},
		}, nil
	case "nil":
		return nil, nil
	case "err400":
		return nil, errors.New("POST failed with status 400: c20 relay does not know the payload")
	}
	if ctx.Err() != nil {
		return nil, ctx.Err()
	}
	return nil, errors.New("c20: scripted relay error")
}

// c20Gate is the log writer of the service under test: it tells the driver what the relay goroutines
// do and holds a goroutine at "Unblinded block" until the driver lets it pass.
type c20Gate struct {
	mu     sync.Mutex
	relays map[string]*c20Relay
}

func (g *c20Gate) Write(p []byte) (int, error) {
	for _, line := range bytes.Split(p, []byte{'\n'}) {
		if len(line) == 0 {
			continue
		}
		var rec struct {
			Message  string `json:"message"`
			Provider string `json:"provider"`
		}
		if json.Unmarshal(line, &rec) != nil || rec.Provider == "" {
			continue
		}
		g.mu.Lock()
		r := g.relays[rec.Provider]
		g.mu.Unlock()
		if r == nil {
			continue
		}
		switch rec.Message {
		case "Unblinded block":
			r.notes <- c20Note{what: "gate"}
			<-r.pass
		case "Another relay has already responded":
			r.notes <- c20Note{what: "dropped"}
		case "Failed to unblind block":
			r.notes <- c20Note{what: "failed"}
		case "No signed block received":
			r.notes <- c20Note{what: "nothing"}
		}
	}
	return len(p), nil
}

var (
	c20SrcMu  sync.Mutex
	c20Src    = map[string][]string{}
	c20SendRe = regexp.MustCompile(`^\s*[A-Za-z_][A-Za-z0-9_.]*\s*<-`)
)

// c20IsSend says whether the statement at file:line is a channel send.
func c20IsSend(file string, line int) bool {
	c20SrcMu.Lock()
	defer c20SrcMu.Unlock()
	lines, ok := c20Src[file]
	if !ok {
		data, err := os.ReadFile(file)
		if err == nil {
			lines = strings.Split(string(data), "\n")
		}
		c20Src[file] = lines
	}
	return line >= 1 && line <= len(lines) && c20SendRe.MatchString(lines[line-1])
}

// c20Profile counts the goroutines started by call id (goroutine label, inherited from the caller) that
// sit inside one of unblindProposal's closures: all of them, and those whose innermost Vouch frame is the
// channel send statement (the goroutine profile does not show runtime frames; the statement is read
// from the source file the frame names).
func c20Profile(id int) (total int, sending int) {
	var buf bytes.Buffer
	if err := pprof.Lookup("goroutine").WriteTo(&buf, 1); err != nil {
		return -1, -1
	}
	label := fmt.Sprintf("\"c20call\":\"%d\"", id)
	for _, blk := range strings.Split(buf.String(), "\n\n") {
		if !strings.Contains(blk, label) || !strings.Contains(blk, "unblindProposal.func") {
			continue
		}
		count := 1
		if f := strings.Fields(blk); len(f) > 0 {
			if k, err := strconv.Atoi(f[0]); err == nil {
				count = k
			}
		}
		total += count
		for _, ln := range strings.Split(blk, "\n") {
			if !strings.HasPrefix(ln, "#\t0x") {
				continue
			}
			// innermost frame: "#\t0x4ce0bd\tpkg.func+0x1d\t/path/file.go:13"
			f := strings.Fields(ln)
			loc := f[len(f)-1]
			if i := strings.LastIndex(loc, ":"); i > 0 && strings.Contains(ln, "unblindProposal.func") {
				if n, err := strconv.Atoi(loc[i+1:]); err == nil && c20IsSend(loc[:i], n) {
					sending += count
				}
			}
			break
		}
	}
	return total, sending
}

func c20Settle(id int, quiet time.Duration) (int, int) {
	total, sending := c20Profile(id)
	since := time.Now()
	deadline := time.Now().Add(20 * quiet)
	for time.Since(since) < quiet && time.Now().Before(deadline) {
		time.Sleep(quiet / 8)
		t, s := c20Profile(id)
		if t != total || s != sending {
			total, sending, since = t, s, time.Now()
		}
	}
	return total, sending
}

func c20RunCall(s *Service, gate *c20Gate, sc *c20Scenario) (*c20Call, error) {
	quiet := 100 * time.Millisecond
	grace := 1500 * time.Millisecond
	if sc.Patient > 0 {
		quiet = 600 * time.Millisecond
		grace = 6 * time.Second
	}
	call := &c20Call{sc: sc}
	providers := make([]builderclient.UnblindedProposalProvider, sc.N)
	for i := 0; i < sc.N; i++ {
		r := &c20Relay{call: call, idx: i + 1, plan: sc.Plan[i], addr: fmt.Sprintf("c20-%d-%d", sc.Sc, i+1),
			notes: make(chan c20Note, 64), release: make(chan struct{}, 8), pass: make(chan struct{}, 8)}
		call.relays = append(call.relays, r)
		providers[i] = r
		gate.mu.Lock()
		gate.relays[r.addr] = r
		gate.mu.Unlock()
	}
	defer func() {
		gate.mu.Lock()
		for _, r := range call.relays {
			delete(gate.relays, r.addr)
		}
		gate.mu.Unlock()
	}()

	base, cancelBase := context.WithCancel(context.Background())
	defer cancelBase()
	ctx := base
	if sc.Deadline {
		var cancel context.CancelFunc
		ctx, cancel = context.WithTimeout(base, 1200*time.Millisecond)
		defer cancel()
	}
	call.emit(verifsupport.Ev{"ev": "Call", "site": "unblindProposal", "kind": "unblind", "n": sc.N, "deadline": sc.Deadline, "plan": sc.Plan, "hold": sc.Hold})
	ret := make(chan error, 1)
	go pprof.Do(ctx, pprof.Labels("c20call", strconv.Itoa(sc.Sc)), func(ctx context.Context) {
		proposal := &api.VersionedSignedProposal{Version: spec.DataVersionDeneb, Blinded: true}
		ret <- s.unblindProposal(ctx, proposal, providers)
	})

	next := func(r *c20Relay, what string) (c20Note, error) {
		select {
		case n := <-r.notes:
			return n, nil
		case <-time.After(30 * time.Second):
			return c20Note{}, fmt.Errorf("c20: scenario %d: relay %d: waiting for %s", sc.Sc, r.idx, what)
		}
	}
	// state of each relay goroutine as the driver knows it
	state := make([]string, sc.N) // entered | gate | done | never
	for i, r := range call.relays {
		n, err := next(r, "the first request")
		if err != nil {
			return nil, err
		}
		if n.what != "entered" {
			return nil, fmt.Errorf("c20: scenario %d: relay %d: unexpected %q", sc.Sc, r.idx, n.what)
		}
		state[i] = "entered"
		if c20Outcome(r.plan, 1) == "none" {
			state[i] = "never"
		}
	}
	letPass := func(i int) {
		call.emit(verifsupport.Ev{"ev": "Pass", "p": i + 1})
		call.relays[i].pass <- struct{}{}
		state[i] = "done"
	}
	for round := 1; round <= c20Retries; round++ {
		any := false
		for i, r := range call.relays {
			if state[i] != "entered" {
				continue
			}
			any = true
			r.release <- struct{}{}
			if n, err := next(r, "the reply"); err != nil || n.what != "replied" {
				return nil, fmt.Errorf("c20: scenario %d: relay %d: no reply (%v %q)", sc.Sc, r.idx, err, n.what)
			}
			// what the goroutine does with the reply
			n, err := next(r, "the goroutine's reaction to the reply")
			if err != nil {
				return nil, err
			}
			switch n.what {
			case "gate":
				state[i] = "gate"
				if !sc.Hold {
					letPass(i)
				}
			case "dropped", "nothing":
				state[i] = "done"
			case "failed":
				state[i] = "retry"
			default:
				return nil, fmt.Errorf("c20: scenario %d: relay %d: unexpected %q after the reply", sc.Sc, r.idx, n.what)
			}
		}
		if !any {
			break
		}
		if sc.Hold {
			for i := range call.relays {
				if state[i] == "gate" {
					letPass(i)
				}
			}
		}
		// relays that failed try again after the retry interval, unless that was the last try or a 400
		for i, r := range call.relays {
			if state[i] != "retry" {
				continue
			}
			if round == c20Retries || c20Outcome(r.plan, round) == "err400" {
				state[i] = "done"
				if round == c20Retries {
					// after the last sleep the goroutine notes that it has nothing
					if n, err := next(r, "the end of the tries"); err != nil || n.what != "nothing" {
						return nil, fmt.Errorf("c20: scenario %d: relay %d: tries do not end (%v %q)", sc.Sc, r.idx, err, n.what)
					}
				}
				continue
			}
			n, err := next(r, "the next try")
			if err != nil {
				return nil, err
			}
			if n.what != "entered" {
				return nil, fmt.Errorf("c20: scenario %d: relay %d: unexpected %q instead of the next try", sc.Sc, r.idx, n.what)
			}
			state[i] = "entered"
		}
	}

	// The call returns by itself, or is stuck, or legitimately waits for a relay that has not answered.
	waiting := false
	for i := range state {
		if state[i] == "never" {
			waiting = true
		}
	}
	var res error
	returned := false
	limit := grace
	if sc.Deadline {
		limit += 1200 * time.Millisecond
	}
	if waiting && !sc.Deadline {
		limit = 300 * time.Millisecond // observation only: nothing obliges the call to return
	}
	select {
	case res = <-ret:
		returned = true
	case <-time.After(limit):
	}
	if !returned {
		if !waiting {
			call.emit(verifsupport.Ev{"ev": "Stuck", "site": "unblindProposal", "after_ms": limit.Milliseconds()})
		}
		call.emit(verifsupport.Ev{"ev": "Cancel"})
		cancelBase()
		select {
		case res = <-ret:
		case <-time.After(30 * time.Second):
			return nil, fmt.Errorf("c20: scenario %d: the call does not return even when cancelled", sc.Sc)
		}
	}
	r := "ok"
	if res != nil {
		r = "err"
	}
	call.emit(verifsupport.Ev{"ev": "Return", "res": r})
	// Relays still asked (never answering, or sleeping before a retry) end with the context.
	cancelBase()
	for _, rl := range call.relays {
		// drain: goroutines that go on after the cancellation must not block on their notes
		go func(rl *c20Relay) {
			for {
				select {
				case <-rl.notes:
				case <-time.After(5 * time.Second):
					return
				}
			}
		}(rl)
		for k := 0; k < 4; k++ {
			rl.release <- struct{}{}
			rl.pass <- struct{}{}
		}
	}
	// every relay goroutine ends or is blocked for good: retries sleep 250 ms each
	deadline := time.Now().Add(4 * time.Second)
	total, sending := c20Settle(sc.Sc, quiet)
	for total > sending && time.Now().Before(deadline) {
		total, sending = c20Settle(sc.Sc, quiet)
	}
	if sending > 0 {
		call.emit(verifsupport.Ev{"ev": "BlockedSender", "site": "unblindProposal", "count": sending, "parked": total})
	} else {
		call.emit(verifsupport.Ev{"ev": "Quiet", "left": total})
	}
	return call, nil
}

func TestVerifC20Unblind(t *testing.T) {
	var scenarios []c20Scenario
	verifsupport.Scenarios(t, &scenarios)
	tr := verifsupport.OpenTrace(t)
	defer tr.Close()
	ctx := context.Background()

	gate := &c20Gate{relays: map[string]*c20Relay{}}
	zerolog.SetGlobalLevel(zerolog.TraceLevel)
	zerologger.Logger = zerolog.New(gate)
	consensusClient, err := mockconsensusclient.New(ctx)
	if err != nil {
		t.Fatalf("c20: consensus client mock: %v", err)
	}
	signer := mocksigner.New()
	s, err := New(ctx,
		WithLogLevel(zerolog.TraceLevel),
		WithMonitor(nullmetrics.New()),
		WithChainTime(verifsupport.NewChainTime(32, 12*time.Second)),
		WithProposalDataProvider(consensusClient),
		WithValidatingAccountsProvider(mockaccountmanager.NewValidatingAccountsProvider()),
		WithProposalSubmitter(consensusClient),
		WithRANDAORevealSigner(signer),
		WithBeaconBlockSigner(signer),
		WithBlobSidecarSigner(signer),
	)
	if err != nil {
		t.Fatalf("c20: beaconblockproposer New: %v", err)
	}

	workers := 8
	if len(scenarios) < workers {
		workers = len(scenarios)
	}
	calls := make([]*c20Call, len(scenarios))
	errs := make([]error, len(scenarios))
	var wg sync.WaitGroup
	nextCh := make(chan int)
	for w := 0; w < workers; w++ {
		wg.Add(1)
		go func() {
			defer wg.Done()
			for i := range nextCh {
				calls[i], errs[i] = c20RunHistory(s, gate, &scenarios[i])
			}
		}()
	}
	for i := range scenarios {
		nextCh <- i
	}
	close(nextCh)
	wg.Wait()
	for i := range scenarios {
		if errs[i] != nil {
			t.Fatalf("%v", errs[i]) // a broken run (exit 2), never a verdict
		}
		for _, ev := range calls[i].events {
			tr.Emit(ev)
		}
	}
}
