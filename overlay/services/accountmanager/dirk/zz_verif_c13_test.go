package dirk

// Conformance driver for property C13 (spec/Accounts.tla), dirk account manager.
// Injected with -overlay by /verif/check.
//
// REAL dirk.Service built with New(...) (its endpoint is unreachable: no Dirk server exists in the
// sandbox, so Dirk's gRPC path is NOT exercised).  After construction the wallets the service would
// open are replaced, in its own wallet cache, by c13Wallet values that offer per refresh what the
// scenario says; everything from there on is the service's own code: refreshAccounts (specifier ->
// regex, matching, retain-on-empty), refreshValidators, and the queries.  REAL
// validatorsmanager/standard.Service over a scripted beacon node.

import (
	"context"
	"testing"
	"time"

	"github.com/attestantio/vouch/mock"
	nullmetrics "github.com/attestantio/vouch/services/metrics/null"
	"github.com/attestantio/vouch/testing/resources"
	"github.com/attestantio/vouch/verifdrivers/c13support"
	"github.com/attestantio/vouch/verifsupport"
	"github.com/rs/zerolog"
	scratch "github.com/wealdtech/go-eth2-wallet-store-scratch"
	e2wtypes "github.com/wealdtech/go-eth2-wallet-types/v2"
)

// c13Wallet is a real nd wallet (ID, Name, ... promoted) whose Accounts are scripted.
type c13Wallet struct {
	e2wtypes.Wallet
	offered []e2wtypes.Account
}

func (w *c13Wallet) Accounts(_ context.Context) <-chan e2wtypes.Account {
	ch := make(chan e2wtypes.Account, len(w.offered))
	for _, a := range w.offered {
		ch <- a
	}
	close(ch)
	return ch
}

func TestVerifC13Dirk(t *testing.T) {
	var scenarios []c13support.Scenario
	verifsupport.Scenarios(t, &scenarios)
	tr := verifsupport.OpenTrace(t)
	defer tr.Close()
	ctx := context.Background()

	store := scratch.New()
	var u *c13support.Universe
	ct := verifsupport.NewChainTime(32, 12*time.Second)

	for _, sc := range scenarios {
		var s *Service
		var node *c13support.Node
		wallets := map[string]*c13Wallet{}
		for _, st := range sc.Steps {
			switch st.Ev {
			case "Reset":
				if st.Mgr != "dirk" {
					t.Fatalf("scenario %d is for manager %q", sc.Sc, st.Mgr)
				}
				if u == nil {
					u = c13support.BuildUniverse(ctx, t, store, st.Wallets)
				} else if !u.Same(st.Wallets) {
					t.Fatalf("scenario %d uses another universe of names", sc.Sc)
				}
				node = c13support.NewNode(u)
				var err error
				s, err = New(ctx,
					WithLogLevel(zerolog.Disabled),
					WithMonitor(nullmetrics.New()),
					WithClientMonitor(nullmetrics.New()),
					WithProcessConcurrency(4),
					WithTimeout(250*time.Millisecond),
					WithEndpoints([]string{"localhost:1"}),
					WithAccountPaths(st.Paths),
					WithClientCert([]byte(resources.ClientTest01Crt)),
					WithClientKey([]byte(resources.ClientTest01Key)),
					WithCACert([]byte(resources.CACrt)),
					WithValidatorsManager(c13support.NewValidatorsManager(ctx, t, node)),
					WithDomainProvider(mock.NewDomainProvider()),
					WithFarFutureEpochProvider(mock.NewFarFutureEpochProvider(c13support.FarFutureEpoch)),
					WithCurrentEpochProvider(ct),
				)
				if err != nil {
					t.Fatalf("scenario %d: dirk New: %v", sc.Sc, err)
				}
				if len(s.accounts) != 0 || node.Calls != 0 {
					t.Fatalf("scenario %d: the service found accounts without a server", sc.Sc)
				}
				// from now on the service's wallets are the scripted ones
				s.walletsMutex.Lock()
				for name, w := range u.Wallets {
					wallets[name] = &c13Wallet{Wallet: w}
					s.wallets[name] = wallets[name]
				}
				s.walletsMutex.Unlock()
				tr.Emit(verifsupport.Ev{"sc": sc.Sc, "ev": "Reset", "mgr": st.Mgr, "cfg": st.Cfg, "paths": st.Paths})
			case "Refresh":
				node.Script(st.Mode, st.Recs)
				for _, w := range wallets {
					w.offered = nil
				}
				for _, n := range st.Offer {
					w, ok := wallets[n.W]
					acc, ok2 := u.Accounts[n.Text()]
					if !ok || !ok2 {
						t.Fatalf("scenario %d offers unknown account %s", sc.Sc, n.Text())
					}
					w.offered = append(w.offered, acc)
				}
				s.Refresh(ctx)
				s.mutex.RLock()
				known := u.Known(s.accounts)
				s.mutex.RUnlock()
				tr.Emit(c13support.RefreshEvent(sc.Sc, st, known, u.Table(ctx, s.validatorsManager), node.Calls))
			case "Query":
				c13support.Query(ctx, t, tr, u, sc.Sc, st, s)
			default:
				t.Fatalf("unknown step %q", st.Ev)
			}
		}
	}
}
