package dirk

// Conformance driver for property C13 (spec/Accounts.tla), dirk account manager.
// Injected with -overlay by /verif/check.
//
// REAL dirk.Service built with New(...) (its endpoint is unreachable: no Dirk server exists in the
// sandbox, so Dirk's gRPC path is NOT exercised).  After construction the wallets the service would
// open are replaced, in its own wallet cache, by c13Wallet values that offer per refresh what the
// scenario says; everything from there on is the service's own code: refreshAccounts (specifier ->
// regex, matching, retain-on-empty), refreshValidators, and the queries.  REAL
// validatorsmanager/standard.Service over a scripted beacon node.
//
// ONE service (and one validators manager) per scenario: the scenario is a history of refreshes and
// queries on them (c13support.RunHistory), with the refresh job held between its two parts and queries
// held inside the validators manager's lookup while the refresh job runs.

import (
	"context"
	"sync"
	"testing"
	"time"

	"github.com/attestantio/vouch/mock"
	nullmetrics "github.com/attestantio/vouch/services/metrics/null"
	"github.com/attestantio/vouch/testing/resources"
	"github.com/attestantio/vouch/verifdrivers/c13support"
	"github.com/attestantio/vouch/verifsupport"
	"github.com/rs/zerolog"
	scratch "github.com/wealdtech/go-eth2-wallet-store-scratch"
	e2wtypes "github.com/wealdtech/go-eth2-wallet-types/v2"
)

// c13Wallet is a real nd wallet (ID, Name, ... promoted) whose Accounts are scripted.
type c13Wallet struct {
	e2wtypes.Wallet
	mu      sync.Mutex
	offered []e2wtypes.Account
}

func (w *c13Wallet) offer(accounts []e2wtypes.Account) {
	w.mu.Lock()
	defer w.mu.Unlock()
	w.offered = accounts
}

func (w *c13Wallet) Accounts(_ context.Context) <-chan e2wtypes.Account {
	w.mu.Lock()
	offered := w.offered
	w.mu.Unlock()
	ch := make(chan e2wtypes.Account, len(offered))
	for _, a := range offered {
		ch <- a
	}
	close(ch)
	return ch
}

func TestVerifC13Dirk(t *testing.T) {
	var scenarios []c13support.Scenario
	verifsupport.Scenarios(t, &scenarios)
	tr := verifsupport.OpenTrace(t)
	defer tr.Close()
	ctx := context.Background()

	store := scratch.New()
	var u *c13support.Universe
	ct := verifsupport.NewChainTime(32, 12*time.Second)

	for _, sc := range scenarios {
		if len(sc.Steps) == 0 || sc.Steps[0].Ev != "Reset" {
			t.Fatalf("scenario %d does not start with Reset", sc.Sc)
		}
		st := sc.Steps[0]
		if st.Mgr != "dirk" {
			t.Fatalf("scenario %d is for manager %q", sc.Sc, st.Mgr)
		}
		if u == nil {
			u = c13support.BuildUniverse(ctx, t, store, st.Wallets)
		} else if !u.Same(st.Wallets) {
			t.Fatalf("scenario %d uses another universe of names", sc.Sc)
		}
		node := c13support.NewNode(u)
		vm := &c13support.GatedVM{Real: c13support.NewValidatorsManager(ctx, t, node)}
		s, err := New(ctx,
			WithLogLevel(zerolog.Disabled),
			WithMonitor(nullmetrics.New()),
			WithClientMonitor(nullmetrics.New()),
			WithProcessConcurrency(4),
			WithTimeout(250*time.Millisecond),
			WithEndpoints([]string{"localhost:1"}),
			WithAccountPaths(st.Paths),
			WithClientCert([]byte(resources.ClientTest01Crt)),
			WithClientKey([]byte(resources.ClientTest01Key)),
			WithCACert([]byte(resources.CACrt)),
			WithValidatorsManager(vm),
			WithDomainProvider(mock.NewDomainProvider()),
			WithFarFutureEpochProvider(mock.NewFarFutureEpochProvider(c13support.FarFutureEpoch)),
			WithCurrentEpochProvider(ct),
		)
		if err != nil {
			t.Fatalf("scenario %d: dirk New: %v", sc.Sc, err)
		}
		if len(s.accounts) != 0 || node.Calls() != 0 {
			t.Fatalf("scenario %d: the service found accounts without a server", sc.Sc)
		}
		// from now on the service's wallets are the scripted ones
		wallets := map[string]*c13Wallet{}
		s.walletsMutex.Lock()
		for name, w := range u.Wallets {
			wallets[name] = &c13Wallet{Wallet: w}
			s.wallets[name] = wallets[name]
		}
		s.walletsMutex.Unlock()
		scID := sc.Sc
		in := &c13support.Instances{
			U:    u,
			Node: node,
			VM:   vm,
			Offer: func(offer []c13support.Name) {
				per := map[string][]e2wtypes.Account{}
				for _, n := range offer {
					_, ok := wallets[n.W]
					acc, ok2 := u.Accounts[n.Text()]
					if !ok || !ok2 {
						t.Fatalf("scenario %d offers unknown account %s", scID, n.Text())
					}
					per[n.W] = append(per[n.W], acc)
				}
				for name, w := range wallets {
					w.offer(per[name])
				}
			},
			Refresh: func(ctx context.Context) { s.Refresh(ctx) },
			Manager: func() c13support.Manager { return s },
			Known: func() []c13support.Name {
				s.mutex.RLock()
				defer s.mutex.RUnlock()
				return u.Known(s.accounts)
			},
		}
		tr.Emit(verifsupport.Ev{"sc": sc.Sc, "ev": "Reset", "mgr": st.Mgr, "cfg": st.Cfg, "paths": st.Paths})
		c13support.RunHistory(ctx, t, tr, sc.Sc, in, sc.Steps[1:])
	}
}
