package dirk

// Conformance driver of property C04, WIRED family (spec/AttesterChain.tla, Trace_AttesterChain.tla).
// Injected with -overlay by /verif/check.
//
// It lives in this package because the dirk account manager can only be given wallets from inside
// (no Dirk server exists in the sandbox); the wallet account manager is built through its public New.
//
// One wired instance per history, the way main.go wires the attesting path:
//
//	validators manager (standard) -> account manager (wallet | dirk) -> attester (standard)
//	                                                                      |-> signer (standard)
//	                                                                      `-> submitter (immediate | multinode) -> node
//
// Everything above is the REAL code.  The fakes are one layer further out: the beacon node (validator
// registry = c13support.Node, attestation data, attester duties, attestation pool) and the wallet store
// (a filesystem store whose account files are shown / hidden; for dirk: real nd wallets of that store
// whose Accounts() are scripted, standing for the Dirk server).  The controller's steps (validating
// indices of the epoch -> duties of exactly those indices -> attester.MergeDuties -> Attest) are carried
// out by the driver.
//
// The judge is the node: every attestation it received is decoded, and `by` is the validator of the
// chain under whose public key the BLS signature verifies.

import (
	"context"
	"encoding/binary"
	"fmt"
	"sort"
	"sync"
	"testing"
	"time"

	eth2client "github.com/attestantio/go-eth2-client"
	"github.com/attestantio/go-eth2-client/api"
	apiv1 "github.com/attestantio/go-eth2-client/api/v1"
	"github.com/attestantio/go-eth2-client/spec/phase0"
	"github.com/attestantio/vouch/mock"
	"github.com/attestantio/vouch/services/accountmanager"
	walletaccountmanager "github.com/attestantio/vouch/services/accountmanager/wallet"
	"github.com/attestantio/vouch/services/attester"
	standardattester "github.com/attestantio/vouch/services/attester/standard"
	nullmetrics "github.com/attestantio/vouch/services/metrics/null"
	standardsigner "github.com/attestantio/vouch/services/signer/standard"
	"github.com/attestantio/vouch/services/submitter"
	immediatesubmitter "github.com/attestantio/vouch/services/submitter/immediate"
	multinodesubmitter "github.com/attestantio/vouch/services/submitter/multinode"
	"github.com/attestantio/vouch/services/validatorsmanager"
	"github.com/attestantio/vouch/testing/resources"
	"github.com/attestantio/vouch/verifdrivers/c13support"
	"github.com/attestantio/vouch/verifsupport"
	"github.com/rs/zerolog"
	e2types "github.com/wealdtech/go-eth2-types/v2"
	filesystem "github.com/wealdtech/go-eth2-wallet-store-filesystem"
	e2wtypes "github.com/wealdtech/go-eth2-wallet-types/v2"
)

const (
	c04ChainSize = 5
	c04SPE       = 32
)

type c04Step struct {
	Ev    string   `json:"ev"`
	Mgr   string   `json:"mgr"`
	Sub   string   `json:"sub"`
	Ours  []uint64 `json:"ours"`
	Offer []uint64 `json:"offer"`
	Knows []uint64 `json:"knows"`
	Err   bool     `json:"err"`
	E     uint64   `json:"e"`
	S     uint64   `json:"s"`
}

type c04Scenario struct {
	Sc    int       `json:"sc"`
	Steps []c04Step `json:"steps"`
}

// The beacon node's duty oracle (AttesterChain.tla: SlotOf, CommOf, PosOf, SizeOfC).
func c04SlotOf(i, e uint64) uint64 { return e*c04SPE + 1 + ((i + e) % 2) }
func c04CommOf(i, e uint64) uint64 { return (i + 2*e) % 3 }
func c04PosOf(i, e uint64) uint64  { return i + 3*(e%2) }
func c04SizeOf(c, s uint64) uint64 { return 10 + c + (s % 2) }

func c04Name(i uint64) c13support.Name {
	return c13support.Name{W: "W", A: []string{fmt.Sprintf("v%d", i)}}
}

// c04Wallet is a real nd wallet whose Accounts are scripted (the Dirk server's side).
type c04Wallet struct {
	e2wtypes.Wallet
	mu      sync.Mutex
	offered []e2wtypes.Account
}

func (w *c04Wallet) offer(accounts []e2wtypes.Account) {
	w.mu.Lock()
	defer w.mu.Unlock()
	w.offered = accounts
}

func (w *c04Wallet) Accounts(_ context.Context) <-chan e2wtypes.Account {
	w.mu.Lock()
	offered := w.offered
	w.mu.Unlock()
	ch := make(chan e2wtypes.Account, len(offered))
	for _, a := range offered {
		ch <- a
	}
	close(ch)
	return ch
}

// c04Node is the rest of the beacon node: attestation data, attester duties, attestation pool.
type c04Node struct {
	mu       sync.Mutex
	keys     []phase0.BLSPubKey
	received []*phase0.Attestation
}

func c04Root(kind byte, id uint64) phase0.Root {
	var r phase0.Root
	r[0] = kind
	binary.LittleEndian.PutUint64(r[8:], id)
	return r
}

// AttestationData implements eth2client.AttestationDataProvider: data of the slot asked for; the block root
// carries the slot as its id (DataRoot(s) = s).
func (*c04Node) AttestationData(_ context.Context, opts *api.AttestationDataOpts) (*api.Response[*phase0.AttestationData], error) {
	s := uint64(opts.Slot)
	e := s / c04SPE
	src := uint64(0)
	if e > 0 {
		src = e - 1
	}
	return &api.Response[*phase0.AttestationData]{
		Data: &phase0.AttestationData{
			Slot:            opts.Slot,
			Index:           opts.CommitteeIndex,
			BeaconBlockRoot: c04Root(0xb1, s),
			Source:          &phase0.Checkpoint{Epoch: phase0.Epoch(src), Root: c04Root(0x50, src)},
			Target:          &phase0.Checkpoint{Epoch: phase0.Epoch(e), Root: c04Root(0x70, e)},
		},
		Metadata: map[string]any{},
	}, nil
}

// SubmitAttestations implements eth2client.AttestationsSubmitter.
func (n *c04Node) SubmitAttestations(_ context.Context, attestations []*phase0.Attestation) error {
	n.mu.Lock()
	defer n.mu.Unlock()
	n.received = append(n.received, attestations...)
	return nil
}

func (n *c04Node) take() []*phase0.Attestation {
	n.mu.Lock()
	defer n.mu.Unlock()
	res := n.received
	n.received = nil
	return res
}

// attesterDuties answers the attester duties endpoint for an epoch's indices, filtered to one slot (the
// controller schedules one job per slot out of the answer).  Indices the chain does not have get nothing.
func (n *c04Node) attesterDuties(slot uint64, indices []phase0.ValidatorIndex) []*apiv1.AttesterDuty {
	e := slot / c04SPE
	res := make([]*apiv1.AttesterDuty, 0, len(indices))
	for _, index := range indices {
		i := uint64(index)
		if i >= c04ChainSize || c04SlotOf(i, e) != slot {
			continue
		}
		c := c04CommOf(i, e)
		res = append(res, &apiv1.AttesterDuty{
			PubKey:                  n.keys[i],
			Slot:                    phase0.Slot(slot),
			ValidatorIndex:          index,
			CommitteeIndex:          phase0.CommitteeIndex(c),
			CommitteeLength:         c04SizeOf(c, slot),
			CommitteesAtSlot:        3,
			ValidatorCommitteeIndex: c04PosOf(i, e),
		})
	}
	return res
}

// c04Manager is what the driver needs of an account manager.
type c04Manager interface {
	accountmanager.ValidatingAccountsProvider
	accountmanager.Refresher
	AccountByPublicKey(ctx context.Context, pubkey phase0.BLSPubKey) (e2wtypes.Account, error)
}

// c04Call runs fn on its own goroutine: "" when it returned, "Crash" when it panicked, "Hung" when it did not
// return in time (40 s).
func c04Call(fn func()) (string, string) {
	done := make(chan string, 1)
	go func() {
		defer func() {
			if r := recover(); r != nil {
				done <- fmt.Sprintf("%v", r)
			}
		}()
		fn()
		done <- ""
	}()
	select {
	case p := <-done:
		if p != "" {
			return "Crash", p
		}
		return "", ""
	case <-time.After(40 * time.Second):
		return "Hung", ""
	}
}

func TestVerifC04Wired(t *testing.T) {
	var scenarios []c04Scenario
	verifsupport.Scenarios(t, &scenarios)
	tr := verifsupport.OpenTrace(t)
	defer tr.Close()
	ctx := context.Background()
	zerolog.SetGlobalLevel(zerolog.Disabled)

	// the chain: validators 0..4, real keys, kept as accounts of one nd wallet in a filesystem store
	dir := t.TempDir()
	store := filesystem.New(filesystem.WithLocation(dir))
	names := make([][]string, 0, c04ChainSize)
	for i := uint64(0); i < c04ChainSize; i++ {
		names = append(names, c04Name(i).A)
	}
	u := c13support.BuildUniverse(ctx, t, store, map[string][][]string{"W": names})
	keyOf := make([]phase0.BLSPubKey, c04ChainSize)
	pubOf := make([]e2types.PublicKey, c04ChainSize)
	idOf := map[phase0.BLSPubKey]int{}
	for i := uint64(0); i < c04ChainSize; i++ {
		acc := u.Accounts[c04Name(i).Text()]
		// (for the dirk manager the accounts stand for keys held by the Dirk server: they can sign)
		if locker, ok := acc.(e2wtypes.AccountLocker); ok {
			if err := locker.Unlock(ctx, []byte(c13support.Passphrase)); err != nil {
				t.Fatalf("unlock %s: %v", c04Name(i).Text(), err)
			}
		}
		pubOf[i] = acc.PublicKey()
		copy(keyOf[i][:], acc.PublicKey().Marshal())
		idOf[keyOf[i]] = int(i)
	}

	specProvider := mock.NewSpecProvider()
	domainProvider := mock.NewDomainProvider()
	domain, err := domainProvider.Domain(ctx, phase0.DomainType{0x00, 0x00, 0x00, 0x00}, 0)
	if err != nil {
		t.Fatal(err)
	}
	monitor := nullmetrics.New()
	ct := verifsupport.NewChainTime(c04SPE, 12*time.Second)

	// whose key verifies the signature: the attributed validator first, then everybody else
	signedBy := func(att *phase0.Attestation, first int) int {
		dataRoot, err := att.Data.HashTreeRoot()
		if err != nil {
			return -1
		}
		signingRoot, err := (&phase0.SigningData{ObjectRoot: dataRoot, Domain: domain}).HashTreeRoot()
		if err != nil {
			return -1
		}
		sigBytes := make([]byte, len(att.Signature))
		copy(sigBytes, att.Signature[:])
		sig, err := e2types.BLSSignatureFromBytes(sigBytes)
		if err != nil {
			return -1
		}
		if first >= 0 && first < c04ChainSize && sig.Verify(signingRoot[:], pubOf[first]) {
			return first
		}
		for i := 0; i < c04ChainSize; i++ {
			if i != first && sig.Verify(signingRoot[:], pubOf[i]) {
				return i
			}
		}
		return -1
	}

	for _, sc := range scenarios {
		if len(sc.Steps) == 0 || sc.Steps[0].Ev != "Reset" {
			t.Fatalf("scenario %d does not start with Reset", sc.Sc)
		}
		st0 := sc.Steps[0]
		paths := make([]string, 0, len(st0.Ours))
		for _, i := range st0.Ours {
			paths = append(paths, c04Name(i).Text())
		}
		vnode := c13support.NewNode(u)
		node := &c04Node{keys: keyOf}
		var vm validatorsmanager.Service = c13support.NewValidatorsManager(ctx, t, vnode)

		var am c04Manager
		var dirkWallet *c04Wallet
		offer := func(ids []uint64) {
			ns := make([]c13support.Name, 0, len(ids))
			accs := make([]e2wtypes.Account, 0, len(ids))
			for _, i := range ids {
				ns = append(ns, c04Name(i))
				accs = append(accs, u.Accounts[c04Name(i).Text()])
			}
			if st0.Mgr == "dirk" {
				dirkWallet.offer(accs)
				return
			}
			if err := u.ShowOnly(dir, ns); err != nil {
				t.Fatalf("scenario %d: %v", sc.Sc, err)
			}
		}
		var newWallet func() error
		switch st0.Mgr {
		case "dirk":
			s, err := New(ctx,
				WithLogLevel(zerolog.Disabled),
				WithMonitor(monitor),
				WithClientMonitor(monitor),
				WithProcessConcurrency(4),
				WithTimeout(250*time.Millisecond),
				WithEndpoints([]string{"localhost:1"}),
				WithAccountPaths(paths),
				WithClientCert([]byte(resources.ClientTest01Crt)),
				WithClientKey([]byte(resources.ClientTest01Key)),
				WithCACert([]byte(resources.CACrt)),
				WithValidatorsManager(vm),
				WithDomainProvider(domainProvider),
				WithFarFutureEpochProvider(mock.NewFarFutureEpochProvider(c13support.FarFutureEpoch)),
				WithCurrentEpochProvider(ct),
			)
			if err != nil {
				t.Fatalf("scenario %d: dirk New: %v", sc.Sc, err)
			}
			dirkWallet = &c04Wallet{Wallet: u.Wallets["W"]}
			s.walletsMutex.Lock()
			s.wallets["W"] = dirkWallet
			s.walletsMutex.Unlock()
			am = s
		case "wallet":
			// the constructor performs the first refresh
			newWallet = func() error {
				s, err := walletaccountmanager.New(ctx,
					walletaccountmanager.WithLogLevel(zerolog.Disabled),
					walletaccountmanager.WithMonitor(monitor),
					walletaccountmanager.WithProcessConcurrency(4),
					walletaccountmanager.WithLocations([]string{dir}),
					walletaccountmanager.WithAccountPaths(paths),
					walletaccountmanager.WithPassphrases([][]byte{[]byte(c13support.Passphrase)}),
					walletaccountmanager.WithValidatorsManager(vm),
					walletaccountmanager.WithSpecProvider(specProvider),
					walletaccountmanager.WithFarFutureEpochProvider(mock.NewFarFutureEpochProvider(c13support.FarFutureEpoch)),
					walletaccountmanager.WithDomainProvider(domainProvider),
					walletaccountmanager.WithCurrentEpochProvider(ct),
				)
				if err != nil {
					return err
				}
				am = s
				return nil
			}
		default:
			t.Fatalf("scenario %d: manager %q", sc.Sc, st0.Mgr)
		}

		// attester, signer, submitter: built once the account manager exists
		var att *standardattester.Service
		build := func() {
			signerSvc, err := standardsigner.New(ctx,
				standardsigner.WithLogLevel(zerolog.Disabled),
				standardsigner.WithMonitor(monitor),
				standardsigner.WithClientMonitor(monitor),
				standardsigner.WithSpecProvider(specProvider),
				standardsigner.WithDomainProvider(domainProvider),
			)
			if err != nil {
				t.Fatalf("scenario %d: signer New: %v", sc.Sc, err)
			}
			// the submitter strategy main.go selects: immediate, or multinode (here with one node; it scatters the
			// attestations over concurrent batches)
			var submitterSvc submitter.AttestationsSubmitter
			if st0.Sub == "multinode" {
				submitterSvc, err = multinodesubmitter.New(ctx,
					multinodesubmitter.WithLogLevel(zerolog.Disabled),
					multinodesubmitter.WithClientMonitor(monitor),
					multinodesubmitter.WithProcessConcurrency(2),
					// (short: the strategy's completion signal can be sent before SubmitAttestations waits for it - a
					// fast node - and the call then returns only at this timeout; that delay is not C04's subject)
					multinodesubmitter.WithTimeout(time.Second),
					multinodesubmitter.WithAttestationsSubmitters(map[string]eth2client.AttestationsSubmitter{"node": node}),
					multinodesubmitter.WithProposalSubmitters(map[string]eth2client.ProposalSubmitter{"node": mock.NewProposalSubmitter()}),
					multinodesubmitter.WithSyncCommitteeMessagesSubmitters(map[string]eth2client.SyncCommitteeMessagesSubmitter{"node": mock.NewSyncCommitteeMessagesSubmitter()}),
					multinodesubmitter.WithSyncCommitteeSubscriptionsSubmitters(map[string]eth2client.SyncCommitteeSubscriptionsSubmitter{"node": mock.NewSyncCommitteeSubscriptionsSubmitter()}),
					multinodesubmitter.WithSyncCommitteeContributionsSubmitters(map[string]eth2client.SyncCommitteeContributionsSubmitter{"node": mock.NewSyncCommitteeContributionsSubmitter()}),
					multinodesubmitter.WithBeaconCommitteeSubscriptionsSubmitters(map[string]eth2client.BeaconCommitteeSubscriptionsSubmitter{"node": mock.NewBeaconCommitteeSubscriptionsSubmitter()}),
					multinodesubmitter.WithAggregateAttestationsSubmitters(map[string]eth2client.AggregateAttestationsSubmitter{"node": mock.NewAggregateAttestationsSubmitter()}),
					multinodesubmitter.WithProposalPreparationsSubmitters(map[string]eth2client.ProposalPreparationsSubmitter{"node": mock.NewProposalPreparationsSubmitter()}),
				)
			} else {
				submitterSvc, err = immediatesubmitter.New(ctx,
					immediatesubmitter.WithLogLevel(zerolog.Disabled),
					immediatesubmitter.WithClientMonitor(monitor),
					immediatesubmitter.WithAttestationsSubmitter(eth2client.AttestationsSubmitter(node)),
					immediatesubmitter.WithProposalSubmitter(mock.NewProposalSubmitter()),
					immediatesubmitter.WithSyncCommitteeMessagesSubmitter(mock.NewSyncCommitteeMessagesSubmitter()),
					immediatesubmitter.WithSyncCommitteeSubscriptionsSubmitter(mock.NewSyncCommitteeSubscriptionsSubmitter()),
					immediatesubmitter.WithSyncCommitteeContributionsSubmitter(mock.NewSyncCommitteeContributionsSubmitter()),
					immediatesubmitter.WithBeaconCommitteeSubscriptionsSubmitter(mock.NewBeaconCommitteeSubscriptionsSubmitter()),
					immediatesubmitter.WithAggregateAttestationsSubmitter(mock.NewAggregateAttestationsSubmitter()),
					immediatesubmitter.WithProposalPreparationsSubmitter(mock.NewProposalPreparationsSubmitter()),
				)
			}
			if err != nil {
				t.Fatalf("scenario %d: submitter New: %v", sc.Sc, err)
			}
			att, err = standardattester.New(ctx,
				standardattester.WithLogLevel(zerolog.Disabled),
				standardattester.WithMonitor(monitor),
				standardattester.WithProcessConcurrency(2),
				standardattester.WithChainTime(ct),
				standardattester.WithSpecProvider(specProvider),
				standardattester.WithAttestationDataProvider(eth2client.AttestationDataProvider(node)),
				standardattester.WithAttestationsSubmitter(submitterSvc),
				standardattester.WithValidatingAccountsProvider(am),
				standardattester.WithBeaconAttestationsSigner(signerSvc),
			)
			if err != nil {
				t.Fatalf("scenario %d: attester New: %v", sc.Sc, err)
			}
		}

		tr.Emit(verifsupport.Ev{"sc": sc.Sc, "ev": "Reset", "mgr": st0.Mgr, "sub": st0.Sub, "ours": st0.Ours})
		plan := map[uint64][]phase0.ValidatorIndex{}
		dead := false
		fail := func(kind, what, msg string) {
			tr.Emit(verifsupport.Ev{"sc": sc.Sc, "ev": kind, "in": what, "msg": msg})
			dead = true
		}
		for _, st := range sc.Steps[1:] {
			if dead {
				break
			}
			switch st.Ev {
			case "Refresh":
				offer(st.Offer)
				recs := make([]c13support.Rec, 0, len(st.Knows))
				for _, i := range st.Knows {
					recs = append(recs, c13support.Rec{N: c04Name(i), Index: i, Elig: 0, Act: 0, Exit: c13support.ModelFFE, Wd: c13support.ModelFFE})
				}
				mode := "ok"
				if st.Err {
					mode = "err"
				}
				vnode.Script(mode, recs)
				var nerr error
				kind, msg := c04Call(func() {
					if am == nil {
						nerr = newWallet()
						return
					}
					am.Refresh(ctx)
				})
				if kind != "" {
					fail(kind, "Refresh", msg)
					continue
				}
				if nerr != nil {
					t.Fatalf("scenario %d: wallet New: %v", sc.Sc, nerr)
				}
				if att == nil {
					build()
				}
				held := []int{}
				for i := 0; i < c04ChainSize; i++ {
					if acc, err := am.AccountByPublicKey(ctx, keyOf[i]); err == nil && acc != nil {
						held = append(held, i)
					}
				}
				table := [][]int{}
				for i := 0; i < c04ChainSize; i++ {
					// one key at a time: the pairing index <-> key comes from the manager
					for idx, v := range vm.ValidatorsByPubKey(ctx, []phase0.BLSPubKey{keyOf[i]}) {
						k, ok := idOf[v.PublicKey]
						if !ok {
							k = -1
						}
						table = append(table, []int{int(idx), k})
					}
				}
				byidx := [][]int{}
				for i := 0; i < c04ChainSize+3; i++ {
					for idx, v := range vm.ValidatorsByIndex(ctx, []phase0.ValidatorIndex{phase0.ValidatorIndex(i)}) {
						k, ok := idOf[v.PublicKey]
						if !ok {
							k = -1
						}
						byidx = append(byidx, []int{int(idx), k})
					}
				}
				tr.Emit(verifsupport.Ev{"sc": sc.Sc, "ev": "Refresh", "offer": st.Offer, "knows": st.Knows, "err": st.Err,
					"held": held, "table": table, "byidx": byidx})
			case "Plan":
				var accounts map[phase0.ValidatorIndex]e2wtypes.Account
				var perr error
				kind, msg := c04Call(func() { accounts, perr = am.ValidatingAccountsForEpoch(ctx, phase0.Epoch(st.E)) })
				if kind != "" {
					fail(kind, "Plan", msg)
					continue
				}
				if perr != nil {
					t.Fatalf("scenario %d: ValidatingAccountsForEpoch: %v", sc.Sc, perr)
				}
				indices := make([]phase0.ValidatorIndex, 0, len(accounts))
				for index := range accounts {
					indices = append(indices, index)
				}
				sort.Slice(indices, func(i, j int) bool { return indices[i] < indices[j] })
				plan[st.E] = indices
				idx := make([]uint64, 0, len(indices))
				for _, i := range indices {
					idx = append(idx, uint64(i))
				}
				tr.Emit(verifsupport.Ev{"sc": sc.Sc, "ev": "Plan", "e": st.E, "idx": idx})
			case "Attest":
				e := st.S / c04SPE
				ct.SetSlot(st.S)
				apiDuties := node.attesterDuties(st.S, plan[e])
				dutyRows := [][]uint64{}
				for _, d := range apiDuties {
					dutyRows = append(dutyRows, []uint64{uint64(d.ValidatorIndex), uint64(d.CommitteeIndex), d.ValidatorCommitteeIndex})
				}
				if len(apiDuties) == 0 {
					tr.Emit(verifsupport.Ev{"sc": sc.Sc, "ev": "Attest", "s": st.S, "called": false, "duty": dutyRows, "atts": []int{}, "err": false})
					continue
				}
				duties, err := attester.MergeDuties(ctx, apiDuties)
				if err != nil || len(duties) != 1 {
					t.Fatalf("scenario %d: MergeDuties: %v (%d duties)", sc.Sc, err, len(duties))
				}
				node.take()
				var aerr error
				kind, msg := c04Call(func() { _, aerr = att.Attest(ctx, duties[0]) })
				if kind != "" {
					fail(kind, "Attest", msg)
					continue
				}
				atts := []verifsupport.Ev{}
				for _, a := range node.take() {
					bits := []uint64{}
					for _, b := range a.AggregationBits.BitIndices() {
						bits = append(bits, uint64(b))
					}
					// the validator the duty oracle puts at (slot, committee, bit)
					forV := -1
					if len(bits) == 1 {
						for i := uint64(0); i < c04ChainSize; i++ {
							if c04SlotOf(i, e) == uint64(a.Data.Slot) && c04CommOf(i, e) == uint64(a.Data.Index) && c04PosOf(i, e) == bits[0] {
								forV = int(i)
							}
						}
					}
					root := int64(-1)
					if a.Data.BeaconBlockRoot == c04Root(0xb1, uint64(a.Data.Slot)) &&
						a.Data.Source.Root == c04Root(0x50, uint64(a.Data.Source.Epoch)) &&
						a.Data.Target.Root == c04Root(0x70, uint64(a.Data.Target.Epoch)) {
						root = int64(a.Data.Slot)
					}
					atts = append(atts, verifsupport.Ev{
						"slot": uint64(a.Data.Slot), "index": uint64(a.Data.Index), "size": a.AggregationBits.Len(), "bits": bits,
						"src": uint64(a.Data.Source.Epoch), "tgt": uint64(a.Data.Target.Epoch), "root": root,
						"for": forV, "by": signedBy(a, forV),
					})
				}
				tr.Emit(verifsupport.Ev{"sc": sc.Sc, "ev": "Attest", "s": st.S, "called": true, "duty": dutyRows, "atts": atts, "err": aerr != nil})
			default:
				t.Fatalf("scenario %d: step %q", sc.Sc, st.Ev)
			}
		}
	}
}
