package dirk

// Conformance driver of property C17 (spec/Concurrency.tla), group "dirk": the periodic accounts refresh of the
// dirk account manager || the account queries every duty job makes (ValidatingAccountsForEpoch,
// SyncCommitteeAccountsForEpoch and their ByIndex variants; refreshValidators is part of the refresh).
// Injected with -overlay by /verif/check, BUILT WITH -race; the schedule runner is verifdrivers/c17run.
//
// REAL dirk.Service built with New(...) against an unreachable endpoint (no Dirk server exists in the sandbox:
// Dirk's gRPC path is NOT exercised).  After construction the wallets the service would open are put into its
// own wallet cache: two real nd wallets (real BLS keys) whose account LISTING is scripted - what Dirk lists at
// the moment (Offer), which wallet's listing comes in first (Refresh.first), and a gate between the two
// listings.  Everything from there on is the service's own code: refreshAccounts (wallet goroutines, key list,
// publication), refreshValidators, the queries.  REAL validatorsmanager/standard.Service behind a pass-through
// wrapper that only adds gates (it never looks at the keys it hands on); the beacon node knows every validator
// of the universe and reports all of them whatever it is asked for, so that what a query reports depends on
// the account manager's own lists only.
//
// ONE service instance serves many histories (a new one per schedule, kept over its repetitions: some 40
// refreshes): the prologue of every history re-establishes the accounts, every overlapping refresh is a second
// or later refresh of its instance.
//
// An abstract account 1 / 2 is the block of c17DirkBlock accounts of wallet 1 / 2.  Result of a query: the mask
// of the blocks reported completely; -1 error, -2 Torn (part of a block), -3 an index reported with a nil or a
// foreign account, -7 the query panicked.  None of the negative results is a result of the sequential meaning.

import (
	"context"
	"fmt"
	"os"
	"sync"
	"testing"
	"time"

	"github.com/attestantio/go-eth2-client/api"
	apiv1 "github.com/attestantio/go-eth2-client/api/v1"
	"github.com/attestantio/go-eth2-client/spec/phase0"
	"github.com/attestantio/vouch/mock"
	nullmetrics "github.com/attestantio/vouch/services/metrics/null"
	"github.com/attestantio/vouch/services/validatorsmanager"
	standardvalidatorsmanager "github.com/attestantio/vouch/services/validatorsmanager/standard"
	"github.com/attestantio/vouch/testing/resources"
	"github.com/attestantio/vouch/util"
	"github.com/attestantio/vouch/verifdrivers/c17run"
	"github.com/attestantio/vouch/verifsupport"
	e2types "github.com/wealdtech/go-eth2-types/v2"
	keystorev4 "github.com/wealdtech/go-eth2-wallet-encryptor-keystorev4"
	nd "github.com/wealdtech/go-eth2-wallet-nd/v2"
	scratch "github.com/wealdtech/go-eth2-wallet-store-scratch"
	e2wtypes "github.com/wealdtech/go-eth2-wallet-types/v2"
)

const (
	c17DirkBlock     = 8
	c17DirkFFE       = phase0.Epoch(0xffffffffffffffff)
	c17DirkEpoch     = 3
	c17DirkGateWait  = 2 * time.Second
	c17DirkSettle    = 250 * time.Microsecond
	c17DirkResErr    = -1
	c17DirkResTorn   = -2
	c17DirkResNil    = -3
	c17DirkResPanic  = -7
	c17DirkHoldMid   = "refresh-mid"
	c17DirkHoldQuery = "query-snap"
)

type c17DirkCtxKey struct{}

// c17DirkHistory holds the gates of one history (fresh channels per history; closed at most once).
type c17DirkHistory struct {
	hold      string
	parIDs    map[int]bool
	heldQuery int // id of the query held at the validators manager (query-snap)
	nQueries  int // overlapping queries (refresh-mid waits for them)

	mu           sync.Mutex
	queriesDone  int
	midReached   chan struct{}
	midRelease   chan struct{}
	queryAt      chan struct{}
	queryRelease chan struct{}
	queryDone    chan struct{}
	closed       map[string]bool
}

func (h *c17DirkHistory) close(name string, ch chan struct{}) {
	h.mu.Lock()
	defer h.mu.Unlock()
	if !h.closed[name] {
		h.closed[name] = true
		close(ch)
	}
}

func c17DirkWait(ch chan struct{}) {
	select {
	case <-ch:
	case <-time.After(c17DirkGateWait):
	}
}

// c17DirkRound is the listing script of the refresh in progress (there is one refresher).
type c17DirkRound struct {
	first     int
	offer     [3]bool
	holdMid   bool
	firstDone chan struct{}
	once      sync.Once
}

// c17DirkWallet is a real nd wallet (ID, Name, ... promoted) whose account listing is scripted.
type c17DirkWallet struct {
	e2wtypes.Wallet
	g        *c17DirkGroup
	n        int
	accounts []e2wtypes.Account
}

func (w *c17DirkWallet) Accounts(_ context.Context) <-chan e2wtypes.Account {
	w.g.mu.Lock()
	round, h := w.g.round, w.g.h
	w.g.mu.Unlock()
	var offered []e2wtypes.Account
	if round != nil && round.offer[w.n] {
		offered = w.accounts
	}
	if round == nil || w.n == round.first {
		// the listing that comes in first: streamed as Dirk's does; when the last account has been taken the service
		// imports the wallet's accounts into the refresh's containers
		ch := make(chan e2wtypes.Account)
		go func() {
			for _, a := range offered {
				ch <- a
			}
			close(ch)
			if round != nil {
				round.once.Do(func() { close(round.firstDone) })
			}
		}()
		return ch
	}
	// the other wallet's listing only arrives when the first wallet's accounts have been taken in
	c17DirkWait(round.firstDone)
	time.Sleep(c17DirkSettle)
	if round.holdMid && h != nil {
		// refresh-mid: the refresh is held here until the overlapping queries have returned
		h.close("midReached", h.midReached)
		c17DirkWait(h.midRelease)
	}
	ch := make(chan e2wtypes.Account, len(offered))
	for _, a := range offered {
		ch <- a
	}
	close(ch)
	return ch
}

// c17DirkVM passes every call on to the REAL validators manager; it only adds the gates.
type c17DirkVM struct {
	validatorsmanager.Service
	g *c17DirkGroup
}

func (v *c17DirkVM) ValidatorsByPubKey(ctx context.Context, pubKeys []phase0.BLSPubKey) map[phase0.ValidatorIndex]*phase0.Validator {
	v.g.mu.Lock()
	h := v.g.h
	v.g.mu.Unlock()
	if id, ok := ctx.Value(c17DirkCtxKey{}).(int); ok && h != nil && h.hold == c17DirkHoldQuery && id == h.heldQuery {
		// query-snap: the query has taken its snapshot of the key list and is held before it uses it
		h.mu.Lock()
		first := !h.closed["queryAt"]
		h.mu.Unlock()
		if first {
			h.close("queryAt", h.queryAt)
			c17DirkWait(h.queryRelease)
		}
	}
	return v.Service.ValidatorsByPubKey(ctx, pubKeys)
}

func (v *c17DirkVM) RefreshValidatorsFromBeaconNode(ctx context.Context, pubKeys []phase0.BLSPubKey) error {
	v.g.mu.Lock()
	h := v.g.h
	v.g.mu.Unlock()
	if id, ok := ctx.Value(c17DirkCtxKey{}).(int); ok && h != nil && h.hold == c17DirkHoldQuery && h.parIDs[id] {
		// the refresh has published its accounts: the held query goes on; the refresh waits for it to return
		h.close("queryRelease", h.queryRelease)
		c17DirkWait(h.queryDone)
	}
	return v.Service.RefreshValidatorsFromBeaconNode(ctx, pubKeys)
}

// c17DirkNode is the beacon node: it knows every validator of the universe, all active, and reports all of them.
type c17DirkNode struct {
	validators map[phase0.ValidatorIndex]*apiv1.Validator
}

func (n *c17DirkNode) Validators(_ context.Context, _ *api.ValidatorsOpts) (*api.Response[map[phase0.ValidatorIndex]*apiv1.Validator], error) {
	res := make(map[phase0.ValidatorIndex]*apiv1.Validator, len(n.validators))
	for k, v := range n.validators {
		res[k] = v
	}
	return &api.Response[map[phase0.ValidatorIndex]*apiv1.Validator]{Data: res, Metadata: map[string]any{}}, nil
}

type c17DirkGroup struct {
	t       *testing.T
	wallets [3]*c17DirkWallet
	node    *c17DirkNode
	keyOf   map[phase0.ValidatorIndex]phase0.BLSPubKey
	indices []phase0.ValidatorIndex
	ct      *verifsupport.ChainTime

	mu       sync.Mutex
	s        *Service
	offer    [3]bool
	round    *c17DirkRound
	h        *c17DirkHistory
	poisoned bool
}

func c17NewDirk(ctx context.Context, t *testing.T) *c17DirkGroup {
	if err := e2types.InitBLS(); err != nil {
		t.Fatalf("InitBLS: %v", err)
	}
	g := &c17DirkGroup{t: t, keyOf: map[phase0.ValidatorIndex]phase0.BLSPubKey{}, ct: verifsupport.NewChainTime(32, 12*time.Second)}
	g.ct.SetSlot(32 * c17DirkEpoch)
	g.node = &c17DirkNode{validators: map[phase0.ValidatorIndex]*apiv1.Validator{}}
	store := scratch.New()
	encryptor := keystorev4.New(keystorev4.WithCost(t, 4))
	for n := 1; n <= 2; n++ {
		name := fmt.Sprintf("W%d", n)
		wallet, err := nd.CreateWallet(ctx, name, store, encryptor)
		if err != nil {
			t.Fatalf("create wallet: %v", err)
		}
		if err := wallet.(e2wtypes.WalletLocker).Unlock(ctx, nil); err != nil {
			t.Fatalf("unlock wallet: %v", err)
		}
		w := &c17DirkWallet{Wallet: wallet, g: g, n: n}
		for i := 0; i < c17DirkBlock; i++ {
			acc, err := wallet.(e2wtypes.WalletAccountCreator).CreateAccount(ctx, fmt.Sprintf("a%d", i), []byte("pass"))
			if err != nil {
				t.Fatalf("create account: %v", err)
			}
			w.accounts = append(w.accounts, acc)
			key := util.ValidatorPubkey(acc)
			index := phase0.ValidatorIndex(1000*n + i)
			g.keyOf[index] = key
			g.indices = append(g.indices, index)
			balance := phase0.Gwei(32000000000)
			g.node.validators[index] = &apiv1.Validator{
				Index:   index,
				Balance: balance,
				Status:  apiv1.ValidatorStateActiveOngoing,
				Validator: &phase0.Validator{
					PublicKey:             key,
					WithdrawalCredentials: make([]byte, 32),
					EffectiveBalance:      balance,
					ExitEpoch:             c17DirkFFE,
					WithdrawableEpoch:     c17DirkFFE,
				},
			}
		}
		g.wallets[n] = w
	}
	g.build(ctx)
	return g
}

// build creates a fresh service instance (fresh validators manager) and fills its wallet cache.
func (g *c17DirkGroup) build(ctx context.Context) {
	vm, err := standardvalidatorsmanager.New(ctx,
		standardvalidatorsmanager.WithLogLevel(c17run.LogLevel()),
		standardvalidatorsmanager.WithMonitor(nullmetrics.New()),
		standardvalidatorsmanager.WithClientMonitor(nullmetrics.New()),
		standardvalidatorsmanager.WithValidatorsProvider(g.node),
		standardvalidatorsmanager.WithFarFutureEpoch(c17DirkFFE),
	)
	if err != nil {
		g.t.Fatalf("validators manager: %v", err)
	}
	// the validators manager knows every validator from the start
	if err := vm.RefreshValidatorsFromBeaconNode(ctx, nil); err != nil {
		g.t.Fatalf("validators manager refresh: %v", err)
	}
	s, err := New(ctx,
		WithLogLevel(c17run.LogLevel()),
		WithMonitor(nullmetrics.New()),
		WithClientMonitor(nullmetrics.New()),
		WithProcessConcurrency(2),
		WithTimeout(250*time.Millisecond),
		WithEndpoints([]string{"localhost:1"}),
		WithAccountPaths([]string{"W1", "W2"}),
		WithClientCert([]byte(resources.ClientTest01Crt)),
		WithClientKey([]byte(resources.ClientTest01Key)),
		WithCACert([]byte(resources.CACrt)),
		WithValidatorsManager(&c17DirkVM{Service: vm, g: g}),
		WithDomainProvider(mock.NewDomainProvider()),
		WithFarFutureEpochProvider(mock.NewFarFutureEpochProvider(c17DirkFFE)),
		WithCurrentEpochProvider(g.ct),
	)
	if err != nil {
		g.t.Fatalf("dirk New: %v", err)
	}
	if len(s.accounts) != 0 {
		g.t.Fatalf("the service found accounts without a server")
	}
	// from now on the service's wallets are the scripted ones
	s.walletsMutex.Lock()
	for n := 1; n <= 2; n++ {
		s.wallets[g.wallets[n].Name()] = g.wallets[n]
	}
	s.walletsMutex.Unlock()
	g.mu.Lock()
	g.s = s
	g.poisoned = false
	g.mu.Unlock()
}

func (g *c17DirkGroup) Reset(_ context.Context) {}

// Begin prepares the gates of the history that is about to run; the first repetition of a schedule (and any history
// after a query panicked, which leaves the service's read lock taken) starts on a fresh instance.
func (g *c17DirkGroup) Begin(sc c17run.Schedule, rep int) {
	g.mu.Lock()
	poisoned := g.poisoned
	g.mu.Unlock()
	if rep == 0 || poisoned {
		g.build(context.Background())
	}
	h := &c17DirkHistory{
		hold:         sc.Hold,
		parIDs:       map[int]bool{},
		midReached:   make(chan struct{}),
		midRelease:   make(chan struct{}),
		queryAt:      make(chan struct{}),
		queryRelease: make(chan struct{}),
		queryDone:    make(chan struct{}),
		closed:       map[string]bool{},
	}
	for i, op := range sc.Par {
		id := len(sc.Pre) + 1 + i
		h.parIDs[id] = true
		if op.Name() == "Query" {
			h.nQueries++
			if h.heldQuery == 0 {
				h.heldQuery = id
			}
		}
	}
	g.mu.Lock()
	g.h = h
	g.mu.Unlock()
}

func (g *c17DirkGroup) Call(ctx context.Context, id int, op c17run.Op) (res int) {
	g.mu.Lock()
	s, h := g.s, g.h
	g.mu.Unlock()
	par := h != nil && h.parIDs[id]
	ctx = context.WithValue(ctx, c17DirkCtxKey{}, id)
	switch op.Name() {
	case "Offer":
		g.mu.Lock()
		g.offer = [3]bool{}
		for _, n := range op.Set("x") {
			g.offer[n] = true
		}
		g.mu.Unlock()
		return 0
	case "Refresh":
		g.mu.Lock()
		round := &c17DirkRound{first: op.Int("first"), offer: g.offer, firstDone: make(chan struct{}),
			holdMid: par && h.hold == c17DirkHoldMid}
		g.round = round
		g.mu.Unlock()
		if par && h.hold == c17DirkHoldQuery {
			// the refresh starts when the query has taken its snapshot
			c17DirkWait(h.queryAt)
		}
		s.Refresh(ctx)
		if par && h.hold == c17DirkHoldQuery {
			h.close("queryRelease", h.queryRelease)
		}
		return 0
	case "Query":
		defer func() {
			if r := recover(); r != nil {
				// a panic inside a query leaves the service's read lock taken: the instance is abandoned
				fmt.Fprintf(os.Stderr, "c17 dirk: query %v panicked: %v\n", op, r)
				g.mu.Lock()
				g.poisoned = true
				g.mu.Unlock()
				res = c17DirkResPanic
			}
			if par {
				if id == h.heldQuery {
					h.close("queryDone", h.queryDone)
				}
				h.mu.Lock()
				h.queriesDone++
				all := h.queriesDone >= h.nQueries
				h.mu.Unlock()
				if all {
					h.close("midRelease", h.midRelease)
				}
			}
		}()
		if par && h.hold == c17DirkHoldMid {
			// the query starts when the refresh is between its two wallets
			c17DirkWait(h.midReached)
		}
		var reply map[phase0.ValidatorIndex]e2wtypes.Account
		var err error
		// by_key: ValidatingAccountsForEpoch / SyncCommitteeAccountsForEpoch (one function, two filters), by_index:
		// their ByIndex variants; which of the two is taken by the call id
		switch kind, _ := op["kind"].(string); {
		case kind == "by_key" && id%2 == 0:
			reply, err = s.ValidatingAccountsForEpoch(ctx, c17DirkEpoch)
		case kind == "by_key":
			reply, err = s.SyncCommitteeAccountsForEpoch(ctx, c17DirkEpoch)
		case kind == "by_index" && id%2 == 0:
			reply, err = s.ValidatingAccountsForEpochByIndex(ctx, c17DirkEpoch, g.indices)
		case kind == "by_index":
			reply, err = s.SyncCommitteeAccountsForEpochByIndex(ctx, c17DirkEpoch, g.indices)
		default:
			panic("c17 harness: dirk query kind " + kind)
		}
		if err != nil {
			return c17DirkResErr
		}
		return g.project(reply)
	}
	panic("c17 harness: dirk op " + op.Name())
}

// project maps a reply to the mask of the blocks reported completely (or one of the negative results).
func (g *c17DirkGroup) project(reply map[phase0.ValidatorIndex]e2wtypes.Account) int {
	count := [3]int{}
	for index, account := range reply {
		key, known := g.keyOf[index]
		if !known || account == nil || util.ValidatorPubkey(account) != key {
			return c17DirkResNil
		}
		count[int(index)/1000]++
	}
	res := 0
	for n := 1; n <= 2; n++ {
		switch count[n] {
		case 0:
		case c17DirkBlock:
			res += n
		default:
			return c17DirkResTorn
		}
	}
	return res
}

func (*c17DirkGroup) Close() {}

func TestVerifC17(t *testing.T) {
	c17run.Run(t, map[string]func(ctx context.Context) c17run.Group{
		"dirk": func(ctx context.Context) c17run.Group { return c17NewDirk(ctx, t) },
	})
}
