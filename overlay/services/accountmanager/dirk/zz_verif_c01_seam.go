//go:build verif

package dirk

import (
	e2wtypes "github.com/wealdtech/go-eth2-wallet-types/v2"
)

// VerifC01SetWallets is a test seam for property C01 (injected by /verif with -overlay, never committed):
// it puts wallets into the service's own wallet cache, in place of the ones it would open at a Dirk server
// (none exists in the sandbox).  Everything from there on is the service's own code: refreshAccounts,
// refreshValidators and the queries.  The driver of C01 that wires the real attester to this account
// manager lives in another package (services/attester/standard) and cannot reach the field.
func (s *Service) VerifC01SetWallets(wallets map[string]e2wtypes.Wallet) {
	s.walletsMutex.Lock()
	defer s.walletsMutex.Unlock()
	for name, wallet := range wallets {
		s.wallets[name] = wallet
	}
}
