package wallet

// Conformance driver for property C13 (spec/Accounts.tla), wallet account manager.
// Injected with -overlay by /verif/check.
//
// REAL wallet.Service built with New(...) over a filesystem wallet store in a scratch directory that
// holds real nd wallets and accounts named per the model's universe; REAL
// validatorsmanager/standard.Service over a scripted beacon node (c13support.Node).

import (
	"context"
	"testing"
	"time"

	"github.com/attestantio/vouch/mock"
	nullmetrics "github.com/attestantio/vouch/services/metrics/null"
	"github.com/attestantio/vouch/verifdrivers/c13support"
	"github.com/attestantio/vouch/verifsupport"
	"github.com/rs/zerolog"
	filesystem "github.com/wealdtech/go-eth2-wallet-store-filesystem"
)

func TestVerifC13Wallet(t *testing.T) {
	var scenarios []c13support.Scenario
	verifsupport.Scenarios(t, &scenarios)
	tr := verifsupport.OpenTrace(t)
	defer tr.Close()
	ctx := context.Background()

	dir := t.TempDir()
	store := filesystem.New(filesystem.WithLocation(dir))
	var u *c13support.Universe
	ct := verifsupport.NewChainTime(32, 12*time.Second)

	for _, sc := range scenarios {
		var s *Service
		var node *c13support.Node
		var paths []string
		for _, st := range sc.Steps {
			switch st.Ev {
			case "Reset":
				if st.Mgr != "wallet" {
					t.Fatalf("scenario %d is for manager %q", sc.Sc, st.Mgr)
				}
				if u == nil {
					u = c13support.BuildUniverse(ctx, t, store, st.Wallets)
				} else if !u.Same(st.Wallets) {
					t.Fatalf("scenario %d uses another universe of names", sc.Sc)
				}
				node = c13support.NewNode(u)
				paths = st.Paths
				s = nil
				tr.Emit(verifsupport.Ev{"sc": sc.Sc, "ev": "Reset", "mgr": st.Mgr, "cfg": st.Cfg, "paths": st.Paths})
			case "Refresh":
				node.Script(st.Mode, st.Recs)
				if s == nil {
					// the constructor performs the first refresh (accounts, then validators)
					var err error
					s, err = New(ctx,
						WithLogLevel(zerolog.Disabled),
						WithMonitor(nullmetrics.New()),
						WithProcessConcurrency(4),
						WithLocations([]string{dir}),
						WithAccountPaths(paths),
						WithPassphrases([][]byte{[]byte("wrong"), []byte(c13support.Passphrase)}),
						WithValidatorsManager(c13support.NewValidatorsManager(ctx, t, node)),
						WithSpecProvider(mock.NewSpecProvider()),
						WithFarFutureEpochProvider(mock.NewFarFutureEpochProvider(c13support.FarFutureEpoch)),
						WithDomainProvider(mock.NewDomainProvider()),
						WithCurrentEpochProvider(ct),
					)
					if err != nil {
						t.Fatalf("scenario %d: wallet New: %v", sc.Sc, err)
					}
				} else {
					s.Refresh(ctx)
				}
				s.mutex.RLock()
				known := u.Known(s.accounts)
				s.mutex.RUnlock()
				tr.Emit(c13support.RefreshEvent(sc.Sc, st, known, u.Table(ctx, s.validatorsManager), node.Calls))
			case "Query":
				if s == nil {
					t.Fatalf("scenario %d queries before the first refresh", sc.Sc)
				}
				c13support.Query(ctx, t, tr, u, sc.Sc, st, s)
			default:
				t.Fatalf("unknown step %q", st.Ev)
			}
		}
	}
}
