package wallet

// Conformance driver for property C13 (spec/Accounts.tla), wallet account manager.
// Injected with -overlay by /verif/check.
//
// REAL wallet.Service built with New(...) over a filesystem wallet store in a scratch directory that
// holds real nd wallets and accounts named per the model's universe; REAL
// validatorsmanager/standard.Service over a scripted beacon node (c13support.Node).
//
// ONE service (and one validators manager) per scenario: the scenario is a history of refreshes and
// queries on them (c13support.RunHistory), with what the store offers changing from refresh to refresh
// (account files are hidden from / shown to the store), the refresh job held between its two parts and
// queries held inside the validators manager's lookup while the refresh job runs.

import (
	"context"
	"testing"
	"time"

	"github.com/attestantio/vouch/mock"
	nullmetrics "github.com/attestantio/vouch/services/metrics/null"
	"github.com/attestantio/vouch/verifdrivers/c13support"
	"github.com/attestantio/vouch/verifsupport"
	"github.com/rs/zerolog"
	filesystem "github.com/wealdtech/go-eth2-wallet-store-filesystem"
)

func TestVerifC13Wallet(t *testing.T) {
	var scenarios []c13support.Scenario
	verifsupport.Scenarios(t, &scenarios)
	tr := verifsupport.OpenTrace(t)
	defer tr.Close()
	ctx := context.Background()

	dir := t.TempDir()
	store := filesystem.New(filesystem.WithLocation(dir))
	var u *c13support.Universe
	ct := verifsupport.NewChainTime(32, 12*time.Second)

	for _, sc := range scenarios {
		if len(sc.Steps) == 0 || sc.Steps[0].Ev != "Reset" {
			t.Fatalf("scenario %d does not start with Reset", sc.Sc)
		}
		st := sc.Steps[0]
		if st.Mgr != "wallet" {
			t.Fatalf("scenario %d is for manager %q", sc.Sc, st.Mgr)
		}
		if u == nil {
			u = c13support.BuildUniverse(ctx, t, store, st.Wallets)
		} else if !u.Same(st.Wallets) {
			t.Fatalf("scenario %d uses another universe of names", sc.Sc)
		}
		node := c13support.NewNode(u)
		vm := &c13support.GatedVM{Real: c13support.NewValidatorsManager(ctx, t, node)}
		paths := st.Paths
		var s *Service
		scID := sc.Sc
		in := &c13support.Instances{
			U:    u,
			Node: node,
			VM:   vm,
			Offer: func(offer []c13support.Name) {
				if err := u.ShowOnly(dir, offer); err != nil {
					t.Fatalf("scenario %d: %v", scID, err)
				}
			},
			Refresh: func(ctx context.Context) {
				if s != nil {
					s.Refresh(ctx)
					return
				}
				// the constructor performs the first refresh (accounts, then validators)
				var err error
				s, err = New(ctx,
					WithLogLevel(zerolog.Disabled),
					WithMonitor(nullmetrics.New()),
					WithProcessConcurrency(4),
					WithLocations([]string{dir}),
					WithAccountPaths(paths),
					WithPassphrases([][]byte{[]byte("wrong"), []byte(c13support.Passphrase)}),
					WithValidatorsManager(vm),
					WithSpecProvider(mock.NewSpecProvider()),
					WithFarFutureEpochProvider(mock.NewFarFutureEpochProvider(c13support.FarFutureEpoch)),
					WithDomainProvider(mock.NewDomainProvider()),
					WithCurrentEpochProvider(ct),
				)
				if err != nil {
					// (not on the test's goroutine: the steps that need the service end the test)
					t.Errorf("scenario %d: wallet New: %v", scID, err)
				}
			},
			Manager: func() c13support.Manager {
				if s == nil {
					return nil
				}
				return s
			},
			Known: func() []c13support.Name {
				if s == nil {
					return []c13support.Name{}
				}
				s.mutex.RLock()
				defer s.mutex.RUnlock()
				return u.Known(s.accounts)
			},
		}
		tr.Emit(verifsupport.Ev{"sc": sc.Sc, "ev": "Reset", "mgr": st.Mgr, "cfg": st.Cfg, "paths": st.Paths})
		c13support.RunHistory(ctx, t, tr, sc.Sc, in, sc.Steps[1:])
	}
}
