package standard

// Conformance driver for pipeline (A) of spec/Aggregation.tla (run by checks/C14.py).  Injected with
// -overlay by /verif/check.
//
// Binding: the REAL attestationaggregator/standard.Service built with New.  Scripted fakes at every
// interface Aggregate uses: aggregate attestation provider, validating accounts provider, aggregate-
// and-proof signer (its signature encodes the account, the slot and the root it was handed), submitter.
// Each fake writes its trace line when the real code calls it, with the arguments it received
// (decoded) and the answer it gave.

import (
	"context"
	"encoding/binary"
	"errors"
	"fmt"
	"math/rand"
	"testing"
	"time"

	"github.com/attestantio/go-eth2-client/api"
	"github.com/attestantio/go-eth2-client/spec/phase0"
	"github.com/attestantio/vouch/services/attestationaggregator"
	nullmetrics "github.com/attestantio/vouch/services/metrics/null"
	"github.com/attestantio/vouch/verifsupport"
	"github.com/prysmaticlabs/go-bitfield"
	"github.com/rs/zerolog"
	e2types "github.com/wealdtech/go-eth2-types/v2"
	e2wtypes "github.com/wealdtech/go-eth2-wallet-types/v2"
)

type aggProof struct {
	V    uint64 `json:"v"`
	Slot uint64 `json:"slot"`
	P    uint64 `json:"p"`
}

type aggDuty struct {
	Slot  uint64   `json:"slot"`
	Root  uint64   `json:"root"`
	V     uint64   `json:"v"`
	Proof aggProof `json:"proof"`
}

type aggStep struct {
	Ev   string   `json:"ev"`
	Spe  uint64   `json:"spe"`
	Duty *aggDuty `json:"duty"`
	Err  bool     `json:"err"`
	N    uint64   `json:"n"`
	Res  string   `json:"res"`
	Ok   bool     `json:"ok"`
}

type aggScenario struct {
	Sc    int       `json:"sc"`
	Steps []aggStep `json:"steps"`
}

// ---- self-describing values ---------------------------------------------------------------------

func aggDataRoot(id uint64) phase0.Root {
	var r phase0.Root
	binary.LittleEndian.PutUint64(r[0:8], id)
	r[31] = 0xa4
	return r
}

func aggDataRootID(r phase0.Root) uint64 {
	if r[31] != 0xa4 {
		return 0
	}
	return binary.LittleEndian.Uint64(r[0:8])
}

func aggSlotSig(p aggProof) phase0.BLSSignature {
	var s phase0.BLSSignature
	s[0] = 0x5e
	binary.LittleEndian.PutUint64(s[1:9], p.V)
	binary.LittleEndian.PutUint64(s[9:17], p.Slot)
	binary.LittleEndian.PutUint64(s[17:25], p.P)
	return s
}

func aggSlotSigEv(s phase0.BLSSignature) verifsupport.Ev {
	if s[0] != 0x5e {
		return verifsupport.Ev{"v": 0, "slot": 0, "p": 0}
	}
	return verifsupport.Ev{"v": binary.LittleEndian.Uint64(s[1:9]), "slot": binary.LittleEndian.Uint64(s[9:17]),
		"p": binary.LittleEndian.Uint64(s[17:25])}
}

// aggAttestation is the n-th aggregate the node has for (slot, data root).
func aggAttestation(slot phase0.Slot, dataRoot phase0.Root, n uint64, committee uint64) *phase0.Attestation {
	bits := bitfield.NewBitlist(16)
	for i := uint64(0); i < n && i < 16; i++ {
		bits.SetBitAt(i, true)
	}
	att := &phase0.Attestation{
		AggregationBits: bits,
		Data: &phase0.AttestationData{
			Slot:   slot,
			Index:  phase0.CommitteeIndex(committee),
			Source: &phase0.Checkpoint{Epoch: 1},
			Target: &phase0.Checkpoint{Epoch: 2},
		},
	}
	// The block root field carries what this aggregate is for and which one it is.
	copy(att.Data.BeaconBlockRoot[0:8], dataRoot[0:8])
	binary.LittleEndian.PutUint64(att.Data.BeaconBlockRoot[8:16], n)
	att.Data.BeaconBlockRoot[31] = 0xa6
	att.Signature[0] = 0xa6
	binary.LittleEndian.PutUint64(att.Signature[1:9], n)
	return att
}

func aggNoAggEv() verifsupport.Ev { return verifsupport.Ev{"slot": 0, "root": 0, "n": 0} }

func aggAttestationEv(att *phase0.Attestation) verifsupport.Ev {
	if att == nil || att.Data == nil || att.Data.BeaconBlockRoot[31] != 0xa6 {
		return aggNoAggEv()
	}
	n := binary.LittleEndian.Uint64(att.Data.BeaconBlockRoot[8:16])
	if att.Signature[0] != 0xa6 || binary.LittleEndian.Uint64(att.Signature[1:9]) != n || att.AggregationBits.Count() != n {
		// Not the aggregate that was handed out.
		return aggNoAggEv()
	}
	return verifsupport.Ev{"slot": uint64(att.Data.Slot), "root": binary.LittleEndian.Uint64(att.Data.BeaconBlockRoot[0:8]), "n": n}
}

func aggNoMsgEv() verifsupport.Ev {
	return verifsupport.Ev{"v": 0, "agg": aggNoAggEv(), "proof": verifsupport.Ev{"v": 0, "slot": 0, "p": 0}}
}

func aggMsgEv(m *phase0.AggregateAndProof) verifsupport.Ev {
	if m == nil {
		return aggNoMsgEv()
	}
	return verifsupport.Ev{"v": uint64(m.AggregatorIndex), "agg": aggAttestationEv(m.Aggregate), "proof": aggSlotSigEv(m.SelectionProof)}
}

// ---- accounts -------------------------------------------------------------------------------------

type aggPubKey struct{ b [48]byte }

func (p *aggPubKey) Marshal() []byte            { return p.b[:] }
func (*aggPubKey) Aggregate(_ e2types.PublicKey) {}
func (p *aggPubKey) Copy() e2types.PublicKey    { c := *p; return &c }

// aggAccount is an inert account: the scripted signer only needs to know whose it is (the embedded nil
// interface supplies ID, which nothing in the code under test calls).
type aggAccount struct {
	e2wtypes.Account
	index uint64
	pub   *aggPubKey
}

func (a *aggAccount) Name() string                 { return fmt.Sprintf("agg validator %d", a.index) }
func (a *aggAccount) PublicKey() e2types.PublicKey { return a.pub }

func aggNewAccount(v uint64) *aggAccount {
	a := &aggAccount{index: v, pub: &aggPubKey{}}
	binary.LittleEndian.PutUint64(a.pub.b[:8], v)
	return a
}

// ---- the world: scripted fakes that record -----------------------------------------------------

type aggScript struct {
	fetchErr  bool
	fetchN    uint64
	acctRes   string
	signRes   string
	submitOK  bool
	committee uint64
}

type aggWorld struct {
	sc     int
	tr     *verifsupport.Trace
	script aggScript
	// everything a message could be built from in this scenario (to name what the signer was handed)
	validators []uint64
	proofs     []aggProof
	handed     []*phase0.Attestation
	signedOver map[phase0.Root]verifsupport.Ev
}

func (w *aggWorld) emit(ev verifsupport.Ev) {
	ev["sc"] = w.sc
	w.tr.Emit(ev)
}

func (w *aggWorld) AggregateAttestation(_ context.Context, opts *api.AggregateAttestationOpts) (*api.Response[*phase0.Attestation], error) {
	ev := verifsupport.Ev{"ev": "AFetch", "slot": uint64(opts.Slot), "root": aggDataRootID(opts.AttestationDataRoot)}
	if w.script.fetchErr {
		ev["res"] = verifsupport.Ev{"err": true, "agg": aggNoAggEv()}
		w.emit(ev)
		return nil, errors.New("agg: scripted: no aggregate attestation")
	}
	att := aggAttestation(opts.Slot, opts.AttestationDataRoot, w.script.fetchN, w.script.committee)
	w.handed = append(w.handed, att)
	ev["res"] = verifsupport.Ev{"err": false, "agg": aggAttestationEv(att)}
	w.emit(ev)
	return &api.Response[*phase0.Attestation]{Data: att, Metadata: map[string]any{}}, nil
}

func (w *aggWorld) ValidatingAccountsForEpochByIndex(_ context.Context, epoch phase0.Epoch, indices []phase0.ValidatorIndex) (map[phase0.ValidatorIndex]e2wtypes.Account, error) {
	vs := make([]uint64, 0, len(indices))
	for _, i := range indices {
		vs = append(vs, uint64(i))
	}
	w.emit(verifsupport.Ev{"ev": "AAccounts", "epoch": uint64(epoch), "vs": vs, "res": w.script.acctRes})
	switch w.script.acctRes {
	case "err":
		return nil, errors.New("agg: scripted: accounts unavailable")
	case "none":
		return map[phase0.ValidatorIndex]e2wtypes.Account{}, nil
	}
	res := make(map[phase0.ValidatorIndex]e2wtypes.Account, len(indices))
	for _, i := range indices {
		res[i] = aggNewAccount(uint64(i))
	}
	return res, nil
}

func (*aggWorld) ValidatingAccountsForEpoch(_ context.Context, _ phase0.Epoch) (map[phase0.ValidatorIndex]e2wtypes.Account, error) {
	return nil, errors.New("agg: not scripted")
}

func (*aggWorld) SyncCommitteeAccountsForEpoch(_ context.Context, _ phase0.Epoch) (map[phase0.ValidatorIndex]e2wtypes.Account, error) {
	return nil, errors.New("agg: not scripted")
}

func (*aggWorld) SyncCommitteeAccountsForEpochByIndex(_ context.Context, _ phase0.Epoch, _ []phase0.ValidatorIndex) (map[phase0.ValidatorIndex]e2wtypes.Account, error) {
	return nil, errors.New("agg: not scripted")
}

func (*aggWorld) SignSlotSelections(_ context.Context, _ []e2wtypes.Account, _ phase0.Slot) ([]phase0.BLSSignature, error) {
	return nil, errors.New("agg: not scripted")
}

// nameRoot finds the aggregate-and-proof with the given hash tree root among everything that could
// have been assembled from this scenario's material.
func (w *aggWorld) nameRoot(root phase0.Root) verifsupport.Ev {
	if ev, ok := w.signedOver[root]; ok {
		return ev
	}
	for _, v := range w.validators {
		for _, att := range w.handed {
			for _, p := range w.proofs {
				m := &phase0.AggregateAndProof{AggregatorIndex: phase0.ValidatorIndex(v), Aggregate: att, SelectionProof: aggSlotSig(p)}
				r, err := m.HashTreeRoot()
				if err == nil && phase0.Root(r) == root {
					return aggMsgEv(m)
				}
			}
		}
	}
	return aggNoMsgEv()
}

func aggSig(acct uint64, slot uint64, root phase0.Root) phase0.BLSSignature {
	var s phase0.BLSSignature
	s[0] = 0xa5
	binary.LittleEndian.PutUint64(s[1:9], acct)
	binary.LittleEndian.PutUint64(s[9:17], slot)
	copy(s[17:49], root[:])
	return s
}

func (w *aggWorld) sigEv(s phase0.BLSSignature) verifsupport.Ev {
	if s.IsZero() {
		return verifsupport.Ev{"z": true, "acct": 0, "slot": 0, "over": aggNoMsgEv()}
	}
	if s[0] != 0xa5 {
		return verifsupport.Ev{"z": false, "acct": 0, "slot": 0, "over": aggNoMsgEv()}
	}
	var root phase0.Root
	copy(root[:], s[17:49])
	return verifsupport.Ev{"z": false, "acct": binary.LittleEndian.Uint64(s[1:9]), "slot": binary.LittleEndian.Uint64(s[9:17]),
		"over": w.nameRoot(root)}
}

func (w *aggWorld) SignAggregateAndProof(_ context.Context, account e2wtypes.Account, slot phase0.Slot, root phase0.Root) (phase0.BLSSignature, error) {
	acct := uint64(0)
	if a, ok := account.(*aggAccount); ok && a != nil {
		acct = a.index
	}
	over := w.nameRoot(root)
	w.signedOver[root] = over
	w.emit(verifsupport.Ev{"ev": "ASign", "acct": acct, "slot": uint64(slot), "over": over, "res": w.script.signRes})
	switch w.script.signRes {
	case "err":
		return phase0.BLSSignature{}, errors.New("agg: scripted: signer unavailable")
	case "zero":
		return phase0.BLSSignature{}, nil
	}
	return aggSig(acct, uint64(slot), root), nil
}

func (w *aggWorld) SubmitAggregateAttestations(_ context.Context, aggs []*phase0.SignedAggregateAndProof) error {
	payload := make([]verifsupport.Ev, 0, len(aggs))
	for _, a := range aggs {
		if a == nil {
			payload = append(payload, verifsupport.Ev{"msg": aggNoMsgEv(), "sig": w.sigEv(phase0.BLSSignature{})})
			continue
		}
		payload = append(payload, verifsupport.Ev{"msg": aggMsgEv(a.Message), "sig": w.sigEv(a.Signature)})
	}
	w.emit(verifsupport.Ev{"ev": "ASubmit", "payload": payload, "ok": w.script.submitOK})
	if !w.script.submitOK {
		return errors.New("agg: scripted: submission refused")
	}
	return nil
}

type aggSpec struct{ spe uint64 }

func (s *aggSpec) Spec(_ context.Context, _ *api.SpecOpts) (*api.Response[map[string]any], error) {
	return &api.Response[map[string]any]{
		Data: map[string]any{
			"SECONDS_PER_SLOT":                 12 * time.Second,
			"SLOTS_PER_EPOCH":                  s.spe,
			"TARGET_AGGREGATORS_PER_COMMITTEE": uint64(16),
		},
		Metadata: map[string]any{},
	}, nil
}

// scriptFor collects the answers the fakes give during the job that starts at steps[i].
func aggScriptFor(steps []aggStep, i int, rng *rand.Rand) aggScript {
	sc := aggScript{fetchN: 1, acctRes: "ok", signRes: "ok", submitOK: true, committee: uint64(rng.Intn(64))}
	for _, st := range steps[i+1:] {
		switch st.Ev {
		case "AFetch":
			sc.fetchErr, sc.fetchN = st.Err, st.N
		case "AAccounts":
			sc.acctRes = st.Res
		case "ASign":
			sc.signRes = st.Res
		case "ASubmit":
			sc.submitOK = st.Ok
		case "ADone", "AStart":
			return sc
		}
	}
	return sc
}

func TestVerifAggA(t *testing.T) {
	var scenarios []aggScenario
	verifsupport.Scenarios(t, &scenarios)
	tr := verifsupport.OpenTrace(t)
	defer tr.Close()
	ctx := context.Background()

	for _, sc := range scenarios {
		rng := rand.New(rand.NewSource(verifsupport.Seed()*7907 + int64(sc.Sc)))
		if len(sc.Steps) == 0 || sc.Steps[0].Ev != "Reset" {
			t.Fatalf("scenario %d does not start with Reset", sc.Sc)
		}
		spe := sc.Steps[0].Spe
		// The scenario's numbers are shifted to a seeded far-away epoch and validator range.
		slotOff := spe * uint64(rng.Intn(200000))
		vOff := uint64(rng.Intn(1000000))
		rootOff := uint64(rng.Intn(1000000))

		w := &aggWorld{sc: sc.Sc, tr: tr, signedOver: map[phase0.Root]verifsupport.Ev{}}
		shift := func(d aggDuty) aggDuty {
			return aggDuty{Slot: d.Slot + slotOff, Root: d.Root + rootOff, V: d.V + vOff,
				Proof: aggProof{V: d.Proof.V + vOff, Slot: d.Proof.Slot + slotOff, P: d.Proof.P}}
		}
		for _, st := range sc.Steps {
			if st.Ev == "AStart" {
				d := shift(*st.Duty)
				w.validators = append(w.validators, d.V)
				w.proofs = append(w.proofs, d.Proof)
			}
		}
		ct := verifsupport.NewChainTime(spe, 12*time.Second)
		svc, err := New(ctx,
			WithLogLevel(zerolog.Disabled),
			WithMonitor(nullmetrics.New()),
			WithSpecProvider(&aggSpec{spe: spe}),
			WithValidatingAccountsProvider(w),
			WithAggregateAttestationProvider(w),
			WithAggregateAttestationsSubmitter(w),
			WithSlotSelectionSigner(w),
			WithAggregateAndProofSigner(w),
			WithChainTime(ct),
		)
		if err != nil {
			t.Fatalf("scenario %d: New: %v", sc.Sc, err)
		}
		w.emit(verifsupport.Ev{"ev": "Reset", "pipeline": "A", "spe": spe, "head": 0, "slotoff": slotOff, "voff": vOff})

		for i, st := range sc.Steps {
			if st.Ev != "AStart" {
				continue
			}
			d := shift(*st.Duty)
			w.script = aggScriptFor(sc.Steps, i, rng)
			ct.SetSlot(d.Slot)
			w.emit(verifsupport.Ev{"ev": "AStart", "duty": verifsupport.Ev{"slot": d.Slot, "root": d.Root, "v": d.V,
				"proof": verifsupport.Ev{"v": d.Proof.V, "slot": d.Proof.Slot, "p": d.Proof.P}}})
			crashed := func() (crashed bool) {
				defer func() {
					if r := recover(); r != nil {
						crashed = true
						w.emit(verifsupport.Ev{"ev": "Crash", "what": fmt.Sprint(r)})
					}
				}()
				// The duty the controller's aggregation job carries (attester.go AttestAndScheduleAggregate).
				svc.Aggregate(ctx, &attestationaggregator.Duty{
					Slot:                phase0.Slot(d.Slot),
					AttestationDataRoot: aggDataRoot(d.Root),
					ValidatorIndex:      phase0.ValidatorIndex(d.V),
					SlotSignature:       aggSlotSig(d.Proof),
				})
				return false
			}()
			if !crashed {
				w.emit(verifsupport.Ev{"ev": "ADone"})
			}
		}
	}
}
