package standard

// Conformance driver for property C04 (spec/Attester.tla): the same harness as C01
// (zz_verif_c01_test.go) — the real attester/standard.Service with scripted fakes whose
// signatures encode (validator, committee index, data) — run on the C04 scenarios (duty
// compositions x already attested x without account x unsigned).

import "testing"

func TestVerifC04(t *testing.T) { c01RunAll(t) }
