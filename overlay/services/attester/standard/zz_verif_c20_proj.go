//go:build verif

package standard

import "sort"

// VerifC20AttestedEpochs is a read-only projection for property C20 (injected by /verif with
// -overlay, never committed): the epochs that have an entry in the attested map.
func (s *Service) VerifC20AttestedEpochs() []uint64 {
	s.attestedMu.Lock()
	defer s.attestedMu.Unlock()
	res := make([]uint64, 0, len(s.attested))
	for e := range s.attested {
		res = append(res, uint64(e))
	}
	sort.Slice(res, func(i, j int) bool { return res[i] < res[j] })
	return res
}
