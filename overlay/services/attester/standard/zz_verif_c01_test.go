package standard

// Conformance driver for properties C01 and C04 (spec/Attester.tla).  Injected with -overlay by
// /verif/check.  It drives the REAL attester/standard.Service with scripted fakes at its five
// interfaces and records one ndjson line per call on those interfaces (request and reply), taken
// under the trace lock together with a snapshot of Service.attested, so that the order of the
// lines is a linearisation of what the service did.
//
// Scenario modes:
//   gated  the steps of a TLC-generated behaviour are executed in their order; every Attest run is
//          a goroutine that parks at the gates of the fakes until the step that names it is reached
//          (several runs overlap on ONE service instance, interleaved at interface-call grain).
//          Gates: entry of the data fetch and of the accounts lookup; entry of the signer (before
//          it has read its request) AND inside it (request read, reply not yet given); entry of
//          the submitter and inside it.  A run can so be held inside the signer or the submitter
//          while other runs - other duties - go from start to end on the same instance.  What the
//          service handed to the signer / submitter is read again when the call returns.
//          A run that neither reaches a gate nor returns is recorded by the watchdog as Hung (no
//          action of the specification) and the instance is abandoned.
//   free   all runs of the scenario start together and run without gates (real interleaving of
//          the marking loops); the trace specification explains the marking steps itself
// With "strategy" set, the real best / majority / first attestation-data strategy sits between
// the service and scripted beacon nodes; the data it hands to the service is what is logged.

import (
	"context"
	"encoding/binary"
	"errors"
	"fmt"
	"math/rand"
	"sort"
	"sync"
	"testing"
	"time"

	eth2client "github.com/attestantio/go-eth2-client"
	"github.com/attestantio/go-eth2-client/api"
	apiv1 "github.com/attestantio/go-eth2-client/api/v1"
	"github.com/attestantio/go-eth2-client/spec/phase0"
	"github.com/attestantio/vouch/services/attester"
	nullmetrics "github.com/attestantio/vouch/services/metrics/null"
	beststrategy "github.com/attestantio/vouch/strategies/attestationdata/best"
	firststrategy "github.com/attestantio/vouch/strategies/attestationdata/first"
	majoritystrategy "github.com/attestantio/vouch/strategies/attestationdata/majority"
	"github.com/attestantio/vouch/verifsupport"
	"github.com/google/uuid"
	"github.com/rs/zerolog"
	e2types "github.com/wealdtech/go-eth2-types/v2"
	e2wtypes "github.com/wealdtech/go-eth2-wallet-types/v2"
)

type c01Duty struct {
	Slot  uint64      `json:"slot"`
	Vals  []uint64    `json:"vals"`
	Comm  []uint64    `json:"comm"`
	Pos   []uint64    `json:"pos"`
	Sizes [][2]uint64 `json:"sizes"`
}

type c01Data struct {
	Slot uint64 `json:"slot"`
	Src  uint64 `json:"src"`
	Tgt  uint64 `json:"tgt"`
	Root uint64 `json:"root"`
}

type c01Step struct {
	Ev    string    `json:"ev"`
	Run   int       `json:"run"`
	Err   bool      `json:"err"`
	Duty  *c01Duty  `json:"duty"`
	Data  *c01Data  `json:"data"`
	Accts *[]uint64 `json:"accts"`
	Zero  []uint64  `json:"zero"`
	Spe   uint64    `json:"spe"`
	Inc   int       `json:"inc"`  // Fetch: the response is incomplete (1 no data, 2 no source, 3 no target checkpoint)
	Kind  string    `json:"kind"` // what a failing interface fails with: other | deadline | canceled
}

// c01Err is the error a scripted failure returns: the context errors a slow / abandoned call ends with, or any other.
func c01Err(st *c01Step, what string) error {
	if st != nil {
		switch st.Kind {
		case "deadline":
			return context.DeadlineExceeded
		case "canceled":
			return context.Canceled
		}
	}
	return errors.New(what)
}

// c01IncSlot marks a response without data / source / target in the trace (Attester!Incomplete).
const c01IncSlot = 1000000000

type c01Scenario struct {
	Sc       int       `json:"sc"`
	Mode     string    `json:"mode"`     // gated | free
	Strategy string    `json:"strategy"` // "" | best | majority | first
	Merge    bool      `json:"merge"`    // build the duty with attester.MergeDuties
	Steps    []c01Step `json:"steps"`
}

// c01Script is what the environment answers to one run.
type c01Script struct {
	fetch    *c01Step
	accounts *c01Step
	sign     *c01Step
	submit   *c01Step
}

// c01Patience is how long the watchdog waits for a run to reach its next gate or to return.
const c01Patience = 15 * time.Second

type c01Run struct {
	id       int
	duty     *c01Duty
	script   c01Script
	arrive   chan string
	release  chan struct{}
	parked   bool
	returned bool
}

type c01RunKey struct{}

// c01Account is an account whose public key carries the validator index.
type c01Account struct{ idx uint64 }

type c01PubKey struct{ idx uint64 }

func (k *c01PubKey) Marshal() []byte {
	b := make([]byte, 48)
	b[0] = 0xc0
	binary.BigEndian.PutUint64(b[40:], k.idx)
	return b
}
func (k *c01PubKey) Aggregate(_ e2types.PublicKey) {}
func (k *c01PubKey) Copy() e2types.PublicKey       { return &c01PubKey{idx: k.idx} }

func (a *c01Account) ID() uuid.UUID {
	var u uuid.UUID
	binary.BigEndian.PutUint64(u[8:], a.idx)
	return u
}
func (a *c01Account) Name() string                 { return fmt.Sprintf("verif/%d", a.idx) }
func (a *c01Account) PublicKey() e2types.PublicKey { return &c01PubKey{idx: a.idx} }

func c01RootOf(k uint64, kind byte) phase0.Root {
	var r phase0.Root
	r[0] = byte(k)
	r[1] = kind
	r[31] = 0xbb
	return r
}

// c01RootID decodes the three roots of attestation data back to the data id (0 = not one of ours
// or not from the same data).
func c01RootID(block, source, target phase0.Root) uint64 {
	if block[1] == 1 && source[1] == 2 && target[1] == 3 && block[0] == source[0] && block[0] == target[0] && block[31] == 0xbb {
		return uint64(block[0])
	}
	return 0
}

func c01AttData(d *c01Data) *phase0.AttestationData {
	return &phase0.AttestationData{
		Slot:            phase0.Slot(d.Slot),
		Index:           0,
		BeaconBlockRoot: c01RootOf(d.Root, 1),
		Source:          &phase0.Checkpoint{Epoch: phase0.Epoch(d.Src), Root: c01RootOf(d.Root, 2)},
		Target:          &phase0.Checkpoint{Epoch: phase0.Epoch(d.Tgt), Root: c01RootOf(d.Root, 3)},
	}
}

func c01DataEv(slot, src, tgt, root uint64) verifsupport.Ev {
	return verifsupport.Ev{"slot": slot, "src": src, "tgt": tgt, "root": root}
}

// signature layout: marker, validator, committee, slot, source epoch, target epoch, data id
func c01Sig(v, c, slot, src, tgt, root uint64) phase0.BLSSignature {
	var s phase0.BLSSignature
	s[0] = 0xa5
	binary.BigEndian.PutUint64(s[1:], v)
	binary.BigEndian.PutUint64(s[9:], c)
	binary.BigEndian.PutUint64(s[17:], slot)
	binary.BigEndian.PutUint64(s[25:], src)
	binary.BigEndian.PutUint64(s[33:], tgt)
	binary.BigEndian.PutUint64(s[41:], root)
	return s
}

func c01SigEv(s phase0.BLSSignature) verifsupport.Ev {
	if s[0] != 0xa5 {
		return verifsupport.Ev{"v": 0, "c": 0, "data": c01DataEv(0, 0, 0, 0)}
	}
	u := func(o int) uint64 { return binary.BigEndian.Uint64(s[o:]) % (1 << 30) }
	return verifsupport.Ev{"v": u(1), "c": u(9), "data": c01DataEv(u(17), u(25), u(33), u(41))}
}

type c01Spec struct{ spe uint64 }

func (p *c01Spec) Spec(_ context.Context, _ *api.SpecOpts) (*api.Response[map[string]any], error) {
	return &api.Response[map[string]any]{Data: map[string]any{"SLOTS_PER_EPOCH": p.spe}, Metadata: map[string]any{}}, nil
}

type c01Cache struct{}

func (c01Cache) BlockRootToSlot(_ context.Context, _ phase0.Root) (phase0.Slot, error) { return 0, nil }

// c01Harness holds one service instance and its fakes.
type c01Harness struct {
	t        *testing.T
	tr       *verifsupport.Trace
	sc       int
	s        *Service
	gated    bool
	strategy bool // a real strategy sits between the service and the scripted nodes
	mu       sync.Mutex
	runs     map[int]*c01Run
	rnd      *rand.Rand
	dead     bool // (under the trace lock) the watchdog gave the instance up: nothing more is recorded
	blind    bool // (under the trace lock) Service.attested could not be read (attestedMu never came free)
	// sigOf reads a signature back (validator, committee, data); nil: the fake signer's own encoding.  The wired
	// stack (zz_verif_c01_wired_test.go) has real BLS signatures and looks them up in what its signer recorded.
	sigOf func(phase0.BLSSignature) verifsupport.Ev
}

func (h *c01Harness) sigEv(s phase0.BLSSignature) verifsupport.Ev {
	if h.sigOf != nil {
		return h.sigOf(s)
	}
	return c01SigEv(s)
}

// c01HungBudget: after this many hung scenarios in one batch the remaining scenarios are not run (each
// would cost the watchdog's patience); they leave a Reset line only.  The hung ones are on record.
const c01HungBudget = 3

var c01HungSeen int

func (h *c01Harness) run(ctx context.Context) *c01Run {
	id, _ := ctx.Value(c01RunKey{}).(int)
	h.mu.Lock()
	defer h.mu.Unlock()
	return h.runs[id]
}

// snapshot of Service.attested as sorted [epoch, validator] pairs (called under the trace lock)
func (h *c01Harness) att() [][2]uint64 {
	res := make([][2]uint64, 0)
	// never wait for ever while holding the trace lock (a leaked attestedMu would wedge the batch);
	// an unreadable map is recorded as the pair (2^30, 2^30), which no state of the specification has
	locked := false
	for i := 0; i < 1000 && !locked && !h.blind; i++ {
		if locked = h.s.attestedMu.TryLock(); !locked {
			time.Sleep(500 * time.Microsecond)
		}
	}
	if !locked {
		h.blind = true
		return append(res, [2]uint64{1 << 30, 1 << 30})
	}
	defer h.s.attestedMu.Unlock()
	for e, m := range h.s.attested {
		for v := range m {
			res = append(res, [2]uint64{uint64(e), uint64(v)})
		}
	}
	sort.Slice(res, func(i, j int) bool {
		if res[i][0] != res[j][0] {
			return res[i][0] < res[j][0]
		}
		return res[i][1] < res[j][1]
	})
	return res
}

func (h *c01Harness) emit(r *c01Run, ev string, fill func(e verifsupport.Ev)) {
	h.tr.Locked(func() verifsupport.Ev {
		if h.dead {
			return nil
		}
		e := verifsupport.Ev{"sc": h.sc, "ev": ev, "run": r.id}
		fill(e)
		e["att"] = h.att()
		return e
	})
}

// enter parks the calling run until the controller reaches its step.
func (h *c01Harness) enter(r *c01Run, kind string) {
	if !h.gated {
		return
	}
	r.arrive <- kind
	<-r.release
}

// --- attestation data: scripted node, optional real strategy, tap ---

type c01Node struct {
	h    *c01Harness
	name string
}

// what node `name` answers for run r: node 1 answers the scripted data; the others agree with it,
// fail, or (seeded) answer good data of their own.
func (n *c01Node) AttestationData(ctx context.Context, opts *api.AttestationDataOpts) (*api.Response[*phase0.AttestationData], error) {
	r := n.h.run(ctx)
	if r == nil {
		return nil, errors.New("unknown run")
	}
	st := r.script.fetch
	var d *c01Data
	fail := false
	switch {
	case st == nil:
		d = c01GoodData(r.duty, n.h.s.slotsPerEpoch, 1)
	case st.Err:
		fail = true
	default:
		d = st.Data
	}
	if n.name != "n1" && !fail {
		n.h.mu.Lock()
		k := n.h.rnd.Intn(3)
		n.h.mu.Unlock()
		if k == 1 {
			fail = true
		}
	}
	if fail {
		return nil, c01Err(st, "scripted node failure")
	}
	if st != nil && st.Inc > 0 {
		// the node answers, without an error, something incomplete.  Only straight to the service: the
		// strategies' handling of such answers is not this property's subject, behind one the node fails.
		if n.h.strategy {
			return nil, errors.New("scripted node failure (incomplete answer)")
		}
		a := c01AttData(c01GoodData(r.duty, n.h.s.slotsPerEpoch, 1))
		switch st.Inc {
		case 1:
			a = nil
		case 2:
			a.Source = nil
		default:
			a.Target = nil
		}
		return &api.Response[*phase0.AttestationData]{Data: a, Metadata: map[string]any{}}, nil
	}
	return &api.Response[*phase0.AttestationData]{Data: c01AttData(d), Metadata: map[string]any{}}, nil
}

func c01GoodData(d *c01Duty, spe uint64, root uint64) *c01Data {
	e := d.Slot / spe
	src := uint64(0)
	if e > 0 {
		src = e - 1
	}
	return &c01Data{Slot: d.Slot, Src: src, Tgt: e, Root: root}
}

// c01Tap is the attestation data provider handed to the service: the scripted node itself or the
// real strategy in front of scripted nodes.  It logs what the service receives.
type c01Tap struct {
	h     *c01Harness
	inner eth2client.AttestationDataProvider
}

func (p *c01Tap) AttestationData(ctx context.Context, opts *api.AttestationDataOpts) (*api.Response[*phase0.AttestationData], error) {
	r := p.h.run(ctx)
	if r == nil {
		return nil, errors.New("unknown run")
	}
	p.h.enter(r, "Fetch")
	resp, err := p.inner.AttestationData(ctx, opts)
	p.h.emit(r, "Fetch", func(e verifsupport.Ev) {
		e["reqslot"] = uint64(opts.Slot)
		if err != nil || resp == nil {
			e["err"] = true
			if err == nil {
				err = errors.New("no response")
			}
			return
		}
		if resp.Data == nil || resp.Data.Source == nil || resp.Data.Target == nil {
			// an answer without data / source / target is handed to the service as it is: data that does
			// not meet the rule
			e["err"] = false
			e["data"] = c01DataEv(c01IncSlot, c01IncSlot, c01IncSlot, 0)
			return
		}
		a := resp.Data
		e["err"] = false
		e["data"] = c01DataEv(uint64(a.Slot), uint64(a.Source.Epoch), uint64(a.Target.Epoch), c01RootID(a.BeaconBlockRoot, a.Source.Root, a.Target.Root))
	})
	if err != nil {
		return nil, err
	}
	return resp, nil
}

// --- validating accounts ---

type c01Accounts struct{ h *c01Harness }

func (p *c01Accounts) ValidatingAccountsForEpoch(_ context.Context, _ phase0.Epoch) (map[phase0.ValidatorIndex]e2wtypes.Account, error) {
	return nil, errors.New("not used by the attester")
}

func (p *c01Accounts) SyncCommitteeAccountsForEpoch(_ context.Context, _ phase0.Epoch) (map[phase0.ValidatorIndex]e2wtypes.Account, error) {
	return nil, errors.New("not used by the attester")
}

func (p *c01Accounts) SyncCommitteeAccountsForEpochByIndex(_ context.Context, _ phase0.Epoch, _ []phase0.ValidatorIndex) (map[phase0.ValidatorIndex]e2wtypes.Account, error) {
	return nil, errors.New("not used by the attester")
}

func (p *c01Accounts) ValidatingAccountsForEpochByIndex(ctx context.Context, epoch phase0.Epoch, indices []phase0.ValidatorIndex) (map[phase0.ValidatorIndex]e2wtypes.Account, error) {
	r := p.h.run(ctx)
	if r == nil {
		return nil, errors.New("unknown run")
	}
	p.h.enter(r, "Accounts")
	st := r.script.accounts
	req := make([]uint64, 0, len(indices))
	for _, i := range indices {
		req = append(req, uint64(i))
	}
	res := make(map[phase0.ValidatorIndex]e2wtypes.Account)
	got := make([]uint64, 0)
	fail := st != nil && st.Err
	if !fail {
		for _, i := range indices {
			ok := true
			if st != nil && st.Accts != nil {
				ok = false
				for _, a := range *st.Accts {
					if a == uint64(i) {
						ok = true
					}
				}
			}
			if _, dup := res[i]; ok && !dup {
				res[i] = &c01Account{idx: uint64(i)}
				got = append(got, uint64(i))
			}
		}
	}
	sort.Slice(got, func(i, j int) bool { return got[i] < got[j] })
	p.h.emit(r, "Accounts", func(e verifsupport.Ev) {
		e["err"] = fail
		e["epoch"] = uint64(epoch)
		e["req"] = req
		e["accts"] = got
	})
	if fail {
		return nil, c01Err(st, "scripted account manager failure")
	}
	if len(res) == 0 {
		// nobody: an empty map or none at all (seeded)
		p.h.mu.Lock()
		none := p.h.rnd.Intn(2) == 0
		p.h.mu.Unlock()
		if none {
			return nil, nil
		}
	}
	return res, nil
}

// --- signer ---

type c01Signer struct{ h *c01Harness }

func (p *c01Signer) SignBeaconAttestations(ctx context.Context, accounts []e2wtypes.Account, slot phase0.Slot,
	committeeIndices []phase0.CommitteeIndex, blockRoot phase0.Root, sourceEpoch phase0.Epoch, sourceRoot phase0.Root,
	targetEpoch phase0.Epoch, targetRoot phase0.Root,
) ([]phase0.BLSSignature, error) {
	r := p.h.run(ctx)
	if r == nil {
		return nil, errors.New("unknown run")
	}
	p.h.enter(r, "Sign")
	st := r.script.sign
	root := c01RootID(blockRoot, sourceRoot, targetRoot)
	// the request as it reads now: (validator of the account, committee index) pairs, sorted
	read := func() [][2]uint64 {
		req := make([][2]uint64, 0, len(accounts))
		for i, a := range accounts {
			v := uint64(0)
			if acc, ok := a.(*c01Account); ok {
				v = acc.idx
			}
			c := uint64(1 << 20)
			if i < len(committeeIndices) {
				c = uint64(committeeIndices[i])
			}
			req = append(req, [2]uint64{v, c})
		}
		return req
	}
	sorted := func(req [][2]uint64) [][2]uint64 {
		req = append([][2]uint64{}, req...)
		sort.Slice(req, func(i, j int) bool { return req[i][0] < req[j][0] || (req[i][0] == req[j][0] && req[i][1] < req[j][1]) })
		return req
	}
	zero := make([]uint64, 0)
	sigs := make([]phase0.BLSSignature, len(accounts))
	fail := st != nil && st.Err
	req := read()
	// the signer signs over what it was asked at the time of the call
	for i, q := range req {
		isZero := fail
		if st != nil {
			for _, z := range st.Zero {
				if z == q[0] {
					isZero = true
				}
			}
		}
		if isZero {
			zero = append(zero, q[0])
		} else {
			sigs[i] = c01Sig(q[0], q[1], uint64(slot), uint64(sourceEpoch), uint64(targetEpoch), root)
		}
	}
	sort.Slice(zero, func(i, j int) bool { return zero[i] < zero[j] })
	p.h.emit(r, "Sign", func(e verifsupport.Ev) {
		e["req"] = sorted(req)
		e["data"] = c01DataEv(uint64(slot), uint64(sourceEpoch), uint64(targetEpoch), root)
	})
	// inside the signer (a remote signer takes its time)
	p.h.enter(r, "SignRet")
	p.h.emit(r, "SignRet", func(e verifsupport.Ev) {
		e["err"] = fail
		e["zero"] = zero
		e["req"] = sorted(read())
		e["data"] = c01DataEv(uint64(slot), uint64(sourceEpoch), uint64(targetEpoch), root)
	})
	if fail {
		return nil, c01Err(st, "scripted signer failure")
	}
	// a partial result: the signer may leave the unsigned tail out instead of returning zero signatures (seeded)
	last := len(sigs)
	for last > 0 && sigs[last-1].IsZero() {
		last--
	}
	if last < len(sigs) {
		p.h.mu.Lock()
		short := p.h.rnd.Intn(2) == 0
		p.h.mu.Unlock()
		if short {
			sigs = sigs[:last]
		}
	}
	return sigs, nil
}

// --- submitter ---

type c01Submitter struct{ h *c01Harness }

func (p *c01Submitter) SubmitAttestations(ctx context.Context, attestations []*phase0.Attestation) error {
	r := p.h.run(ctx)
	if r == nil {
		return errors.New("unknown run")
	}
	p.h.enter(r, "Submit")
	st := r.script.submit
	fail := st != nil && st.Err
	// the attestations as they read now
	read := func() []verifsupport.Ev {
		atts := make([]verifsupport.Ev, 0, len(attestations))
		for _, a := range attestations {
			if a == nil || a.Data == nil || a.Data.Source == nil || a.Data.Target == nil {
				atts = append(atts, verifsupport.Ev{"index": 0, "size": 0, "bits": []int{}, "data": c01DataEv(0, 0, 0, 0), "sig": c01SigEv(phase0.BLSSignature{})})
				continue
			}
			bits := a.AggregationBits.BitIndices()
			if bits == nil {
				bits = []int{}
			}
			atts = append(atts, verifsupport.Ev{
				"index": uint64(a.Data.Index),
				"size":  a.AggregationBits.Len(),
				"bits":  bits,
				"data":  c01DataEv(uint64(a.Data.Slot), uint64(a.Data.Source.Epoch), uint64(a.Data.Target.Epoch), c01RootID(a.Data.BeaconBlockRoot, a.Data.Source.Root, a.Data.Target.Root)),
				"sig":   p.h.sigEv(a.Signature),
			})
		}
		return atts
	}
	p.h.emit(r, "Submit", func(e verifsupport.Ev) {
		e["atts"] = read()
	})
	// inside the submitter
	p.h.enter(r, "SubmitRet")
	p.h.emit(r, "SubmitRet", func(e verifsupport.Ev) {
		e["err"] = fail
		e["atts"] = read()
	})
	if fail {
		return c01Err(st, "scripted submitter failure")
	}
	return nil
}

// --- scenario execution ---

func c01NewHarness(t *testing.T, tr *verifsupport.Trace, sc *c01Scenario, spe uint64) *c01Harness {
	ctx := context.Background()
	h := &c01Harness{t: t, tr: tr, sc: sc.Sc, gated: sc.Mode != "free", strategy: sc.Strategy != "", runs: map[int]*c01Run{},
		rnd: rand.New(rand.NewSource(verifsupport.Seed()*1000003 + int64(sc.Sc)))}
	ct := verifsupport.NewChainTime(spe, 12*time.Second)
	var provider eth2client.AttestationDataProvider = &c01Node{h: h, name: "n1"}
	if sc.Strategy != "" {
		nodes := map[string]eth2client.AttestationDataProvider{
			"n1": &c01Node{h: h, name: "n1"},
			"n2": &c01Node{h: h, name: "n2"},
			"n3": &c01Node{h: h, name: "n3"},
		}
		var err error
		switch sc.Strategy {
		case "best":
			provider, err = beststrategy.New(ctx, beststrategy.WithLogLevel(zerolog.Disabled), beststrategy.WithClientMonitor(nullmetrics.New()),
				beststrategy.WithProcessConcurrency(2), beststrategy.WithAttestationDataProviders(nodes), beststrategy.WithTimeout(4*time.Second),
				beststrategy.WithChainTime(ct), beststrategy.WithBlockRootToSlotCache(c01Cache{}))
		case "majority":
			provider, err = majoritystrategy.New(ctx, majoritystrategy.WithLogLevel(zerolog.Disabled), majoritystrategy.WithClientMonitor(nullmetrics.New()),
				majoritystrategy.WithProcessConcurrency(2), majoritystrategy.WithAttestationDataProviders(nodes), majoritystrategy.WithTimeout(4*time.Second),
				majoritystrategy.WithChainTime(ct), majoritystrategy.WithBlockRootToSlotCache(c01Cache{}), majoritystrategy.WithThreshold(1))
		case "first":
			provider, err = firststrategy.New(ctx, firststrategy.WithLogLevel(zerolog.Disabled), firststrategy.WithClientMonitor(nullmetrics.New()),
				firststrategy.WithAttestationDataProviders(nodes), firststrategy.WithTimeout(400*time.Millisecond))
		default:
			t.Fatalf("unknown strategy %q", sc.Strategy)
		}
		if err != nil {
			t.Fatalf("strategy %s: %v", sc.Strategy, err)
		}
	}
	s, err := New(ctx,
		WithLogLevel(zerolog.Disabled),
		WithMonitor(nullmetrics.New()),
		WithProcessConcurrency(2),
		WithChainTime(ct),
		WithSpecProvider(&c01Spec{spe: spe}),
		WithAttestationDataProvider(&c01Tap{h: h, inner: provider}),
		WithAttestationsSubmitter(&c01Submitter{h: h}),
		WithValidatingAccountsProvider(&c01Accounts{h: h}),
		WithBeaconAttestationsSigner(&c01Signer{h: h}),
	)
	if err != nil {
		t.Fatalf("attester New: %v", err)
	}
	h.s = s
	return h
}

// c01BuildDuty builds the attester.Duty handed to Attest: directly, or (merge) through
// attester.MergeDuties from per-validator API duties in seeded random order.  The second result
// is the duty as the service sees it (array order), which is what the trace records.
func c01BuildDuty(t *testing.T, h *c01Harness, d *c01Duty, merge bool) (*attester.Duty, *c01Duty) {
	ctx := context.Background()
	sizes := map[phase0.CommitteeIndex]uint64{}
	for _, p := range d.Sizes {
		sizes[phase0.CommitteeIndex(p[0])] = p[1]
	}
	if merge {
		ads := make([]*apiv1.AttesterDuty, 0, len(d.Vals))
		for i := range d.Vals {
			ads = append(ads, &apiv1.AttesterDuty{
				Slot: phase0.Slot(d.Slot), ValidatorIndex: phase0.ValidatorIndex(d.Vals[i]), CommitteeIndex: phase0.CommitteeIndex(d.Comm[i]),
				CommitteeLength: sizes[phase0.CommitteeIndex(d.Comm[i])], CommitteesAtSlot: uint64(len(d.Sizes)), ValidatorCommitteeIndex: d.Pos[i],
			})
		}
		h.rnd.Shuffle(len(ads), func(i, j int) { ads[i], ads[j] = ads[j], ads[i] })
		duties, err := attester.MergeDuties(ctx, ads)
		if err != nil || len(duties) != 1 {
			t.Fatalf("MergeDuties: %v (%d duties)", err, len(duties))
		}
		return duties[0], d
	}
	vals := make([]phase0.ValidatorIndex, len(d.Vals))
	comm := make([]phase0.CommitteeIndex, len(d.Comm))
	for i := range d.Vals {
		vals[i] = phase0.ValidatorIndex(d.Vals[i])
	}
	for i := range d.Comm {
		comm[i] = phase0.CommitteeIndex(d.Comm[i])
	}
	duty, err := attester.NewDuty(ctx, phase0.Slot(d.Slot), uint64(len(d.Sizes)), vals, comm, append([]uint64{}, d.Pos...), sizes)
	if err != nil {
		t.Fatalf("NewDuty: %v", err)
	}
	return duty, d
}

// wait for run r to reach its next gate or to return; false = the watchdog gave up (Hung recorded).
func (h *c01Harness) wait(r *c01Run) bool {
	select {
	case k := <-r.arrive:
		if k == "return" {
			r.returned = true
			r.parked = false
		} else {
			r.parked = true
		}
		return true
	case <-time.After(c01Patience):
		h.hung(r)
		return false
	}
}

// hung records that run r made no progress and abandons the instance (its goroutines stay where
// they are; nothing they do later is recorded).
func (h *c01Harness) hung(r *c01Run) {
	h.tr.Locked(func() verifsupport.Ev {
		if h.dead {
			return nil
		}
		h.dead = true
		c01HungSeen++
		return verifsupport.Ev{"sc": h.sc, "ev": "Hung", "run": r.id, "after_ms": c01Patience.Milliseconds()}
	})
}

func (h *c01Harness) advance(r *c01Run) bool {
	if r.returned {
		return true
	}
	if r.parked {
		r.parked = false
		r.release <- struct{}{}
	}
	return h.wait(r)
}

func (h *c01Harness) start(r *c01Run, duty *attester.Duty, logged *c01Duty, merged bool, begin chan struct{}, wg *sync.WaitGroup) {
	ctx := context.WithValue(context.Background(), c01RunKey{}, r.id)
	go func() {
		if begin != nil {
			<-begin
		}
		h.emit(r, "Deliver", func(e verifsupport.Ev) {
			e["duty"] = verifsupport.Ev{"slot": logged.Slot, "vals": logged.Vals, "comm": logged.Comm, "pos": logged.Pos, "sizes": logged.Sizes}
			e["merged"] = merged
		})
		func() {
			// a panic inside Attest is an event of its own (no action of the specification), not a dead driver
			defer func() {
				if x := recover(); x != nil {
					h.emit(r, "Crash", func(e verifsupport.Ev) { e["what"] = fmt.Sprint(x) })
				}
			}()
			atts, err := h.s.Attest(ctx, duty)
			h.emit(r, "Return", func(e verifsupport.Ev) {
				e["err"] = err != nil
				e["n"] = len(atts)
			})
		}()
		if h.gated {
			r.arrive <- "return"
		}
		if wg != nil {
			wg.Done()
		}
	}()
}

func c01RunScenario(t *testing.T, tr *verifsupport.Trace, sc *c01Scenario) {
	if len(sc.Steps) == 0 || sc.Steps[0].Ev != "Reset" {
		t.Fatalf("scenario %d does not start with Reset", sc.Sc)
	}
	spe := sc.Steps[0].Spe
	if spe == 0 {
		spe = 32
	}
	h := c01NewHarness(t, tr, sc, spe)
	tr.Emit(verifsupport.Ev{"sc": sc.Sc, "ev": "Reset", "spe": spe, "mode": sc.Mode, "strategy": sc.Strategy})
	if c01HungSeen >= c01HungBudget {
		t.Logf("scenario %d not run: %d scenarios of this batch hung already", sc.Sc, c01HungSeen)
		return
	}

	// the per-run scripts are known up front; the steps only say when each call is let through
	order := make([]*c01Run, 0)
	for i := range sc.Steps {
		st := &sc.Steps[i]
		if st.Ev == "Reset" {
			continue
		}
		if st.Ev == "Deliver" {
			if st.Duty == nil || len(st.Duty.Vals) == 0 {
				t.Fatalf("scenario %d: Deliver without duty", sc.Sc)
			}
			r := &c01Run{id: st.Run, duty: st.Duty, arrive: make(chan string, 4), release: make(chan struct{})}
			h.runs[st.Run] = r
			order = append(order, r)
			continue
		}
		r := h.runs[st.Run]
		if r == nil {
			t.Fatalf("scenario %d: step %s for unknown run %d", sc.Sc, st.Ev, st.Run)
		}
		switch st.Ev {
		case "Fetch":
			r.script.fetch = st
		case "Accounts":
			r.script.accounts = st
		case "Sign", "Submit":
			// the call is let in; the reply comes with SignRet / SubmitRet
		case "SignRet":
			r.script.sign = st
		case "SubmitRet":
			r.script.submit = st
		default:
			t.Fatalf("unknown step %q", st.Ev)
		}
	}

	if !h.gated {
		begin := make(chan struct{})
		var wg sync.WaitGroup
		for _, r := range order {
			duty, logged := c01BuildDuty(t, h, r.duty, sc.Merge)
			wg.Add(1)
			h.start(r, duty, logged, sc.Merge, begin, &wg)
		}
		close(begin)
		done := make(chan struct{})
		go func() { wg.Wait(); close(done) }()
		select {
		case <-done:
		case <-time.After(2 * c01Patience):
			h.hung(&c01Run{id: 0})
		}
		return
	}

	for i := range sc.Steps {
		st := &sc.Steps[i]
		if st.Ev == "Reset" {
			continue
		}
		r := h.runs[st.Run]
		if st.Ev == "Deliver" {
			duty, logged := c01BuildDuty(t, h, r.duty, sc.Merge)
			h.start(r, duty, logged, sc.Merge, nil, nil)
			if !h.wait(r) {
				return
			}
			continue
		}
		if !h.advance(r) {
			return
		}
	}
	// let every unfinished run complete (default answers where the scenario has none)
	for _, r := range order {
		for !r.returned {
			if !h.advance(r) {
				return
			}
		}
	}
}

func c01RunAll(t *testing.T) {
	var scenarios []c01Scenario
	verifsupport.Scenarios(t, &scenarios)
	tr := verifsupport.OpenTrace(t)
	defer tr.Close()
	for i := range scenarios {
		c01RunScenario(t, tr, &scenarios[i])
	}
}

func TestVerifC01(t *testing.T) { c01RunAll(t) }
