package standard

// Conformance driver for property C01, WIRED family (spec/AttesterAM.tla, Trace_AttesterAM.tla).
// Injected with -overlay by /verif/check.
//
// The fake-based family (zz_verif_c01_test.go) replaces everything around the attester by scripted
// fakes - among them the account manager, which answers "for the requested validators only" by
// construction.  Here the attester's neighbours are the REAL ones, wired the way main.go wires them:
//
//   attester/standard.Service
//     -> ValidatingAccountsProvider = the REAL account manager, either sibling implementation:
//          dirk   accountmanager/dirk.Service built with New(...) against an unreachable endpoint (no Dirk
//                 server exists in the sandbox); the wallets it would open there are put into its own wallet
//                 cache (seam VerifC01SetWallets): real nd wallets whose account LISTING is scripted
//          wallet accountmanager/wallet.Service built with New(...) over a filesystem store holding real nd
//                 wallets; what the store offers changes by hiding / showing account files
//        -> the REAL validatorsmanager/standard.Service over a scripted beacon node (c13support.Node)
//     -> BeaconAttestationsSigner = the REAL signer/standard.Service, signing with the accounts' real BLS keys
//     -> attestation data: scripted node behind the tap of the fake-based family; submitter: its fake.
//
// The fakes sit one layer further out: wallet listing / store, beacon node, submitter.  Between the
// attester and its real neighbours there are only pass-throughs that hold the call at a gate (so that runs
// overlap in the order of the TLC-generated history) and record request and reply; they never alter either.
// A validator is identified BY THE KEY of the account (what signs), not by the index it is filed under.
//
// ONE wired instance per history.  Extra steps: Refresh (the account manager's refresh job: accounts offered,
// node records) and Probe (ValidatingAccountsForEpochByIndex asked directly with an empty / repeated /
// unknown index list).  A panic is the event Crash, a run that makes no progress the event Hung.

import (
	"context"
	"fmt"
	"math/rand"
	"sort"
	"sync"
	"testing"
	"time"

	"github.com/attestantio/go-eth2-client/spec/phase0"
	"github.com/attestantio/vouch/mock"
	"github.com/attestantio/vouch/services/accountmanager"
	dirkaccountmanager "github.com/attestantio/vouch/services/accountmanager/dirk"
	walletaccountmanager "github.com/attestantio/vouch/services/accountmanager/wallet"
	nullmetrics "github.com/attestantio/vouch/services/metrics/null"
	"github.com/attestantio/vouch/services/signer"
	standardsigner "github.com/attestantio/vouch/services/signer/standard"
	"github.com/attestantio/vouch/testing/resources"
	"github.com/attestantio/vouch/util"
	"github.com/attestantio/vouch/verifdrivers/c13support"
	"github.com/attestantio/vouch/verifsupport"
	"github.com/rs/zerolog"
	filesystem "github.com/wealdtech/go-eth2-wallet-store-filesystem"
	scratch "github.com/wealdtech/go-eth2-wallet-store-scratch"
	e2wtypes "github.com/wealdtech/go-eth2-wallet-types/v2"
)

type c01wRec struct {
	V     uint64 `json:"v"`
	Known bool   `json:"known"`
	Act   uint64 `json:"act"`
	Exit  uint64 `json:"exit"`
}

type c01wStep struct {
	c01Step
	Am    string    `json:"am"`
	Mode  string    `json:"mode"`
	Held  []uint64  `json:"held"`
	Recs  []c01wRec `json:"recs"`
	Epoch uint64    `json:"epoch"`
	Idxs  []uint64  `json:"idxs"`
}

type c01wScenario struct {
	Sc    int        `json:"sc"`
	Steps []c01wStep `json:"steps"`
}

// c01wLetters name the accounts of wallet "W": validator v has the account W/<letter v>.
var c01wLetters = []string{"a", "b", "c", "d", "e", "f"}

// c01wManager is what the driver needs from either account manager.
type c01wManager interface {
	accountmanager.ValidatingAccountsProvider
	Refresh(ctx context.Context)
	AccountByPublicKey(ctx context.Context, pubkey phase0.BLSPubKey) (e2wtypes.Account, error)
}

// c01wWallet is a real nd wallet (ID, Name, ... promoted) whose account listing is scripted: what Dirk lists.
type c01wWallet struct {
	e2wtypes.Wallet
	mu      sync.Mutex
	offered []e2wtypes.Account
}

func (w *c01wWallet) offer(accounts []e2wtypes.Account) {
	w.mu.Lock()
	defer w.mu.Unlock()
	w.offered = accounts
}

func (w *c01wWallet) Accounts(_ context.Context) <-chan e2wtypes.Account {
	w.mu.Lock()
	offered := w.offered
	w.mu.Unlock()
	ch := make(chan e2wtypes.Account, len(offered))
	for _, a := range offered {
		ch <- a
	}
	close(ch)
	return ch
}

// c01wWorld is the universe of one kind of account manager: real wallets and accounts, shared by the histories.
type c01wWorld struct {
	kind  string
	u     *c13support.Universe
	dir   string // wallet: the filesystem store
	nv    int
	byKey map[phase0.BLSPubKey]uint64
	keys  []phase0.BLSPubKey // keys[v-1]
}

func c01wName(v uint64) c13support.Name {
	return c13support.Name{W: "W", A: []string{c01wLetters[v-1]}}
}

func c01wNewWorld(ctx context.Context, t *testing.T, kind string, nv int) *c01wWorld {
	w := &c01wWorld{kind: kind, nv: nv, byKey: map[phase0.BLSPubKey]uint64{}}
	names := make([][]string, 0, nv)
	for v := 1; v <= nv; v++ {
		names = append(names, []string{c01wLetters[v-1]})
	}
	var store e2wtypes.Store
	if kind == "wallet" {
		w.dir = t.TempDir()
		store = filesystem.New(filesystem.WithLocation(w.dir))
	} else {
		store = scratch.New()
	}
	w.u = c13support.BuildUniverse(ctx, t, store, map[string][][]string{"W": names})
	for v := uint64(1); v <= uint64(nv); v++ {
		acc := w.u.Accounts[c01wName(v).Text()]
		if acc == nil {
			t.Fatalf("universe lacks account of validator %d", v)
		}
		if kind == "dirk" {
			// the accounts a Dirk wallet lists sign remotely; ours sign with their own key: unlocked
			if locker, ok := acc.(e2wtypes.AccountLocker); ok {
				if err := locker.Unlock(ctx, []byte(c13support.Passphrase)); err != nil {
					t.Fatalf("unlock account of validator %d: %v", v, err)
				}
			}
		}
		key := util.ValidatorPubkey(acc)
		w.byKey[key] = v
		w.keys = append(w.keys, key)
	}
	return w
}

// valOf is the validator whose key the account holds (0: a key outside the universe).
func (w *c01wWorld) valOf(a e2wtypes.Account) uint64 {
	if a == nil {
		return 0
	}
	return w.byKey[util.ValidatorPubkey(a)]
}

func (w *c01wWorld) recs(recs []c01wRec) []c13support.Rec {
	out := make([]c13support.Rec, 0, len(recs))
	for _, r := range recs {
		if !r.Known || int(r.V) > w.nv {
			continue
		}
		wd := r.Exit
		if wd != c13support.ModelFFE {
			wd++
		}
		out = append(out, c13support.Rec{N: c01wName(r.V), Index: r.V, Elig: 0, Act: r.Act, Exit: r.Exit, Wd: wd})
	}
	return out
}

// c01wInstance is the wired stack of one history.
type c01wInstance struct {
	h       *c01Harness
	w       *c01wWorld
	node    *c13support.Node
	am      c01wManager
	wallet  *c01wWallet // dirk
	sigMu   sync.Mutex
	sigs    map[phase0.BLSSignature]verifsupport.Ev
	offered []uint64
}

func (in *c01wInstance) offer(t *testing.T, held []uint64) {
	in.offered = held
	if in.w.kind == "wallet" {
		names := make([]c13support.Name, 0, len(held))
		for _, v := range held {
			names = append(names, c01wName(v))
		}
		if err := in.w.u.ShowOnly(in.w.dir, names); err != nil {
			t.Fatalf("offer: %v", err)
		}
		return
	}
	accs := make([]e2wtypes.Account, 0, len(held))
	for _, v := range held {
		accs = append(accs, in.w.u.Accounts[c01wName(v).Text()])
	}
	in.wallet.offer(accs)
}

// known are the validators whose account the manager holds (asked through its public interface).
func (in *c01wInstance) known(ctx context.Context) []uint64 {
	res := make([]uint64, 0)
	for i, key := range in.w.keys {
		if acc, err := in.am.AccountByPublicKey(ctx, key); err == nil && acc != nil {
			res = append(res, uint64(i+1))
		}
	}
	return res
}

func (in *c01wInstance) sigEv(s phase0.BLSSignature) verifsupport.Ev {
	in.sigMu.Lock()
	defer in.sigMu.Unlock()
	if e, ok := in.sigs[s]; ok {
		return e
	}
	return verifsupport.Ev{"v": 0, "c": 0, "data": c01DataEv(0, 0, 0, 0)}
}

// --- pass-through around the real account manager ---

type c01wAccounts struct{ in *c01wInstance }

func (p *c01wAccounts) ValidatingAccountsForEpoch(ctx context.Context, epoch phase0.Epoch) (map[phase0.ValidatorIndex]e2wtypes.Account, error) {
	return p.in.am.ValidatingAccountsForEpoch(ctx, epoch)
}

func (p *c01wAccounts) SyncCommitteeAccountsForEpoch(ctx context.Context, epoch phase0.Epoch) (map[phase0.ValidatorIndex]e2wtypes.Account, error) {
	return p.in.am.SyncCommitteeAccountsForEpoch(ctx, epoch)
}

func (p *c01wAccounts) SyncCommitteeAccountsForEpochByIndex(ctx context.Context, epoch phase0.Epoch, indices []phase0.ValidatorIndex) (map[phase0.ValidatorIndex]e2wtypes.Account, error) {
	return p.in.am.SyncCommitteeAccountsForEpochByIndex(ctx, epoch, indices)
}

// project a reply of the account manager: the validators BY KEY (sorted, once each), the indices the map files them
// under, and how many entries are filed under an index that is not the index of the account's key
func (in *c01wInstance) project(res map[phase0.ValidatorIndex]e2wtypes.Account) ([]uint64, []uint64, int) {
	seen := map[uint64]bool{}
	got := make([]uint64, 0, len(res))
	idx := make([]uint64, 0, len(res))
	bad := 0
	for i, a := range res {
		v := in.w.valOf(a)
		idx = append(idx, uint64(i))
		if v != uint64(i) {
			bad++
		}
		if !seen[v] {
			seen[v] = true
			got = append(got, v)
		}
	}
	sort.Slice(got, func(i, j int) bool { return got[i] < got[j] })
	sort.Slice(idx, func(i, j int) bool { return idx[i] < idx[j] })
	return got, idx, bad
}

func (p *c01wAccounts) ValidatingAccountsForEpochByIndex(ctx context.Context, epoch phase0.Epoch, indices []phase0.ValidatorIndex) (map[phase0.ValidatorIndex]e2wtypes.Account, error) {
	h := p.in.h
	r := h.run(ctx)
	if r == nil {
		return p.in.am.ValidatingAccountsForEpochByIndex(ctx, epoch, indices)
	}
	h.enter(r, "Accounts")
	req := make([]uint64, 0, len(indices))
	for _, i := range indices {
		req = append(req, uint64(i))
	}
	res, err := p.in.am.ValidatingAccountsForEpochByIndex(ctx, epoch, indices)
	got, idx, bad := p.in.project(res)
	h.emit(r, "Accounts", func(e verifsupport.Ev) {
		e["err"] = err != nil
		e["epoch"] = uint64(epoch)
		e["req"] = req
		e["accts"] = got
		e["idx"] = idx
		e["bad"] = bad
		e["empty_req"] = len(indices) == 0
	})
	return res, err
}

// --- pass-through in front of the real signer ---

type c01wSigner struct {
	in   *c01wInstance
	real signer.BeaconAttestationsSigner
}

func (p *c01wSigner) SignBeaconAttestations(ctx context.Context, accounts []e2wtypes.Account, slot phase0.Slot,
	committeeIndices []phase0.CommitteeIndex, blockRoot phase0.Root, sourceEpoch phase0.Epoch, sourceRoot phase0.Root,
	targetEpoch phase0.Epoch, targetRoot phase0.Root,
) ([]phase0.BLSSignature, error) {
	h := p.in.h
	r := h.run(ctx)
	if r == nil {
		return p.real.SignBeaconAttestations(ctx, accounts, slot, committeeIndices, blockRoot, sourceEpoch, sourceRoot, targetEpoch, targetRoot)
	}
	h.enter(r, "Sign")
	st := r.script.sign
	root := c01RootID(blockRoot, sourceRoot, targetRoot)
	read := func() [][2]uint64 {
		req := make([][2]uint64, 0, len(accounts))
		for i, a := range accounts {
			c := uint64(1 << 20)
			if i < len(committeeIndices) {
				c = uint64(committeeIndices[i])
			}
			req = append(req, [2]uint64{p.in.w.valOf(a), c})
		}
		return req
	}
	sorted := func(req [][2]uint64) [][2]uint64 {
		req = append([][2]uint64{}, req...)
		sort.Slice(req, func(i, j int) bool { return req[i][0] < req[j][0] || (req[i][0] == req[j][0] && req[i][1] < req[j][1]) })
		return req
	}
	req := read()
	data := c01DataEv(uint64(slot), uint64(sourceEpoch), uint64(targetEpoch), root)
	h.emit(r, "Sign", func(e verifsupport.Ev) {
		e["req"] = sorted(req)
		e["data"] = data
	})
	// inside the signer
	h.enter(r, "SignRet")
	var sigs []phase0.BLSSignature
	var err error
	if st != nil && st.Err {
		// the signer (a remote one) fails: nothing comes back
		err = c01Err(st, "scripted signer failure")
	} else {
		sigs, err = p.real.SignBeaconAttestations(ctx, accounts, slot, committeeIndices, blockRoot, sourceEpoch, sourceRoot, targetEpoch, targetRoot)
	}
	zero := make([]uint64, 0)
	if err == nil {
		p.in.sigMu.Lock()
		for i, q := range req {
			if i >= len(sigs) || sigs[i].IsZero() {
				zero = append(zero, q[0])
				continue
			}
			p.in.sigs[sigs[i]] = verifsupport.Ev{"v": q[0], "c": q[1], "data": data}
		}
		p.in.sigMu.Unlock()
	}
	sort.Slice(zero, func(i, j int) bool { return zero[i] < zero[j] })
	h.emit(r, "SignRet", func(e verifsupport.Ev) {
		e["err"] = err != nil
		e["zero"] = zero
		e["req"] = sorted(read())
		e["data"] = data
	})
	return sigs, err
}

// --- one history on one wired instance ---

func c01wNewInstance(ctx context.Context, t *testing.T, tr *verifsupport.Trace, sc *c01wScenario, w *c01wWorld) *c01wInstance {
	st := &sc.Steps[0]
	spe := st.Spe
	if spe == 0 {
		spe = 32
	}
	h := &c01Harness{t: t, tr: tr, sc: sc.Sc, gated: true, runs: map[int]*c01Run{},
		rnd: rand.New(rand.NewSource(verifsupport.Seed()*1000003 + int64(sc.Sc)))}
	in := &c01wInstance{h: h, w: w, sigs: map[phase0.BLSSignature]verifsupport.Ev{}}
	h.sigOf = in.sigEv
	ct := verifsupport.NewChainTime(spe, 12*time.Second)
	in.node = c13support.NewNode(w.u)
	in.node.Script("ok", w.recs(st.Recs))
	vm := c13support.NewValidatorsManager(ctx, t, in.node)
	if w.kind == "dirk" {
		s, err := dirkaccountmanager.New(ctx,
			dirkaccountmanager.WithLogLevel(zerolog.Disabled),
			dirkaccountmanager.WithMonitor(nullmetrics.New()),
			dirkaccountmanager.WithClientMonitor(nullmetrics.New()),
			dirkaccountmanager.WithProcessConcurrency(4),
			dirkaccountmanager.WithTimeout(250*time.Millisecond),
			dirkaccountmanager.WithEndpoints([]string{"localhost:1"}),
			dirkaccountmanager.WithAccountPaths([]string{"W"}),
			dirkaccountmanager.WithClientCert([]byte(resources.ClientTest01Crt)),
			dirkaccountmanager.WithClientKey([]byte(resources.ClientTest01Key)),
			dirkaccountmanager.WithCACert([]byte(resources.CACrt)),
			dirkaccountmanager.WithValidatorsManager(vm),
			dirkaccountmanager.WithDomainProvider(mock.NewDomainProvider()),
			dirkaccountmanager.WithFarFutureEpochProvider(mock.NewFarFutureEpochProvider(c13support.FarFutureEpoch)),
			dirkaccountmanager.WithCurrentEpochProvider(ct),
		)
		if err != nil {
			t.Fatalf("scenario %d: dirk New: %v", sc.Sc, err)
		}
		in.wallet = &c01wWallet{Wallet: w.u.Wallets["W"]}
		s.VerifC01SetWallets(map[string]e2wtypes.Wallet{"W": in.wallet})
		in.am = s
		in.offer(t, st.Held)
		s.Refresh(ctx)
	} else {
		in.offer(t, st.Held)
		// the constructor performs the first refresh (accounts, then validators)
		s, err := walletaccountmanager.New(ctx,
			walletaccountmanager.WithLogLevel(zerolog.Disabled),
			walletaccountmanager.WithMonitor(nullmetrics.New()),
			walletaccountmanager.WithProcessConcurrency(4),
			walletaccountmanager.WithLocations([]string{w.dir}),
			walletaccountmanager.WithAccountPaths([]string{"W"}),
			walletaccountmanager.WithPassphrases([][]byte{[]byte("wrong"), []byte(c13support.Passphrase)}),
			walletaccountmanager.WithValidatorsManager(vm),
			walletaccountmanager.WithSpecProvider(mock.NewSpecProvider()),
			walletaccountmanager.WithFarFutureEpochProvider(mock.NewFarFutureEpochProvider(c13support.FarFutureEpoch)),
			walletaccountmanager.WithDomainProvider(mock.NewDomainProvider()),
			walletaccountmanager.WithCurrentEpochProvider(ct),
		)
		if err != nil {
			t.Fatalf("scenario %d: wallet New: %v", sc.Sc, err)
		}
		in.am = s
	}
	signerSvc, err := standardsigner.New(ctx,
		standardsigner.WithLogLevel(zerolog.Disabled),
		standardsigner.WithMonitor(nullmetrics.New()),
		standardsigner.WithClientMonitor(nullmetrics.New()),
		standardsigner.WithSpecProvider(mock.NewSpecProvider()),
		standardsigner.WithDomainProvider(mock.NewDomainProvider()),
	)
	if err != nil {
		t.Fatalf("scenario %d: signer New: %v", sc.Sc, err)
	}
	svc, err := New(ctx,
		WithLogLevel(zerolog.Disabled),
		WithMonitor(nullmetrics.New()),
		WithProcessConcurrency(2),
		WithChainTime(ct),
		WithSpecProvider(&c01Spec{spe: spe}),
		WithAttestationDataProvider(&c01Tap{h: h, inner: &c01Node{h: h, name: "n1"}}),
		WithAttestationsSubmitter(&c01Submitter{h: h}),
		WithValidatingAccountsProvider(&c01wAccounts{in: in}),
		WithBeaconAttestationsSigner(&c01wSigner{in: in, real: signerSvc}),
	)
	if err != nil {
		t.Fatalf("scenario %d: attester New: %v", sc.Sc, err)
	}
	h.s = svc
	known := in.known(ctx)
	tr.Emit(verifsupport.Ev{"sc": sc.Sc, "ev": "Reset", "spe": spe, "mode": st.Mode, "am": w.kind,
		"held": c01wU64(st.Held), "recs": c01wRecsEv(st.Recs), "known": known, "wired": true})
	return in
}

func c01wU64(x []uint64) []uint64 {
	if x == nil {
		return []uint64{}
	}
	return x
}

func c01wRecsEv(recs []c01wRec) []verifsupport.Ev {
	out := make([]verifsupport.Ev, 0, len(recs))
	for _, r := range recs {
		out = append(out, verifsupport.Ev{"v": r.V, "known": r.Known, "act": r.Act, "exit": r.Exit})
	}
	return out
}

// aside runs a step that belongs to no Attest run (refresh, probe) on the controller's goroutine; a panic is Crash.
func (in *c01wInstance) aside(ev string, f func() verifsupport.Ev) {
	h := in.h
	var out verifsupport.Ev
	func() {
		defer func() {
			if x := recover(); x != nil {
				out = verifsupport.Ev{"sc": h.sc, "ev": "Crash", "run": 0, "what": fmt.Sprint(x), "in": ev}
			}
		}()
		out = f()
	}()
	h.tr.Locked(func() verifsupport.Ev {
		if h.dead {
			return nil
		}
		return out
	})
}

func c01wRunScenario(ctx context.Context, t *testing.T, tr *verifsupport.Trace, sc *c01wScenario, worlds map[string]*c01wWorld) {
	if len(sc.Steps) == 0 || sc.Steps[0].Ev != "Reset" {
		t.Fatalf("scenario %d does not start with Reset", sc.Sc)
	}
	st0 := &sc.Steps[0]
	w := worlds[st0.Am]
	if w == nil {
		nv := len(st0.Recs)
		if nv < 4 {
			nv = 4
		}
		w = c01wNewWorld(ctx, t, st0.Am, nv)
		worlds[st0.Am] = w
	}
	if len(st0.Recs) > w.nv {
		t.Fatalf("scenario %d: %d validators, the universe has %d", sc.Sc, len(st0.Recs), w.nv)
	}
	in := c01wNewInstance(ctx, t, tr, sc, w)
	h := in.h
	if c01HungSeen >= c01HungBudget {
		t.Logf("scenario %d not run: %d scenarios of this batch hung already", sc.Sc, c01HungSeen)
		return
	}
	order := make([]*c01Run, 0)
	for i := range sc.Steps {
		st := &sc.Steps[i]
		switch st.Ev {
		case "Reset", "Refresh", "Probe":
			continue
		case "Deliver":
			if st.Duty == nil || len(st.Duty.Vals) == 0 {
				t.Fatalf("scenario %d: Deliver without duty", sc.Sc)
			}
			r := &c01Run{id: st.Run, duty: st.Duty, arrive: make(chan string, 4), release: make(chan struct{})}
			h.runs[st.Run] = r
			order = append(order, r)
			continue
		}
		r := h.runs[st.Run]
		if r == nil {
			t.Fatalf("scenario %d: step %s for unknown run %d", sc.Sc, st.Ev, st.Run)
		}
		switch st.Ev {
		case "Fetch":
			r.script.fetch = &st.c01Step
		case "Accounts", "Sign", "Submit":
			// the call is let through; the account manager and the signer answer themselves
		case "SignRet":
			r.script.sign = &st.c01Step
		case "SubmitRet":
			r.script.submit = &st.c01Step
		default:
			t.Fatalf("unknown step %q", st.Ev)
		}
	}
	for i := range sc.Steps {
		st := &sc.Steps[i]
		switch st.Ev {
		case "Reset":
			continue
		case "Refresh":
			in.aside("Refresh", func() verifsupport.Ev {
				in.node.Script("ok", w.recs(st.Recs))
				in.offer(t, st.Held)
				in.am.Refresh(ctx)
				return verifsupport.Ev{"sc": sc.Sc, "ev": "Refresh", "run": 0, "held": c01wU64(st.Held), "recs": c01wRecsEv(st.Recs), "known": in.known(ctx)}
			})
			continue
		case "Probe":
			in.aside("Probe", func() verifsupport.Ev {
				idxs := make([]phase0.ValidatorIndex, 0, len(st.Idxs))
				for _, x := range st.Idxs {
					idxs = append(idxs, phase0.ValidatorIndex(x))
				}
				res, err := in.am.ValidatingAccountsForEpochByIndex(ctx, phase0.Epoch(st.Epoch), idxs)
				got, idx, bad := in.project(res)
				return verifsupport.Ev{"sc": sc.Sc, "ev": "Probe", "run": 0, "epoch": st.Epoch, "idxs": c01wU64(st.Idxs), "err": err != nil, "res": got, "idx": idx, "bad": bad}
			})
			continue
		}
		r := h.runs[st.Run]
		if st.Ev == "Deliver" {
			duty, logged := c01BuildDuty(t, h, r.duty, false)
			h.start(r, duty, logged, false, nil, nil)
			if !h.wait(r) {
				return
			}
			continue
		}
		if !h.advance(r) {
			return
		}
	}
	for _, r := range order {
		for !r.returned {
			if !h.advance(r) {
				return
			}
		}
	}
}

func TestVerifC01Wired(t *testing.T) {
	var scenarios []c01wScenario
	verifsupport.Scenarios(t, &scenarios)
	tr := verifsupport.OpenTrace(t)
	defer tr.Close()
	ctx := context.Background()
	worlds := map[string]*c01wWorld{}
	for i := range scenarios {
		c01wRunScenario(ctx, t, tr, &scenarios[i], worlds)
	}
}
