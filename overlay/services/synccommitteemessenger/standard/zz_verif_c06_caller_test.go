package standard

// Conformance driver for property C06 at the boundary of Vouch (spec/SignerCaller.tla, Trace_SignerCaller.tla),
// SIBLING CALLER of the signer's batch contract: the sync committee messenger (duty op "sync_root").
// Injected with -overlay by /verif/check.  The attester's driver is services/attester/standard/
// zz_verif_c06_caller_test.go; this file wires, ONE instance per history, the REAL
// synccommitteemessenger/standard.Service in front of the REAL signer (SignSyncCommitteeRoots, behind a
// pass-through that logs what is handed over and what comes back), accounts obtained from the REAL wallet account
// manager over an nd wallet (SyncCommitteeAccountsForEpochByIndex, then duty.SetAccount - as the controller does),
// REAL validators manager, REAL immediate submitter, REAL chaintime; fakes at the beacon node (validator records,
// head block root, spec map, domains of a chain with one fork, the submission end point).
// What leaves is a sync committee message attributed to the validator whose INDEX it carries; the driver logs
// under whose public key its signature verifies against SigningRoot(block root, DOMAIN_SYNC_COMMITTEE - bytes from
// Signer.tla's table - at the slot's epoch) and which entry of the duty the message names; TLA+ decides whether they
// are the same validator (SubmittedRight).  The duty lists its validators in the order of ValidatorIndices() of
// the real Duty (map order, different from run to run): the Deliver line records that order.

import (
	"context"
	"fmt"
	"math/rand"
	"sync"
	"testing"
	"time"

	"github.com/attestantio/go-eth2-client/api"
	"github.com/attestantio/go-eth2-client/spec/altair"
	"github.com/attestantio/go-eth2-client/spec/phase0"
	"github.com/attestantio/vouch/mock"
	walletaccountmanager "github.com/attestantio/vouch/services/accountmanager/wallet"
	standardchaintime "github.com/attestantio/vouch/services/chaintime/standard"
	nullmetrics "github.com/attestantio/vouch/services/metrics/null"
	"github.com/attestantio/vouch/services/signer"
	standardsigner "github.com/attestantio/vouch/services/signer/standard"
	immediatesubmitter "github.com/attestantio/vouch/services/submitter/immediate"
	mocksynccommitteeaggregator "github.com/attestantio/vouch/services/synccommitteeaggregator/mock"
	"github.com/attestantio/vouch/services/synccommitteemessenger"
	"github.com/attestantio/vouch/verifdrivers/c13support"
	"github.com/attestantio/vouch/verifsupport"
	"github.com/rs/zerolog"
	e2types "github.com/wealdtech/go-eth2-types/v2"
	filesystem "github.com/wealdtech/go-eth2-wallet-store-filesystem"
	e2wtypes "github.com/wealdtech/go-eth2-wallet-types/v2"
)

type c06sBoot struct {
	Keys    map[string]string `json:"keys"`
	Spe     uint64            `json:"spe"`
	SpecErr bool              `json:"specerr"`
}

type c06sEntry struct {
	V int `json:"v"`
	C int `json:"c"`
	P int `json:"p"`
}

type c06sStep struct {
	Ev      string           `json:"ev"`
	Op      string           `json:"op"`
	Rid     int              `json:"rid"`
	Fork    uint64           `json:"fork"`
	Boot    *c06sBoot        `json:"boot"`
	Table   map[string][]int `json:"table"`
	Acct    []string         `json:"acct"`
	Slot    uint64           `json:"slot"`
	Entries []c06sEntry      `json:"entries"`
}

type c06sScenario struct {
	Sc    int        `json:"sc"`
	Steps []c06sStep `json:"steps"`
}

const (
	c06sMaxVal    = 4
	c06sIndexBase = 1000
	c06sHungAfter = 20 * time.Second
)

func c06sType(b []int) (phase0.DomainType, bool) {
	var dt phase0.DomainType
	if len(b) != 4 {
		return dt, false
	}
	for i, v := range b {
		if v < 0 || v > 255 {
			return dt, false
		}
		dt[i] = byte(v)
	}
	return dt, true
}

func c06sInts(b []byte) []int {
	res := make([]int, len(b))
	for i, v := range b {
		res[i] = int(v)
	}
	return res
}

// the fake chain's domain function (the same chain as in the signer's and the attester's drivers)
func c06sDomain(dt phase0.DomainType, genesis bool, epoch uint64, fork uint64) phase0.Domain {
	var d phase0.Domain
	copy(d[:4], dt[:])
	if genesis {
		d[4] = 0x02
		return d
	}
	d[4] = 0x01
	if epoch < fork {
		d[5] = 0x01
	} else {
		d[5] = 0x02
	}
	d[31] = 0xfd
	return d
}

func c06sDecode(domain []byte) verifsupport.Ev {
	dt := c06sInts(domain[:4])
	switch {
	case domain[4] == 0x02:
		return verifsupport.Ev{"type": dt, "ver": "genesis"}
	case domain[4] == 0x01 && domain[5] == 0x01:
		return verifsupport.Ev{"type": dt, "ver": "old"}
	case domain[4] == 0x01 && domain[5] == 0x02:
		return verifsupport.Ev{"type": dt, "ver": "new"}
	}
	return verifsupport.Ev{"type": dt, "ver": "bad"}
}

// c06sNode is the beacon node of one history, apart from the validator records (c13support.Node).
type c06sNode struct {
	mu      sync.Mutex
	tr      *verifsupport.Trace
	sc      int
	fork    uint64
	spe     uint64
	spec    map[string]any
	rnd     *rand.Rand
	cur     int
	slot    uint64
	entries []c06sEntry // the duty of the delivery in progress
	want    phase0.DomainType
	keys    map[int]e2types.PublicKey
}

func (n *c06sNode) now() (int, uint64, []c06sEntry) {
	n.mu.Lock()
	defer n.mu.Unlock()
	return n.cur, n.slot, n.entries
}

func (n *c06sNode) Spec(_ context.Context, _ *api.SpecOpts) (*api.Response[map[string]any], error) {
	data := make(map[string]any, len(n.spec))
	for k, v := range n.spec {
		data[k] = v
	}
	return &api.Response[map[string]any]{Data: data, Metadata: map[string]any{}}, nil
}

func (n *c06sNode) serveDomain(dt phase0.DomainType, genesis bool, epoch uint64) (phase0.Domain, error) {
	rid, _, _ := n.now()
	ev := verifsupport.Ev{"sc": n.sc, "ev": "DomainReq", "rid": rid, "type": c06sInts(dt[:]), "genesis": genesis}
	if genesis {
		ev["epoch"] = -1
	} else {
		le := epoch
		if le >= 1<<31 {
			le = 1<<31 - 1
		}
		ev["epoch"] = le
	}
	n.tr.Emit(ev)
	res := c06sDomain(dt, genesis, epoch, n.fork)
	n.tr.Emit(verifsupport.Ev{"sc": n.sc, "ev": "DomainResp", "rid": rid, "err": false, "dom": c06sDecode(res[:])})
	return res, nil
}

func (n *c06sNode) Domain(_ context.Context, dt phase0.DomainType, epoch phase0.Epoch) (phase0.Domain, error) {
	return n.serveDomain(dt, false, uint64(epoch))
}

func (n *c06sNode) GenesisDomain(_ context.Context, dt phase0.DomainType) (phase0.Domain, error) {
	return n.serveDomain(dt, true, 0)
}

// BeaconBlockRoot: the node's head.
func (n *c06sNode) BeaconBlockRoot(_ context.Context, _ *api.BeaconBlockRootOpts) (*api.Response[*phase0.Root], error) {
	n.mu.Lock()
	defer n.mu.Unlock()
	var root phase0.Root
	n.rnd.Read(root[:])
	return &api.Response[*phase0.Root]{Data: &root, Metadata: map[string]any{}}, nil
}

func c06sSigningRoot(root phase0.Root, domain phase0.Domain) ([]byte, error) {
	sr, err := (&phase0.SigningData{ObjectRoot: root, Domain: domain}).HashTreeRoot()
	if err != nil {
		return nil, err
	}
	return sr[:], nil
}

// verifiesUnder: does sig verify under key against the signing root of the block root with the sync committee
// domain THE SPECIFICATION's table gives, at the epoch of the slot
func (n *c06sNode) verifiesUnder(root phase0.Root, slot uint64, sigBytes phase0.BLSSignature, key e2types.PublicKey) bool {
	sr, err := c06sSigningRoot(root, c06sDomain(n.want, false, slot/n.spe, n.fork))
	if err != nil || key == nil {
		return false
	}
	sig, err := e2types.BLSSignatureFromBytes(append([]byte{}, sigBytes[:]...))
	if err != nil {
		return false
	}
	return sig.Verify(sr, key)
}

// SubmitSyncCommitteeMessages: the end point; what arrives here has left Vouch.
func (n *c06sNode) SubmitSyncCommitteeMessages(_ context.Context, messages []*altair.SyncCommitteeMessage) error {
	rid, _, entries := n.now()
	atts := make([]verifsupport.Ev, 0, len(messages))
	for _, m := range messages {
		if m == nil {
			atts = append(atts, verifsupport.Ev{"slot": -1, "committee": -1, "pos": -1, "by": 0, "index": -1})
			continue
		}
		// the validator the message is attributed to: the one whose index it carries - written as that validator's
		// entry of the duty
		committee, pos := -1, -1
		for _, e := range entries {
			if uint64(m.ValidatorIndex) == uint64(c06sIndexBase+e.V) {
				committee, pos = e.C, e.P
			}
		}
		by := 0
		for v := 1; v <= len(n.keys); v++ {
			if n.verifiesUnder(m.BeaconBlockRoot, uint64(m.Slot), m.Signature, n.keys[v]) {
				by = v
				break
			}
		}
		atts = append(atts, verifsupport.Ev{"slot": uint64(m.Slot), "committee": committee, "pos": pos, "by": by,
			"index": uint64(m.ValidatorIndex)})
	}
	n.tr.Emit(verifsupport.Ev{"sc": n.sc, "ev": "Submit", "rid": rid, "atts": atts})
	return nil
}

// the pass-through in front of the real signer
type c06sSigner struct {
	inner signer.SyncCommitteeRootSigner
	node  *c06sNode
	byKey map[phase0.BLSPubKey]int
}

func (s *c06sSigner) SignSyncCommitteeRoots(ctx context.Context, accounts []e2wtypes.Account, epoch phase0.Epoch, root phase0.Root) ([]phase0.BLSSignature, error) {
	n := s.node
	rid, slot, entries := n.now()
	if len(accounts) == 0 {
		return s.inner.SignSyncCommitteeRoots(ctx, accounts, epoch, root)
	}
	vals := make([]int, len(accounts))
	cidx := make([]int, len(accounts))
	for i, a := range accounts {
		if a == nil || a.PublicKey() == nil {
			continue
		}
		var key phase0.BLSPubKey
		copy(key[:], a.PublicKey().Marshal())
		vals[i] = s.byKey[key]
		// no per-position data is handed to the signer on this path (one root for all): the committee index of the
		// validator's own entry is written down, so that the line has the shape of the attester's
		for _, e := range entries {
			if e.V == vals[i] {
				cidx[i] = e.C
			}
		}
	}
	n.tr.Emit(verifsupport.Ev{"sc": n.sc, "ev": "Call", "rid": rid, "slot": slot, "vals": vals, "cidx": cidx, "epoch": uint64(epoch)})
	sigs, err := s.inner.SignSyncCommitteeRoots(ctx, accounts, epoch, root)
	verifies := make([]bool, len(sigs))
	zero := make([]bool, len(sigs))
	if err == nil {
		for i := range sigs {
			zero[i] = sigs[i] == phase0.BLSSignature{}
			if zero[i] || i >= len(accounts) || accounts[i] == nil {
				continue
			}
			verifies[i] = n.verifiesUnder(root, slot, sigs[i], accounts[i].PublicKey())
		}
	}
	n.tr.Emit(verifsupport.Ev{"sc": n.sc, "ev": "Return", "rid": rid, "ok": err == nil, "n": len(sigs), "verifies": verifies, "zero": zero})
	return sigs, err
}

type c06sHist struct {
	sc        int
	tr        *verifsupport.Trace
	node      *c06sNode
	accounts  *walletaccountmanager.Service
	messenger *Service
	dead      bool
}

func c06sName(v int) c13support.Name {
	return c13support.Name{W: "C06", A: []string{fmt.Sprintf("v%d", v)}}
}

func c06sNewHist(ctx context.Context, t *testing.T, tr *verifsupport.Trace, rnd *rand.Rand, dir string, u *c13support.Universe, scID int, st c06sStep) *c06sHist {
	if st.Boot == nil || st.Boot.Spe == 0 || len(st.Table) == 0 || len(st.Acct) == 0 || len(st.Acct) > c06sMaxVal {
		t.Fatalf("scenario %d: bad Reset step", scID)
	}
	for k, m := range st.Boot.Keys {
		if m != "ok" {
			t.Fatalf("scenario %d: the wired family runs on a complete start-up input (%s: %s)", scID, k, m)
		}
	}
	want, ok := c06sType(st.Table["DOMAIN_SYNC_COMMITTEE"])
	if !ok {
		t.Fatalf("scenario %d: the specification's table has no sync committee domain type", scID)
	}
	tr.Emit(verifsupport.Ev{"sc": scID, "ev": "Reset", "fork": st.Fork, "acct": st.Acct,
		"boot": verifsupport.Ev{"keys": st.Boot.Keys, "spe": st.Boot.Spe, "specerr": st.Boot.SpecErr}})
	spec := map[string]any{
		"SECONDS_PER_SLOT":                         12 * time.Second,
		"SLOTS_PER_EPOCH":                          st.Boot.Spe,
		"CONFIG_NAME":                              "verif",
		"SYNC_COMMITTEE_SIZE":                      uint64(512),
		"SYNC_COMMITTEE_SUBNET_COUNT":              uint64(4),
		"TARGET_AGGREGATORS_PER_SYNC_SUBCOMMITTEE": uint64(16),
		"EPOCHS_PER_SYNC_COMMITTEE_PERIOD":         uint64(256),
	}
	for name, b := range st.Table {
		if dt, ok := c06sType(b); ok {
			spec[name] = dt
		}
	}
	node := &c06sNode{tr: tr, sc: scID, fork: st.Fork, spe: st.Boot.Spe, spec: spec, rnd: rand.New(rand.NewSource(rnd.Int63())),
		want: want, keys: map[int]e2types.PublicKey{}}
	h := &c06sHist{sc: scID, tr: tr, node: node}

	// validator records: a validator we have "no account" for is not yet active (pending): the account manager's
	// sync committee eligibility filter leaves it out, the controller sets no account for it on the duty
	byKey := map[phase0.BLSPubKey]int{}
	recs := make([]c13support.Rec, 0, len(st.Acct))
	for v := 1; v <= len(st.Acct); v++ {
		name := c06sName(v)
		acc, ok := u.Accounts[name.Text()]
		if !ok {
			t.Fatalf("scenario %d: no account %s in the universe", scID, name.Text())
		}
		node.keys[v] = acc.PublicKey()
		var key phase0.BLSPubKey
		copy(key[:], acc.PublicKey().Marshal())
		byKey[key] = v
		rec := c13support.Rec{N: name, Index: uint64(c06sIndexBase + v), Elig: 0, Act: 0, Exit: c13support.ModelFFE, Wd: c13support.ModelFFE}
		switch st.Acct[v-1] {
		case "plain":
		case "none":
			rec.Act = c13support.ModelFFE
		default:
			t.Fatalf("scenario %d: account kind %q is not one an nd wallet holds", scID, st.Acct[v-1])
		}
		recs = append(recs, rec)
	}
	vnode := c13support.NewNode(u)
	vnode.Script("ok", recs)

	chainTime, err := standardchaintime.New(ctx,
		standardchaintime.WithLogLevel(zerolog.Disabled),
		standardchaintime.WithGenesisProvider(mock.NewGenesisProvider(time.Now().Add(-1000*12*time.Second))),
		standardchaintime.WithSpecProvider(node),
	)
	if err != nil {
		t.Fatalf("scenario %d: chaintime New: %v", scID, err)
	}
	vm := c13support.NewValidatorsManager(ctx, t, vnode)
	h.accounts, err = walletaccountmanager.New(ctx,
		walletaccountmanager.WithLogLevel(zerolog.Disabled),
		walletaccountmanager.WithMonitor(nullmetrics.New()),
		walletaccountmanager.WithProcessConcurrency(2),
		walletaccountmanager.WithLocations([]string{dir}),
		walletaccountmanager.WithAccountPaths([]string{"C06"}),
		walletaccountmanager.WithPassphrases([][]byte{[]byte(c13support.Passphrase)}),
		walletaccountmanager.WithValidatorsManager(vm),
		walletaccountmanager.WithSpecProvider(node),
		walletaccountmanager.WithFarFutureEpochProvider(mock.NewFarFutureEpochProvider(c13support.FarFutureEpoch)),
		walletaccountmanager.WithDomainProvider(node),
		walletaccountmanager.WithCurrentEpochProvider(chainTime),
	)
	if err != nil {
		t.Fatalf("scenario %d: wallet account manager New: %v", scID, err)
	}

	var signerSvc *standardsigner.Service
	crashed := func() (msg string) {
		defer func() {
			if p := recover(); p != nil {
				msg = fmt.Sprint(p)
				if len(msg) > 160 {
					msg = msg[:160]
				}
			}
		}()
		signerSvc, err = standardsigner.New(ctx,
			standardsigner.WithLogLevel(zerolog.Disabled),
			standardsigner.WithMonitor(nullmetrics.New()),
			standardsigner.WithClientMonitor(nullmetrics.New()),
			standardsigner.WithSpecProvider(node),
			standardsigner.WithDomainProvider(node),
		)
		return ""
	}()
	if crashed != "" {
		tr.Emit(verifsupport.Ev{"sc": scID, "ev": "Crash", "rid": 0, "msg": "signer New: " + crashed})
		h.dead = true
		return h
	}
	tr.Emit(verifsupport.Ev{"sc": scID, "ev": "Start", "ok": err == nil && signerSvc != nil})
	if err != nil || signerSvc == nil {
		h.dead = true
		return h
	}

	submitterSvc, err := immediatesubmitter.New(ctx,
		immediatesubmitter.WithLogLevel(zerolog.Disabled),
		immediatesubmitter.WithClientMonitor(nullmetrics.New()),
		immediatesubmitter.WithProposalSubmitter(mock.NewProposalSubmitter()),
		immediatesubmitter.WithAttestationsSubmitter(mock.NewAttestationsSubmitter()),
		immediatesubmitter.WithSyncCommitteeMessagesSubmitter(node),
		immediatesubmitter.WithSyncCommitteeSubscriptionsSubmitter(mock.NewSyncCommitteeSubscriptionsSubmitter()),
		immediatesubmitter.WithSyncCommitteeContributionsSubmitter(mock.NewSyncCommitteeContributionsSubmitter()),
		immediatesubmitter.WithBeaconCommitteeSubscriptionsSubmitter(mock.NewBeaconCommitteeSubscriptionsSubmitter()),
		immediatesubmitter.WithAggregateAttestationsSubmitter(mock.NewAggregateAttestationsSubmitter()),
		immediatesubmitter.WithProposalPreparationsSubmitter(mock.NewProposalPreparationsSubmitter()),
	)
	if err != nil {
		t.Fatalf("scenario %d: submitter New: %v", scID, err)
	}

	h.messenger, err = New(ctx,
		WithLogLevel(zerolog.Disabled),
		WithMonitor(nullmetrics.New()),
		WithProcessConcurrency(2),
		WithChainTimeService(chainTime),
		WithSyncCommitteeAggregator(mocksynccommitteeaggregator.New()),
		WithSpecProvider(node),
		WithBeaconBlockRootProvider(node),
		WithSyncCommitteeMessagesSubmitter(submitterSvc),
		WithSyncCommitteeSubscriptionsSubmitter(submitterSvc),
		WithValidatingAccountsProvider(h.accounts),
		WithSyncCommitteeRootSigner(&c06sSigner{inner: signerSvc, node: node, byKey: byKey}),
		WithSyncCommitteeSelectionSigner(signerSvc),
	)
	if err != nil {
		t.Fatalf("scenario %d: messenger New: %v", scID, err)
	}
	return h
}

// deliver: the controller's message job for the slot - the duty built as the controller builds it (NewDuty over the
// message indices, accounts from the account manager's SyncCommitteeAccountsForEpochByIndex set on it), then Message.
func (h *c06sHist) deliver(ctx context.Context, t *testing.T, rnd *rand.Rand, st c06sStep) {
	if h.dead {
		return
	}
	byV := map[int]c06sEntry{}
	messageIndices := map[phase0.ValidatorIndex][]phase0.CommitteeIndex{}
	indices := make([]phase0.ValidatorIndex, 0, len(st.Entries))
	for _, e := range st.Entries {
		byV[e.V] = e
		index := phase0.ValidatorIndex(c06sIndexBase + e.V)
		messageIndices[index] = []phase0.CommitteeIndex{phase0.CommitteeIndex(rnd.Intn(512))}
		indices = append(indices, index)
	}
	duty := synccommitteemessenger.NewDuty(phase0.Slot(st.Slot), messageIndices)
	accounts, err := h.accounts.SyncCommitteeAccountsForEpochByIndex(ctx, phase0.Epoch(st.Slot/h.node.spe), indices)
	if err != nil {
		t.Fatalf("scenario %d: accounts: %v", h.sc, err)
	}
	for index, account := range accounts {
		duty.SetAccount(index, account)
	}
	// the duty's own order of validators (map order inside NewDuty)
	ordered := make([]c06sEntry, 0, len(st.Entries))
	entries := make([]verifsupport.Ev, 0, len(st.Entries))
	for _, index := range duty.ValidatorIndices() {
		e := byV[int(index)-c06sIndexBase]
		ordered = append(ordered, e)
		entries = append(entries, verifsupport.Ev{"v": e.V, "c": e.C, "p": e.P})
	}
	h.node.mu.Lock()
	h.node.cur, h.node.slot, h.node.entries = st.Rid, st.Slot, ordered
	h.node.mu.Unlock()
	h.tr.Emit(verifsupport.Ev{"sc": h.sc, "ev": "Deliver", "op": "sync_root", "rid": st.Rid, "slot": st.Slot, "entries": entries})

	type outcome struct {
		n     int
		err   error
		crash string
	}
	done := make(chan outcome, 1)
	go func() {
		var out outcome
		defer func() {
			if p := recover(); p != nil {
				out.crash = fmt.Sprint(p)
				if len(out.crash) > 160 {
					out.crash = out.crash[:160]
				}
				if out.crash == "" {
					out.crash = "panic"
				}
			}
			done <- out
		}()
		msgs, err := h.messenger.Message(ctx, duty)
		out.n, out.err = len(msgs), err
	}()
	select {
	case out := <-done:
		if out.crash != "" {
			h.tr.Emit(verifsupport.Ev{"sc": h.sc, "ev": "Crash", "rid": st.Rid, "msg": out.crash})
			h.dead = true
			return
		}
		h.tr.Emit(verifsupport.Ev{"sc": h.sc, "ev": "Attested", "rid": st.Rid, "ok": out.err == nil, "n": out.n})
	case <-time.After(c06sHungAfter):
		h.tr.Emit(verifsupport.Ev{"sc": h.sc, "ev": "Hung", "rid": st.Rid, "after_ms": c06sHungAfter.Milliseconds()})
		h.dead = true
	}
}

func TestVerifC06CallerSync(t *testing.T) {
	var scenarios []c06sScenario
	verifsupport.Scenarios(t, &scenarios)
	tr := verifsupport.OpenTrace(t)
	defer tr.Close()
	ctx := context.Background()
	rnd := rand.New(rand.NewSource(verifsupport.Seed()))

	dir := t.TempDir()
	store := filesystem.New(filesystem.WithLocation(dir))
	names := make([][]string, 0, c06sMaxVal)
	for v := 1; v <= c06sMaxVal; v++ {
		names = append(names, c06sName(v).A)
	}
	u := c13support.BuildUniverse(ctx, t, store, map[string][][]string{"C06": names})

	for _, sc := range scenarios {
		var h *c06sHist
		for _, st := range sc.Steps {
			switch st.Ev {
			case "Reset":
				h = c06sNewHist(ctx, t, tr, rnd, dir, u, sc.Sc, st)
			case "Deliver":
				if h == nil {
					t.Fatalf("scenario %d: Deliver before Reset", sc.Sc)
				}
				if st.Op != "sync_root" {
					t.Fatalf("scenario %d: this driver runs the sync committee messenger (op %q)", sc.Sc, st.Op)
				}
				h.deliver(ctx, t, rnd, st)
			default:
				t.Fatalf("unknown step %q", st.Ev)
			}
		}
	}
}
