//go:build verif

package standard

import "sort"

// VerifC20SlotDataRecordSlots is a read-only projection for property C20 (injected by /verif with
// -overlay, never committed): the slots that have an entry in slotDataRecords.
func (s *Service) VerifC20SlotDataRecordSlots() []uint64 {
	s.slotDataRecordsMu.Lock()
	defer s.slotDataRecordsMu.Unlock()
	res := make([]uint64, 0, len(s.slotDataRecords))
	for slot := range s.slotDataRecords {
		res = append(res, uint64(slot))
	}
	sort.Slice(res, func(i, j int) bool { return res[i] < res[j] })
	return res
}
