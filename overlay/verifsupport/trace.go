// Package verifsupport is injected into the repository by `go test -overlay` at check time (it is
// never committed to the repository).  It carries what every conformance driver needs: scenario
// input, ndjson trace output with per-trace sequence numbers, seeds.
package verifsupport

import (
	"bufio"
	"encoding/json"
	"fmt"
	"os"
	"strconv"
	"sync"
	"testing"
)

// Scenarios reads the ndjson file named by VERIF_SCENARIOS into out (pointer to a slice).
func Scenarios(t testing.TB, out interface{}) {
	t.Helper()
	path := os.Getenv("VERIF_SCENARIOS")
	if path == "" {
		t.Skip("VERIF_SCENARIOS not set: conformance drivers are run by /verif/check")
	}
	data, err := os.ReadFile(path)
	if err != nil {
		t.Fatalf("scenarios: %v", err)
	}
	// ndjson -> JSON array.
	buf := []byte{'['}
	first := true
	start := 0
	for i := 0; i <= len(data); i++ {
		if i == len(data) || data[i] == '\n' {
			line := data[start:i]
			start = i + 1
			if len(line) == 0 {
				continue
			}
			if !first {
				buf = append(buf, ',')
			}
			first = false
			buf = append(buf, line...)
		}
	}
	buf = append(buf, ']')
	if err := json.Unmarshal(buf, out); err != nil {
		t.Fatalf("scenarios: %v", err)
	}
}

// Seed returns VERIF_SEED (default 1).
func Seed() int64 {
	s, err := strconv.ParseInt(os.Getenv("VERIF_SEED"), 10, 64)
	if err != nil {
		return 1
	}
	return s
}

// Tier returns VERIF_TIER (default quick).
func Tier() string {
	if os.Getenv("VERIF_TIER") == "thorough" {
		return "thorough"
	}
	return "quick"
}

// Ev is one trace line.
type Ev map[string]interface{}

// Trace is an ndjson trace writer.  Emit is safe for concurrent use; the sequence number is taken
// under the same lock as the write, so the file order is the linearisation order of Emit calls.
type Trace struct {
	mu  sync.Mutex
	f   *os.File
	w   *bufio.Writer
	seq int
}

// OpenTrace opens the file named by VERIF_TRACE_OUT.
func OpenTrace(t testing.TB) *Trace {
	t.Helper()
	path := os.Getenv("VERIF_TRACE_OUT")
	if path == "" {
		t.Skip("VERIF_TRACE_OUT not set: conformance drivers are run by /verif/check")
	}
	return OpenTraceFile(t, path)
}

// OpenTraceFile opens a named trace file.
func OpenTraceFile(t testing.TB, path string) *Trace {
	f, err := os.Create(path)
	if err != nil {
		t.Fatalf("trace: %v", err)
	}
	return &Trace{f: f, w: bufio.NewWriterSize(f, 1<<20)}
}

// Emit writes one event.
func (tr *Trace) Emit(ev Ev) {
	tr.mu.Lock()
	defer tr.mu.Unlock()
	tr.seq++
	ev["seq"] = tr.seq
	b, err := json.Marshal(ev)
	if err != nil {
		panic(fmt.Sprintf("trace marshal: %v (%v)", err, ev))
	}
	tr.w.Write(b)
	tr.w.WriteByte('\n')
}

// Locked runs fn while holding the trace lock and then emits the event fn returns (used where the
// event must be ordered together with a state change of a fake).
func (tr *Trace) Locked(fn func() Ev) {
	tr.mu.Lock()
	defer tr.mu.Unlock()
	ev := fn()
	if ev == nil {
		return
	}
	tr.seq++
	ev["seq"] = tr.seq
	b, err := json.Marshal(ev)
	if err != nil {
		panic(fmt.Sprintf("trace marshal: %v (%v)", err, ev))
	}
	tr.w.Write(b)
	tr.w.WriteByte('\n')
}

// Close flushes and closes.
func (tr *Trace) Close() {
	tr.mu.Lock()
	defer tr.mu.Unlock()
	tr.w.Flush()
	tr.f.Close()
}
