package verifsupport

import (
	"context"
	"sort"
	"strings"
	"sync"
	"time"

	"github.com/attestantio/vouch/services/scheduler"
)

// Job is a job held by the fake scheduler.
type Job struct {
	Class       string
	Name        string
	Runtime     time.Time
	Func        scheduler.JobFunc
	RuntimeFunc scheduler.RuntimeFunc
	Periodic    bool
}

// Scheduler is a scheduler.Service that only records: jobs run when the driver fires them.
// It implements the job-table abstraction of Scheduler.tla (a name is claimed once; one-off jobs
// leave the table when started or cancelled).
type Scheduler struct {
	mu   sync.Mutex
	jobs map[string]*Job
	// OnCall, if set, is told every call made on the interface (after the table change, under the lock).
	OnCall func(op string, name string, runtime time.Time, err error)
}

// NewScheduler returns an empty fake scheduler.
func NewScheduler() *Scheduler {
	return &Scheduler{jobs: map[string]*Job{}}
}

func (s *Scheduler) note(op, name string, rt time.Time, err error) {
	if s.OnCall != nil {
		s.OnCall(op, name, rt, err)
	}
}

// ScheduleJob implements scheduler.Service.
func (s *Scheduler) ScheduleJob(_ context.Context, class string, name string, runtime time.Time, job scheduler.JobFunc) error {
	s.mu.Lock()
	defer s.mu.Unlock()
	if name == "" {
		s.note("ScheduleJob", name, runtime, scheduler.ErrNoJobName)
		return scheduler.ErrNoJobName
	}
	if job == nil {
		s.note("ScheduleJob", name, runtime, scheduler.ErrNoJobFunc)
		return scheduler.ErrNoJobFunc
	}
	if _, ok := s.jobs[name]; ok {
		s.note("ScheduleJob", name, runtime, scheduler.ErrJobAlreadyExists)
		return scheduler.ErrJobAlreadyExists
	}
	s.jobs[name] = &Job{Class: class, Name: name, Runtime: runtime, Func: job}
	s.note("ScheduleJob", name, runtime, nil)
	return nil
}

// SchedulePeriodicJob implements scheduler.Service.
func (s *Scheduler) SchedulePeriodicJob(_ context.Context, class string, name string, runtime scheduler.RuntimeFunc, job scheduler.JobFunc) error {
	s.mu.Lock()
	defer s.mu.Unlock()
	if name == "" {
		return scheduler.ErrNoJobName
	}
	if runtime == nil {
		return scheduler.ErrNoRuntimeFunc
	}
	if job == nil {
		return scheduler.ErrNoJobFunc
	}
	if _, ok := s.jobs[name]; ok {
		return scheduler.ErrJobAlreadyExists
	}
	s.jobs[name] = &Job{Class: class, Name: name, Func: job, RuntimeFunc: runtime, Periodic: true}
	s.note("SchedulePeriodicJob", name, time.Time{}, nil)
	return nil
}

// CancelJob implements scheduler.Service.
func (s *Scheduler) CancelJob(_ context.Context, name string) error {
	s.mu.Lock()
	defer s.mu.Unlock()
	if _, ok := s.jobs[name]; !ok {
		s.note("CancelJob", name, time.Time{}, scheduler.ErrNoSuchJob)
		return scheduler.ErrNoSuchJob
	}
	delete(s.jobs, name)
	s.note("CancelJob", name, time.Time{}, nil)
	return nil
}

// CancelJobIfExists implements scheduler.Service.
func (s *Scheduler) CancelJobIfExists(ctx context.Context, name string) {
	_ = s.CancelJob(ctx, name)
}

// CancelJobs implements scheduler.Service.
func (s *Scheduler) CancelJobs(_ context.Context, prefix string) {
	s.mu.Lock()
	defer s.mu.Unlock()
	for name := range s.jobs {
		if strings.HasPrefix(name, prefix) {
			delete(s.jobs, name)
			s.note("CancelJob", name, time.Time{}, nil)
		}
	}
}

// RunJob implements scheduler.Service: the job runs on its own goroutine, as in the real scheduler.
func (s *Scheduler) RunJob(ctx context.Context, name string) error {
	s.mu.Lock()
	job, ok := s.jobs[name]
	if !ok {
		s.note("RunJob", name, time.Time{}, scheduler.ErrNoSuchJob)
		s.mu.Unlock()
		return scheduler.ErrNoSuchJob
	}
	if !job.Periodic {
		delete(s.jobs, name)
	}
	s.note("RunJob", name, time.Time{}, nil)
	s.mu.Unlock()
	go job.Func(ctx)
	return nil
}

// JobExists implements scheduler.Service.
func (s *Scheduler) JobExists(_ context.Context, name string) bool {
	s.mu.Lock()
	defer s.mu.Unlock()
	_, ok := s.jobs[name]
	return ok
}

// RunJobIfExists implements scheduler.Service.
func (s *Scheduler) RunJobIfExists(ctx context.Context, name string) {
	_ = s.RunJob(ctx, name)
}

// ListJobs implements scheduler.Service.
func (s *Scheduler) ListJobs(_ context.Context) []string {
	s.mu.Lock()
	defer s.mu.Unlock()
	names := make([]string, 0, len(s.jobs))
	for name := range s.jobs {
		names = append(names, name)
	}
	sort.Strings(names)
	return names
}

// Get returns a copy of the named job, or nil.
func (s *Scheduler) Get(name string) *Job {
	s.mu.Lock()
	defer s.mu.Unlock()
	if j, ok := s.jobs[name]; ok {
		c := *j
		return &c
	}
	return nil
}

// Snapshot returns copies of all jobs sorted by name.
func (s *Scheduler) Snapshot() []Job {
	s.mu.Lock()
	defer s.mu.Unlock()
	res := make([]Job, 0, len(s.jobs))
	for _, j := range s.jobs {
		res = append(res, *j)
	}
	sort.Slice(res, func(i, k int) bool { return res[i].Name < res[k].Name })
	return res
}

// Fire runs the named job synchronously on the caller's goroutine (the timer path of the real
// scheduler): one-off jobs leave the table first.  Returns false if there is no such job.
func (s *Scheduler) Fire(ctx context.Context, name string) bool {
	s.mu.Lock()
	job, ok := s.jobs[name]
	if ok && !job.Periodic {
		delete(s.jobs, name)
	}
	s.mu.Unlock()
	if !ok {
		return false
	}
	job.Func(ctx)
	return true
}
