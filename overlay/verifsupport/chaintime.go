package verifsupport

import (
	"sync"
	"time"

	"github.com/attestantio/go-eth2-client/spec/phase0"
)

// ChainTime is a chaintime.Service with a virtual clock that the driver sets.
type ChainTime struct {
	mu            sync.RWMutex
	Genesis       time.Time
	SlotDuration  time.Duration
	SlotsPerEpoch uint64
	slot          phase0.Slot
}

// NewChainTime returns a virtual chain time at slot 0.
func NewChainTime(slotsPerEpoch uint64, slotDuration time.Duration) *ChainTime {
	return &ChainTime{
		Genesis:       time.Unix(1600000000, 0),
		SlotDuration:  slotDuration,
		SlotsPerEpoch: slotsPerEpoch,
	}
}

// SetSlot moves the clock.
func (c *ChainTime) SetSlot(slot uint64) {
	c.mu.Lock()
	c.slot = phase0.Slot(slot)
	c.mu.Unlock()
}

// GenesisTime implements chaintime.Service.
func (c *ChainTime) GenesisTime() time.Time { return c.Genesis }

// StartOfSlot implements chaintime.Service.
func (c *ChainTime) StartOfSlot(slot phase0.Slot) time.Time {
	return c.Genesis.Add(time.Duration(slot) * c.SlotDuration)
}

// StartOfEpoch implements chaintime.Service.
func (c *ChainTime) StartOfEpoch(epoch phase0.Epoch) time.Time {
	return c.Genesis.Add(time.Duration(uint64(epoch)*c.SlotsPerEpoch) * c.SlotDuration)
}

// CurrentSlot implements chaintime.Service.
func (c *ChainTime) CurrentSlot() phase0.Slot {
	c.mu.RLock()
	defer c.mu.RUnlock()
	return c.slot
}

// CurrentEpoch implements chaintime.Service.
func (c *ChainTime) CurrentEpoch() phase0.Epoch {
	return phase0.Epoch(uint64(c.CurrentSlot()) / c.SlotsPerEpoch)
}

// SlotToEpoch implements chaintime.Service.
func (c *ChainTime) SlotToEpoch(slot phase0.Slot) phase0.Epoch {
	return phase0.Epoch(uint64(slot) / c.SlotsPerEpoch)
}

// FirstSlotOfEpoch implements chaintime.Service.
func (c *ChainTime) FirstSlotOfEpoch(epoch phase0.Epoch) phase0.Slot {
	return phase0.Slot(uint64(epoch) * c.SlotsPerEpoch)
}

// TimeToSlot converts a time to (slot, offset within the slot); before genesis gives slot 0 and a negative offset.
func (c *ChainTime) TimeToSlot(t time.Time) (uint64, time.Duration) {
	d := t.Sub(c.Genesis)
	if d < 0 {
		return 0, d
	}
	s := uint64(d / c.SlotDuration)
	return s, d - time.Duration(s)*c.SlotDuration
}
