package main

// Conformance driver for the WIRED family of property C19 (spec/HierConfigWire.tla).  Injected into the
// repository root (package main) with -overlay by /verif/check; nothing is written to the repository.
//
// The subject is the caller's side of the hierarchical settings: which configuration path main.go /
// clients.go hand to util.BeaconNodeAddresses / Timeout / LogLevel / ProcessConcurrency /
// HierarchicalBool when they construct a service.  A scenario is the history of ONE process: the
// configuration is written (a document in a scratch base directory, environment variables with the
// VOUCH prefix, the command line) and loaded by the REAL fetchConfig(); then the real select* / start* /
// fetchClient / fetchMultiClient functions of package main are called, which construct the real
// strategies, submitters, modules and go-eth2-client HTTP clients (fake beacon nodes: httptest servers).
// After every call the driver reads from the constructed service itself what it was given (addresses of
// its providers, timeout, log level, process concurrency, the clients' settings), for some services
// makes one real call through it and notes which fake nodes received the request, and logs that; TLC
// judges every Start line against the tree the driver read back from viper (HierConfigWire.tla:
// the value at the longest prefix, that has a value, of the path DOCUMENTED for the implementation that
// is observed running).  A panic in a call is logged as Crash, a call that does not return as Hung:
// events no action of the specification allows.

import (
	"context"
	"encoding/json"
	"fmt"
	"go/ast"
	"go/parser"
	"go/token"
	"math/rand"
	"net"
	"net/http"
	"net/http/httptest"
	"os"
	"path/filepath"
	"reflect"
	"sort"
	"strconv"
	"strings"
	"sync/atomic"
	"syscall"
	"testing"
	"time"

	eth2client "github.com/attestantio/go-eth2-client"
	"github.com/attestantio/go-eth2-client/api"
	"github.com/attestantio/go-eth2-client/spec/phase0"
	mockcache "github.com/attestantio/vouch/services/cache/mock"
	"github.com/attestantio/vouch/services/metrics"
	nullmetrics "github.com/attestantio/vouch/services/metrics/null"
	"github.com/attestantio/vouch/util"
	"github.com/attestantio/vouch/verifsupport"
	"github.com/rs/zerolog"
	zerologger "github.com/rs/zerolog/log"
	"github.com/spf13/pflag"
	"github.com/spf13/viper"
)

type c19wEntry struct {
	P []string `json:"p"`
	V string   `json:"v"`
}

type c19wKindTree struct {
	K    string      `json:"k"`
	Tree []c19wEntry `json:"tree"`
}

type c19wStyle struct {
	S  string `json:"s"`
	St string `json:"st"`
}

type c19wStep struct {
	Ev     string         `json:"ev"`
	Styles []c19wStyle    `json:"styles"`
	Tree   []c19wEntry    `json:"tree"`
	Cfg    []c19wKindTree `json:"cfg"`
	Svc    string         `json:"svc"`
}

type c19wScenario struct {
	Sc    int        `json:"sc"`
	Steps []c19wStep `json:"steps"`
}

var c19wKinds = []string{"addresses", "timeout", "log-level", "process-concurrency", "bool"}

var c19wKeyOf = map[string]string{
	"addresses": "beacon-node-addresses", "timeout": "timeout", "log-level": "log-level",
	"process-concurrency": "process-concurrency", "bool": "reduced-memory-usage",
}

// ---------------------------------------------------------------------------------------------------
// fake beacon nodes

type c19wNode struct {
	srv     *httptest.Server
	addr    string
	headers atomic.Int64
	blocks  atomic.Int64
	roots   atomic.Int64
}

const c19wZeroRoot = "0x0000000000000000000000000000000000000000000000000000000000000000"

var c19wZeroSig = "0x" + strings.Repeat("00", 96)

func c19wNewNode(t *testing.T) *c19wNode {
	n := &c19wNode{}
	js := func(w http.ResponseWriter, body string) {
		w.Header().Set("Content-Type", "application/json")
		fmt.Fprint(w, body)
	}
	mux := http.NewServeMux()
	mux.HandleFunc("/eth/v1/node/syncing", func(w http.ResponseWriter, _ *http.Request) {
		js(w, `{"data":{"head_slot":"1","sync_distance":"0","is_syncing":false,"is_optimistic":false,"el_offline":false}}`)
	})
	mux.HandleFunc("/eth/v1/node/version", func(w http.ResponseWriter, _ *http.Request) {
		js(w, `{"data":{"version":"fake/v0.0.0"}}`)
	})
	mux.HandleFunc("/eth/v1/beacon/genesis", func(w http.ResponseWriter, _ *http.Request) {
		js(w, `{"data":{"genesis_time":"1606824023","genesis_validators_root":"`+c19wZeroRoot+`","genesis_fork_version":"0x00000000"}}`)
	})
	mux.HandleFunc("/eth/v1/config/fork_schedule", func(w http.ResponseWriter, _ *http.Request) {
		js(w, `{"data":[{"previous_version":"0x00000000","current_version":"0x00000000","epoch":"0"}]}`)
	})
	mux.HandleFunc("/eth/v1/config/deposit_contract", func(w http.ResponseWriter, _ *http.Request) {
		js(w, `{"data":{"chain_id":"1","address":"0x00000000219ab540356cbb839cbe05303d7705fa"}}`)
	})
	mux.HandleFunc("/eth/v1/config/spec", func(w http.ResponseWriter, _ *http.Request) {
		js(w, `{"data":{"SLOTS_PER_EPOCH":"32","SECONDS_PER_SLOT":"12","DOMAIN_BEACON_PROPOSER":"0x00000000",`+
			`"DOMAIN_BEACON_ATTESTER":"0x01000000","DOMAIN_RANDAO":"0x02000000","DOMAIN_DEPOSIT":"0x03000000",`+
			`"DOMAIN_VOLUNTARY_EXIT":"0x04000000","DOMAIN_SELECTION_PROOF":"0x05000000","DOMAIN_AGGREGATE_AND_PROOF":"0x06000000",`+
			`"DOMAIN_SYNC_COMMITTEE":"0x07000000","DOMAIN_SYNC_COMMITTEE_SELECTION_PROOF":"0x08000000",`+
			`"DOMAIN_CONTRIBUTION_AND_PROOF":"0x09000000","DOMAIN_APPLICATION_BUILDER":"0x00000001",`+
			`"TARGET_AGGREGATORS_PER_COMMITTEE":"16","SYNC_COMMITTEE_SIZE":"512","SYNC_COMMITTEE_SUBNET_COUNT":"4",`+
			`"TARGET_AGGREGATORS_PER_SYNC_SUBCOMMITTEE":"16","EPOCHS_PER_SYNC_COMMITTEE_PERIOD":"256","MAX_COMMITTEES_PER_SLOT":"64",`+
			`"TARGET_COMMITTEE_SIZE":"128","GENESIS_FORK_VERSION":"0x00000000","ALTAIR_FORK_EPOCH":"0","ALTAIR_FORK_VERSION":"0x01000000"}}`)
	})
	mux.HandleFunc("/eth/v1/beacon/headers/", func(w http.ResponseWriter, _ *http.Request) {
		n.headers.Add(1)
		js(w, fmt.Sprintf(`{"execution_optimistic":false,"finalized":false,"data":{"root":"%s","canonical":true,"header":{"message":{"slot":"1","proposer_index":"1","parent_root":"%s","state_root":"%s","body_root":"%s"},"signature":"%s"}}}`,
			c19wZeroRoot, c19wZeroRoot, c19wZeroRoot, c19wZeroRoot, c19wZeroSig))
	})
	mux.HandleFunc("/eth/v2/beacon/blocks/", func(w http.ResponseWriter, _ *http.Request) {
		n.blocks.Add(1)
		w.Header().Set("Eth-Consensus-Version", "phase0")
		js(w, fmt.Sprintf(`{"version":"phase0","execution_optimistic":false,"finalized":false,"data":{"message":{"slot":"1","proposer_index":"1","parent_root":"%[1]s","state_root":"%[1]s","body":{"randao_reveal":"%[2]s","eth1_data":{"deposit_root":"%[1]s","deposit_count":"0","block_hash":"%[1]s"},"graffiti":"%[1]s","proposer_slashings":[],"attester_slashings":[],"attestations":[],"deposits":[],"voluntary_exits":[]}},"signature":"%[2]s"}}`,
			c19wZeroRoot, c19wZeroSig))
	})
	mux.HandleFunc("/eth/v1/beacon/blocks/", func(w http.ResponseWriter, _ *http.Request) {
		n.roots.Add(1)
		js(w, `{"execution_optimistic":false,"finalized":false,"data":{"root":"`+c19wZeroRoot+`"}}`)
	})
	mux.HandleFunc("/", func(w http.ResponseWriter, _ *http.Request) {
		http.Error(w, `{"code":404,"message":"not found"}`, http.StatusNotFound)
	})
	l, err := net.Listen("tcp", "127.0.0.1:0")
	if err != nil {
		t.Fatalf("fake node: %v", err)
	}
	n.srv = httptest.NewUnstartedServer(mux)
	n.srv.Listener.Close()
	n.srv.Listener = l
	n.srv.Start()
	t.Cleanup(n.srv.Close)
	// a name without dots: one component of the path eth2client.<address>
	n.addr = fmt.Sprintf("localhost:%d", l.Addr().(*net.TCPAddr).Port)
	return n
}

// ---------------------------------------------------------------------------------------------------
// the world of one scenario: concrete names and values, the configuration as written and as read back

var c19wLevelTexts = []struct{ text, canon string }{
	{"trace", "trace"}, {"Debug", "debug"}, {"information", "info"}, {"Warning", "warn"}, {"error", "error"},
	{"fatal", "fatal"}, {"none", "disabled"},
	{"Trace", "trace"}, {"debug", "debug"}, {"info", "info"}, {"warn", "warn"}, {"ERROR", "error"},
	{"Fatal", "fatal"}, {"None", "disabled"},
}

type c19wVal struct {
	canon string
	doc   any    // as written in a document
	env   string // as an environment variable / on the command line
	nodes []string
}

type c19wKeyed struct {
	k string
	p string // joined concrete path ("" = top)
}

type c19wWorld struct {
	t       *testing.T
	rnd     *rand.Rand
	pool    []*c19wNode
	mainN   *c19wNode
	nodeOf  map[string]string // abstract node name -> address
	byAddr  map[string]*c19wNode
	vals    map[string]map[string]c19wVal // kind -> abstract value -> concrete
	members map[string][]string           // canonical address list -> members
	envSet  []string
	dir     string

	ctx       context.Context
	cancel    context.CancelFunc
	monitor   metrics.Service
	main      eth2client.Service
	chainTime *verifsupport.ChainTime
	seen      map[string]bool // clients already reported
}

func (w *c19wWorld) comp(c string) string {
	if a, ok := w.nodeOf[c]; ok {
		return a
	}
	return c
}

func (w *c19wWorld) path(p []string) []string {
	out := make([]string, len(p))
	for i, c := range p {
		out[i] = w.comp(c)
	}
	return out
}

// concrete value for an abstract one: distinct abstract values of a kind get distinct concrete values
// (log levels and booleans: as far as there are any - they differ along every chain of a small tree)
func (w *c19wWorld) value(kind, abstract string, rank int, depth int) c19wVal {
	if v, ok := w.vals[kind][abstract]; ok {
		return v
	}
	n := len(w.vals[kind])
	var v c19wVal
	switch kind {
	case "addresses":
		// singles first, then pairs, over the pool of fake nodes (the nodes n1.. are part of the pool)
		var idx []int
		if n < len(w.pool) {
			idx = []int{n}
		} else {
			m := n - len(w.pool)
			a := m % len(w.pool)
			b := (a + 1 + (m/len(w.pool))%(len(w.pool)-1)) % len(w.pool)
			idx = []int{a, b}
		}
		var as []string
		for _, i := range idx {
			as = append(as, w.pool[i].addr)
		}
		if w.rnd.Intn(2) == 0 && len(as) == 2 {
			as[0], as[1] = as[1], as[0]
		}
		l := make([]any, len(as))
		for i := range as {
			l[i] = as[i]
		}
		s := append([]string{}, as...)
		sort.Strings(s)
		v = c19wVal{canon: strings.Join(s, ","), doc: l, env: strings.Join(as, " "), nodes: s}
		w.members[v.canon] = s
	case "timeout":
		d := time.Duration(n+1)*137*time.Millisecond + 3*time.Second
		switch w.rnd.Intn(3) {
		case 0:
			v = c19wVal{canon: d.String(), doc: d.String(), env: d.String()}
		case 1:
			v = c19wVal{canon: d.String(), doc: fmt.Sprintf("%dms", d.Milliseconds()), env: fmt.Sprintf("%dms", d.Milliseconds())}
		default:
			v = c19wVal{canon: d.String(), doc: int64(d), env: d.String()}
		}
	case "log-level":
		// by rank in the tree (points sorted by path): a point, its parent and its siblings differ in small trees
		lt := c19wLevelTexts[(rank+7*w.rnd.Intn(2))%len(c19wLevelTexts)]
		v = c19wVal{canon: lt.canon, doc: lt.text, env: lt.text}
	case "process-concurrency":
		i := int64(n + 3)
		v = c19wVal{canon: strconv.FormatInt(i, 10), doc: i, env: strconv.FormatInt(i, 10)}
		if w.rnd.Intn(3) == 0 {
			v.doc = strconv.FormatInt(i, 10)
		}
	case "bool":
		b := depth%2 == 1
		v = c19wVal{canon: strconv.FormatBool(b), doc: b, env: strconv.FormatBool(b)}
		if w.rnd.Intn(3) == 0 {
			v.doc = strconv.FormatBool(b)
		}
	}
	w.vals[kind][abstract] = v
	return v
}

func c19wSetDoc(doc map[string]any, path []string, key string, v any) {
	m := doc
	for _, c := range path {
		next, ok := m[c].(map[string]any)
		if !ok {
			next = map[string]any{}
			m[c] = next
		}
		m = next
	}
	m[key] = v
}

func c19wEnvName(key string) string {
	return "VOUCH_" + strings.ToUpper(strings.NewReplacer("-", "_", ".", "_").Replace(key))
}

func c19wLevelName(l zerolog.Level) string {
	if l == zerolog.Disabled {
		return "disabled"
	}
	return l.String()
}

// what viper holds for a hierarchical setting at a point: (has a value, canonical form)
func c19wReadBack(kind string, key string) (bool, string) {
	switch kind {
	case "addresses":
		l := viper.GetStringSlice(key)
		if len(l) == 0 {
			return false, ""
		}
		s := append([]string{}, l...)
		sort.Strings(s)
		return true, strings.Join(s, ",")
	case "timeout":
		d := viper.GetDuration(key)
		return d != 0, d.String()
	case "log-level":
		s := viper.GetString(key)
		if s == "" {
			return false, ""
		}
		for _, lt := range c19wLevelTexts {
			if strings.EqualFold(lt.text, s) {
				return true, lt.canon
			}
		}
		return true, "?" + s
	case "process-concurrency":
		if viper.GetString(key) == "" {
			return false, ""
		}
		return true, strconv.FormatInt(viper.GetInt64(key), 10)
	default:
		if viper.GetString(key) == "" {
			return false, ""
		}
		return true, strconv.FormatBool(viper.GetBool(key))
	}
}

// points that carry built-in defaults of fetchConfig (they are part of the tree in force)
var c19wDefaultPoints = [][]string{{}, {"eth2client"}, {"accountmanager", "dirk"}, {"blockrelay"}, {"submitter"}, {"strategies"}}

func (w *c19wWorld) boot(st c19wStep) verifsupport.Ev {
	t := w.t
	// a new process: everything process-wide that package main, viper and pflag keep
	if w.cancel != nil {
		w.cancel()
		// the previous process is gone: its connections to the fake nodes with it (the clients close theirs
		// asynchronously; a long batch must not run out of file descriptors)
		for _, n := range append(append([]*c19wNode{}, w.pool...), w.mainN) {
			n.srv.CloseClientConnections()
		}
	}
	for _, e := range w.envSet {
		os.Unsetenv(e)
	}
	w.envSet = nil
	viper.Reset()
	knownClientsMu.Lock()
	knownClients = make(map[string]eth2client.Service)
	knownClientsMu.Unlock()
	w.vals = map[string]map[string]c19wVal{}
	for _, k := range c19wKinds {
		w.vals[k] = map[string]c19wVal{}
	}
	w.members = map[string][]string{}
	w.seen = map[string]bool{}
	for _, n := range append(append([]*c19wNode{}, w.pool...), w.mainN) {
		n.headers.Store(0)
		n.blocks.Store(0)
		n.roots.Store(0)
	}
	// the abstract node names are fake nodes of the pool, drawn per scenario
	perm := w.rnd.Perm(len(w.pool))
	w.nodeOf = map[string]string{}
	for i := 0; i < 4; i++ {
		w.nodeOf[fmt.Sprintf("n%d", i+1)] = w.pool[perm[i]].addr
	}

	trees := map[string][]c19wEntry{}
	if st.Cfg != nil {
		for _, kt := range st.Cfg {
			trees[kt.K] = kt.Tree
		}
	} else {
		for _, k := range c19wKinds {
			trees[k] = st.Tree
		}
	}
	doc := map[string]any{"eth2client": map[string]any{"allow-delayed-start": true}}
	args := []string{"vouch"}
	intended := map[c19wKeyed]string{}
	setKey := func(path []string, key string, v c19wVal, allowFlag bool) {
		full := strings.Join(append(append([]string{}, path...), key), ".")
		switch r := w.rnd.Intn(10); {
		case r < 6:
			c19wSetDoc(doc, path, key, v.doc)
		case r < 9 || !allowFlag:
			name := c19wEnvName(full)
			os.Setenv(name, v.env)
			w.envSet = append(w.envSet, name)
		default:
			args = append(args, "--"+key, v.env)
		}
	}
	for _, k := range c19wKinds {
		es := append([]c19wEntry{}, trees[k]...)
		sort.Slice(es, func(i, j int) bool { return strings.Join(es[i].P, ".") < strings.Join(es[j].P, ".") })
		for rank, e := range es {
			p := w.path(e.P)
			v := w.value(k, e.V, rank, len(p))
			intended[c19wKeyed{k, strings.Join(p, ".")}] = v.canon
			setKey(p, c19wKeyOf[k], v, k == "log-level" && len(p) == 0)
		}
	}
	// the styles: which implementation the operator selected ("" = not configured, sometimes written down as empty)
	for _, s := range st.Styles {
		var path []string
		switch s.S {
		case "submitter", "scheduler":
			path = []string{s.S}
		case "graffiti":
			if s.St == "dynamic" {
				c19wSetDoc(doc, []string{"graffiti", "dynamic"}, "location", "file:///nonexistent/graffiti")
			}
			continue
		case "eth2client", "multiclient", "majordomo", "signer", "validatorsmanager", "cache", "attestingnodes",
			"beaconblockproposer", "attester", "attestationaggregator", "beaconcommitteesubscriber":
			continue
		default:
			path = []string{"strategies", s.S}
		}
		if s.St == "" && w.rnd.Intn(3) > 0 {
			continue
		}
		if w.rnd.Intn(4) == 0 {
			name := c19wEnvName(strings.Join(append(append([]string{}, path...), "style"), "."))
			os.Setenv(name, s.St)
			w.envSet = append(w.envSet, name)
		} else {
			c19wSetDoc(doc, path, "style", s.St)
		}
	}
	// the document: JSON, read either as vouch.json or (JSON is YAML) as vouch.yml
	os.RemoveAll(w.dir)
	if err := os.MkdirAll(w.dir, 0o700); err != nil {
		t.Fatalf("base dir: %v", err)
	}
	b, err := json.MarshalIndent(doc, "", "  ")
	if err != nil {
		t.Fatalf("document: %v", err)
	}
	name := "vouch.yml"
	if w.rnd.Intn(2) == 0 {
		name = "vouch.json"
	}
	if err := os.WriteFile(filepath.Join(w.dir, name), b, 0o600); err != nil {
		t.Fatalf("document: %v", err)
	}
	// the REAL fetchConfig(): command line, environment, defaults, document
	pflag.CommandLine = pflag.NewFlagSet("vouch", pflag.ContinueOnError)
	saved := os.Args
	os.Args = append(args, "--base-dir", w.dir)
	err = fetchConfig()
	os.Args = saved
	if err != nil {
		t.Fatalf("fetchConfig: %v\n%s", err, b)
	}

	// read back what is in force: the tree that is logged is what viper holds at every point of the scenario's
	// trees and at the points where fetchConfig sets built-in defaults
	var cfg []map[string]any
	for _, k := range c19wKinds {
		pts := map[string][]string{}
		for _, e := range trees[k] {
			p := w.path(e.P)
			pts[strings.Join(p, ".")] = p
		}
		for _, p := range c19wDefaultPoints {
			pts[strings.Join(p, ".")] = p
		}
		names := make([]string, 0, len(pts))
		for n := range pts {
			names = append(names, n)
		}
		sort.Strings(names)
		for _, n := range names {
			key := c19wKeyOf[k]
			if n != "" {
				key = n + "." + key
			}
			has, canon := c19wReadBack(k, key)
			want, isIntended := intended[c19wKeyed{k, n}]
			if isIntended && (!has || canon != want) {
				t.Fatalf("driver error: viper holds %q (has=%v) for %s, the scenario wrote %q\n%s\nenv %v args %v", canon, has, key, want, b, w.envSet, args)
			}
			if has {
				p := pts[n]
				if p == nil {
					p = []string{}
				}
				cfg = append(cfg, map[string]any{"k": k, "p": p, "v": canon})
			}
		}
	}
	var styles []map[string]any
	for _, s := range st.Styles {
		styles = append(styles, map[string]any{"s": s.S, "st": s.St})
	}
	var members []map[string]any
	for v, a := range w.members {
		members = append(members, map[string]any{"v": v, "a": a})
	}
	sort.Slice(members, func(i, j int) bool { return members[i]["v"].(string) < members[j]["v"].(string) })
	if members == nil {
		members = []map[string]any{}
	}
	if cfg == nil {
		cfg = []map[string]any{}
	}
	dflt := []map[string]any{
		{"k": "addresses", "v": ""}, {"k": "timeout", "v": "0s"},
		{"k": "log-level", "v": c19wLevelName(zerologger.Logger.GetLevel())},
		{"k": "process-concurrency", "v": "0"}, {"k": "bool", "v": "false"},
	}

	// the parts of the process the select* / start* functions are handed by startServices
	w.ctx, w.cancel = context.WithCancel(context.Background())
	w.monitor = nullmetrics.New()
	w.chainTime = verifsupport.NewChainTime(32, 12*time.Second)
	w.main, err = fetchClient(w.ctx, w.monitor, w.mainN.addr)
	if err != nil {
		t.Fatalf("main client: %v", err)
	}
	w.seen[w.mainN.addr] = true
	return verifsupport.Ev{"ev": "Boot", "styles": styles, "cfg": cfg, "dflt": dflt, "members": members}
}

// ---------------------------------------------------------------------------------------------------
// observation of a constructed service

type c19wObs struct {
	svc, impl string
	used      map[string]string
	asked     []string
	hasAsked  bool
}

var c19wDutyOfSubmitter = map[string]string{
	"ProposalSubmitter": "proposal", "AttestationsSubmitter": "attestation",
	"AggregateAttestationsSubmitter": "aggregateattestation", "ProposalPreparationsSubmitter": "proposalpreparation",
	"BeaconCommitteeSubscriptionsSubmitter": "beaconcommitteesubscription",
	"SyncCommitteeMessagesSubmitter":        "synccommitteemessage",
	"SyncCommitteeSubscriptionsSubmitter":   "synccommitteesubscription",
	"SyncCommitteeContributionsSubmitter":   "synccommitteecontribution",
}

// every hierarchical setting a constructed service holds, read from the service itself
func c19wHeld(obj any, multinode bool) map[string]string {
	used := map[string]string{}
	v := reflect.ValueOf(obj)
	for v.Kind() == reflect.Ptr || v.Kind() == reflect.Interface {
		v = v.Elem()
	}
	if v.Kind() != reflect.Struct {
		return used
	}
	ty := v.Type()
	for i := 0; i < ty.NumField(); i++ {
		f := ty.Field(i)
		fv := v.Field(i)
		switch {
		case f.Name == "timeout" && f.Type == reflect.TypeOf(time.Duration(0)):
			used["timeout"] = time.Duration(fv.Int()).String()
		case f.Name == "log" && f.Type == reflect.TypeOf(zerolog.Logger{}):
			used["log-level"] = c19wLevelName(zerolog.Level(fv.FieldByName("level").Int()))
		case f.Name == "processConcurrency":
			used["process-concurrency"] = strconv.FormatInt(fv.Int(), 10)
		case f.Name == "reducedMemoryUsage":
			used["reduced-memory-usage"] = strconv.FormatBool(fv.Bool())
		case f.Type.Kind() == reflect.Map && f.Type.Key().Kind() == reflect.String && f.Type.Elem().Kind() == reflect.Interface &&
			strings.HasSuffix(f.Type.Elem().PkgPath(), "go-eth2-client"):
			keys := make([]string, 0, fv.Len())
			for _, k := range fv.MapKeys() {
				keys = append(keys, k.String())
			}
			sort.Strings(keys)
			name := "addresses"
			if multinode {
				name = c19wDutyOfSubmitter[f.Type.Elem().Name()]
				if name == "" {
					name = "?" + f.Type.Elem().Name()
				}
			}
			used[name] = strings.Join(keys, ",")
		}
	}
	return used
}

func c19wImplOf(obj any, marker string) string {
	ty := reflect.TypeOf(obj)
	for ty != nil && ty.Kind() == reflect.Ptr {
		ty = ty.Elem()
	}
	if ty == nil {
		return "simple"
	}
	pp := ty.PkgPath()
	i := strings.Index(pp, marker)
	if i < 0 {
		return "simple"
	}
	parts := strings.Split(pp[i+len(marker):], "/")
	return parts[len(parts)-1]
}

// clients created since the last look: each is a constructed service of its own (eth2client.<address>)
func (w *c19wWorld) newClients() []c19wObs {
	knownClientsMu.Lock()
	ids := make([]string, 0, len(knownClients))
	for id := range knownClients {
		ids = append(ids, id)
	}
	sort.Strings(ids)
	var out []c19wObs
	for _, id := range ids {
		if w.seen[id] {
			continue
		}
		w.seen[id] = true
		c := knownClients[id]
		if strings.HasPrefix(id, "multi:") {
			out = append(out, c19wObs{svc: "multiclient", impl: "multi", used: c19wHeld(c, false)})
			continue
		}
		out = append(out, c19wObs{svc: "eth2client", impl: id, used: c19wHeld(c, false)})
	}
	knownClientsMu.Unlock()
	return out
}

func (w *c19wWorld) askedNodes(which func(*c19wNode) *atomic.Int64) []string {
	var out []string
	for _, n := range append(append([]*c19wNode{}, w.pool...), w.mainN) {
		if which(n).Swap(0) > 0 {
			out = append(out, n.addr)
		}
	}
	sort.Strings(out)
	if out == nil {
		out = []string{}
	}
	return out
}

// one Start step: the real function of package main, then what the constructed service holds
func (w *c19wWorld) start(svc string) ([]c19wObs, error) {
	ctx := w.ctx
	cacheSvc := mockcache.New(map[phase0.Root]phase0.Slot{})
	var obj any
	var err error
	marker := "/strategies/" + svc + "/"
	switch svc {
	case "attestationdata":
		obj, err = selectAttestationDataProvider(ctx, w.monitor, w.main, w.chainTime, cacheSvc)
	case "aggregateattestation":
		obj, err = selectAggregateAttestationProvider(ctx, w.monitor, w.main)
	case "beaconblockproposal":
		obj, err = selectProposalProvider(ctx, w.monitor, w.main, w.chainTime, cacheSvc)
	case "synccommitteecontribution":
		obj, err = selectSyncCommitteeContributionProvider(ctx, w.monitor, w.main)
	case "beaconblockroot":
		obj, err = selectBeaconBlockRootProvider(ctx, w.monitor, w.main, cacheSvc)
	case "signedbeaconblock":
		obj, err = selectSignedBeaconBlockProvider(ctx, w.monitor, w.main)
	case "beaconblockheader":
		obj, err = selectBeaconHeaderProvider(ctx, w.monitor, w.main)
	case "builderbid":
		obj, err = selectBuilderBidProvider(ctx, w.monitor, w.main, w.chainTime)
	case "submitter":
		marker = "/services/submitter/"
		obj, err = selectSubmitterStrategy(ctx, w.monitor, w.main)
	case "scheduler":
		marker = "/services/scheduler/"
		obj, err = selectScheduler(ctx, w.monitor)
	case "graffiti":
		marker = "/services/graffitiprovider/"
		md, e := initMajordomo(ctx)
		if err = e; err == nil {
			obj, err = startGraffitiProvider(ctx, md)
		}
	case "validatorsmanager":
		marker = "/services/validatorsmanager/"
		obj, err = startValidatorsManager(ctx, w.monitor, w.main)
	case "cache":
		marker = "/services/cache/"
		sched, e := selectScheduler(ctx, w.monitor)
		if err = e; err == nil {
			obj, err = startCache(ctx, w.monitor, w.chainTime, sched, w.main,
				w.main.(eth2client.BeaconBlockHeadersProvider), w.main.(eth2client.SignedBeaconBlockProvider))
		}
	case "attestingnodes":
		// util.BeaconNodeAddressesForAttesting(): what initController makes the events client from; the
		// implementation it has to follow is the attestation data strategy that runs
		ad, e := selectAttestationDataProvider(ctx, w.monitor, w.main, w.chainTime, cacheSvc)
		clients := w.newClients()
		if e != nil {
			// no attestation data strategy could be constructed (no nodes for it): nothing to follow
			return append(clients, c19wObs{svc: svc, impl: "error", used: map[string]string{}}), nil
		}
		as := append([]string{}, util.BeaconNodeAddressesForAttesting()...)
		sort.Strings(as)
		return append(clients, c19wObs{svc: svc, impl: c19wImplOf(ad, "/strategies/attestationdata/"),
			used: map[string]string{"addresses": strings.Join(as, ",")}}), nil
	case "eth2client":
		for _, n := range []string{"n1", "n2"} {
			if _, e := fetchClient(ctx, w.monitor, w.nodeOf[n]); e != nil {
				return nil, fmt.Errorf("fetchClient: %w", e)
			}
			// asked for again: the client that exists is handed out
			if _, e := fetchClient(ctx, w.monitor, w.nodeOf[n]); e != nil {
				return nil, fmt.Errorf("fetchClient: %w", e)
			}
		}
		return w.newClients(), nil
	case "multiclient":
		if _, e := fetchMultiClient(ctx, w.monitor, "verif", []string{w.nodeOf["n1"], w.nodeOf["n2"]}); e != nil {
			return nil, fmt.Errorf("fetchMultiClient: %w", e)
		}
		return w.newClients(), nil
	default:
		if c19wSigningModules[svc] {
			return w.startSigning(svc)
		}
		return nil, fmt.Errorf("unknown service %q", svc)
	}
	clients := w.newClients()
	o := c19wObs{svc: svc}
	switch {
	case err != nil:
		o.impl, o.used = "error", map[string]string{}
	default:
		o.impl = c19wImplOf(obj, marker)
		if o.impl == "simple" {
			o.used = map[string]string{}
		} else {
			o.used = c19wHeld(obj, svc == "submitter" && o.impl == "multinode")
		}
	}
	// one real call through the strategy: which fake nodes does the request reach?
	if err == nil && o.impl == "first" {
		cctx, cancel := context.WithTimeout(ctx, 5*time.Second)
		switch p := obj.(type) {
		case eth2client.BeaconBlockHeadersProvider:
			if svc == "beaconblockheader" {
				w.askedNodes(func(n *c19wNode) *atomic.Int64 { return &n.headers })
				_, _ = p.BeaconBlockHeader(cctx, &api.BeaconBlockHeaderOpts{Block: "head"})
				o.asked, o.hasAsked = w.askedNodes(func(n *c19wNode) *atomic.Int64 { return &n.headers }), true
			}
		}
		switch p := obj.(type) {
		case eth2client.SignedBeaconBlockProvider:
			if svc == "signedbeaconblock" {
				w.askedNodes(func(n *c19wNode) *atomic.Int64 { return &n.blocks })
				_, _ = p.SignedBeaconBlock(cctx, &api.SignedBeaconBlockOpts{Block: "head"})
				o.asked, o.hasAsked = w.askedNodes(func(n *c19wNode) *atomic.Int64 { return &n.blocks }), true
			}
		}
		switch p := obj.(type) {
		case eth2client.BeaconBlockRootProvider:
			if svc == "beaconblockroot" {
				w.askedNodes(func(n *c19wNode) *atomic.Int64 { return &n.roots })
				_, _ = p.BeaconBlockRoot(cctx, &api.BeaconBlockRootOpts{Block: "head"})
				o.asked, o.hasAsked = w.askedNodes(func(n *c19wNode) *atomic.Int64 { return &n.roots }), true
			}
		}
		cancel()
		if o.hasAsked && len(o.asked) == 0 {
			// no request arrived anywhere (a strategy without nodes fails before asking): nothing observed
			o.hasAsked = false
		}
	}
	return append(clients, o), nil
}

// the functions of package main whose constructed services this driver observes
var c19wDriven = map[string]bool{
	"selectAttestationDataProvider": true, "selectAggregateAttestationProvider": true, "selectProposalProvider": true,
	"selectSyncCommitteeContributionProvider": true, "selectBeaconBlockRootProvider": true, "selectSubmitterStrategy": true,
	"genericAddressToClientMapper": true, "startMultinodeSubmitter": true, "selectBuilderBidProvider": true,
	"selectSignedBeaconBlockProvider": true, "selectBeaconHeaderProvider": true, "selectScheduler": true, "startCache": true,
	"startGraffitiProvider": true, "startValidatorsManager": true, "fetchClient": true, "startProviders": true, "startSigningServices": true, "fetchMultiClient": true,
}

// census of the call sites of the hierarchical lookups in package main (read from the sources the test was built
// from): for every site the enclosing function, the lookup, and the path argument if it is a string literal.
// Written next to the trace; checks/C19.py records it and refuses (exit 2, not a verdict) a site that computes its
// path at run time in a function this driver does not drive.
func c19wCensus(t *testing.T, out string) {
	fset := token.NewFileSet()
	pkgs, err := parser.ParseDir(fset, ".", func(fi os.FileInfo) bool { return !strings.HasSuffix(fi.Name(), "_test.go") }, 0)
	if err != nil {
		t.Fatalf("census: %v", err)
	}
	lookups := map[string]bool{"BeaconNodeAddresses": true, "Timeout": true, "LogLevel": true, "ProcessConcurrency": true,
		"HierarchicalBool": true, "BeaconNodeAddressesForAttesting": true, "BeaconNodeAddressesForProposing": true}
	var sites []map[string]any
	for _, pkg := range pkgs {
		for fname, f := range pkg.Files {
			for _, d := range f.Decls {
				fd, ok := d.(*ast.FuncDecl)
				if !ok || fd.Body == nil {
					continue
				}
				ast.Inspect(fd.Body, func(n ast.Node) bool {
					call, ok := n.(*ast.CallExpr)
					if !ok {
						return true
					}
					sel, ok := call.Fun.(*ast.SelectorExpr)
					if !ok {
						return true
					}
					if x, ok := sel.X.(*ast.Ident); !ok || x.Name != "util" || !lookups[sel.Sel.Name] {
						return true
					}
					site := map[string]any{"file": filepath.Base(fname), "func": fd.Name.Name, "lookup": sel.Sel.Name,
						"driven": c19wDriven[fd.Name.Name], "literal": true, "path": ""}
					if len(call.Args) > 0 {
						arg := call.Args[len(call.Args)-1]
						if lit, ok := arg.(*ast.BasicLit); ok && lit.Kind == token.STRING {
							site["path"], _ = strconv.Unquote(lit.Value)
						} else {
							site["literal"] = false
						}
					}
					sites = append(sites, site)
					return true
				})
			}
		}
	}
	b, _ := json.Marshal(sites)
	if err := os.WriteFile(out, b, 0o600); err != nil {
		t.Fatalf("census: %v", err)
	}
}

func TestVerifC19Wire(t *testing.T) {
	var scenarios []c19wScenario
	verifsupport.Scenarios(t, &scenarios)
	tr := verifsupport.OpenTrace(t)
	defer tr.Close()
	c19wCensus(t, os.Getenv("VERIF_TRACE_OUT")+".sites.json")
	zerolog.SetGlobalLevel(zerolog.Disabled)
	var rl syscall.Rlimit
	if err := syscall.Getrlimit(syscall.RLIMIT_NOFILE, &rl); err == nil && rl.Cur < rl.Max {
		rl.Cur = rl.Max
		_ = syscall.Setrlimit(syscall.RLIMIT_NOFILE, &rl)
	}

	w := &c19wWorld{t: t, rnd: rand.New(rand.NewSource(verifsupport.Seed())), dir: filepath.Join(t.TempDir(), "base")}
	for i := 0; i < 12; i++ {
		w.pool = append(w.pool, c19wNewNode(t))
	}
	w.mainN = c19wNewNode(t)
	savedEnv := map[string]string{}
	for _, e := range os.Environ() {
		if strings.HasPrefix(e, "VOUCH_") {
			kv := strings.SplitN(e, "=", 2)
			savedEnv[kv[0]] = kv[1]
			os.Unsetenv(kv[0])
		}
	}
	defer func() {
		for k, v := range savedEnv {
			os.Setenv(k, v)
		}
	}()

	for _, sc := range scenarios {
		w.rnd = rand.New(rand.NewSource(verifsupport.Seed()*1000003 + int64(sc.Sc)))
		for _, st := range sc.Steps {
			switch st.Ev {
			case "Boot":
				t0 := time.Now()
				ev := w.boot(st)
				if os.Getenv("VERIF_C19_TIMING") != "" {
					fmt.Println("TIMING boot", sc.Sc, time.Since(t0))
				}
				ev["sc"] = sc.Sc
				tr.Emit(ev)
			case "Start":
				type res struct {
					obs   []c19wObs
					crash string
					err   error
				}
				done := make(chan res, 1)
				go func(svc string) {
					defer func() {
						if r := recover(); r != nil {
							done <- res{crash: fmt.Sprint(r)}
						}
					}()
					t0 := time.Now()
					obs, err := w.start(svc)
					if os.Getenv("VERIF_C19_TIMING") != "" {
						fmt.Println("TIMING start", svc, time.Since(t0))
					}
					done <- res{obs: obs, err: err}
				}(st.Svc)
				select {
				case r := <-done:
					if r.err != nil {
						t.Fatalf("driver error: scenario %d: %v", sc.Sc, r.err)
					}
					if r.crash != "" {
						tr.Emit(verifsupport.Ev{"sc": sc.Sc, "ev": "Crash", "svc": st.Svc, "what": r.crash})
						break
					}
					for _, o := range r.obs {
						used := []map[string]any{}
						names := make([]string, 0, len(o.used))
						for u := range o.used {
							names = append(names, u)
						}
						sort.Strings(names)
						for _, u := range names {
							used = append(used, map[string]any{"u": u, "got": o.used[u]})
						}
						ev := verifsupport.Ev{"sc": sc.Sc, "ev": "Start", "svc": o.svc, "impl": o.impl, "used": used}
						if o.hasAsked {
							ev["asked"] = o.asked
						}
						tr.Emit(ev)
					}
				case <-time.After(60 * time.Second):
					tr.Emit(verifsupport.Ev{"sc": sc.Sc, "ev": "Hung", "svc": st.Svc})
					t.Logf("scenario %d: starting %s does not return", sc.Sc, st.Svc)
					return
				}
			default:
				t.Fatalf("driver error: unknown step %q", st.Ev)
			}
		}
	}
	if w.cancel != nil {
		w.cancel()
	}
	for _, e := range w.envSet {
		os.Unsetenv(e)
	}
	viper.Reset()
}
