package util

// Conformance driver for property C19 (spec/HierConfig.tla).  Injected with -overlay by /verif/check.
//
// A scenario is a configuration tree for one hierarchical setting (which points have the setting,
// with which value; "<empty>" = written down but not a value) followed by lookups.  The driver loads
// the tree into viper the way Vouch gets its configuration (a YAML or JSON document, environment
// variables with the VOUCH prefix and key replacer, explicit settings as bound flags produce them,
// defaults), calls the real util function for every lookup path and logs what it returned; TLC
// judges the log against HierConfig.tla.  viper is process-global: scenarios run one after the
// other and viper is reset between them.

import (
	"bytes"
	"encoding/json"
	"fmt"
	"math/rand"
	"os"
	"sort"
	"strconv"
	"strings"
	"testing"
	"time"

	"github.com/attestantio/vouch/verifsupport"
	zerologger "github.com/rs/zerolog/log"
	"github.com/spf13/viper"
)

const c19Empty = "<empty>"

type c19Entry struct {
	P []string `json:"p"`
	V string   `json:"v"`
}

type c19Step struct {
	Ev   string     `json:"ev"`
	Kind string     `json:"kind"`
	Tree []c19Entry `json:"tree"`
	Dflt string     `json:"dflt"`
	Path []string   `json:"path"`
	Idx  int        `json:"idx"`
}

type c19Scenario struct {
	Sc    int       `json:"sc"`
	Steps []c19Step `json:"steps"`
}

var c19Kinds = []string{"addresses", "timeout", "log-level", "process-concurrency", "bool"}

// c19Value is one concrete value of a setting: canonical string (what the specification sees), the
// value to put in a document / viper.Set, and its text as an environment variable.
type c19Value struct {
	canon string
	doc   any
	env   string
}

type c19World struct {
	rnd     *rand.Rand
	kind    string
	key     string // the configuration key of the setting
	boolVar string
	used    map[string]bool
}

var c19BoolVars = []string{"enabled", "allow-delayed-start", "verify-sync-committee-inclusion", "fast-track"}

func c19NewWorld(seed int64, kind string) *c19World {
	w := &c19World{rnd: rand.New(rand.NewSource(seed)), kind: kind, used: map[string]bool{}}
	defer func() { w.used[w.zero()] = true }()
	switch kind {
	case "addresses":
		w.key = "beacon-node-addresses"
	case "bool":
		w.boolVar = c19BoolVars[w.rnd.Intn(len(c19BoolVars))]
		w.key = w.boolVar
	default:
		w.key = kind
	}
	return w
}

// the log levels as the documentation names them (and in which case), and what they mean
var c19Levels = []struct{ text, canon string }{
	{"Fatal", "fatal"}, {"fatal", "fatal"}, {"Error", "error"}, {"error", "error"}, {"ERROR", "error"},
	{"Warning", "warn"}, {"warning", "warn"}, {"Information", "info"}, {"information", "info"}, {"INFORMATION", "info"},
	{"Debug", "debug"}, {"debug", "debug"}, {"DEBUG", "debug"}, {"Trace", "trace"}, {"trace", "trace"},
	{"None", "disabled"}, {"none", "disabled"},
}

func (w *c19World) draw() c19Value {
	r := w.rnd
	switch w.kind {
	case "addresses":
		n := 1 + r.Intn(3)
		l := make([]any, n)
		s := make([]string, n)
		for i := range l {
			switch r.Intn(3) {
			case 0:
				s[i] = fmt.Sprintf("localhost:%d", 4000+r.Intn(2000))
			case 1:
				s[i] = fmt.Sprintf("10.%d.%d.%d:5052", r.Intn(256), r.Intn(256), r.Intn(256))
			default:
				s[i] = fmt.Sprintf("https://node%d.example.com:%d/", r.Intn(100), 5000+r.Intn(100))
			}
			l[i] = s[i]
		}
		return c19Value{canon: strings.Join(s, " "), doc: l, env: strings.Join(s, " ")}
	case "timeout":
		var d time.Duration
		switch r.Intn(4) {
		case 0:
			d = time.Duration(1+r.Intn(120)) * time.Second
		case 1:
			d = time.Duration(1+r.Intn(5000)) * time.Millisecond
		case 2:
			d = time.Duration(1+r.Intn(90))*time.Minute + time.Duration(r.Intn(60))*time.Second
		default:
			d = time.Duration(1+r.Intn(1000)) * time.Microsecond
		}
		v := c19Value{canon: d.String(), doc: d.String(), env: d.String()}
		if r.Intn(4) == 0 {
			v.doc = d // a time.Duration, as a default or a bound flag gives it
		}
		return v
	case "log-level":
		lv := c19Levels[r.Intn(len(c19Levels))]
		return c19Value{canon: lv.canon, doc: lv.text, env: lv.text}
	case "process-concurrency":
		n := int64(1 + r.Intn(64))
		if r.Intn(5) == 0 {
			n = int64(r.Intn(100000))
		}
		v := c19Value{canon: strconv.FormatInt(n, 10), doc: n, env: strconv.FormatInt(n, 10)}
		if r.Intn(4) == 0 {
			v.doc = strconv.FormatInt(n, 10)
		}
		return v
	case "bool":
		b := r.Intn(2) == 0
		v := c19Value{canon: strconv.FormatBool(b), doc: b, env: strconv.FormatBool(b)}
		if r.Intn(4) == 0 {
			v.doc = strconv.FormatBool(b)
		}
		return v
	}
	panic("kind " + w.kind)
}

// fresh draws a value whose canonical form no other value of the scenario has (booleans: as far as possible).
func (w *c19World) fresh() c19Value {
	for i := 0; ; i++ {
		v := w.draw()
		if !w.used[v.canon] || (w.kind == "bool" && i > 8) || i > 200 {
			w.used[v.canon] = true
			return v
		}
	}
}

// empty: the setting written down without being a value, by the definition of its kind.
func (w *c19World) empty() c19Value {
	switch w.kind {
	case "addresses":
		return c19Value{canon: c19Empty, doc: []any{}, env: ""}
	case "timeout":
		if w.rnd.Intn(2) == 0 {
			return c19Value{canon: c19Empty, doc: "0s", env: "0s"}
		}
		return c19Value{canon: c19Empty, doc: 0, env: "0"}
	default:
		return c19Value{canon: c19Empty, doc: "", env: ""}
	}
}

// zero: what the function returns when nothing at all is configured.
func (w *c19World) zero() string {
	switch w.kind {
	case "addresses":
		return ""
	case "timeout":
		return "0s"
	case "log-level":
		return zerologger.Logger.GetLevel().String()
	case "process-concurrency":
		return "0"
	default:
		return "false"
	}
}

// ---------------------------------------------------------------------------------------------
// loading a tree into viper

type c19Loader struct {
	w       *c19World
	mode    string
	doc     map[string]any
	envs    []string
	prefix  string
	hasDoc  bool
	docType string
}

func c19KeyOf(path []string, key string) string {
	if len(path) == 0 {
		return key
	}
	return strings.Join(path, ".") + "." + key
}

func (l *c19Loader) put(path []string, key string, v c19Value, how string) {
	full := c19KeyOf(path, key)
	switch how {
	case "doc":
		m := l.doc
		for _, c := range path {
			next, ok := m[c].(map[string]any)
			if !ok {
				next = map[string]any{}
				m[c] = next
			}
			m = next
		}
		d := v.doc
		if dur, ok := d.(time.Duration); ok {
			d = dur.String()
		}
		m[key] = d
		l.hasDoc = true
	case "set":
		viper.Set(full, v.doc)
	case "default":
		viper.SetDefault(full, v.doc)
	case "env":
		name := l.prefix + "_" + strings.ToUpper(strings.NewReplacer("-", "_", ".", "_").Replace(full))
		os.Setenv(name, v.env)
		l.envs = append(l.envs, name)
	}
}

func c19YAML(b *bytes.Buffer, m map[string]any, indent string) {
	keys := make([]string, 0, len(m))
	for k := range m {
		keys = append(keys, k)
	}
	sort.Strings(keys)
	for _, k := range keys {
		switch v := m[k].(type) {
		case map[string]any:
			fmt.Fprintf(b, "%s'%s':\n", indent, k)
			c19YAML(b, v, indent+"  ")
		case []any:
			items := make([]string, len(v))
			for i, x := range v {
				items[i] = "'" + x.(string) + "'"
			}
			fmt.Fprintf(b, "%s'%s': [ %s ]\n", indent, k, strings.Join(items, ", "))
		case string:
			fmt.Fprintf(b, "%s'%s': '%s'\n", indent, k, v)
		default:
			fmt.Fprintf(b, "%s'%s': %v\n", indent, k, v)
		}
	}
}

func (l *c19Loader) finish(t *testing.T) string {
	if !l.hasDoc {
		return ""
	}
	var buf bytes.Buffer
	if l.docType == "json" {
		data, err := json.Marshal(l.doc)
		if err != nil {
			t.Fatalf("driver: %v", err)
		}
		buf.Write(data)
	} else {
		c19YAML(&buf, l.doc, "")
	}
	text := buf.String()
	viper.SetConfigType(l.docType)
	if err := viper.ReadConfig(bytes.NewReader(buf.Bytes())); err != nil {
		t.Fatalf("driver: configuration document does not parse: %v\n%s", err, text)
	}
	return text
}

func (l *c19Loader) cleanup() {
	for _, e := range l.envs {
		os.Unsetenv(e)
	}
}

// ---------------------------------------------------------------------------------------------
// names

var c19Vocabulary = [][]string{
	{"strategies", "submitter", "accountmanager", "controller", "eth2client", "blockrelay", "scheduler", "majordomo", "metrics", "graffiti"},
	{"attestationdata", "beaconblockproposal", "attestation", "proposal", "dirk", "wallet", "advanced", "confidants", "prometheus", "aggregateattestation"},
	{"best", "first", "majority", "multinode", "immediate", "asm", "gsm", "http", "latest", "deadline"},
	{"inner", "node1", "backup", "eu", "us", "x", "y2", "primary", "fallback", "test"},
}

func (w *c19World) name(depth int, env bool) string {
	r := w.rnd
	if r.Intn(4) == 0 {
		// an arbitrary lower-case name
		n := 1 + r.Intn(8)
		b := make([]byte, n)
		for i := range b {
			b[i] = byte('a' + r.Intn(26))
		}
		if !env && n > 3 && r.Intn(3) == 0 {
			b[n/2] = '-'
		}
		return string(b)
	}
	row := c19Vocabulary[depth%len(c19Vocabulary)]
	return row[r.Intn(len(row))]
}

func c19Reserved(s string) bool {
	for _, k := range append([]string{"beacon-node-addresses", "beacon-node-address", "timeout", "log-level", "process-concurrency"}, c19BoolVars...) {
		if s == k {
			return true
		}
	}
	return false
}

// ---------------------------------------------------------------------------------------------

type c19Plan struct {
	kind    string
	mode    string
	entries []c19Entry          // concrete paths, canonical values
	values  map[string]c19Value // by joined path
	lookups [][]string
	dflt    *c19Value // configured top-level default, if any
	single  *c19Value // addresses: the singular beacon-node-address, if set
}

var c19Modes = []string{"yaml", "json", "set", "env", "default", "mixed"}

// planFromLattice turns a TLC-enumerated tree (abstract components a/b, values v1/v2/<empty>) into a plan.
func c19PlanFromLattice(w *c19World, sc c19Scenario, mode string) *c19Plan {
	p := &c19Plan{kind: w.kind, mode: mode, values: map[string]c19Value{}}
	env := mode == "env" || mode == "mixed"
	names := map[string]string{}
	nameOf := func(depth int, c string) string {
		k := fmt.Sprintf("%d/%s", depth, c)
		if n, ok := names[k]; ok {
			return n
		}
		for {
			n := w.name(depth, env)
			dup := c19Reserved(n)
			for k2, v := range names {
				if v == n && strings.HasPrefix(k2, fmt.Sprintf("%d/", depth)) {
					dup = true
				}
			}
			if !dup {
				names[k] = n
				return n
			}
		}
	}
	conc := func(path []string) []string {
		out := make([]string, len(path))
		for i, c := range path {
			out[i] = nameOf(i, c)
		}
		return out
	}
	vals := map[string]c19Value{}
	for _, st := range sc.Steps {
		switch st.Ev {
		case "Reset":
			for _, e := range st.Tree {
				cp := conc(e.P)
				var v c19Value
				if e.V == c19Empty {
					v = w.empty()
				} else {
					var ok bool
					if v, ok = vals[e.V]; !ok {
						v = w.fresh()
						vals[e.V] = v
					}
				}
				p.entries = append(p.entries, c19Entry{P: cp, V: v.canon})
				p.values[strings.Join(cp, ".")] = v
			}
		case "Lookup":
			p.lookups = append(p.lookups, conc(st.Path))
		}
	}
	w.topLevel(p)
	return p
}

// topLevel decides what the setting is when no level has a value: nothing (zero), a configured
// default as main.go sets for timeout and process-concurrency, or (addresses) the singular key.
func (w *c19World) topLevel(p *c19Plan) {
	if v, ok := p.values[""]; ok && v.canon == c19Empty {
		// written down as empty at the top level: leave the built-in zero
		return
	}
	if w.rnd.Intn(3) == 0 {
		return
	}
	v := w.fresh()
	if w.kind == "addresses" {
		p.single = &v
	} else {
		p.dflt = &v
	}
}

func c19PlanRandom(w *c19World, mode string) *c19Plan {
	r := w.rnd
	p := &c19Plan{kind: w.kind, mode: mode, values: map[string]c19Value{}}
	env := mode == "env" || mode == "mixed"
	depth := 1 + r.Intn(6)
	var main []string
	for i := 0; i < depth; i++ {
		for {
			n := w.name(i, env)
			if !c19Reserved(n) {
				main = append(main, n)
				break
			}
		}
	}
	add := func(path []string, pEmpty float64) {
		k := strings.Join(path, ".")
		if _, dup := p.values[k]; dup {
			return
		}
		var v c19Value
		if r.Float64() < pEmpty {
			v = w.empty()
		} else {
			v = w.fresh()
		}
		p.entries = append(p.entries, c19Entry{P: append([]string{}, path...), V: v.canon})
		p.values[k] = v
	}
	other := func(i int) string {
		for {
			n := w.name(i, env)
			if !c19Reserved(n) && (i >= len(main) || n != main[i]) {
				return n
			}
		}
	}
	// settings on the way up
	for n := 0; n <= depth; n++ {
		if r.Intn(3) == 0 {
			add(main[:n], 0.2)
		}
	}
	// siblings, cousins and descendants
	var sides [][]string
	for i, m := 0, r.Intn(5); i < m; i++ {
		n := r.Intn(depth + 1)
		side := append(append([]string{}, main[:n]...), other(n))
		if r.Intn(3) == 0 {
			side = append(side, w.name(n+1, env))
		}
		if c19Reserved(side[len(side)-1]) {
			continue
		}
		sides = append(sides, side)
		add(side, 0.1)
	}
	// lookups: every prefix of the main path, the side paths, below the main path, below the sides
	for n := 0; n <= depth; n++ {
		p.lookups = append(p.lookups, main[:n])
	}
	p.lookups = append(p.lookups, sides...)
	p.lookups = append(p.lookups, append(append([]string{}, main...), other(depth)))
	for _, s := range sides {
		if r.Intn(2) == 0 {
			p.lookups = append(p.lookups, append(append([]string{}, s...), other(len(s))))
		}
	}
	w.topLevel(p)
	return p
}

func (p *c19Plan) call(path []string, boolVar string) string {
	arg := strings.Join(path, ".")
	switch p.kind {
	case "addresses":
		return strings.Join(BeaconNodeAddresses(arg), " ")
	case "timeout":
		return Timeout(arg).String()
	case "log-level":
		return LogLevel(arg).String()
	case "process-concurrency":
		return strconv.FormatInt(ProcessConcurrency(arg), 10)
	default:
		return strconv.FormatBool(HierarchicalBool(boolVar, arg))
	}
}

func TestVerifC19(t *testing.T) {
	var scenarios []c19Scenario
	verifsupport.Scenarios(t, &scenarios)
	tr := verifsupport.OpenTrace(t)
	defer tr.Close()
	seed := verifsupport.Seed()

	for _, sc := range scenarios {
		if len(sc.Steps) == 0 {
			t.Fatalf("scenario %d is empty", sc.Sc)
		}
		first := sc.Steps[0]
		kind := first.Kind
		var plan *c19Plan
		var w *c19World
		switch first.Ev {
		case "Random":
			r := rand.New(rand.NewSource(seed*7_368_787 + int64(first.Idx)*1_299_709 + 3))
			if kind == "" {
				kind = c19Kinds[r.Intn(len(c19Kinds))]
			}
			w = c19NewWorld(r.Int63(), kind)
			plan = c19PlanRandom(w, c19Modes[r.Intn(len(c19Modes))])
		case "Reset":
			r := rand.New(rand.NewSource(seed*7_368_787 + int64(sc.Sc)*15_485_863 + 11))
			if kind == "" {
				kind = c19Kinds[r.Intn(len(c19Kinds))]
			}
			w = c19NewWorld(r.Int63(), kind)
			plan = c19PlanFromLattice(w, sc, c19Modes[r.Intn(len(c19Modes))])
		default:
			t.Fatalf("scenario %d does not start with Reset", sc.Sc)
		}

		// load
		viper.Reset()
		ld := &c19Loader{w: w, mode: plan.mode, doc: map[string]any{}, prefix: fmt.Sprintf("VOUCHC19S%d", sc.Sc), docType: "yaml"}
		if plan.mode == "json" || (plan.mode == "mixed" && w.rnd.Intn(2) == 0) {
			ld.docType = "json"
		}
		viper.SetEnvPrefix(ld.prefix)
		viper.SetEnvKeyReplacer(strings.NewReplacer("-", "_", ".", "_"))
		viper.AutomaticEnv()
		how := func() string {
			switch plan.mode {
			case "yaml", "json":
				return "doc"
			case "mixed":
				return []string{"doc", "set", "env", "default"}[w.rnd.Intn(4)]
			}
			return plan.mode
		}
		sources := map[string]string{}
		for _, e := range plan.entries {
			v := plan.values[strings.Join(e.P, ".")]
			h := how()
			if h == "env" && v.env == "" {
				// an empty environment variable is the same as none: nothing to load
				sources[strings.Join(e.P, ".")] = "env(unset)"
				continue
			}
			ld.put(e.P, w.key, v, h)
			sources[strings.Join(e.P, ".")] = h
		}
		dflt := w.zero()
		_, top := plan.values[""]
		topHow := "doc"
		if plan.mode == "set" || plan.mode == "env" || plan.mode == "default" {
			topHow = plan.mode
		}
		if plan.dflt != nil && !top {
			viper.SetDefault(w.key, plan.dflt.doc)
			dflt = plan.dflt.canon
		}
		if plan.single != nil && !top {
			ld.put(nil, "beacon-node-address", *plan.single, topHow)
			dflt = plan.single.canon
		}
		text := ld.finish(t)

		tree := plan.entries
		if tree == nil {
			tree = []c19Entry{}
		}
		tr.Emit(verifsupport.Ev{"sc": sc.Sc, "ev": "Reset", "kind": kind, "tree": tree, "dflt": dflt,
			"mode": plan.mode, "key": w.key, "doc": text, "sources": sources})
		for _, path := range plan.lookups {
			if path == nil {
				path = []string{}
			}
			func() {
				defer func() {
					if r := recover(); r != nil {
						tr.Emit(verifsupport.Ev{"sc": sc.Sc, "ev": "Crash", "path": path, "panic": fmt.Sprint(r)})
					}
				}()
				got := plan.call(path, w.boolVar)
				tr.Emit(verifsupport.Ev{"sc": sc.Sc, "ev": "Lookup", "kind": kind, "path": path, "got": got})
			}()
		}
		ld.cleanup()
		viper.Reset()
	}
}
