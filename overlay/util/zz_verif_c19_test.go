package util

// Conformance driver for property C19 (spec/HierConfig.tla).  Injected with -overlay by /verif/check.
//
// A scenario is the configuration HISTORY of one process for one hierarchical setting: a tree
// (which points have the setting, with which value; "<empty>" = written down but not a value) is
// loaded, paths are looked up, the configuration changes (SetAt / Unset of one point, Reconfigure =
// a completely new tree), the same paths are looked up again, and so on - all in this one process,
// without a restart, with the same path names in every configuration of the history.  The driver
// loads the tree into viper the way Vouch gets its configuration (a YAML or JSON document,
// environment variables with the VOUCH prefix and key replacer, explicit settings as bound flags
// produce them, defaults), changes it live (viper.Set, an environment variable set or removed, the
// document re-read, a default) or by viper.Reset() and a complete reload, calls the real util
// function for every lookup path and logs what it returned; TLC judges every Lookup line against
// the tree in force at that moment (HierConfig.tla).  After every (re)configuration the driver reads
// every point's key directly from viper and fails (driver error, never a verdict) if viper does not
// hold what the driver is about to log.  viper is process-global: scenarios run one after the other
// and viper is reset between them.

import (
	"bytes"
	"encoding/json"
	"fmt"
	"math/rand"
	"os"
	"sort"
	"strconv"
	"strings"
	"testing"
	"time"

	"github.com/attestantio/vouch/verifsupport"
	zerologger "github.com/rs/zerolog/log"
	"github.com/spf13/viper"
)

const c19Empty = "<empty>"

type c19Entry struct {
	P []string `json:"p"`
	V string   `json:"v"`
}

type c19Step struct {
	Ev   string     `json:"ev"`
	Kind string     `json:"kind"`
	Tree []c19Entry `json:"tree"`
	Dflt string     `json:"dflt"`
	Path []string   `json:"path"`
	V    string     `json:"v"`
	Idx  int        `json:"idx"`
}

type c19Scenario struct {
	Sc    int       `json:"sc"`
	Steps []c19Step `json:"steps"`
}

var c19Kinds = []string{"addresses", "timeout", "log-level", "process-concurrency", "bool"}

// c19Value is one concrete value of a setting: canonical string (what the specification sees), the
// value to put in a document / viper.Set, and its text as an environment variable.
type c19Value struct {
	canon string
	doc   any
	env   string
}

type c19World struct {
	rnd     *rand.Rand
	kind    string
	key     string // the configuration key of the setting
	boolVar string
	used    map[string]bool
}

var c19BoolVars = []string{"enabled", "allow-delayed-start", "verify-sync-committee-inclusion", "fast-track"}

func c19NewWorld(seed int64, kind string) *c19World {
	w := &c19World{rnd: rand.New(rand.NewSource(seed)), kind: kind, used: map[string]bool{}}
	defer func() { w.used[w.zero()] = true }()
	switch kind {
	case "addresses":
		w.key = "beacon-node-addresses"
	case "bool":
		w.boolVar = c19BoolVars[w.rnd.Intn(len(c19BoolVars))]
		w.key = w.boolVar
	default:
		w.key = kind
	}
	return w
}

// the log levels as the documentation names them (and in which case), and what they mean
var c19Levels = []struct{ text, canon string }{
	{"Fatal", "fatal"}, {"fatal", "fatal"}, {"Error", "error"}, {"error", "error"}, {"ERROR", "error"},
	{"Warning", "warn"}, {"warning", "warn"}, {"Information", "info"}, {"information", "info"}, {"INFORMATION", "info"},
	{"Debug", "debug"}, {"debug", "debug"}, {"DEBUG", "debug"}, {"Trace", "trace"}, {"trace", "trace"},
	{"None", "disabled"}, {"none", "disabled"},
}

func (w *c19World) draw() c19Value {
	r := w.rnd
	switch w.kind {
	case "addresses":
		n := 1 + r.Intn(3)
		l := make([]any, n)
		s := make([]string, n)
		for i := range l {
			switch r.Intn(3) {
			case 0:
				s[i] = fmt.Sprintf("localhost:%d", 4000+r.Intn(2000))
			case 1:
				s[i] = fmt.Sprintf("10.%d.%d.%d:5052", r.Intn(256), r.Intn(256), r.Intn(256))
			default:
				s[i] = fmt.Sprintf("https://node%d.example.com:%d/", r.Intn(100), 5000+r.Intn(100))
			}
			l[i] = s[i]
		}
		return c19Value{canon: strings.Join(s, " "), doc: l, env: strings.Join(s, " ")}
	case "timeout":
		var d time.Duration
		switch r.Intn(4) {
		case 0:
			d = time.Duration(1+r.Intn(120)) * time.Second
		case 1:
			d = time.Duration(1+r.Intn(5000)) * time.Millisecond
		case 2:
			d = time.Duration(1+r.Intn(90))*time.Minute + time.Duration(r.Intn(60))*time.Second
		default:
			d = time.Duration(1+r.Intn(1000)) * time.Microsecond
		}
		v := c19Value{canon: d.String(), doc: d.String(), env: d.String()}
		if r.Intn(4) == 0 {
			v.doc = d // a time.Duration, as a default or a bound flag gives it
		}
		return v
	case "log-level":
		lv := c19Levels[r.Intn(len(c19Levels))]
		return c19Value{canon: lv.canon, doc: lv.text, env: lv.text}
	case "process-concurrency":
		n := int64(1 + r.Intn(64))
		if r.Intn(5) == 0 {
			n = int64(r.Intn(100000))
		}
		v := c19Value{canon: strconv.FormatInt(n, 10), doc: n, env: strconv.FormatInt(n, 10)}
		if r.Intn(4) == 0 {
			v.doc = strconv.FormatInt(n, 10)
		}
		return v
	case "bool":
		b := r.Intn(2) == 0
		v := c19Value{canon: strconv.FormatBool(b), doc: b, env: strconv.FormatBool(b)}
		if r.Intn(4) == 0 {
			v.doc = strconv.FormatBool(b)
		}
		return v
	}
	panic("kind " + w.kind)
}

// fresh draws a value whose canonical form no other value of the scenario has (booleans: as far as possible).
func (w *c19World) fresh() c19Value {
	for i := 0; ; i++ {
		v := w.draw()
		if !w.used[v.canon] || (w.kind == "bool" && i > 8) || i > 200 {
			w.used[v.canon] = true
			return v
		}
	}
}

// empty: the setting written down without being a value, by the definition of its kind.
func (w *c19World) empty() c19Value {
	switch w.kind {
	case "addresses":
		return c19Value{canon: c19Empty, doc: []any{}, env: ""}
	case "timeout":
		if w.rnd.Intn(2) == 0 {
			return c19Value{canon: c19Empty, doc: "0s", env: "0s"}
		}
		return c19Value{canon: c19Empty, doc: 0, env: "0"}
	default:
		return c19Value{canon: c19Empty, doc: "", env: ""}
	}
}

// zero: what the function returns when nothing at all is configured.
func (w *c19World) zero() string {
	switch w.kind {
	case "addresses":
		return ""
	case "timeout":
		return "0s"
	case "log-level":
		return zerologger.Logger.GetLevel().String()
	case "process-concurrency":
		return "0"
	default:
		return "false"
	}
}

// ---------------------------------------------------------------------------------------------
// the configuration of the process: what the driver has put into viper, and how

func c19KeyOf(path []string, key string) string {
	if len(path) == 0 {
		return key
	}
	return strings.Join(path, ".") + "." + key
}

type c19Point struct {
	path []string
	val  c19Value
	src  string // doc, set, env, default, env(unset)
	// an older setting of the point from a source viper ranks lower is still there underneath
	layered bool
}

type c19Live struct {
	t       *testing.T
	w       *c19World
	prefix  string
	envSafe bool // the names of the scenario can be used in environment variables
	mode    string
	points  map[string]*c19Point // the tree in force, by joined path
	known   map[string][]string  // every point the scenario has ever configured
	doc     map[string]any
	docType string
	docText string
	hasDoc  bool
	envs    map[string]bool
	dflt    *c19Value // configured top-level default (as main.go sets for timeout, process-concurrency), if any
	single  *c19Value // addresses: the singular beacon-node-address, if set
}

func (lv *c19Live) envName(full string) string {
	return lv.prefix + "_" + strings.ToUpper(strings.NewReplacer("-", "_", ".", "_").Replace(full))
}

func (lv *c19Live) docPut(path []string, key string, v c19Value) {
	m := lv.doc
	for _, c := range path {
		next, ok := m[c].(map[string]any)
		if !ok {
			next = map[string]any{}
			m[c] = next
		}
		m = next
	}
	d := v.doc
	if dur, ok := d.(time.Duration); ok {
		d = dur.String()
	}
	m[key] = d
	lv.hasDoc = true
}

func (lv *c19Live) docDel(path []string, key string) {
	var chain []map[string]any
	m := lv.doc
	for _, c := range path {
		next, ok := m[c].(map[string]any)
		if !ok {
			return
		}
		chain = append(chain, m)
		m = next
	}
	delete(m, key)
	// sections that have become empty go as well
	for i := len(path) - 1; i >= 0 && len(m) == 0; i-- {
		delete(chain[i], path[i])
		m = chain[i]
	}
}

// put makes the setting at the point come from the given source.
func (lv *c19Live) put(path []string, key string, v c19Value, how string) {
	full := c19KeyOf(path, key)
	switch how {
	case "doc":
		lv.docPut(path, key, v)
	case "set":
		viper.Set(full, v.doc)
	case "default":
		viper.SetDefault(full, v.doc)
	case "env":
		name := lv.envName(full)
		os.Setenv(name, v.env)
		lv.envs[name] = true
	default:
		lv.t.Fatalf("driver: source %q", how)
	}
}

func c19YAML(b *bytes.Buffer, m map[string]any, indent string) {
	keys := make([]string, 0, len(m))
	for k := range m {
		keys = append(keys, k)
	}
	sort.Strings(keys)
	for _, k := range keys {
		switch v := m[k].(type) {
		case map[string]any:
			fmt.Fprintf(b, "%s'%s':\n", indent, k)
			c19YAML(b, v, indent+"  ")
		case []any:
			items := make([]string, len(v))
			for i, x := range v {
				items[i] = "'" + x.(string) + "'"
			}
			fmt.Fprintf(b, "%s'%s': [ %s ]\n", indent, k, strings.Join(items, ", "))
		case string:
			fmt.Fprintf(b, "%s'%s': '%s'\n", indent, k, v)
		default:
			fmt.Fprintf(b, "%s'%s': %v\n", indent, k, v)
		}
	}
}

// readDoc (re-)reads the configuration document; viper replaces what it had from the previous one.
func (lv *c19Live) readDoc() {
	if !lv.hasDoc {
		return
	}
	var buf bytes.Buffer
	switch {
	case len(lv.doc) == 0:
		buf.WriteString("{}\n")
	case lv.docType == "json":
		data, err := json.Marshal(lv.doc)
		if err != nil {
			lv.t.Fatalf("driver: %v", err)
		}
		buf.Write(data)
	default:
		c19YAML(&buf, lv.doc, "")
	}
	lv.docText = buf.String()
	viper.SetConfigType(lv.docType)
	if err := viper.ReadConfig(bytes.NewReader(buf.Bytes())); err != nil {
		lv.t.Fatalf("driver: configuration document does not parse: %v\n%s", err, lv.docText)
	}
}

func (lv *c19Live) clearEnv() {
	for e := range lv.envs {
		os.Unsetenv(e)
	}
	lv.envs = map[string]bool{}
}

func (lv *c19Live) pickMode() string {
	for {
		m := c19Modes[lv.w.rnd.Intn(len(c19Modes))]
		if lv.envSafe || (m != "env" && m != "mixed") {
			return m
		}
	}
}

// reload: viper.Reset() and the tree in force (lv.points) loaded from scratch, each key from one source.
func (lv *c19Live) reload(mode string) {
	w := lv.w
	lv.clearEnv()
	viper.Reset()
	lv.mode = mode
	lv.doc = map[string]any{}
	lv.hasDoc = false
	lv.docText = ""
	lv.docType = "yaml"
	if mode == "json" || (mode == "mixed" && w.rnd.Intn(2) == 0) {
		lv.docType = "json"
	}
	viper.SetEnvPrefix(lv.prefix)
	viper.SetEnvKeyReplacer(strings.NewReplacer("-", "_", ".", "_"))
	viper.AutomaticEnv()
	keys := make([]string, 0, len(lv.points))
	for k := range lv.points {
		keys = append(keys, k)
	}
	sort.Strings(keys)
	for _, k := range keys {
		pt := lv.points[k]
		h := mode
		switch mode {
		case "yaml", "json":
			h = "doc"
		case "mixed":
			h = []string{"doc", "set", "env", "default"}[w.rnd.Intn(4)]
		}
		if h == "default" && len(pt.path) == 0 && lv.dflt != nil {
			h = "set" // the key's default is the built-in one
		}
		if h == "env" && pt.val.env == "" {
			// an empty environment variable is the same as none: nothing to load
			pt.src = "env(unset)"
			continue
		}
		lv.put(pt.path, w.key, pt.val, h)
		pt.src = h
	}
	if lv.dflt != nil {
		viper.SetDefault(w.key, lv.dflt.doc)
	}
	if lv.single != nil {
		how := "doc"
		if mode == "set" || mode == "env" || mode == "default" {
			how = mode
		}
		lv.put(nil, "beacon-node-address", *lv.single, how)
	}
	lv.readDoc()
}

// setAt changes the configuration in place so that the point has the value; false if only a reload can do it.
func (lv *c19Live) setAt(path []string, v c19Value) (string, bool) {
	w := lv.w
	k := strings.Join(path, ".")
	cur, layered := "", false
	if pt, ok := lv.points[k]; ok {
		cur, layered = pt.src, pt.layered
	}
	// what viper prefers over what: explicit setting > environment > document > default
	cands := []string{"set"}
	switch cur {
	case "", "env(unset)", "default":
		cands = append(cands, "doc", "env")
		if !(len(path) == 0 && lv.dflt != nil) {
			cands = append(cands, "default")
		}
	case "doc":
		cands = append(cands, "doc", "env")
	case "env":
		cands = append(cands, "env")
	}
	var ok []string
	for _, c := range cands {
		if c == "env" && !lv.envSafe {
			continue
		}
		if c == "env" && v.env == "" && !(cur == "" || cur == "env(unset)" || (cur == "env" && !layered)) {
			continue // removing the variable would uncover what is underneath
		}
		ok = append(ok, c)
	}
	how := ok[w.rnd.Intn(len(ok))]
	src := how
	if how == "env" && v.env == "" {
		os.Unsetenv(lv.envName(c19KeyOf(path, w.key)))
		src = "env(unset)"
	} else {
		lv.put(path, w.key, v, how)
		if how == "doc" {
			lv.readDoc()
		}
	}
	if cur != "" && cur != "env(unset)" && how != cur {
		layered = true
	}
	lv.points[k] = &c19Point{path: path, val: v, src: src, layered: layered}
	return "live:" + src, true
}

// unset removes the point's setting in place; false if only a reload can do it (explicit settings and defaults stay).
func (lv *c19Live) unset(path []string) (string, bool) {
	k := strings.Join(path, ".")
	pt := lv.points[k]
	if pt.layered {
		return "", false
	}
	switch pt.src {
	case "env":
		os.Unsetenv(lv.envName(c19KeyOf(path, lv.w.key)))
	case "env(unset)":
	case "doc":
		lv.docDel(path, lv.w.key)
		lv.readDoc()
	default:
		return "", false
	}
	delete(lv.points, k)
	return "live:" + pt.src, true
}

// direct: what viper holds at exactly this key, in the form the expectation is written in ("" = no value).
func (lv *c19Live) direct(full string) string {
	switch lv.w.kind {
	case "addresses":
		return strings.Join(viper.GetStringSlice(full), " ")
	case "timeout":
		if d := viper.GetDuration(full); d != 0 {
			return d.String()
		}
		return ""
	default:
		return viper.GetString(full)
	}
}

// verify fails the run (driver error) if viper does not hold the tree the driver is about to log.
func (lv *c19Live) verify(sc int, what string) {
	for k, path := range lv.known {
		want := ""
		if pt, ok := lv.points[k]; ok && pt.val.canon != c19Empty {
			want = pt.val.env
			if lv.w.kind == "timeout" {
				want = pt.val.canon
			}
		}
		full := c19KeyOf(path, lv.w.key)
		if len(path) == 0 && want == "" && lv.dflt != nil {
			want = lv.dflt.env
			if lv.w.kind == "timeout" {
				want = lv.dflt.canon
			}
		}
		if got := lv.direct(full); got != want {
			lv.t.Fatalf("driver: scenario %d after %s: viper has %q at %s, the driver believes %q (mode %s)\n%s",
				sc, what, got, full, want, lv.mode, lv.docText)
		}
	}
}

func (lv *c19Live) tree() ([]c19Entry, map[string]string) {
	keys := make([]string, 0, len(lv.points))
	for k := range lv.points {
		keys = append(keys, k)
	}
	sort.Strings(keys)
	tree := []c19Entry{}
	sources := map[string]string{}
	for _, k := range keys {
		pt := lv.points[k]
		p := pt.path
		if p == nil {
			p = []string{}
		}
		tree = append(tree, c19Entry{P: p, V: pt.val.canon})
		sources[k] = pt.src
	}
	return tree, sources
}

func (lv *c19Live) dfltCanon() string {
	if lv.dflt != nil {
		return lv.dflt.canon
	}
	if lv.single != nil {
		return lv.single.canon
	}
	return lv.w.zero()
}

// ---------------------------------------------------------------------------------------------
// names

var c19Vocabulary = [][]string{
	{"strategies", "submitter", "accountmanager", "controller", "eth2client", "blockrelay", "scheduler", "majordomo", "metrics", "graffiti"},
	{"attestationdata", "beaconblockproposal", "attestation", "proposal", "dirk", "wallet", "advanced", "confidants", "prometheus", "aggregateattestation"},
	{"best", "first", "majority", "multinode", "immediate", "asm", "gsm", "http", "latest", "deadline"},
	{"inner", "node1", "backup", "eu", "us", "x", "y2", "primary", "fallback", "test"},
}

func (w *c19World) name(depth int, env bool) string {
	r := w.rnd
	if r.Intn(4) == 0 {
		// an arbitrary lower-case name
		n := 1 + r.Intn(8)
		b := make([]byte, n)
		for i := range b {
			b[i] = byte('a' + r.Intn(26))
		}
		if !env && n > 3 && r.Intn(3) == 0 {
			b[n/2] = '-'
		}
		return string(b)
	}
	row := c19Vocabulary[depth%len(c19Vocabulary)]
	return row[r.Intn(len(row))]
}

func c19Reserved(s string) bool {
	for _, k := range append([]string{"beacon-node-addresses", "beacon-node-address", "timeout", "log-level", "process-concurrency"}, c19BoolVars...) {
		if s == k {
			return true
		}
	}
	return false
}

// ---------------------------------------------------------------------------------------------
// plans: the history of a scenario in concrete names and values

type c19Op struct {
	ev   string // Lookup, SetAt, Unset, Reconfigure
	path []string
	val  c19Value             // SetAt
	tree map[string]*c19Point // Reconfigure: the new tree
}

type c19Plan struct {
	kind     string
	mode     string
	envSafe  bool
	initial  map[string]*c19Point
	ops      []c19Op
	topEmpty bool      // some configuration of the history writes the top-level setting down as empty
	dflt     *c19Value // configured top-level default, if any
	single   *c19Value // addresses: the singular beacon-node-address, if set
}

var c19Modes = []string{"yaml", "json", "set", "env", "default", "mixed"}

// planFromLattice turns a TLC-generated history (abstract components a/b, values v1/v2/<empty>) into a plan;
// a component, and a value, is the same concrete thing in every configuration of the history.
func c19PlanFromLattice(w *c19World, sc c19Scenario, mode string) *c19Plan {
	p := &c19Plan{kind: w.kind, mode: mode}
	p.envSafe = mode == "env" || mode == "mixed"
	names := map[string]string{}
	nameOf := func(depth int, c string) string {
		k := fmt.Sprintf("%d/%s", depth, c)
		if n, ok := names[k]; ok {
			return n
		}
		for {
			n := w.name(depth, p.envSafe)
			dup := c19Reserved(n)
			for k2, v := range names {
				if v == n && strings.HasPrefix(k2, fmt.Sprintf("%d/", depth)) {
					dup = true
				}
			}
			if !dup {
				names[k] = n
				return n
			}
		}
	}
	conc := func(path []string) []string {
		out := make([]string, len(path))
		for i, c := range path {
			out[i] = nameOf(i, c)
		}
		return out
	}
	vals := map[string]c19Value{}
	value := func(a string) c19Value {
		if a == c19Empty {
			return w.empty()
		}
		v, ok := vals[a]
		if !ok {
			v = w.fresh()
			vals[a] = v
		}
		return v
	}
	treeOf := func(es []c19Entry) map[string]*c19Point {
		t := map[string]*c19Point{}
		for _, e := range es {
			cp := conc(e.P)
			t[strings.Join(cp, ".")] = &c19Point{path: cp, val: value(e.V)}
			if len(cp) == 0 && e.V == c19Empty {
				p.topEmpty = true
			}
		}
		return t
	}
	for i, st := range sc.Steps {
		switch st.Ev {
		case "Reset":
			if i != 0 {
				panic("Reset inside a scenario")
			}
			p.initial = treeOf(st.Tree)
		case "Lookup":
			p.ops = append(p.ops, c19Op{ev: "Lookup", path: conc(st.Path)})
		case "SetAt":
			if len(st.Path) == 0 && st.V == c19Empty {
				p.topEmpty = true
			}
			p.ops = append(p.ops, c19Op{ev: "SetAt", path: conc(st.Path), val: value(st.V)})
		case "Unset":
			p.ops = append(p.ops, c19Op{ev: "Unset", path: conc(st.Path)})
		case "Reconfigure":
			p.ops = append(p.ops, c19Op{ev: "Reconfigure", tree: treeOf(st.Tree)})
		default:
			panic("step " + st.Ev)
		}
	}
	w.topLevel(p)
	return p
}

// topLevel decides what the setting is when no level has a value: nothing (zero), a configured
// default as main.go sets for timeout and process-concurrency, or (addresses) the singular key.
func (w *c19World) topLevel(p *c19Plan) {
	if p.topEmpty {
		// written down as empty at the top level at some time: leave the built-in zero
		return
	}
	if w.rnd.Intn(3) == 0 {
		return
	}
	v := w.fresh()
	if w.kind == "addresses" {
		p.single = &v
	} else {
		p.dflt = &v
	}
}

func c19CopyTree(t map[string]*c19Point) map[string]*c19Point {
	out := map[string]*c19Point{}
	for k, pt := range t {
		out[k] = &c19Point{path: pt.path, val: pt.val}
	}
	return out
}

// planRandom: a main path of depth 1-6 with settings on some of its prefixes, siblings, cousins and
// descendants; lookups of every prefix, the sides, and points below; and, for every second scenario, a
// history of up to three configuration changes over the SAME paths, each followed by the same lookups.
func c19PlanRandom(w *c19World, mode string) *c19Plan {
	r := w.rnd
	p := &c19Plan{kind: w.kind, mode: mode, initial: map[string]*c19Point{}}
	p.envSafe = mode == "env" || mode == "mixed"
	depth := 1 + r.Intn(6)
	var main []string
	for i := 0; i < depth; i++ {
		for {
			n := w.name(i, p.envSafe)
			if !c19Reserved(n) {
				main = append(main, n)
				break
			}
		}
	}
	draw := func(path []string, pEmpty float64) *c19Point {
		var v c19Value
		if r.Float64() < pEmpty {
			v = w.empty()
			if len(path) == 0 {
				p.topEmpty = true
			}
		} else {
			v = w.fresh()
		}
		return &c19Point{path: append([]string{}, path...), val: v}
	}
	other := func(i int) string {
		for {
			n := w.name(i, p.envSafe)
			if !c19Reserved(n) && (i >= len(main) || n != main[i]) {
				return n
			}
		}
	}
	// siblings, cousins and descendants
	var sides [][]string
	for i, m := 0, r.Intn(5); i < m; i++ {
		n := r.Intn(depth + 1)
		side := append(append([]string{}, main[:n]...), other(n))
		if r.Intn(3) == 0 {
			side = append(side, w.name(n+1, p.envSafe))
		}
		if c19Reserved(side[len(side)-1]) {
			continue
		}
		sides = append(sides, side)
	}
	// a tree: settings on the way up (one prefix in three), and on the sides
	randomTree := func() map[string]*c19Point {
		t := map[string]*c19Point{}
		for n := 0; n <= depth; n++ {
			if r.Intn(3) == 0 {
				t[strings.Join(main[:n], ".")] = draw(main[:n], 0.2)
			}
		}
		for _, s := range sides {
			k := strings.Join(s, ".")
			if _, dup := t[k]; !dup && r.Intn(5) != 0 {
				t[k] = draw(s, 0.1)
			}
		}
		return t
	}
	p.initial = randomTree()
	// lookups: every prefix of the main path, the side paths, below the main path, below the sides
	var lookups [][]string
	for n := 0; n <= depth; n++ {
		lookups = append(lookups, main[:n])
	}
	lookups = append(lookups, sides...)
	lookups = append(lookups, append(append([]string{}, main...), other(depth)))
	for _, s := range sides {
		if r.Intn(2) == 0 {
			lookups = append(lookups, append(append([]string{}, s...), other(len(s))))
		}
	}
	look := func() {
		for _, l := range lookups {
			p.ops = append(p.ops, c19Op{ev: "Lookup", path: l})
		}
	}
	look()
	if r.Intn(2) == 0 {
		cur := c19CopyTree(p.initial)
		hasValue := func(path []string) bool {
			pt, ok := cur[strings.Join(path, ".")]
			return ok && pt.val.canon != c19Empty
		}
		for i, m := 0, 1+r.Intn(3); i < m; i++ {
			var valued, addable [][]string // points that have a value; points without one below a point that has
			above := false
			for n := 0; n <= depth; n++ {
				if hasValue(main[:n]) {
					valued = append(valued, main[:n])
				} else if above {
					addable = append(addable, main[:n])
				}
				above = above || hasValue(main[:n])
			}
			for _, s := range sides {
				if hasValue(s) {
					valued = append(valued, s)
				}
			}
			class := r.Intn(4)
			switch {
			case class == 0 && len(addable) > 0: // (a) something more specific appears
				q := addable[r.Intn(len(addable))]
				pt := draw(q, 0)
				cur[strings.Join(q, ".")] = pt
				p.ops = append(p.ops, c19Op{ev: "SetAt", path: pt.path, val: pt.val})
			case class == 1 && len(valued) > 0: // (b) a level that was used goes away
				q := valued[r.Intn(len(valued))]
				if r.Intn(3) == 0 {
					pt := draw(q, 1)
					cur[strings.Join(q, ".")] = pt
					p.ops = append(p.ops, c19Op{ev: "SetAt", path: pt.path, val: pt.val})
				} else {
					delete(cur, strings.Join(q, "."))
					p.ops = append(p.ops, c19Op{ev: "Unset", path: append([]string{}, q...)})
				}
			case class == 2 && len(valued) > 0: // (c) the value of a level that was used changes
				q := valued[r.Intn(len(valued))]
				pt := draw(q, 0)
				cur[strings.Join(q, ".")] = pt
				p.ops = append(p.ops, c19Op{ev: "SetAt", path: pt.path, val: pt.val})
			default: // (d) a completely new tree over the same paths
				cur = randomTree()
				p.ops = append(p.ops, c19Op{ev: "Reconfigure", tree: c19CopyTree(cur)})
			}
			look()
		}
	}
	w.topLevel(p)
	return p
}

func c19Call(kind string, path []string, boolVar string) string {
	arg := strings.Join(path, ".")
	switch kind {
	case "addresses":
		return strings.Join(BeaconNodeAddresses(arg), " ")
	case "timeout":
		return Timeout(arg).String()
	case "log-level":
		return LogLevel(arg).String()
	case "process-concurrency":
		return strconv.FormatInt(ProcessConcurrency(arg), 10)
	default:
		return strconv.FormatBool(HierarchicalBool(boolVar, arg))
	}
}

func TestVerifC19(t *testing.T) {
	var scenarios []c19Scenario
	verifsupport.Scenarios(t, &scenarios)
	tr := verifsupport.OpenTrace(t)
	defer tr.Close()
	seed := verifsupport.Seed()

	for _, sc := range scenarios {
		if len(sc.Steps) == 0 {
			t.Fatalf("scenario %d is empty", sc.Sc)
		}
		first := sc.Steps[0]
		kind := first.Kind
		var plan *c19Plan
		var w *c19World
		switch first.Ev {
		case "Random":
			r := rand.New(rand.NewSource(seed*7_368_787 + int64(first.Idx)*1_299_709 + 3))
			if kind == "" {
				kind = c19Kinds[r.Intn(len(c19Kinds))]
			}
			w = c19NewWorld(r.Int63(), kind)
			plan = c19PlanRandom(w, c19Modes[r.Intn(len(c19Modes))])
		case "Reset":
			r := rand.New(rand.NewSource(seed*7_368_787 + int64(sc.Sc)*15_485_863 + 11))
			if kind == "" {
				kind = c19Kinds[r.Intn(len(c19Kinds))]
			}
			w = c19NewWorld(r.Int63(), kind)
			plan = c19PlanFromLattice(w, sc, c19Modes[r.Intn(len(c19Modes))])
		default:
			t.Fatalf("scenario %d does not start with Reset", sc.Sc)
		}
		history := false
		for _, op := range plan.ops {
			history = history || op.ev != "Lookup"
		}
		if history {
			// the lookups between two configuration changes in an order of their own every time
			for i := 0; i < len(plan.ops); {
				j := i
				for j < len(plan.ops) && plan.ops[j].ev == "Lookup" {
					j++
				}
				w.rnd.Shuffle(j-i, func(a, b int) { plan.ops[i+a], plan.ops[i+b] = plan.ops[i+b], plan.ops[i+a] })
				i = j + 1
			}
		}

		// load the first configuration
		lv := &c19Live{t: t, w: w, prefix: fmt.Sprintf("VOUCHC19S%d", sc.Sc), envSafe: plan.envSafe,
			points: plan.initial, known: map[string][]string{}, envs: map[string]bool{},
			dflt: plan.dflt, single: plan.single}
		note := func() {
			for k, pt := range lv.points {
				lv.known[k] = pt.path
			}
		}
		note()
		lv.reload(plan.mode)
		lv.verify(sc.Sc, "Reset")
		tree, sources := lv.tree()
		tr.Emit(verifsupport.Ev{"sc": sc.Sc, "ev": "Reset", "kind": kind, "tree": tree, "dflt": lv.dfltCanon(),
			"mode": lv.mode, "key": w.key, "doc": lv.docText, "sources": sources})

		for _, op := range plan.ops {
			path := op.path
			if path == nil {
				path = []string{}
			}
			switch op.ev {
			case "Lookup":
				func() {
					defer func() {
						if r := recover(); r != nil {
							tr.Emit(verifsupport.Ev{"sc": sc.Sc, "ev": "Crash", "path": path, "panic": fmt.Sprint(r)})
						}
					}()
					got := c19Call(kind, path, w.boolVar)
					tr.Emit(verifsupport.Ev{"sc": sc.Sc, "ev": "Lookup", "kind": kind, "path": path, "got": got})
				}()
				continue
			case "SetAt":
				how, done := "", false
				if w.rnd.Intn(5) != 0 {
					how, done = lv.setAt(path, op.val)
				}
				if !done {
					lv.points[strings.Join(path, ".")] = &c19Point{path: path, val: op.val}
					lv.reload(lv.pickMode())
					how = "reload:" + lv.mode
				}
				note()
				lv.verify(sc.Sc, "SetAt "+strings.Join(path, "."))
				tree, sources := lv.tree()
				tr.Emit(verifsupport.Ev{"sc": sc.Sc, "ev": "SetAt", "kind": kind, "path": path, "v": op.val.canon, "tree": tree,
					"dflt": lv.dfltCanon(), "how": how, "doc": lv.docText, "sources": sources})
			case "Unset":
				if _, ok := lv.points[strings.Join(path, ".")]; !ok {
					t.Fatalf("driver: scenario %d removes a setting that is not there (%v)", sc.Sc, path)
				}
				how, done := "", false
				if w.rnd.Intn(5) != 0 {
					how, done = lv.unset(path)
				}
				if !done {
					delete(lv.points, strings.Join(path, "."))
					lv.reload(lv.pickMode())
					how = "reload:" + lv.mode
				}
				lv.verify(sc.Sc, "Unset "+strings.Join(path, "."))
				tree, sources := lv.tree()
				tr.Emit(verifsupport.Ev{"sc": sc.Sc, "ev": "Unset", "kind": kind, "path": path, "tree": tree,
					"dflt": lv.dfltCanon(), "how": how, "doc": lv.docText, "sources": sources})
			case "Reconfigure":
				lv.points = op.tree
				note()
				lv.reload(lv.pickMode())
				lv.verify(sc.Sc, "Reconfigure")
				tree, sources := lv.tree()
				tr.Emit(verifsupport.Ev{"sc": sc.Sc, "ev": "Reconfigure", "kind": kind, "tree": tree,
					"dflt": lv.dfltCanon(), "how": "reload:" + lv.mode, "doc": lv.docText, "sources": sources})
			}
		}
		lv.clearEnv()
		viper.Reset()
	}
}
