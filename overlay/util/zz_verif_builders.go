package util

// Test seam injected with `go test -overlay` by /verif (never committed to the repository).
// It only adds declarations: in-process fake relay clients can be pre-registered in the client
// cache that FetchBuilderClient consults, so no HTTP client is created for their addresses.
// Shared by the C09, C11 and C12 drivers.

import (
	builder "github.com/attestantio/go-builder-client"
)

// VerifSetBuilderClient registers client as the builder client for address.
func VerifSetBuilderClient(address string, client builder.Service) {
	buildersMu.Lock()
	defer buildersMu.Unlock()
	if builders == nil {
		builders = make(map[string]builder.Service)
	}
	builders[address] = client
}

// VerifClearBuilderClients forgets every cached builder client.
func VerifClearBuilderClients() {
	buildersMu.Lock()
	defer buildersMu.Unlock()
	builders = make(map[string]builder.Service)
}
