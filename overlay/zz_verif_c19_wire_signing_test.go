package main

// Wired family of C19, second part: startSigningServices - the beacon block proposer, the attester, the attestation
// aggregator and the beacon committee subscriber as main.go constructs them (real startProviders with the real
// select* functions, real signer, real submitter strategy, real graffiti provider; the account manager and the block
// relay, which are parameters of the function, are stand-ins).  docs/configuration.md "Module levels" documents the
// configuration path of each of these modules: its name.

import (
	"os"
	"context"
	"fmt"

	"github.com/attestantio/go-block-relay/services/blockauctioneer"
	"github.com/attestantio/go-eth2-client/spec/phase0"
	mockcache "github.com/attestantio/vouch/services/cache/mock"
	e2wtypes "github.com/wealdtech/go-eth2-wallet-types/v2"
)

type c19wAccounts struct{}

func (c19wAccounts) ValidatingAccountsForEpoch(context.Context, phase0.Epoch) (map[phase0.ValidatorIndex]e2wtypes.Account, error) {
	return map[phase0.ValidatorIndex]e2wtypes.Account{}, nil
}

func (c19wAccounts) ValidatingAccountsForEpochByIndex(context.Context, phase0.Epoch, []phase0.ValidatorIndex) (map[phase0.ValidatorIndex]e2wtypes.Account, error) {
	return map[phase0.ValidatorIndex]e2wtypes.Account{}, nil
}

func (c19wAccounts) SyncCommitteeAccountsForEpoch(context.Context, phase0.Epoch) (map[phase0.ValidatorIndex]e2wtypes.Account, error) {
	return map[phase0.ValidatorIndex]e2wtypes.Account{}, nil
}

func (c19wAccounts) SyncCommitteeAccountsForEpochByIndex(context.Context, phase0.Epoch, []phase0.ValidatorIndex) (map[phase0.ValidatorIndex]e2wtypes.Account, error) {
	return map[phase0.ValidatorIndex]e2wtypes.Account{}, nil
}

type c19wRelay struct{}

func (c19wRelay) AuctionBlock(context.Context, phase0.Slot, phase0.Hash32, phase0.BLSPubKey) (*blockauctioneer.Results, error) {
	return nil, fmt.Errorf("no auction in this harness")
}

var c19wSigningModules = map[string]bool{
	"beaconblockproposer": true, "attester": true, "attestationaggregator": true, "beaconcommitteesubscriber": true,
}

// startSigning runs the real startSigningServices and reports the module asked for
func (w *c19wWorld) startSigning(svc string) ([]c19wObs, error) {
	ctx := w.ctx
	md, err := initMajordomo(ctx)
	if err != nil {
		return nil, fmt.Errorf("majordomo: %w", err)
	}
	signerSvc, err := startSigner(ctx, w.monitor, w.main)
	if err != nil {
		return nil, fmt.Errorf("signer: %w", err)
	}
	sub, err := selectSubmitterStrategy(ctx, w.monitor, w.main)
	if err != nil {
		if os.Getenv("VERIF_C19_TIMING") != "" {
			fmt.Println("submitter:", err)
		}
		// no nodes to submit to in this configuration: main.go stops here, no module is constructed
		return append(w.newClients(), c19wObs{svc: svc, impl: "error", used: map[string]string{}}), nil
	}
	cacheSvc := mockcache.New(map[phase0.Root]phase0.Slot{})
	proposer, att, agg, bcs, err := startSigningServices(ctx, md, w.monitor, w.main, w.chainTime, cacheSvc, signerSvc,
		c19wRelay{}, c19wAccounts{}, sub)
	clients := w.newClients()
	if err != nil {
		if os.Getenv("VERIF_C19_TIMING") != "" {
			fmt.Println("signing services:", err)
		}
		// a strategy on the way could not be constructed (no nodes for it): no module to look at
		return append(clients, c19wObs{svc: svc, impl: "error", used: map[string]string{}}), nil
	}
	var obj any
	switch svc {
	case "beaconblockproposer":
		obj = proposer
	case "attester":
		obj = att
	case "attestationaggregator":
		obj = agg
	default:
		obj = bcs
	}
	return append(clients, c19wObs{svc: svc, impl: c19wImplOf(obj, "/services/"+svc+"/"), used: c19wHeld(obj, false)}), nil
}
