// Package c13support is shared by the two conformance drivers of property C13 (spec/Accounts.tla):
// services/accountmanager/wallet/zz_verif_c13_test.go and services/accountmanager/dirk/zz_verif_c13_test.go.
// It is injected with -overlay by /verif/check and never committed to the repository.
//
// It holds the scenario format, the universe of real wallets / accounts (real BLS keys, nd wallets,
// cheap keystore cost), the scripted beacon node (ValidatorsProvider) and the construction of the REAL
// validatorsmanager/standard.Service both account managers are given.
package c13support

import (
	"context"
	"encoding/json"
	"errors"
	"fmt"
	"os"
	"path/filepath"
	"sort"
	"strings"
	"sync"
	"testing"

	"github.com/attestantio/go-eth2-client/api"
	apiv1 "github.com/attestantio/go-eth2-client/api/v1"
	"github.com/attestantio/go-eth2-client/spec/phase0"
	nullmetrics "github.com/attestantio/vouch/services/metrics/null"
	"github.com/attestantio/vouch/services/validatorsmanager"
	standardvalidatorsmanager "github.com/attestantio/vouch/services/validatorsmanager/standard"
	"github.com/attestantio/vouch/util"
	"github.com/attestantio/vouch/verifsupport"
	"github.com/rs/zerolog"
	e2types "github.com/wealdtech/go-eth2-types/v2"
	keystorev4 "github.com/wealdtech/go-eth2-wallet-encryptor-keystorev4"
	nd "github.com/wealdtech/go-eth2-wallet-nd/v2"
	e2wtypes "github.com/wealdtech/go-eth2-wallet-types/v2"
)

// FarFutureEpoch is the chain's far future epoch; the model writes it as ModelFFE.
const (
	FarFutureEpoch = phase0.Epoch(0xffffffffffffffff)
	ModelFFE       = 99
	Passphrase     = "pass"
)

// Name is a wallet/account name as the model writes it: ["W", ["a","b"]].
type Name struct {
	W string
	A []string
}

// UnmarshalJSON reads ["W", ["a","b"]].
func (n *Name) UnmarshalJSON(data []byte) error {
	var parts []json.RawMessage
	if err := json.Unmarshal(data, &parts); err != nil {
		return err
	}
	if len(parts) != 2 {
		return fmt.Errorf("name with %d parts", len(parts))
	}
	if err := json.Unmarshal(parts[0], &n.W); err != nil {
		return err
	}
	return json.Unmarshal(parts[1], &n.A)
}

// MarshalJSON writes ["W", ["a","b"]].
func (n Name) MarshalJSON() ([]byte, error) {
	a := n.A
	if a == nil {
		a = []string{}
	}
	return json.Marshal([]interface{}{n.W, a})
}

// Text is the wallet/account text of the name.
func (n Name) Text() string { return n.W + "/" + strings.Join(n.A, "") }

// Rec is a validator record of the scripted beacon node.
type Rec struct {
	N       Name   `json:"n"`
	Index   uint64 `json:"index"`
	Elig    uint64 `json:"elig"`
	Act     uint64 `json:"act"`
	Exit    uint64 `json:"exit"`
	Wd      uint64 `json:"wd"`
	Slashed bool   `json:"slashed"`
	Bal0    bool   `json:"bal0"`
}

// Step is one step of a scenario.
type Step struct {
	Ev      string                `json:"ev"`
	Mgr     string                `json:"mgr"`
	Cfg     json.RawMessage       `json:"cfg"`
	Paths   []string              `json:"paths"`
	Wallets map[string][][]string `json:"wallets"`
	Offer   []Name                `json:"offer"`
	Mode    string                `json:"mode"`
	Recs    []Rec                 `json:"recs"`
	Kind    string                `json:"kind"`
	Epoch   uint64                `json:"epoch"`
	Idxs    []uint64              `json:"idxs"`
	Hold    string                `json:"hold"`
}

// Scenario is a scenario.
type Scenario struct {
	Sc    int    `json:"sc"`
	Steps []Step `json:"steps"`
}

func epoch(e uint64) phase0.Epoch {
	if e == ModelFFE {
		return FarFutureEpoch
	}
	return phase0.Epoch(e)
}

// Universe is the set of real wallets and accounts the scenarios talk about.
type Universe struct {
	Wallets  map[string]e2wtypes.Wallet
	Accounts map[string]e2wtypes.Account // by text
	byKey    map[phase0.BLSPubKey]Name
	byText   map[string]Name
	keys     []phase0.BLSPubKey
}

// BuildUniverse creates the wallets named in the scenario's universe in store, one real account
// per name.
func BuildUniverse(ctx context.Context, t *testing.T, store e2wtypes.Store, wallets map[string][][]string) *Universe {
	t.Helper()
	if err := e2types.InitBLS(); err != nil {
		t.Fatalf("InitBLS: %v", err)
	}
	u := &Universe{
		Wallets:  map[string]e2wtypes.Wallet{},
		Accounts: map[string]e2wtypes.Account{},
		byKey:    map[phase0.BLSPubKey]Name{},
		byText:   map[string]Name{},
	}
	// the keys are test keys: a cheap keystore cost keeps creation and unlocking fast
	encryptor := keystorev4.New(keystorev4.WithCost(t, 4))
	names := make([]string, 0, len(wallets))
	for w := range wallets {
		names = append(names, w)
	}
	sort.Strings(names)
	for _, w := range names {
		wallet, err := nd.CreateWallet(ctx, w, store, encryptor)
		if err != nil {
			t.Fatalf("create wallet %s: %v", w, err)
		}
		if err := wallet.(e2wtypes.WalletLocker).Unlock(ctx, nil); err != nil {
			t.Fatalf("unlock wallet %s: %v", w, err)
		}
		u.Wallets[w] = wallet
		for _, chars := range wallets[w] {
			n := Name{W: w, A: chars}
			acc, err := wallet.(e2wtypes.WalletAccountCreator).CreateAccount(ctx, strings.Join(chars, ""), []byte(Passphrase))
			if err != nil {
				t.Fatalf("create account %s: %v", n.Text(), err)
			}
			u.Accounts[n.Text()] = acc
			key := util.ValidatorPubkey(acc)
			u.byKey[key] = n
			u.byText[n.Text()] = n
			u.keys = append(u.keys, key)
		}
	}
	return u
}

// Same reports whether the universe was built for these wallets.
func (u *Universe) Same(wallets map[string][][]string) bool {
	cnt := 0
	for w, as := range wallets {
		for _, chars := range as {
			if _, ok := u.byText[Name{W: w, A: chars}.Text()]; !ok {
				return false
			}
			cnt++
		}
	}
	return cnt == len(u.byText)
}

// NameOf maps an account the real code holds back to the model's name, by what the account itself
// says (wallet name, account name).  A name outside the universe is reported as ["?", [text]].
func (u *Universe) NameOf(account e2wtypes.Account) Name {
	text := "?/" + account.Name()
	if wp, ok := account.(e2wtypes.AccountWalletProvider); ok && wp.Wallet() != nil {
		text = wp.Wallet().Name() + "/" + account.Name()
	}
	if n, ok := u.byText[text]; ok {
		return n
	}
	return Name{W: "?", A: []string{text}}
}

// ShowOnly makes a filesystem store at dir offer exactly these accounts of the universe: the files of the
// other accounts are renamed to something the store does not take for an account (and back).
func (u *Universe) ShowOnly(dir string, offer []Name) error {
	show := map[string]bool{}
	for _, n := range offer {
		if _, ok := u.byText[n.Text()]; !ok {
			return fmt.Errorf("offer of unknown account %s", n.Text())
		}
		show[n.Text()] = true
	}
	for text, acc := range u.Accounts {
		n := u.byText[text]
		path := filepath.Join(dir, u.Wallets[n.W].ID().String(), acc.ID().String())
		hidden := path + ".hidden"
		_, errShown := os.Stat(path)
		switch {
		case show[text] && errShown != nil:
			if err := os.Rename(hidden, path); err != nil {
				return err
			}
		case !show[text] && errShown == nil:
			if err := os.Rename(path, hidden); err != nil {
				return err
			}
		}
	}
	return nil
}

// Keys are the public keys of every account of the universe.
func (u *Universe) Keys() []phase0.BLSPubKey { return u.keys }

// Indexed is a reply or table entry: [index, name].
type Indexed struct {
	Index uint64
	Name  Name
}

// MarshalJSON writes [index, name].
func (i Indexed) MarshalJSON() ([]byte, error) {
	return json.Marshal([]interface{}{i.Index, i.Name})
}

// Reply projects a reply of the account manager.
func (u *Universe) Reply(m map[phase0.ValidatorIndex]e2wtypes.Account) []Indexed {
	res := make([]Indexed, 0, len(m))
	for idx, acc := range m {
		if acc == nil {
			res = append(res, Indexed{Index: uint64(idx), Name: Name{W: "?", A: []string{"nil"}}})
			continue
		}
		res = append(res, Indexed{Index: uint64(idx), Name: u.NameOf(acc)})
	}
	sort.Slice(res, func(i, j int) bool { return res[i].Index < res[j].Index })
	return res
}

// Known projects the accounts a manager holds.
func (u *Universe) Known(accounts map[phase0.BLSPubKey]e2wtypes.Account) []Name {
	res := make([]Name, 0, len(accounts))
	for _, acc := range accounts {
		res = append(res, u.NameOf(acc))
	}
	sort.Slice(res, func(i, j int) bool { return res[i].Text() < res[j].Text() })
	return res
}

// Table projects the validators manager's table through its public interface: which index it
// reports for which account of the universe.
func (u *Universe) Table(ctx context.Context, vm validatorsmanager.Service) []Indexed {
	res := make([]Indexed, 0)
	// one key at a time: the pairing index <-> key must come from the manager, not from us
	for _, key := range u.keys {
		for idx, v := range vm.ValidatorsByPubKey(ctx, []phase0.BLSPubKey{key}) {
			n, ok := u.byKey[v.PublicKey]
			if !ok {
				n = Name{W: "?", A: []string{fmt.Sprintf("%x", v.PublicKey[:4])}}
			}
			res = append(res, Indexed{Index: uint64(idx), Name: n})
		}
	}
	sort.Slice(res, func(i, j int) bool { return res[i].Index < res[j].Index })
	return res
}

// Node is the scripted beacon node.
type Node struct {
	mu    sync.Mutex
	u     *Universe
	mode  string
	recs  []Rec
	calls int
	gate  *Gate
}

// Calls is the number of requests the node has received.
func (n *Node) Calls() int {
	n.mu.Lock()
	defer n.mu.Unlock()
	return n.calls
}

// Hold makes the next request wait at the node's door until the returned gate is released.
func (n *Node) Hold() *Gate {
	n.mu.Lock()
	defer n.mu.Unlock()
	n.gate = NewGate()
	return n.gate
}

// Unhold takes back a Hold that no request ran in to.
func (n *Node) Unhold() {
	n.mu.Lock()
	defer n.mu.Unlock()
	n.gate = nil
}

// NewNode creates the scripted beacon node.
func NewNode(u *Universe) *Node { return &Node{u: u, mode: "ok"} }

// Script sets the outcome of the following requests.
func (n *Node) Script(mode string, recs []Rec) {
	n.mu.Lock()
	defer n.mu.Unlock()
	n.mode = mode
	n.recs = recs
}

// Validators implements eth2client.ValidatorsProvider: the records whose key was asked for (no keys
// asked for = no filter, as the beacon API defines it), keyed by the validator's index.
func (n *Node) Validators(_ context.Context, opts *api.ValidatorsOpts) (*api.Response[map[phase0.ValidatorIndex]*apiv1.Validator], error) {
	n.mu.Lock()
	gate := n.gate
	n.gate = nil
	n.mu.Unlock()
	if gate != nil {
		// the refresh job is held here, between its accounts part and its validators part; the node
		// answers with what it is scripted to answer when it is let go
		gate.Wait()
	}
	n.mu.Lock()
	defer n.mu.Unlock()
	n.calls++
	if n.mode == "err" {
		return nil, errors.New("scripted beacon node failure")
	}
	asked := map[phase0.BLSPubKey]bool{}
	for _, k := range opts.PubKeys {
		asked[k] = true
	}
	res := map[phase0.ValidatorIndex]*apiv1.Validator{}
	for _, r := range n.recs {
		acc, ok := n.u.Accounts[r.N.Text()]
		if !ok {
			continue
		}
		key := util.ValidatorPubkey(acc)
		if len(asked) > 0 && !asked[key] {
			continue
		}
		balance := phase0.Gwei(32000000000)
		if r.Bal0 {
			balance = 0
		}
		v := &phase0.Validator{
			PublicKey:                  key,
			WithdrawalCredentials:      make([]byte, 32),
			EffectiveBalance:           balance,
			Slashed:                    r.Slashed,
			ActivationEligibilityEpoch: epoch(r.Elig),
			ActivationEpoch:            epoch(r.Act),
			ExitEpoch:                  epoch(r.Exit),
			WithdrawableEpoch:          epoch(r.Wd),
		}
		res[phase0.ValidatorIndex(r.Index)] = &apiv1.Validator{
			Index:     phase0.ValidatorIndex(r.Index),
			Balance:   balance,
			Status:    apiv1.ValidatorToState(v, &balance, 0, FarFutureEpoch),
			Validator: v,
		}
	}
	return &api.Response[map[phase0.ValidatorIndex]*apiv1.Validator]{Data: res, Metadata: map[string]any{}}, nil
}

// NewValidatorsManager builds the REAL validators manager over the scripted node.
func NewValidatorsManager(ctx context.Context, t *testing.T, node *Node) validatorsmanager.Service {
	t.Helper()
	vm, err := standardvalidatorsmanager.New(ctx,
		standardvalidatorsmanager.WithLogLevel(zerolog.Disabled),
		standardvalidatorsmanager.WithMonitor(nullmetrics.New()),
		standardvalidatorsmanager.WithClientMonitor(nullmetrics.New()),
		standardvalidatorsmanager.WithValidatorsProvider(node),
		standardvalidatorsmanager.WithFarFutureEpoch(FarFutureEpoch),
	)
	if err != nil {
		t.Fatalf("validators manager New: %v", err)
	}
	return vm
}

// Manager is what the drivers need from an account manager.
type Manager interface {
	Refresh(ctx context.Context)
	ValidatingAccountsForEpoch(ctx context.Context, epoch phase0.Epoch) (map[phase0.ValidatorIndex]e2wtypes.Account, error)
	ValidatingAccountsForEpochByIndex(ctx context.Context, epoch phase0.Epoch, indices []phase0.ValidatorIndex) (map[phase0.ValidatorIndex]e2wtypes.Account, error)
	SyncCommitteeAccountsForEpoch(ctx context.Context, epoch phase0.Epoch) (map[phase0.ValidatorIndex]e2wtypes.Account, error)
	SyncCommitteeAccountsForEpochByIndex(ctx context.Context, epoch phase0.Epoch, indices []phase0.ValidatorIndex) (map[phase0.ValidatorIndex]e2wtypes.Account, error)
}

// ask runs one query on the real manager.
func ask(ctx context.Context, st Step, m Manager) (map[phase0.ValidatorIndex]e2wtypes.Account, error) {
	idxs := make([]phase0.ValidatorIndex, 0, len(st.Idxs))
	for _, i := range st.Idxs {
		idxs = append(idxs, phase0.ValidatorIndex(i))
	}
	switch st.Kind {
	case "validating":
		return m.ValidatingAccountsForEpoch(ctx, phase0.Epoch(st.Epoch))
	case "sync":
		return m.SyncCommitteeAccountsForEpoch(ctx, phase0.Epoch(st.Epoch))
	case "validating_by_index":
		return m.ValidatingAccountsForEpochByIndex(ctx, phase0.Epoch(st.Epoch), idxs)
	case "sync_by_index":
		return m.SyncCommitteeAccountsForEpochByIndex(ctx, phase0.Epoch(st.Epoch), idxs)
	}
	return nil, fmt.Errorf("unknown query kind %q", st.Kind)
}

// RefreshAEvent builds the trace line of the accounts part of a refresh (inputs echoed, observed state added).
func RefreshAEvent(sc int, st Step, known []Name) verifsupport.Ev {
	offer := st.Offer
	if offer == nil {
		offer = []Name{}
	}
	return verifsupport.Ev{"sc": sc, "ev": "RefreshA", "offer": offer, "known": known}
}

// RefreshVEvent builds the trace line of the validators part of a refresh.
func RefreshVEvent(sc int, st Step, table []Indexed, calls int) verifsupport.Ev {
	recs := st.Recs
	if recs == nil {
		recs = []Rec{}
	}
	return verifsupport.Ev{"sc": sc, "ev": "RefreshV", "mode": st.Mode, "recs": recs, "vals": table, "node_calls": calls}
}
