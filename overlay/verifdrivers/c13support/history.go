package c13support

// History runner of property C13: ONE pair of real instances (account manager + validators manager)
// per scenario, every step of the TLC-generated history executed on it, with the two overlaps the
// scheduler produces in production:
//
//   - the refresh job held between its accounts part and its validators part (at the scripted beacon
//     node's door) while queries run to completion on the same instances (RefreshBegin .. RefreshEnd);
//   - a query held inside the validators manager's lookup - before or after the real lookup - while the
//     refresh job (and other queries) run to completion (QueryBegin .. QueryEnd).
//
// Trace lines are written by the runner's own goroutine only, in the order the calls were made and
// seen to return.  A call that panics is the event "Crash", a call that does not return within the
// watchdog's patience is the event "Hung": no action of the specification allows either, and neither
// wedges the batch (everything still held is let go and the rest of the history is dropped).

import (
	"context"
	"fmt"
	"runtime/debug"
	"sync"
	"sync/atomic"
	"testing"
	"time"

	apiv1 "github.com/attestantio/go-eth2-client/api/v1"
	"github.com/attestantio/go-eth2-client/spec/phase0"
	"github.com/attestantio/vouch/services/validatorsmanager"
	"github.com/attestantio/vouch/verifsupport"
	e2wtypes "github.com/wealdtech/go-eth2-wallet-types/v2"
)

// patience is how long the watchdog waits for a call (or for a call to reach a gate): generous until a
// call of the batch has hung once, short afterwards (a batch of histories that all hang must not outlast
// the driver's own time limit; the history is re-run alone for confirmation, with the generous wait).
var impatient atomic.Bool

func patience() time.Duration {
	if impatient.Load() {
		return time.Second
	}
	return 10 * time.Second
}

// Gate holds one call at an interface until it is released.
type Gate struct {
	arrived chan struct{}
	release chan struct{}
	once    sync.Once
	relOnce sync.Once
}

// NewGate creates a gate.
func NewGate() *Gate { return &Gate{arrived: make(chan struct{}), release: make(chan struct{})} }

// Wait is called by the held call: it reports its arrival and waits to be released.
func (g *Gate) Wait() {
	g.once.Do(func() { close(g.arrived) })
	<-g.release
}

// Arrived is closed when a call waits at the gate.
func (g *Gate) Arrived() <-chan struct{} { return g.arrived }

// Release lets the held call (if any, now or later) pass.
func (g *Gate) Release() { g.relOnce.Do(func() { close(g.release) }) }

// GatedVM is the validators manager the account manager is given: the REAL manager, with a gate that
// can hold one lookup before or after it is served.
type GatedVM struct {
	Real validatorsmanager.Service
	mu   sync.Mutex
	gate *Gate
	pos  string
}

// Hold makes the next lookup wait ("before": ahead of the real lookup, "after": with its result in hand).
func (g *GatedVM) Hold(pos string) *Gate {
	g.mu.Lock()
	defer g.mu.Unlock()
	g.gate = NewGate()
	g.pos = pos
	return g.gate
}

// Unhold takes back a Hold no lookup ran in to.
func (g *GatedVM) Unhold() {
	g.mu.Lock()
	defer g.mu.Unlock()
	g.gate = nil
}

func (g *GatedVM) take() (*Gate, string) {
	g.mu.Lock()
	defer g.mu.Unlock()
	gate, pos := g.gate, g.pos
	g.gate = nil
	return gate, pos
}

// RefreshValidatorsFromBeaconNode implements validatorsmanager.Service.
func (g *GatedVM) RefreshValidatorsFromBeaconNode(ctx context.Context, pubKeys []phase0.BLSPubKey) error {
	return g.Real.RefreshValidatorsFromBeaconNode(ctx, pubKeys)
}

// ValidatorsByIndex implements validatorsmanager.Service.
func (g *GatedVM) ValidatorsByIndex(ctx context.Context, indices []phase0.ValidatorIndex) map[phase0.ValidatorIndex]*phase0.Validator {
	gate, pos := g.take()
	if gate != nil && pos == "before" {
		gate.Wait()
	}
	res := g.Real.ValidatorsByIndex(ctx, indices)
	if gate != nil && pos != "before" {
		gate.Wait()
	}
	return res
}

// ValidatorsByPubKey implements validatorsmanager.Service.
func (g *GatedVM) ValidatorsByPubKey(ctx context.Context, pubKeys []phase0.BLSPubKey) map[phase0.ValidatorIndex]*phase0.Validator {
	gate, pos := g.take()
	if gate != nil && pos == "before" {
		gate.Wait()
	}
	res := g.Real.ValidatorsByPubKey(ctx, pubKeys)
	if gate != nil && pos != "before" {
		gate.Wait()
	}
	return res
}

// ValidatorStateAtEpoch implements validatorsmanager.Service.
func (g *GatedVM) ValidatorStateAtEpoch(ctx context.Context, index phase0.ValidatorIndex, epoch phase0.Epoch) (apiv1.ValidatorState, error) {
	return g.Real.ValidatorStateAtEpoch(ctx, index, epoch)
}

// Instances is what a driver hands to the runner: the pair of long-lived instances of one history.
type Instances struct {
	U    *Universe
	Node *Node
	VM   *GatedVM
	// Offer makes the wallets / the store offer exactly these accounts from now on.
	Offer func(offer []Name)
	// Refresh runs the account manager's refresh (the first one may be its constructor).
	Refresh func(ctx context.Context)
	// Manager is the account manager, nil until the first refresh has constructed it.
	Manager func() Manager
	// Known projects the accounts the manager holds (under its lock).
	Known func() []Name
}

// call is one call on the instances running on its own goroutine.
type call struct {
	done  chan struct{}
	reply map[phase0.ValidatorIndex]e2wtypes.Account
	err   error
	known []Name
	crash string
}

func start(fn func(c *call)) *call {
	c := &call{done: make(chan struct{})}
	go func() {
		defer close(c.done)
		defer func() {
			if r := recover(); r != nil {
				c.crash = fmt.Sprintf("%v\n%s", r, debug.Stack())
			}
		}()
		fn(c)
	}()
	return c
}

type history struct {
	t   *testing.T
	tr  *verifsupport.Trace
	sc  int
	in  *Instances
	ctx context.Context

	// the refresh job held at the beacon node
	refreshStep Step
	refreshGate *Gate
	refreshCall *call

	// the query held at the validators manager
	queryGate *Gate
	queryCall *call

	dead bool
}

func (h *history) emit(ev verifsupport.Ev) {
	ev["sc"] = h.sc
	h.tr.Emit(ev)
}

// stop ends the history after an event no action allows: what is held is let go.
func (h *history) stop(ev string, what string) {
	h.emit(verifsupport.Ev{"ev": ev, "what": what})
	h.dead = true
	h.letGo()
}

func (h *history) letGo() {
	if h.refreshGate != nil {
		h.refreshGate.Release()
	}
	if h.queryGate != nil {
		h.queryGate.Release()
	}
	h.in.Node.Unhold()
	h.in.VM.Unhold()
}

func (h *history) table() []Indexed { return h.in.U.Table(h.ctx, h.in.VM.Real) }

func queryEv(ev string, st Step) verifsupport.Ev {
	idxs := st.Idxs
	if idxs == nil {
		idxs = []uint64{}
	}
	return verifsupport.Ev{"ev": ev, "kind": st.Kind, "epoch": st.Epoch, "idxs": idxs}
}

// wait waits for one of the channels (returns its position).  The code under test may order the call at
// hand AFTER a call the driver holds at a gate (a lock kept across the beacon node request or across the
// validators lookup is slow, not wrong): when the wait runs out while something is held, what is held is
// let go, its trace lines are written in the order the held calls return, and the wait starts again.
// Only a call that does not return with nothing held is reported (-1).
func (h *history) wait(chans ...<-chan struct{}) int {
	for {
		timer := time.NewTimer(patience())
		got := -1
		switch len(chans) {
		case 1:
			select {
			case <-chans[0]:
				got = 0
			case <-timer.C:
			}
		default:
			select {
			case <-chans[0]:
				got = 0
			case <-chans[1]:
				got = 1
			case <-timer.C:
			}
		}
		timer.Stop()
		if got >= 0 {
			return got
		}
		impatient.Store(true)
		if h.refreshGate == nil && h.queryGate == nil {
			return -1
		}
		if !h.finishHeld() {
			return -1
		}
	}
}

// finishHeld lets the held calls go and writes their trace lines in the order they return.
func (h *history) finishHeld() bool {
	rGate, rCall, rStep := h.refreshGate, h.refreshCall, h.refreshStep
	qGate, qCall := h.queryGate, h.queryCall
	h.refreshGate, h.refreshCall, h.queryGate, h.queryCall = nil, nil, nil, nil
	if rGate != nil {
		rGate.Release()
	}
	if qGate != nil {
		qGate.Release()
	}
	for rCall != nil || qCall != nil {
		var rDone, qDone <-chan struct{}
		if rCall != nil {
			rDone = rCall.done
		}
		if qCall != nil {
			qDone = qCall.done
		}
		timer := time.NewTimer(patience())
		select {
		case <-rDone:
			timer.Stop()
			if !h.refreshReturned(rStep, rCall) {
				return false
			}
			rCall = nil
		case <-qDone:
			timer.Stop()
			if !h.queryReturned(qCall) {
				return false
			}
			qCall = nil
		case <-timer.C:
			if rCall != nil {
				h.stop("Hung", "refresh did not return from its validators part")
			} else {
				h.stop("Hung", "query under way did not return")
			}
			return false
		}
	}
	return true
}

func (h *history) refreshReturned(st Step, c *call) bool {
	if c.crash != "" {
		h.stop("Crash", "refresh: "+c.crash)
		return false
	}
	h.tr.Emit(RefreshVEvent(h.sc, st, h.table(), h.in.Node.Calls()))
	return true
}

func (h *history) queryReturned(c *call) bool {
	if c.crash != "" {
		h.stop("Crash", "query under way: "+c.crash)
		return false
	}
	h.emit(verifsupport.Ev{"ev": "QueryReturn", "ok": c.err == nil, "reply": h.in.U.Reply(c.reply)})
	return true
}

func (h *history) startRefresh() *call {
	return start(func(_ *call) { h.in.Refresh(h.ctx) })
}

func (h *history) startQuery(st Step) *call {
	m := h.in.Manager()
	return start(func(c *call) { c.reply, c.err = ask(h.ctx, st, m) })
}

// known reads the accounts the manager holds (its lock may be taken: a call like the others)
func (h *history) known() ([]Name, bool) {
	c := start(func(c *call) { c.known = h.in.Known() })
	if h.wait(c.done) < 0 {
		if !h.dead {
			h.stop("Hung", "the accounts held cannot be read")
		}
		return nil, false
	}
	return c.known, true
}

func (h *history) refreshWhole(st Step) {
	h.in.Offer(st.Offer)
	h.in.Node.Script(st.Mode, st.Recs)
	c := h.startRefresh()
	if h.wait(c.done) < 0 {
		if !h.dead {
			h.stop("Hung", "refresh did not return")
		}
		return
	}
	if c.crash != "" {
		h.stop("Crash", "refresh: "+c.crash)
		return
	}
	known, ok := h.known()
	if !ok {
		return
	}
	h.tr.Emit(RefreshAEvent(h.sc, st, known))
	h.tr.Emit(RefreshVEvent(h.sc, st, h.table(), h.in.Node.Calls()))
}

func (h *history) refreshBegin(st Step) {
	if h.in.Manager() == nil {
		h.t.Fatalf("scenario %d holds the first refresh", h.sc)
	}
	h.in.Offer(st.Offer)
	h.in.Node.Script(st.Mode, st.Recs)
	gate := h.in.Node.Hold()
	c := h.startRefresh()
	switch h.wait(gate.Arrived(), c.done) {
	case 0:
		// the accounts part is over, the validators part waits at the beacon node
		kc := start(func(c *call) { c.known = h.in.Known() })
		timer := time.NewTimer(patience())
		select {
		case <-kc.done:
			timer.Stop()
			h.refreshStep, h.refreshGate, h.refreshCall = st, gate, c
			h.tr.Emit(RefreshAEvent(h.sc, st, kc.known))
		case <-timer.C:
			// the accounts cannot be read while the refresh waits for the beacon node (its lock is kept
			// across the request: slow, not wrong) - the refresh is let go and taken as a whole
			impatient.Store(true)
			gate.Release()
			if h.wait(c.done) < 0 || h.wait(kc.done) < 0 {
				if !h.dead {
					h.stop("Hung", "refresh did not return from its validators part")
				}
				return
			}
			if c.crash != "" {
				h.stop("Crash", "refresh: "+c.crash)
				return
			}
			h.tr.Emit(RefreshAEvent(h.sc, st, kc.known))
			h.tr.Emit(RefreshVEvent(h.sc, st, h.table(), h.in.Node.Calls()))
		}
	case 1:
		// the beacon node was not asked (nothing to ask for): the refresh is over
		h.in.Node.Unhold()
		if c.crash != "" {
			h.stop("Crash", "refresh: "+c.crash)
			return
		}
		known, ok := h.known()
		if !ok {
			return
		}
		h.tr.Emit(RefreshAEvent(h.sc, st, known))
		h.tr.Emit(RefreshVEvent(h.sc, st, h.table(), h.in.Node.Calls()))
	default:
		gate.Release()
		if !h.dead {
			h.stop("Hung", "refresh neither reached the beacon node nor returned")
		}
	}
}

func (h *history) refreshEnd() {
	if h.refreshGate == nil {
		return
	}
	gate, c, st := h.refreshGate, h.refreshCall, h.refreshStep
	h.refreshGate, h.refreshCall = nil, nil
	gate.Release()
	if h.wait(c.done) < 0 {
		if !h.dead {
			h.stop("Hung", "refresh did not return from its validators part")
		}
		return
	}
	h.refreshReturned(st, c)
}

func (h *history) query(st Step) {
	if h.in.Manager() == nil {
		h.t.Fatalf("scenario %d queries before the first refresh", h.sc)
	}
	c := h.startQuery(st)
	if h.wait(c.done) < 0 {
		if !h.dead {
			h.stop("Hung", st.Kind+" did not return")
		}
		return
	}
	if c.crash != "" {
		h.stop("Crash", st.Kind+": "+c.crash)
		return
	}
	ev := queryEv("Query", st)
	ev["ok"] = c.err == nil
	ev["reply"] = h.in.U.Reply(c.reply)
	h.emit(ev)
}

func (h *history) queryBegin(st Step) {
	if h.in.Manager() == nil {
		h.t.Fatalf("scenario %d queries before the first refresh", h.sc)
	}
	if h.queryGate != nil {
		h.t.Fatalf("scenario %d holds two queries", h.sc)
	}
	gate := h.in.VM.Hold(st.Hold)
	h.emit(queryEv("QueryCall", st))
	c := h.startQuery(st)
	switch h.wait(gate.Arrived(), c.done) {
	case 0:
		h.queryGate, h.queryCall = gate, c
	case 1:
		// the query did not consult the validators manager: it is over
		h.in.VM.Unhold()
		h.queryReturned(c)
	default:
		gate.Release()
		if !h.dead {
			h.stop("Hung", st.Kind+" neither reached the validators manager nor returned")
		}
	}
}

func (h *history) queryEnd() {
	if h.queryGate == nil {
		return
	}
	gate, c := h.queryGate, h.queryCall
	h.queryGate, h.queryCall = nil, nil
	gate.Release()
	if h.wait(c.done) < 0 {
		if !h.dead {
			h.stop("Hung", "query under way did not return")
		}
		return
	}
	h.queryReturned(c)
}

// RunHistory executes the steps after Reset of one scenario on the instances.
func RunHistory(ctx context.Context, t *testing.T, tr *verifsupport.Trace, sc int, in *Instances, steps []Step) {
	t.Helper()
	h := &history{t: t, tr: tr, sc: sc, in: in, ctx: ctx}
	for _, st := range steps {
		if h.dead {
			break
		}
		switch st.Ev {
		case "Refresh":
			if h.refreshGate != nil {
				t.Fatalf("scenario %d starts a refresh while one is held", sc)
			}
			h.refreshWhole(st)
		case "RefreshBegin":
			if h.refreshGate != nil {
				t.Fatalf("scenario %d starts a refresh while one is held", sc)
			}
			h.refreshBegin(st)
		case "RefreshEnd":
			h.refreshEnd()
		case "Query":
			h.query(st)
		case "QueryBegin":
			h.queryBegin(st)
		case "QueryEnd":
			h.queryEnd()
		default:
			t.Fatalf("unknown step %q", st.Ev)
		}
	}
	if !h.dead {
		// a well-formed history has let everything go by now
		h.refreshEnd()
		if !h.dead {
			h.queryEnd()
		}
	}
	h.letGo()
}
