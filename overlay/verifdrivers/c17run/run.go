// Package c17run is the schedule runner shared by the conformance drivers of property C17 (spec/Concurrency.tla): Vouch's own
// concurrency never corrupts its state.  Injected with -overlay by /verif/check, BUILT WITH -race;
// never committed to the repository.
//
// One process runs the schedules of one group (VERIF_C17_GROUP).  A schedule is a sequential
// prologue followed by 1..3 overlapping operations; it is run VERIF_C17_REPS times on the real
// service: one goroutine per operation, start gates released in the generated order (with a small
// seeded jitter, or all at once).  Every call is logged as Inv{id, op} before it is made and
// Ret{id, res} after it returned (the log order is the order of the log calls, so the logged
// intervals contain the real ones: a linearizable execution is never logged as a non-linearizable
// history).  The process is started with GORACE="halt_on_error=0 log_path=...": after every schedule
// the new part of the race log is copied into the trace (RaceReport lines, raw text); checks/C17.py
// turns reports whose two access sites are in Vouch's code into Race(var, sites) events.
package c17run

import (
	"context"
	"encoding/json"
	"fmt"
	"math/rand"
	"os"
	"path/filepath"
	"strconv"
	"strings"
	"sync"
	"testing"
	"time"

	"github.com/attestantio/vouch/verifsupport"
	"github.com/rs/zerolog"
	zerologger "github.com/rs/zerolog/log"
)

type Op map[string]interface{}

func (o Op) Name() string { s, _ := o["op"].(string); return s }

func (o Op) Int(k string) int {
	switch v := o[k].(type) {
	case float64:
		return int(v)
	case int:
		return v
	}
	return 0
}

// Set returns the members of a set-valued argument (a JSON array of numbers).
func (o Op) Set(k string) []int {
	var res []int
	if a, ok := o[k].([]interface{}); ok {
		for _, x := range a {
			if f, ok := x.(float64); ok {
				res = append(res, int(f))
			}
		}
	}
	return res
}

type Schedule struct {
	Sc  int    `json:"sc"`
	G   string `json:"g"`
	Pre []Op   `json:"pre"`
	Par []Op   `json:"par"`
	// Hold says how the environment resolves the overlap: "" / "free" = the calls run as they come; otherwise ONE
	// call is held at an interface (by gates in the group's fakes) while the others run (see Concurrency!Holds).
	Hold string `json:"hold"`
}

// Beginner is implemented by groups that need to know the schedule of the history that is about to run (which
// call is held where): Begin is called after Reset, before the first call of the history.
type Beginner interface {
	Begin(sc Schedule, rep int)
}

// Eventer is implemented by groups that observe more than calls and returns: TakeEvents is called when the calls of
// a history have returned (after Settle) and returns the events to append to the history - a panic of Vouch's code
// recovered on a job's goroutine (Crash), a goroutine that never finishes (Hung): events that no action of the
// specification allows; other names are coverage information.
type Eventer interface {
	TakeEvents() []map[string]interface{}
}

// Group is the binding of one group of operations to a real service.
type Group interface {
	// Reset establishes the start state of a history (fresh or re-established service).
	Reset(ctx context.Context)
	// Call executes one operation on the real service and returns its result.
	Call(ctx context.Context, id int, op Op) int
	Close()
}

// LogLevel is the log level handed to every service (Disabled unless VERIF_C17_DEBUG is set).
func LogLevel() zerolog.Level {
	if os.Getenv("VERIF_C17_DEBUG") != "" {
		return zerolog.TraceLevel
	}
	return zerolog.Disabled
}

// trace writes one line per event with a single write(2).
type trace struct {
	mu  sync.Mutex
	f   *os.File
	seq int
}

func (t *trace) Emit(ev map[string]interface{}) {
	t.mu.Lock()
	defer t.mu.Unlock()
	t.seq++
	ev["seq"] = t.seq
	b, err := json.Marshal(ev)
	if err != nil {
		panic(err)
	}
	if _, err := t.f.Write(append(b, '\n')); err != nil {
		panic(err)
	}
}

// raceLog follows the files the race detector writes (log_path.<pid>).
type raceLog struct {
	pattern string
	offsets map[string]int64
}

func (r *raceLog) New() string {
	if r.pattern == "" {
		return ""
	}
	files, _ := filepath.Glob(r.pattern + ".*")
	var sb strings.Builder
	for _, f := range files {
		data, err := os.ReadFile(f)
		if err != nil {
			continue
		}
		off := r.offsets[f]
		if int64(len(data)) > off {
			sb.Write(data[off:])
			r.offsets[f] = int64(len(data))
		}
	}
	return sb.String()
}

func reps() int {
	n, err := strconv.Atoi(os.Getenv("VERIF_C17_REPS"))
	if err != nil || n <= 0 {
		return 20
	}
	return n
}

const callTimeout = 8 * time.Second

// Run executes the schedules of the group named by VERIF_C17_GROUP.
func Run(t *testing.T, groups map[string]func(ctx context.Context) Group) {
	group := os.Getenv("VERIF_C17_GROUP")
	if group == "" {
		t.Skip("VERIF_C17_GROUP not set: conformance drivers are run by /verif/check")
	}
	if os.Getenv("VERIF_C17_DEBUG") == "" {
		zerolog.SetGlobalLevel(zerolog.Disabled)
		zerologger.Logger = zerologger.Logger.Level(zerolog.Disabled)
	}
	var schedules []Schedule
	verifsupport.Scenarios(t, &schedules)
	f, err := os.OpenFile(os.Getenv("VERIF_TRACE_OUT"), os.O_WRONLY|os.O_APPEND|os.O_CREATE, 0o644)
	if err != nil {
		t.Fatal(err)
	}
	defer f.Close()
	tr := &trace{f: f}
	races := &raceLog{pattern: os.Getenv("VERIF_C17_RACELOG"), offsets: map[string]int64{}}
	rnd := rand.New(rand.NewSource(verifsupport.Seed()))
	mk, ok := groups[group]
	if !ok {
		t.Fatalf("no binding for group %q", group)
	}
	ctx := context.Background()
	grp := mk(ctx)
	nreps := reps()

	hist := 0
	for _, sc := range schedules {
		if sc.G != group {
			continue
		}
		for rep := 0; rep < nreps; rep++ {
			hist++
			grp.Reset(ctx)
			if b, ok := grp.(Beginner); ok {
				b.Begin(sc, rep)
			}
			tr.Emit(map[string]interface{}{"sc": sc.Sc, "h": hist, "ev": "Reset", "g": group})
			id := 0
			for _, op := range sc.Pre {
				id++
				tr.Emit(map[string]interface{}{"sc": sc.Sc, "h": hist, "ev": "Inv", "id": id, "op": op})
				res := grp.Call(ctx, id, op)
				tr.Emit(map[string]interface{}{"sc": sc.Sc, "h": hist, "ev": "Ret", "id": id, "res": res})
			}
			var wg sync.WaitGroup
			gates := make([]chan struct{}, len(sc.Par))
			for i, op := range sc.Par {
				gates[i] = make(chan struct{})
				wg.Add(1)
				go func(i int, callID int, op Op) {
					defer wg.Done()
					<-gates[i]
					tr.Emit(map[string]interface{}{"sc": sc.Sc, "h": hist, "ev": "Inv", "id": callID, "op": op})
					res := grp.Call(ctx, callID, op)
					tr.Emit(map[string]interface{}{"sc": sc.Sc, "h": hist, "ev": "Ret", "id": callID, "res": res})
				}(i, id+1+i, op)
			}
			// release the start gates in the generated order: every third repetition all at once,
			// otherwise with a jitter of 0..200 microseconds between them
			for i := range gates {
				close(gates[i])
				if rep%3 != 0 {
					time.Sleep(time.Duration(rnd.Intn(200)) * time.Microsecond)
				}
			}
			done := make(chan struct{})
			go func() { wg.Wait(); close(done) }()
			select {
			case <-done:
				if st, ok := grp.(interface{ Settle() }); ok {
					st.Settle()
				}
			case <-time.After(callTimeout):
				// calls that never return stay pending in the history; the service is abandoned
				tr.Emit(map[string]interface{}{"sc": sc.Sc, "h": hist, "ev": "Stuck", "g": group})
				grp = mk(ctx)
				continue
			}
			if e, ok := grp.(Eventer); ok {
				for _, ev := range e.TakeEvents() {
					ev["sc"], ev["h"], ev["g"] = sc.Sc, hist, group
					tr.Emit(ev)
				}
			}
		}
		if txt := races.New(); txt != "" {
			tr.Emit(map[string]interface{}{"sc": sc.Sc, "h": hist, "ev": "RaceReport", "g": group, "text": txt})
		}
	}
	grp.Close()
	time.Sleep(50 * time.Millisecond)
	if txt := races.New(); txt != "" {
		tr.Emit(map[string]interface{}{"sc": 0, "h": hist, "ev": "RaceReport", "g": group, "text": txt})
	}
	tr.Emit(map[string]interface{}{"ev": "Done", "g": group, "histories": hist})
	_ = fmt.Sprint
}
