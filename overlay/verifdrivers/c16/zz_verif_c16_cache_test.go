package c16

// Entry point "cacheevents": the cache service's event handlers; the block a head event points to is
// read through the real go-eth2-client from a scripted node.

import (
	"context"
	"encoding/json"
	"fmt"

	eth2client "github.com/attestantio/go-eth2-client"
	apiv1 "github.com/attestantio/go-eth2-client/api/v1"
	"github.com/attestantio/go-eth2-client/spec/phase0"
	"github.com/attestantio/vouch/mock"
	standardcache "github.com/attestantio/vouch/services/cache/standard"
	nullmetrics "github.com/attestantio/vouch/services/metrics/null"
	"github.com/attestantio/vouch/verifsupport"
)

type c16Events struct {
	handlers map[string]eth2client.EventHandlerFunc
}

func (e *c16Events) Events(_ context.Context, topics []string, handler eth2client.EventHandlerFunc) error {
	for _, t := range topics {
		e.handlers[t] = handler
	}
	return nil
}

// c16Strip removes a member of a nested JSON object: path is a list of keys.
func c16Strip(doc string, path ...string) string {
	var m map[string]json.RawMessage
	if err := json.Unmarshal([]byte(doc), &m); err != nil {
		panic("c16 harness: strip: " + err.Error())
	}
	if len(path) == 1 {
		delete(m, path[0])
	} else {
		m[path[0]] = json.RawMessage(c16Strip(string(m[path[0]]), path[1:]...))
	}
	b, _ := json.Marshal(m)
	return string(b)
}

func c16RunCacheEvents(ctx context.Context, sh map[string]string) c16Res {
	node := c16NewNode(c16NodeVersion("teku"))
	defer node.Close()
	ver := sh["ver"]
	install := func() {
		if a, ok := c16BadAnswer(sh["body"]); ok {
			node.Set("/eth/v2/beacon/blocks/", a)
		} else {
			blockVer := ver
			if ver == "unknown" {
				blockVer, ver = "deneb", "verkle"
			}
			data := c16SignedBlockData(blockVer, c16BlockSpec{Slot: c16Slot})
			switch sh["body"] {
			case "nomessage":
				data = c16Strip(data, "message")
			case "nobody":
				data = c16Strip(data, "message", "body")
			case "nopayload":
				if blockVer != "phase0" && blockVer != "altair" {
					data = c16Strip(data, "message", "body", "execution_payload")
				}
			}
			node.Set("/eth/v2/beacon/blocks/", c16Answer{Status: 200, Headers: map[string]string{"Eth-Consensus-Version": ver},
				Body: fmt.Sprintf(`{"version":%q,"execution_optimistic":false,"finalized":false,"data":%s}`, ver, data)})
		}
	}
	client := c16NodeClient(ctx, node)
	events := &c16Events{handlers: map[string]eth2client.EventHandlerFunc{}}
	s, err := standardcache.New(ctx,
		standardcache.WithLogLevel(c16LogLevel()),
		standardcache.WithMonitor(nullmetrics.New()),
		standardcache.WithChainTime(c16NowChainTime()),
		standardcache.WithSignedBeaconBlockProvider(client.(eth2client.SignedBeaconBlockProvider)),
		standardcache.WithBeaconBlockHeadersProvider(mock.NewBeaconBlockHeadersProvider()),
		standardcache.WithEventsProvider(events),
		standardcache.WithScheduler(verifsupport.NewScheduler()),
	)
	if err != nil {
		panic("c16 harness: cache: " + err.Error())
	}
	// the node has no block at start-up; the scripted block arrives with the event
	install()
	_, before := s.ExecutionChainHead(ctx)
	root := phase0.Root{0x99}
	switch sh["event"] {
	case "head":
		events.handlers["head"](&apiv1.Event{Topic: "head", Data: &apiv1.HeadEvent{Slot: c16Slot, Block: root}})
	case "block":
		events.handlers["block"](&apiv1.Event{Topic: "block", Data: &apiv1.BlockEvent{Slot: c16Slot, Block: root}})
		slot, err := s.BlockRootToSlot(ctx, root)
		if err != nil || slot != c16Slot {
			return c16Err("block event not recorded")
		}
		return c16OK("block recorded")
	case "nildata":
		events.handlers["head"](&apiv1.Event{Topic: "head"})
		events.handlers["block"](&apiv1.Event{Topic: "block"})
		return c16Fallback("events without data ignored")
	}
	_, after := s.ExecutionChainHead(ctx)
	if after == before {
		return c16Fallback("execution head not updated")
	}
	return c16OK(fmt.Sprintf("execution head %d", after))
}

func init() {
	c16Register("cacheevents", c16RunCacheEvents)
}
