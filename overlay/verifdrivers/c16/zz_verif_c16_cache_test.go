package c16

// Entry point "cacheevents": the cache service's event handlers; the block a head event points to is
// read through the real go-eth2-client from a scripted node.

import (
	"context"
	"encoding/json"
	"fmt"

	eth2client "github.com/attestantio/go-eth2-client"
	apiv1 "github.com/attestantio/go-eth2-client/api/v1"
	"github.com/attestantio/go-eth2-client/spec/phase0"
	"github.com/attestantio/vouch/mock"
	standardcache "github.com/attestantio/vouch/services/cache/standard"
	nullmetrics "github.com/attestantio/vouch/services/metrics/null"
	"github.com/attestantio/vouch/verifsupport"
)

type c16Events struct {
	handlers map[string]eth2client.EventHandlerFunc
}

func (e *c16Events) Events(_ context.Context, topics []string, handler eth2client.EventHandlerFunc) error {
	for _, t := range topics {
		e.handlers[t] = handler
	}
	return nil
}

// c16Strip removes a member of a nested JSON object: path is a list of keys.
func c16Strip(doc string, path ...string) string {
	var m map[string]json.RawMessage
	if err := json.Unmarshal([]byte(doc), &m); err != nil {
		panic("c16 harness: strip: " + err.Error())
	}
	if len(path) == 1 {
		delete(m, path[0])
	} else {
		m[path[0]] = json.RawMessage(c16Strip(string(m[path[0]]), path[1:]...))
	}
	b, _ := json.Marshal(m)
	return string(b)
}

// c16CacheInst: the cache service with the node its head events point to.
type c16CacheInst struct {
	style  string
	node1  *c16Server // the second node behind the `first` signed beacon block strategy (style first)
	node   *c16Server
	gate   *c16Gate
	events *c16Events
	s      *standardcache.Service
}

func c16NewCacheInst(ctx context.Context, first map[string]string) c16Instance {
	in := &c16CacheInst{node: c16NewNode(c16NodeVersion("teku")), gate: &c16Gate{}, events: &c16Events{handlers: map[string]eth2client.EventHandlerFunc{}}}
	in.node.Gate("/eth/v2/beacon/blocks/", in.gate)
	client := c16NodeClient(ctx, in.node)
	clients := map[string]eth2client.Service{}
	style := first["style"]
	in.style = style
	if style != "direct" && style != "" {
		// main.go's default: the `first` strategy over the beacon nodes
		in.node1 = c16NewNode(c16NodeVersion("lighthouse"))
		clients[in.node.URL()] = client
		clients[in.node1.URL()] = c16NodeClient(ctx, in.node1)
	}
	// the node has no block at start-up; the scripted blocks arrive with the events
	s, err := standardcache.New(ctx,
		standardcache.WithLogLevel(c16LogLevel()),
		standardcache.WithMonitor(nullmetrics.New()),
		standardcache.WithChainTime(c16NowChainTime()),
		standardcache.WithSignedBeaconBlockProvider(c16SignedBlockProvider(ctx, style, clients, client)),
		standardcache.WithBeaconBlockHeadersProvider(mock.NewBeaconBlockHeadersProvider()),
		standardcache.WithEventsProvider(in.events),
		standardcache.WithScheduler(verifsupport.NewScheduler()),
	)
	if err != nil {
		panic("c16 harness: cache: " + err.Error())
	}
	in.s = s
	return in
}

func (in *c16CacheInst) Gate() *c16Gate { return in.gate }
func (in *c16CacheInst) Close() {
	in.gate.Release()
	in.node.Close()
	if in.node1 != nil {
		in.node1.Close()
	}
}

// Prepare: the block the node has for the head of call k (slot and execution block number advance).
func (in *c16CacheInst) Prepare(k int, sh map[string]string) {
	in.node.Set("/eth/v2/beacon/blocks/", c16CacheBlockAnswer(k, sh["ver"], sh["body"]))
	if in.node1 != nil {
		in.node1.Set("/eth/v2/beacon/blocks/", c16CacheBlockAnswer(k, sh["ver"], c16Node1Kind(sh)))
	}
}

func c16CacheBlockAnswer(k int, ver string, body string) c16Answer {
	if a, ok := c16BadAnswer(body); ok {
		return a
	}
	blockVer := ver
	if ver == "unknown" {
		blockVer, ver = "deneb", "verkle"
	}
	data := c16SignedBlockData(blockVer, c16BlockSpec{Slot: c16CallSlot(k), Number: uint64(100 + k - 1)})
	switch body {
	case "nomessage":
		data = c16Strip(data, "message")
	case "nobody":
		data = c16Strip(data, "message", "body")
	case "nopayload":
		if blockVer != "phase0" && blockVer != "altair" {
			data = c16Strip(data, "message", "body", "execution_payload")
		}
	}
	return c16Answer{Status: 200, Headers: map[string]string{"Eth-Consensus-Version": ver},
		Body: fmt.Sprintf(`{"version":%q,"execution_optimistic":false,"finalized":false,"data":%s}`, ver, data)}
}

func (in *c16CacheInst) Invoke(ctx context.Context, k int, sh map[string]string) c16Res {
	_, before := in.s.ExecutionChainHead(ctx)
	slot := c16CallSlot(k)
	root := phase0.Root{0x99, byte(k)}
	switch sh["event"] {
	case "head":
		in.events.handlers["head"](&apiv1.Event{Topic: "head", Data: &apiv1.HeadEvent{Slot: slot, Block: root}})
		c16Settle(in.style)
	case "block":
		in.events.handlers["block"](&apiv1.Event{Topic: "block", Data: &apiv1.BlockEvent{Slot: slot, Block: root}})
		got, err := in.s.BlockRootToSlot(ctx, root)
		if err != nil || got != slot {
			return c16Err("block event not recorded")
		}
		return c16OK("block recorded")
	case "nildata":
		in.events.handlers["head"](&apiv1.Event{Topic: "head"})
		in.events.handlers["block"](&apiv1.Event{Topic: "block"})
		return c16Fallback("events without data ignored")
	}
	_, after := in.s.ExecutionChainHead(ctx)
	if after == before {
		return c16Fallback("execution head not updated")
	}
	return c16OK(fmt.Sprintf("execution head %d", after))
}

func init() {
	c16RegisterInstance("cacheevents", c16NewCacheInst)
}
