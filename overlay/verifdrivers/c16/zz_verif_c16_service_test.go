package c16

// Entry point "execservice": an execution configuration document consumed END TO END by the REAL
// block relay service (services/blockrelay/standard).  The service is built with New(), one validating
// account, the real majordomo service with its file and HTTP confidants in front of the configuration
// source (a file in a scratch directory / a scripted configuration server that is POSTed the public
// keys), the real `best` builder-bid strategy and - through util.FetchBuilderClient - the real
// go-builder-client in front of a scripted relay.  After the service fetched (and decoded, and
// installed or refused) the document, the driver does what the rest of Vouch does with the active
// configuration: ProposerConfig for a validator (Use "lookup"), a validator registration round (Use
// "register": the scheduled job and the exported SubmitValidatorRegistrations), an auction (Use
// "auction": AuctionBlock and the cached-bid lookups that follow it).  A decoder that "succeeds" with
// a value that crashes its first user is seen here, not at the decoder.
//
// New() starts the first registration round in a goroutine of its own: a panic there kills the child
// process (Crash{fatal:true}, written by the parent).  The driver waits until that goroutine is done
// before it goes on (c16Svc.settle), so that a late panic is not attributed to a later scenario.

import (
	"context"
	"errors"
	"fmt"
	"net/http"
	"os"
	"path/filepath"
	"strings"
	"sync"
	"time"

	builderclient "github.com/attestantio/go-builder-client"
	"github.com/attestantio/go-eth2-client/spec/bellatrix"
	"github.com/attestantio/go-eth2-client/spec/phase0"
	"github.com/attestantio/vouch/mock"
	"github.com/attestantio/vouch/services/blockrelay"
	standardblockrelay "github.com/attestantio/vouch/services/blockrelay/standard"
	nullmetrics "github.com/attestantio/vouch/services/metrics/null"
	"github.com/attestantio/vouch/strategies/builderbid"
	bestbuilderbid "github.com/attestantio/vouch/strategies/builderbid/best"
	deadlinebuilderbid "github.com/attestantio/vouch/strategies/builderbid/deadline"
	"github.com/attestantio/vouch/verifsupport"
	"github.com/spf13/viper"
	e2wtypes "github.com/wealdtech/go-eth2-wallet-types/v2"
	fileconfidant "github.com/wealdtech/go-majordomo/confidants/file"
	httpconfidant "github.com/wealdtech/go-majordomo/confidants/http"
	standardmajordomo "github.com/wealdtech/go-majordomo/standard"
)

// c16SvcAccounts is the account manager of the service: one validating account; it counts the
// requests for the validating accounts (that is how the driver sees the service's goroutines pass).
type c16SvcAccounts struct {
	mu    sync.Mutex
	calls int
}

func (a *c16SvcAccounts) Calls() int {
	a.mu.Lock()
	defer a.mu.Unlock()
	return a.calls
}

func (a *c16SvcAccounts) ValidatingAccountsForEpoch(_ context.Context, _ phase0.Epoch) (map[phase0.ValidatorIndex]e2wtypes.Account, error) {
	a.mu.Lock()
	a.calls++
	a.mu.Unlock()
	return map[phase0.ValidatorIndex]e2wtypes.Account{1: c16Account(1)}, nil
}

func (a *c16SvcAccounts) ValidatingAccountsForEpochByIndex(ctx context.Context, epoch phase0.Epoch, indices []phase0.ValidatorIndex) (map[phase0.ValidatorIndex]e2wtypes.Account, error) {
	all, _ := a.ValidatingAccountsForEpoch(ctx, epoch)
	res := map[phase0.ValidatorIndex]e2wtypes.Account{}
	for _, i := range indices {
		if acc, ok := all[i]; ok {
			res[i] = acc
		}
	}
	return res, nil
}

func (a *c16SvcAccounts) SyncCommitteeAccountsForEpoch(ctx context.Context, epoch phase0.Epoch) (map[phase0.ValidatorIndex]e2wtypes.Account, error) {
	return map[phase0.ValidatorIndex]e2wtypes.Account{1: c16Account(1)}, nil
}

func (a *c16SvcAccounts) SyncCommitteeAccountsForEpochByIndex(ctx context.Context, epoch phase0.Epoch, indices []phase0.ValidatorIndex) (map[phase0.ValidatorIndex]e2wtypes.Account, error) {
	return a.SyncCommitteeAccountsForEpoch(ctx, epoch)
}

func (*c16SvcAccounts) AccountByPublicKey(_ context.Context, pubkey phase0.BLSPubKey) (e2wtypes.Account, error) {
	if pubkey == c16AccountPubkey(1) {
		return c16Account(1), nil
	}
	return nil, errors.New("not found")
}

// c16ConfigSource is what is behind the service's configuration URL.
type c16ConfigSource struct {
	kind   string // file | http
	dir    string
	server *c16Server
}

func c16NewConfigSource(kind string) *c16ConfigSource {
	src := &c16ConfigSource{kind: kind}
	switch kind {
	case "file":
		dir, err := os.MkdirTemp("", "verif-c16-config-")
		if err != nil {
			panic("c16 harness: scratch directory: " + err.Error())
		}
		src.dir = dir
	case "http":
		src.server = c16NewServer()
	default:
		panic("c16 harness: unknown configuration source " + kind)
	}
	return src
}

func (c *c16ConfigSource) URL() string {
	if c.kind == "file" {
		return "file://" + filepath.Join(c.dir, "execution-config.json")
	}
	return c.server.URL() + "/config/execution"
}

// Set makes the source answer with the given content; missing = there is no such file / 404.
func (c *c16ConfigSource) Set(content string, missing bool) {
	if c.kind == "file" {
		path := filepath.Join(c.dir, "execution-config.json")
		if missing {
			os.Remove(path)
			return
		}
		if err := os.WriteFile(path, []byte(content), 0o600); err != nil {
			panic("c16 harness: configuration file: " + err.Error())
		}
		return
	}
	if missing {
		c.server.Set("/config/", c16Answer{Status: http.StatusNotFound, Body: `{"error":"no configuration"}`})
		return
	}
	c.server.Set("/config/", c16Answer{Status: 200, Body: content})
}

func (c *c16ConfigSource) Close() {
	if c.dir != "" {
		os.RemoveAll(c.dir)
	}
	if c.server != nil {
		c.server.Close()
	}
}

// c16Svc is the real block relay service with its surroundings.
type c16Svc struct {
	s        *standardblockrelay.Service
	accounts *c16SvcAccounts
	sched    *verifsupport.Scheduler
	source   *c16ConfigSource
	relay    *c16Server
	polls    *c16Polls // what the relay answers to the successive polls of an auction (per slot asked for)
	clock    *c16SlotClock
	strat    string // the builder-bid strategy wired behind the service, as main.go's selectBuilderBidProvider does
	gate     *c16Gate
	fallback bellatrix.ExecutionAddress
}

func (g *c16Svc) job(prefix string) string {
	for _, name := range g.sched.ListJobs(context.Background()) {
		if strings.HasPrefix(name, prefix) {
			return name
		}
	}
	panic("c16 harness: the block relay service did not schedule the job " + prefix)
}

// settle returns once the registration goroutine that New() started has finished: the scheduled
// registration job skips its round while another one is in progress (activity semaphore), so the
// first round of the job that does ask for the validating accounts ran after the goroutine ended.
func (g *c16Svc) settle(ctx context.Context) {
	deadline := time.Now().Add(20 * time.Second)
	for g.accounts.Calls() < 2 { // 1 = initial fetch inside New, 2 = the goroutine
		if time.Now().After(deadline) {
			panic("c16 harness: the initial registration round of the block relay service never started")
		}
		time.Sleep(time.Millisecond)
	}
	name := g.job("Submit validator registrations")
	for {
		before := g.accounts.Calls()
		g.sched.Fire(ctx, name)
		if g.accounts.Calls() > before {
			return
		}
		if time.Now().After(deadline) {
			panic("c16 harness: the initial registration round of the block relay service never ended")
		}
		time.Sleep(2 * time.Millisecond)
	}
}

// c16NewSvc builds the service; content computes what the configuration source holds when New() makes
// its initial fetch (the relay's URL, which the valid documents name, is only known once it listens).
func c16NewSvc(ctx context.Context, sourceKind string, stratKind string, content func(*c16Svc) (string, bool)) *c16Svc {
	viper.Set("timeout", 2*time.Second)
	if stratKind == "" {
		stratKind = "best"
	}
	g := &c16Svc{accounts: &c16SvcAccounts{}, sched: verifsupport.NewScheduler(), source: c16NewConfigSource(sourceKind), relay: c16NewServer(), gate: &c16Gate{},
		clock: c16NewSlotClock(), strat: stratKind}
	g.fallback[0] = 0xfa
	ct := g.clock
	g.polls = c16NewPolls("relay1", c16RelayKey(1), g.clock)
	g.relay.Set("/eth/v1/builder/header/", g.polls.Answer())
	g.relay.Gate("/eth/v1/builder/header/", g.gate)
	g.relay.Set("/eth/v1/builder/validators", c16Answer{Status: 200, Body: ``})
	g.relay.Set("/eth/v1/builder/status", c16Answer{Status: 200, Body: ``})

	md, err := standardmajordomo.New(ctx)
	if err != nil {
		panic("c16 harness: majordomo: " + err.Error())
	}
	fc, err := fileconfidant.New(ctx)
	if err != nil {
		panic("c16 harness: file confidant: " + err.Error())
	}
	hc, err := httpconfidant.New(ctx)
	if err != nil {
		panic("c16 harness: http confidant: " + err.Error())
	}
	if err := md.RegisterConfidant(ctx, fc); err != nil {
		panic("c16 harness: " + err.Error())
	}
	if err := md.RegisterConfidant(ctx, hc); err != nil {
		panic("c16 harness: " + err.Error())
	}

	var strat builderbid.Provider
	switch stratKind {
	case "best":
		strat, err = bestbuilderbid.New(ctx,
			bestbuilderbid.WithLogLevel(c16LogLevel()),
			bestbuilderbid.WithMonitor(nullmetrics.New()),
			bestbuilderbid.WithSpecProvider(mock.NewSpecProvider()),
			bestbuilderbid.WithDomainProvider(mock.NewDomainProvider()),
			bestbuilderbid.WithChainTime(ct),
			bestbuilderbid.WithTimeout(300*time.Millisecond),
			bestbuilderbid.WithReleaseVersion("verif"),
		)
	case "deadline":
		// the sibling main.go selects with strategies.builderbid.style: deadline
		strat, err = deadlinebuilderbid.New(ctx,
			deadlinebuilderbid.WithLogLevel(c16LogLevel()),
			deadlinebuilderbid.WithMonitor(nullmetrics.New()),
			deadlinebuilderbid.WithSpecProvider(mock.NewSpecProvider()),
			deadlinebuilderbid.WithDomainProvider(mock.NewDomainProvider()),
			deadlinebuilderbid.WithChainTime(ct),
			deadlinebuilderbid.WithDeadline(250*time.Millisecond),
			deadlinebuilderbid.WithBidGap(100*time.Millisecond),
			deadlinebuilderbid.WithReleaseVersion("verif"),
		)
	default:
		panic("c16 harness: unknown builder bid strategy " + stratKind)
	}
	if err != nil {
		panic("c16 harness: builder bid strategy: " + err.Error())
	}

	g.source.Set(content(g))
	s, err := standardblockrelay.New(ctx,
		standardblockrelay.WithLogLevel(c16LogLevel()),
		standardblockrelay.WithMonitor(nullmetrics.New()),
		standardblockrelay.WithMajordomo(md),
		standardblockrelay.WithScheduler(g.sched),
		standardblockrelay.WithListenAddress("127.0.0.1:0"),
		standardblockrelay.WithChainTime(ct),
		standardblockrelay.WithConfigURL(g.source.URL()),
		standardblockrelay.WithFallbackFeeRecipient(g.fallback),
		standardblockrelay.WithFallbackGasLimit(30000000),
		standardblockrelay.WithAccountsProvider(g.accounts),
		standardblockrelay.WithValidatorsProvider(mock.NewValidatorsProvider()),
		standardblockrelay.WithValidatingAccountsProvider(g.accounts),
		standardblockrelay.WithValidatorRegistrationSigner(&c16Signer{}),
		standardblockrelay.WithReleaseVersion("verif"),
		standardblockrelay.WithBuilderBidProvider(strat),
		standardblockrelay.WithBuilderConfigs(map[phase0.BLSPubKey]*blockrelay.BuilderConfig{}),
	)
	if err != nil {
		panic("c16 harness: block relay service: " + err.Error())
	}
	g.s = s
	return g
}

func (g *c16Svc) Close() {
	g.gate.Release()
	g.source.Close()
	g.relay.Close()
}

func (g *c16Svc) hits(prefix string) int {
	g.relay.mu.Lock()
	defer g.relay.mu.Unlock()
	return g.relay.Hits[prefix]
}

// lookup: what the proposer, the registration job and the auction start with.
func (g *c16Svc) lookup(ctx context.Context) c16Res {
	var first *string
	for i := 0; i < 2; i++ {
		pc, err := g.s.ProposerConfig(ctx, c16Account(1), c16AccountPubkey(1))
		if err != nil {
			return c16Err("proposer config: " + err.Error())
		}
		if pc == nil {
			return c16Err("nil proposer config without error")
		}
		d := fmt.Sprintf("fee recipient %s, %d relay(s)", pc.FeeRecipient.String(), len(pc.Relays))
		for _, r := range pc.Relays {
			_ = r.Address
			_ = r.MinValue.String()
		}
		if first == nil {
			first = &d
		}
		if i == 1 && pc.FeeRecipient == g.fallback && len(pc.Relays) == 0 {
			return c16Fallback("fallback configuration: " + d)
		}
	}
	// a validator Vouch does not know (the builder-bid endpoint is asked about those as well)
	if _, err := g.s.ProposerConfig(ctx, nil, c16OtherPubkey()); err != nil {
		return c16Err("proposer config for an unknown validator: " + err.Error())
	}
	return c16OK(*first)
}

// register: a validator registration round, as the scheduler runs it and as the controller asks for it.
func (g *c16Svc) register(ctx context.Context) c16Res {
	before := g.hits("/eth/v1/builder/validators")
	g.sched.Fire(ctx, g.job("Submit validator registrations"))
	err := g.s.SubmitValidatorRegistrations(ctx, map[phase0.ValidatorIndex]e2wtypes.Account{1: c16Account(1)})
	if err != nil {
		return c16Err(err.Error())
	}
	if n := g.hits("/eth/v1/builder/validators") - before; n > 0 {
		return c16OK(fmt.Sprintf("%d registration request(s) reached the relay", n))
	}
	return c16Fallback("no registration reached a relay")
}

// auction: AuctionBlock for a controlled validator, then what the beacon node asks the builder-bid
// endpoint (the cached bid; an immediate auction for a validator Vouch does not control).
func (g *c16Svc) auction(ctx context.Context, slot phase0.Slot) c16Res {
	grace := 20 * time.Millisecond // goroutines of the strategy still decoding an answer
	if g.strat == "deadline" {
		grace = 150 * time.Millisecond // ... or making their last poll and writing their end-of-auction report
	}
	g.polls.Attach(ctx, slot)
	g.clock.Begin(slot) // proposals are made when their slot starts
	res, err := g.s.AuctionBlock(ctx, slot, c16ParentHash, c16AccountPubkey(1))
	time.Sleep(grace)
	if err != nil {
		return c16Err(err.Error())
	}
	if res == nil {
		return c16Err("nil results without error")
	}
	for _, p := range res.Providers {
		_ = p.Address()
		if _, ok := p.(builderclient.UnblindedProposalProvider); !ok {
			return c16Err("provider cannot unblind")
		}
	}
	if _, err := g.s.BuilderBid(ctx, slot, c16ParentHash, c16AccountPubkey(1)); err != nil {
		return c16Err("cached bid: " + err.Error())
	}
	if _, err := g.s.BuilderBid(ctx, slot, c16ParentHash, c16OtherPubkey()); err != nil {
		return c16Err("immediate bid: " + err.Error())
	}
	time.Sleep(grace)
	if res.WinningParticipation == nil {
		return c16Fallback(fmt.Sprintf("no winning bid (%d relay(s) usable): local block", len(res.AllProviders)))
	}
	return c16OK(fmt.Sprintf("winner among %d", len(res.AllProviders)))
}

// c16SvcInst is the block relay service as it lives in Vouch: built once, then the periodic fetch job
// reads whatever the configuration source holds at that time, and lookups, registration rounds and
// auctions use the configuration that is active.
type c16SvcInst struct {
	g     *c16Svc
	first map[string]string
}

// content of the configuration source for a shape
func (in *c16SvcInst) content(sh map[string]string) (string, bool) {
	if sh["doc"] == "missing" {
		return "", true
	}
	return c16WholeDocKeyed(sh["doc"], c16RelayAddress(sh["addr"], in.g.relay.URL()), sh["pk"]), false
}

func c16NewSvcInst(ctx context.Context, first map[string]string) c16Instance {
	in := &c16SvcInst{first: first}
	in.g = c16NewSvc(ctx, first["source"], first["strat"], func(g *c16Svc) (string, bool) {
		in.g = g
		if first["prior"] == "none" {
			// the document of the first call is what the service finds when it starts
			return in.content(first)
		}
		return c16ValidDoc(first["prior"], g.relay.URL()), false
	})
	in.g.settle(ctx)
	return in
}

func (in *c16SvcInst) Gate() *c16Gate { return in.g.gate }
func (in *c16SvcInst) Close()         { in.g.Close() }

// Prepare: nothing; the configuration source is changed by the call itself (Invoke), step by step.
func (in *c16SvcInst) Prepare(_ int, _ map[string]string) {}

func (in *c16SvcInst) Invoke(ctx context.Context, k int, sh map[string]string) c16Res {
	g := in.g
	g.polls.Script(c16CallSlot(k), c16PollSeq(sh))
	fetch := func() { g.sched.Fire(ctx, g.job("Fetch execution configuration")) }
	switch {
	case k == 1 && sh["prior"] == "none":
		// found at start: initial fetch inside New, first registration round in the goroutine New started
	case k == 1:
		if r := g.lookup(ctx); r.Outcome != "ok" {
			panic("c16 harness: the prior configuration is not in use: " + r.Detail)
		}
		g.source.Set(in.content(sh))
		fetch()
	default:
		if sh["prior"] != "none" {
			// a good configuration of that version becomes active first
			g.source.Set(c16ValidDoc(sh["prior"], g.relay.URL()), false)
			fetch()
		}
		// the source changes; the periodic job fetches it
		g.source.Set(in.content(sh))
		fetch()
	}

	worst := "ok"
	note := func(r c16Res) {
		switch {
		case r.Outcome == "error":
			worst = "error"
		case r.Outcome == "fallback" && worst == "ok":
			worst = "fallback"
		}
	}
	var details []string
	for _, u := range []struct {
		name string
		run  func(context.Context) c16Res
	}{{"lookup", g.lookup}, {"register", g.register}, {"auction", func(ctx context.Context) c16Res { return g.auction(ctx, c16CallSlot(k)) }}} {
		r := u.run(ctx)
		c16Used(ctx, u.name, r)
		note(r)
		details = append(details, u.name+": "+r.Detail)
	}
	return c16Res{Outcome: worst, Detail: strings.Join(details, "; ")}
}

func init() {
	c16RegisterInstance("execservice", c16NewSvcInst)
}
