package c16

// Entry points "attester", "aggregator", "syncmessenger", "syncaggregator" and "mergeduties": the duty
// services with their beacon-node data read through the real go-eth2-client from a scripted node.

import (
	"context"
	"errors"
	"fmt"
	"net/http"
	"strings"
	"sync"
	"time"

	eth2client "github.com/attestantio/go-eth2-client"
	"github.com/attestantio/go-eth2-client/api"
	apiv1 "github.com/attestantio/go-eth2-client/api/v1"
	"github.com/attestantio/go-eth2-client/spec/altair"
	"github.com/attestantio/go-eth2-client/spec/phase0"
	"github.com/attestantio/vouch/mock"
	mockaccountmanager "github.com/attestantio/vouch/services/accountmanager/mock"
	"github.com/attestantio/vouch/services/attestationaggregator"
	standardaggregator "github.com/attestantio/vouch/services/attestationaggregator/standard"
	"github.com/attestantio/vouch/services/attester"
	standardattester "github.com/attestantio/vouch/services/attester/standard"
	nullmetrics "github.com/attestantio/vouch/services/metrics/null"
	"github.com/attestantio/vouch/services/synccommitteeaggregator"
	standardsyncaggregator "github.com/attestantio/vouch/services/synccommitteeaggregator/standard"
	"github.com/attestantio/vouch/services/synccommitteemessenger"
	standardsyncmessenger "github.com/attestantio/vouch/services/synccommitteemessenger/standard"
	"github.com/attestantio/vouch/verifsupport"
	e2wtypes "github.com/wealdtech/go-eth2-wallet-types/v2"
)

const c16SpecBody = `{"data":{"SLOTS_PER_EPOCH":"32","SECONDS_PER_SLOT":"12","TARGET_AGGREGATORS_PER_COMMITTEE":"16","SYNC_COMMITTEE_SIZE":"512","SYNC_COMMITTEE_SUBNET_COUNT":"4","EPOCHS_PER_SYNC_COMMITTEE_PERIOD":"256","TARGET_AGGREGATORS_PER_SYNC_SUBCOMMITTEE":"16","DOMAIN_SYNC_COMMITTEE":"0x07000000","DOMAIN_SYNC_COMMITTEE_SELECTION_PROOF":"0x08000000","DOMAIN_CONTRIBUTION_AND_PROOF":"0x09000000"}}`

// c16Spec is the mock spec provider plus the values the mock lacks.
type c16Spec struct{}

func (*c16Spec) Spec(ctx context.Context, opts *api.SpecOpts) (*api.Response[map[string]any], error) {
	resp, err := mock.NewSpecProvider().Spec(ctx, opts)
	if err != nil {
		return nil, err
	}
	resp.Data["TARGET_AGGREGATORS_PER_COMMITTEE"] = uint64(16)
	return resp, nil
}

// c16Recorder is a submitter for everything the duty services submit.
type c16Recorder struct {
	mu    sync.Mutex
	count int
}

func (r *c16Recorder) note(n int) {
	r.mu.Lock()
	r.count += n
	r.mu.Unlock()
}

func (r *c16Recorder) Count() int {
	r.mu.Lock()
	defer r.mu.Unlock()
	return r.count
}

func (r *c16Recorder) SubmitAttestations(_ context.Context, a []*phase0.Attestation) error {
	for _, x := range a {
		if x == nil || x.Data == nil {
			return errors.New("nil attestation")
		}
	}
	r.note(len(a))
	return nil
}

func (r *c16Recorder) SubmitAggregateAttestations(_ context.Context, a []*phase0.SignedAggregateAndProof) error {
	r.note(len(a))
	return nil
}

func (r *c16Recorder) SubmitSyncCommitteeMessages(_ context.Context, m []*altair.SyncCommitteeMessage) error {
	r.note(len(m))
	return nil
}

func (r *c16Recorder) SubmitSyncCommitteeContributions(_ context.Context, c []*altair.SignedContributionAndProof) error {
	r.note(len(c))
	return nil
}

func c16Slots(sh map[string]string) uint64 {
	var slot uint64
	fmt.Sscanf(sh["slot"], "%d", &slot)
	return slot
}

func c16ChainTimeAt(slot uint64) *verifsupport.ChainTime {
	ct := verifsupport.NewChainTime(32, 12*time.Second)
	ct.SetSlot(slot)
	return ct
}

func c16Checkpoint(epoch uint64, b byte) string {
	return fmt.Sprintf(`{"epoch":"%d","root":"%#x"}`, epoch, phase0.Root{b})
}

// c16AttestationDataAnswer scripts /eth/v1/validator/attestation_data.
func c16AttestationDataAnswer(kind string) c16Answer {
	return c16Answer{Func: func(r *http.Request) c16Answer {
		if a, ok := c16BadAnswer(kind); ok {
			return a
		}
		var slot, index uint64
		fmt.Sscanf(r.URL.Query().Get("slot"), "%d", &slot)
		fmt.Sscanf(r.URL.Query().Get("committee_index"), "%d", &index)
		epoch := slot / 32
		srcEpoch := uint64(0)
		if epoch > 0 {
			srcEpoch = epoch - 1
		}
		source, target := `,"source":`+c16Checkpoint(srcEpoch, 0x51), `,"target":`+c16Checkpoint(epoch, 0x52)
		switch kind {
		case "nosource":
			source = ""
		case "notarget":
			target = ""
		case "nullsource":
			source = `,"source":null`
		case "nulltarget":
			target = `,"target":null`
		case "slotmismatch":
			slot++
		case "srcgttgt":
			source = `,"source":` + c16Checkpoint(epoch+9, 0x51)
		}
		return c16JSON(fmt.Sprintf(`{"data":{"slot":"%d","index":"%d","beacon_block_root":"%#x"%s%s}}`, slot, index, phase0.Root{0xbb}, source, target))
	}}
}

func c16AttesterDuty(kind string, slot uint64) *attester.Duty {
	var d *attester.Duty
	var err error
	ctx := context.Background()
	s := phase0.Slot(slot)
	switch kind {
	case "one":
		d, err = attester.NewDuty(ctx, s, 4, []phase0.ValidatorIndex{1}, []phase0.CommitteeIndex{0}, []uint64{3}, map[phase0.CommitteeIndex]uint64{0: 8})
	case "dup":
		d, err = attester.NewDuty(ctx, s, 4, []phase0.ValidatorIndex{1, 1}, []phase0.CommitteeIndex{0, 0}, []uint64{3, 3}, map[phase0.CommitteeIndex]uint64{0: 8})
	case "zerolen":
		d, err = attester.NewDuty(ctx, s, 4, []phase0.ValidatorIndex{1}, []phase0.CommitteeIndex{0}, []uint64{0}, map[phase0.CommitteeIndex]uint64{0: 0})
	case "vcirange":
		d, err = attester.NewDuty(ctx, s, 4, []phase0.ValidatorIndex{1}, []phase0.CommitteeIndex{0}, []uint64{99}, map[phase0.CommitteeIndex]uint64{0: 8})
	case "many":
		d, err = attester.NewDuty(ctx, s, 4, []phase0.ValidatorIndex{1, 2, 3}, []phase0.CommitteeIndex{0, 1, 0}, []uint64{1, 2, 3}, map[phase0.CommitteeIndex]uint64{0: 8, 1: 8})
	case "noaccount":
		d, err = attester.NewDuty(ctx, s, 4, []phase0.ValidatorIndex{77}, []phase0.CommitteeIndex{0}, []uint64{3}, map[phase0.CommitteeIndex]uint64{0: 8})
	}
	if err != nil || d == nil {
		panic(fmt.Sprintf("c16 harness: attester duty %s: %v", kind, err))
	}
	return d
}

func c16AccountsProvider(indices ...uint64) *mockaccountmanager.ValidatingAccountsProvider {
	p := mockaccountmanager.NewValidatingAccountsProvider()
	for _, i := range indices {
		p.AddAccount(phase0.ValidatorIndex(i), c16Account(i))
	}
	return p
}

// c16CallEpochShift: call k of a history is for a slot 4 epochs after that of call k-1 (the duty services
// remember, on purpose, what they did per slot / per epoch and validator).
func c16ShiftedSlot(sh map[string]string, k int) uint64 { return c16Slots(sh) + uint64(128*(k-1)) }

// c16NodeInst: what the duty service instances share: a scripted node read through the real client
// library, a recording submitter, a virtual chain time.
type c16NodeInst struct {
	node   *c16Server
	client eth2client.Service
	// a strategy is wired between the service and the nodes (style # direct): a second node, and the real clients
	// of both keyed by node address as in main.go
	style   string
	node1   *c16Server
	clients map[string]eth2client.Service
	rec     *c16Recorder
	ct      *verifsupport.ChainTime
	gate    *c16Gate
}

func c16NewNodeInst(ctx context.Context, style string, gated ...string) *c16NodeInst {
	if style == "" {
		style = "direct"
	}
	in := &c16NodeInst{node: c16NewNode(c16NodeVersion("teku")), rec: &c16Recorder{}, ct: verifsupport.NewChainTime(32, 12*time.Second), gate: &c16Gate{},
		style: style, clients: map[string]eth2client.Service{}}
	for _, prefix := range gated {
		in.node.Gate(prefix, in.gate)
	}
	in.client = c16NodeClient(ctx, in.node)
	if style != "direct" {
		in.node1 = c16NewNode(c16NodeVersion("lighthouse"))
		in.clients[in.node.URL()] = in.client
		in.clients[in.node1.URL()] = c16NodeClient(ctx, in.node1)
	}
	return in
}

// SetBoth scripts an endpoint of the node(s): node 0 answers the shape's `body`, the second node its `node1`.
func (in *c16NodeInst) SetBoth(prefix string, sh map[string]string, answer func(kind string) c16Answer) {
	in.node.Set(prefix, answer(sh["body"]))
	if in.node1 != nil {
		in.node1.Set(prefix, answer(c16Node1Kind(sh)))
	}
}

func (in *c16NodeInst) Gate() *c16Gate { return in.gate }
func (in *c16NodeInst) Close() {
	in.gate.Release()
	in.node.Close()
	if in.node1 != nil {
		in.node1.Close()
	}
}

func c16NewAttester(ctx context.Context, provider eth2client.AttestationDataProvider, ct *verifsupport.ChainTime, rec *c16Recorder) *standardattester.Service {
	s, err := standardattester.New(ctx,
		standardattester.WithLogLevel(c16LogLevel()),
		standardattester.WithProcessConcurrency(2),
		standardattester.WithMonitor(nullmetrics.New()),
		standardattester.WithChainTime(ct),
		standardattester.WithSpecProvider(mock.NewSpecProvider()),
		standardattester.WithAttestationDataProvider(provider),
		standardattester.WithAttestationsSubmitter(rec),
		standardattester.WithValidatingAccountsProvider(c16AccountsProvider(1, 2, 3)),
		standardattester.WithBeaconAttestationsSigner(&c16Signer{}),
	)
	if err != nil {
		panic("c16 harness: attester: " + err.Error())
	}
	return s
}

// ---- attester

type c16AttesterInst struct {
	*c16NodeInst
	s *standardattester.Service
}

func c16NewAttesterInst(ctx context.Context, first map[string]string) c16Instance {
	in := &c16AttesterInst{c16NodeInst: c16NewNodeInst(ctx, first["style"], "/eth/v1/validator/attestation_data")}
	in.s = c16NewAttester(ctx, c16AttestationDataProvider(ctx, in.style, in.clients, in.client, in.ct), in.ct, in.rec)
	return in
}

func (in *c16AttesterInst) Prepare(_ int, sh map[string]string) {
	in.SetBoth("/eth/v1/validator/attestation_data", sh, c16AttestationDataAnswer)
}

func (in *c16AttesterInst) Invoke(ctx context.Context, k int, sh map[string]string) c16Res {
	slot := c16ShiftedSlot(sh, k)
	in.ct.SetSlot(slot)
	before := in.rec.Count()
	atts, err := in.s.Attest(ctx, c16AttesterDuty(sh["duty"], slot))
	c16Settle(in.style)
	if err != nil {
		return c16Err(err.Error())
	}
	for _, a := range atts {
		if _, err := a.HashTreeRoot(); err != nil {
			return c16Err("attestation does not hash: " + err.Error())
		}
	}
	if n := in.rec.Count() - before; n > 0 {
		return c16OK(fmt.Sprintf("%d attestations", n))
	}
	return c16Err("nothing submitted")
}

// ---- attestation aggregator

type c16AggregatorInst struct {
	*c16NodeInst
	s *standardaggregator.Service
}

func c16AggregateData(slot uint64) *phase0.AttestationData {
	return &phase0.AttestationData{Slot: phase0.Slot(slot), Index: 0, BeaconBlockRoot: phase0.Root{0xbb},
		Source: &phase0.Checkpoint{Epoch: 0, Root: phase0.Root{0x51}}, Target: &phase0.Checkpoint{Epoch: phase0.Epoch(slot / 32), Root: phase0.Root{0x52}}}
}

func c16NewAggregatorInst(ctx context.Context, first map[string]string) c16Instance {
	in := &c16AggregatorInst{c16NodeInst: c16NewNodeInst(ctx, first["style"], "/eth/v1/validator/aggregate_attestation")}
	accounts := c16AccountsProvider()
	if first["account"] == "present" {
		accounts = c16AccountsProvider(1)
	}
	s, err := standardaggregator.New(ctx,
		standardaggregator.WithLogLevel(c16LogLevel()),
		standardaggregator.WithMonitor(nullmetrics.New()),
		standardaggregator.WithSpecProvider(&c16Spec{}),
		standardaggregator.WithChainTime(in.ct),
		standardaggregator.WithValidatingAccountsProvider(accounts),
		standardaggregator.WithAggregateAttestationProvider(c16AggregateAttestationProvider(ctx, in.style, in.clients, in.client)),
		standardaggregator.WithAggregateAttestationsSubmitter(in.rec),
		standardaggregator.WithSlotSelectionSigner(&c16Signer{}),
		standardaggregator.WithAggregateAndProofSigner(&c16Signer{}),
	)
	if err != nil {
		panic("c16 harness: aggregator: " + err.Error())
	}
	in.s = s
	return in
}

func (in *c16AggregatorInst) Prepare(_ int, sh map[string]string) {
	// the aggregate is for the slot that is asked for
	in.SetBoth("/eth/v1/validator/aggregate_attestation", sh, func(kind string) c16Answer { return c16AggregateAnswer(kind) })
}

func c16AggregateAnswer(kind string) c16Answer {
	return c16Answer{Func: func(r *http.Request) c16Answer {
		if a, ok := c16BadAnswer(kind); ok {
			return a
		}
		var slot uint64
		fmt.Sscanf(r.URL.Query().Get("slot"), "%d", &slot)
		data := c16MustJSON(c16AggregateData(slot))
		bits := `"aggregation_bits":"0xff01",`
		switch kind {
		case "nullinner":
			data = "null"
		case "emptybits":
			bits = `"aggregation_bits":"0x",`
		case "nobits":
			bits = ""
		}
		return c16JSON(fmt.Sprintf(`{"data":{%s"data":%s,"signature":"%#x"}}`, bits, data, make([]byte, 96)))
	}}
}

func (in *c16AggregatorInst) Invoke(ctx context.Context, k int, sh map[string]string) c16Res {
	slot := c16ShiftedSlot(sh, k)
	in.ct.SetSlot(slot)
	attRoot, err := c16AggregateData(slot).HashTreeRoot()
	if err != nil {
		panic("c16 harness: " + err.Error())
	}
	before := in.rec.Count()
	in.s.Aggregate(ctx, &attestationaggregator.Duty{Slot: phase0.Slot(slot), AttestationDataRoot: attRoot, ValidatorIndex: 1, SlotSignature: phase0.BLSSignature{0x01}})
	c16Settle(in.style)
	if in.rec.Count() == before {
		return c16Err("no aggregate submitted")
	}
	return c16OK("aggregate submitted")
}

func c16RootAnswer(kind string) c16Answer {
	if a, ok := c16BadAnswer(kind); ok {
		return a
	}
	if kind == "noroot" {
		return c16JSON(`{"data":{}}`)
	}
	return c16JSON(fmt.Sprintf(`{"data":{"root":"%#x"}}`, phase0.Root{0xbb}))
}

// c16SyncAggregatorStub records the head roots the messenger hands over.
type c16SyncAggregatorStub struct{}

func (*c16SyncAggregatorStub) SetBeaconBlockRoot(_ phase0.Slot, _ phase0.Root) {}
func (*c16SyncAggregatorStub) Aggregate(_ context.Context, _ *synccommitteeaggregator.Duty) {
}

// ---- sync committee messenger

type c16SyncMessengerInst struct {
	*c16NodeInst
	s *standardsyncmessenger.Service
}

func c16NewSyncMessengerInst(ctx context.Context, first map[string]string) c16Instance {
	in := &c16SyncMessengerInst{c16NodeInst: c16NewNodeInst(ctx, first["style"], "/eth/v1/beacon/blocks/head/root")}
	s, err := standardsyncmessenger.New(ctx,
		standardsyncmessenger.WithLogLevel(c16LogLevel()),
		standardsyncmessenger.WithProcessConcurrency(2),
		standardsyncmessenger.WithMonitor(nullmetrics.New()),
		standardsyncmessenger.WithChainTimeService(in.ct),
		standardsyncmessenger.WithSyncCommitteeAggregator(&c16SyncAggregatorStub{}),
		standardsyncmessenger.WithSpecProvider(mock.NewSpecProvider()),
		standardsyncmessenger.WithBeaconBlockRootProvider(c16BlockRootProvider(ctx, in.style, in.clients, in.client)),
		standardsyncmessenger.WithSyncCommitteeMessagesSubmitter(in.rec),
		standardsyncmessenger.WithValidatingAccountsProvider(c16AccountsProvider(1, 2)),
		standardsyncmessenger.WithSyncCommitteeRootSigner(&c16Signer{}),
		standardsyncmessenger.WithSyncCommitteeSelectionSigner(&c16Signer{}),
		standardsyncmessenger.WithSyncCommitteeSubscriptionsSubmitter(mock.NewSyncCommitteeSubscriptionsSubmitter()),
	)
	if err != nil {
		panic("c16 harness: sync committee messenger: " + err.Error())
	}
	in.s = s
	return in
}

func (in *c16SyncMessengerInst) Prepare(_ int, sh map[string]string) {
	in.SetBoth("/eth/v1/beacon/blocks/head/root", sh, c16RootAnswer)
}

func (in *c16SyncMessengerInst) Invoke(ctx context.Context, k int, sh map[string]string) c16Res {
	slot := c16ShiftedSlot(sh, k)
	in.ct.SetSlot(slot)
	indices := map[phase0.ValidatorIndex][]phase0.CommitteeIndex{1: {3}, 2: {200, 300}}
	if sh["accounts"] == "none" {
		indices = map[phase0.ValidatorIndex][]phase0.CommitteeIndex{}
	}
	duty := synccommitteemessenger.NewDuty(phase0.Slot(slot), indices)
	switch sh["accounts"] {
	case "all":
		duty.SetAccount(1, c16Account(1))
		duty.SetAccount(2, c16Account(2))
	case "somenil":
		duty.SetAccount(1, c16Account(1))
	}
	prepErr := in.s.Prepare(ctx, duty)
	msgs, err := in.s.Message(ctx, duty)
	c16Settle(in.style)
	if err != nil {
		return c16Err(err.Error())
	}
	if prepErr != nil {
		return c16Err("prepare: " + prepErr.Error())
	}
	if len(msgs) == 0 {
		return c16Fallback("no messages to send")
	}
	return c16OK(fmt.Sprintf("%d messages", len(msgs)))
}

// ---- sync committee aggregator

type c16SyncAggregatorInst struct {
	*c16NodeInst
	s *standardsyncaggregator.Service
}

func c16NewSyncAggregatorInst(ctx context.Context, first map[string]string) c16Instance {
	in := &c16SyncAggregatorInst{c16NodeInst: c16NewNodeInst(ctx, first["style"], "/eth/v1/validator/sync_committee_contribution")}
	in.node.Set("/eth/v1/beacon/blocks/head/root", c16RootAnswer("valid"))
	s, err := standardsyncaggregator.New(ctx,
		standardsyncaggregator.WithLogLevel(c16LogLevel()),
		standardsyncaggregator.WithMonitor(nullmetrics.New()),
		standardsyncaggregator.WithSpecProvider(mock.NewSpecProvider()),
		standardsyncaggregator.WithChainTime(in.ct),
		standardsyncaggregator.WithBeaconBlockRootProvider(in.client.(eth2client.BeaconBlockRootProvider)),
		standardsyncaggregator.WithContributionAndProofSigner(&c16Signer{}),
		standardsyncaggregator.WithValidatingAccountsProvider(c16AccountsProvider(1)),
		standardsyncaggregator.WithSyncCommitteeContributionProvider(c16ContributionProvider(ctx, in.style, in.clients, in.client)),
		standardsyncaggregator.WithSyncCommitteeContributionsSubmitter(in.rec),
	)
	if err != nil {
		panic("c16 harness: sync committee aggregator: " + err.Error())
	}
	in.s = s
	return in
}

func (in *c16SyncAggregatorInst) Prepare(_ int, sh map[string]string) {
	in.SetBoth("/eth/v1/validator/sync_committee_contribution", sh, c16ContributionAnswer)
}

func c16ContributionAnswer(kind string) c16Answer {
	return c16Answer{Func: func(r *http.Request) c16Answer {
		if a, ok := c16BadAnswer(kind); ok {
			return a
		}
		var slot uint64
		fmt.Sscanf(r.URL.Query().Get("slot"), "%d", &slot)
		bits := fmt.Sprintf(`"aggregation_bits":"%#x",`, make([]byte, 16))
		switch kind {
		case "emptybits":
			bits = `"aggregation_bits":"0x",`
		case "nobits":
			bits = ""
		}
		return c16JSON(fmt.Sprintf(`{"data":{"slot":"%d","beacon_block_root":"%#x","subcommittee_index":"0",%s"signature":"%#x"}}`, slot, phase0.Root{0xbb}, bits, make([]byte, 96)))
	}}
}

func (in *c16SyncAggregatorInst) Invoke(ctx context.Context, k int, sh map[string]string) c16Res {
	slot := c16ShiftedSlot(sh, k)
	in.ct.SetSlot(slot)
	if sh["root"] == "known" {
		in.s.SetBeaconBlockRoot(phase0.Slot(slot), phase0.Root{0xbb})
	}
	before := in.rec.Count()
	in.s.Aggregate(ctx, &synccommitteeaggregator.Duty{
		Slot:             phase0.Slot(slot),
		ValidatorIndices: []phase0.ValidatorIndex{1},
		SelectionProofs:  map[phase0.ValidatorIndex]map[uint64]phase0.BLSSignature{1: {0: {0x01}}},
		Accounts:         map[phase0.ValidatorIndex]e2wtypes.Account{1: c16Account(1)},
	})
	c16Settle(in.style)
	if in.rec.Count() == before {
		return c16Err("no contribution submitted")
	}
	return c16OK("contribution submitted")
}

// c16DutiesBody renders the attester duties answer for a shape (epoch 2: slots 64..95).
func c16DutiesBody(sh map[string]string, offset uint64) string {
	type duty struct {
		validator, slot, committee, length, atSlot, vci uint64
	}
	var ds []duty
	switch sh["n"] {
	case "1":
		ds = []duty{{1, 64, 0, 8, 4, 3}}
	case "3":
		ds = []duty{{1, 64, 0, 8, 4, 3}, {2, 64, 1, 8, 4, 2}, {3, 70, 0, 8, 4, 1}}
	}
	if len(ds) == 3 {
		switch sh["dup"] {
		case "sameslot":
			ds[1].validator = 1
		case "twoslots":
			ds[2].validator = 1
		}
	}
	for i := range ds {
		if i > 0 && len(ds) > 1 && i != len(ds)-1 {
			continue // degenerate values on the first and last entry
		}
		switch sh["range"] {
		case "vci":
			ds[i].vci = ds[i].length + 5
		case "committee":
			ds[i].committee = ds[i].atSlot + 3
		}
		switch sh["zero"] {
		case "length":
			ds[i].length = 0
		case "atslot":
			ds[i].atSlot = 0
		}
	}
	entries := make([]string, 0, len(ds)+1)
	for i := range ds {
		ds[i].slot += offset
	}
	for _, d := range ds {
		entries = append(entries, fmt.Sprintf(`{"pubkey":"%s","validator_index":"%d","committee_index":"%d","committee_length":"%d","committees_at_slot":"%d","validator_committee_index":"%d","slot":"%d"}`,
			c16AccountPubkey(1).String(), d.validator, d.committee, d.length, d.atSlot, d.vci, d.slot))
	}
	if sh["entry"] == "null" {
		entries = append([]string{"null"}, entries...)
	}
	return fmt.Sprintf(`{"dependent_root":"%#x","execution_optimistic":false,"data":[%s]}`, phase0.Root{0xdd}, strings.Join(entries, ","))
}

// ---- attester duties -> MergeDuties -> Attest (the attester is the long-lived object)

type c16MergeDutiesInst struct {
	*c16NodeInst
	s *standardattester.Service
}

func c16NewMergeDutiesInst(ctx context.Context, _ map[string]string) c16Instance {
	in := &c16MergeDutiesInst{c16NodeInst: c16NewNodeInst(ctx, "direct", "/eth/v1/validator/attestation_data")}
	in.node.Set("/eth/v1/config/spec", c16JSON(c16SpecBody))
	in.node.Set("/eth/v1/validator/attestation_data", c16AttestationDataAnswer("valid"))
	in.s = c16NewAttester(ctx, in.client.(eth2client.AttestationDataProvider), in.ct, in.rec)
	return in
}

// c16DutyEpoch: the duties of call k are those of epoch 2 + 4(k-1).
func c16DutyEpoch(k int) uint64 { return 2 + uint64(4*(k-1)) }

func (in *c16MergeDutiesInst) Prepare(k int, sh map[string]string) {
	in.node.Set("/eth/v1/validator/duties/attester/", c16JSON(c16DutiesBody(sh, (c16DutyEpoch(k)-2)*32)))
}

func (in *c16MergeDutiesInst) Invoke(ctx context.Context, k int, sh map[string]string) c16Res {
	// the decoder is asked first (gated shape): an error or a panic inside the library means that the
	// shape is not a value the library delivers
	var resp *api.Response[[]*apiv1.AttesterDuty]
	var err error
	func() {
		defer func() {
			if r := recover(); r != nil {
				err = fmt.Errorf("decoder panicked: %v", r)
			}
		}()
		resp, err = in.client.(eth2client.AttesterDutiesProvider).AttesterDuties(ctx, &api.AttesterDutiesOpts{Epoch: phase0.Epoch(c16DutyEpoch(k)), Indices: []phase0.ValidatorIndex{1, 2, 3}})
	}()
	if err != nil {
		return c16Undeliverable(err.Error())
	}
	// what the controller does with the answer
	duties, err := attester.MergeDuties(ctx, resp.Data)
	if err != nil {
		return c16Err(err.Error())
	}
	before := in.rec.Count()
	failed := 0
	for _, duty := range duties {
		_ = duty.String()
		_ = duty.Tuples()
		in.ct.SetSlot(uint64(duty.Slot()))
		if _, err := in.s.Attest(ctx, duty); err != nil {
			failed++
		}
	}
	switch {
	case len(duties) == 0:
		return c16Fallback("no duties")
	case failed == len(duties):
		return c16Err("every attestation failed")
	}
	return c16OK(fmt.Sprintf("%d duties, %d attestations", len(duties), in.rec.Count()-before))
}

func init() {
	c16RegisterInstance("attester", c16NewAttesterInst)
	c16RegisterInstance("aggregator", c16NewAggregatorInst)
	c16RegisterInstance("syncmessenger", c16NewSyncMessengerInst)
	c16RegisterInstance("syncaggregator", c16NewSyncAggregatorInst)
	c16RegisterInstance("mergeduties", c16NewMergeDutiesInst)
}
