package c16

// AUXILIARY REQUESTS (Robustness!AuxRequests): what Vouch asks its surroundings on its own while it expands an
// operator-supplied template.  Today that is the node version request behind the {{CLIENT}} graffiti marker, made
// through the OPTIONAL interface eth2client.NodeClientProvider of the provider that is asked for the block.  None of
// the repository's mocks implements that interface, and the real HTTP client answers it from a value it cached when
// it connected - so a scripted 500 on /eth/v1/node/version is never even requested.  The providers handed to Vouch
// here are therefore FACADES over the real go-eth2-client HTTP client: the main request (Proposal) goes through the
// library and its decoders as before, the optional interface is implemented (or, for "absent", not implemented) by
// the facade and answered PER CALL with what the input of that call chose (RobustnessShapes!AuxAnswers).  The facade
// writes the line Aux{req, at, answer, delivered} when - and only when - the real code really asks, BEFORE it hands
// the answer back (a panic that follows is attributed correctly).

import (
	"context"
	"errors"
	"net/http"
	"sync"
	"time"

	eth2client "github.com/attestantio/go-eth2-client"
	"github.com/attestantio/go-eth2-client/api"
	eth2http "github.com/attestantio/go-eth2-client/http"
)

// c16AuxKey carries the input of the call on whose behalf the real code is running: a fake that is asked an
// auxiliary request answers with what THAT call's input chose, also when two calls are in flight on one instance.
type c16AuxKey struct{}

func c16WithAux(ctx context.Context, sh map[string]string) context.Context {
	return context.WithValue(ctx, c16AuxKey{}, sh)
}

const (
	c16AuxSlow    = 120 * time.Millisecond // "slow": shorter than the strategies' soft time-outs (200 ms)
	c16AuxTimeout = 150 * time.Millisecond // "timeout": the library's own time-out for this one request
)

// c16NodeProvider is the provider of one beacon node WITHOUT the optional interface: only Proposal is promoted
// from the real client.
type c16NodeProvider struct {
	eth2client.ProposalProvider
	real eth2client.Service
	node *c16Server
	at   string // "node0" | "node1"
	dim  string // the dimension of the shape that scripts this node's answer: "nodeclient" | "nodeclient1"

	mu     sync.Mutex
	script map[string]string // input of the call prepared last (used if the context carries none)
	emit   func(c16Line)     // event writer of the call invoked last (used if the context carries none)
	asked  int
}

// c16NodeProviderNC adds eth2client.NodeClientProvider.
type c16NodeProviderNC struct {
	*c16NodeProvider
}

// c16NewNodeProvider connects the real client library to the scripted node and wraps it; absent = the provider
// does not implement the optional interface (configuration of the instance).
func c16NewNodeProvider(ctx context.Context, node *c16Server, at, dim string, absent bool) (eth2client.ProposalProvider, *c16NodeProvider) {
	real := c16NodeClient(ctx, node)
	p := &c16NodeProvider{ProposalProvider: real.(eth2client.ProposalProvider), real: real, node: node, at: at, dim: dim}
	if absent {
		return p, p
	}
	return c16NodeProviderNC{p}, p
}

const c16SyncingOK = `{"data":{"head_slot":"1000","sync_distance":"0","is_syncing":false,"is_optimistic":false,"el_offline":false}}`

// Prepare: the state of the node when call k starts.  "down" = the node is really down: the library's connection
// check fails and it marks the client inactive (as its periodic check does in production).
func (p *c16NodeProvider) Prepare(sh map[string]string) {
	p.mu.Lock()
	p.script = sh
	p.mu.Unlock()
	svc, ok := p.real.(*eth2http.Service)
	if !ok {
		panic("c16 harness: the node client is not the HTTP client")
	}
	down := sh[p.dim] == "down"
	if down == !svc.IsActive() {
		return
	}
	if down {
		p.node.Set("/eth/v1/node/syncing", c16Answer{Status: http.StatusServiceUnavailable, Body: `{"code":503,"message":"starting"}`})
	} else {
		p.node.Set("/eth/v1/node/syncing", c16JSON(c16SyncingOK))
	}
	// the library skips its check while another one is running (a call in flight next to this one may be asking):
	// repeat until the client has followed the node
	for i := 0; i < 300 && down == svc.IsActive(); i++ {
		cctx, cancel := context.WithTimeout(context.Background(), 3*time.Second)
		svc.CheckConnectionState(cctx)
		cancel()
		if down == svc.IsActive() {
			time.Sleep(10 * time.Millisecond)
		}
	}
	if down == svc.IsActive() {
		panic("c16 harness: the client library did not follow the node's state")
	}
}

// Invoked: the event writer of the call that enters the real code now.
func (p *c16NodeProvider) Invoked(ctx context.Context) {
	f, _ := ctx.Value(c16EmitKey{}).(func(c16Line))
	p.mu.Lock()
	p.emit = f
	p.mu.Unlock()
}

func (p *c16NodeProvider) Asked() int {
	p.mu.Lock()
	defer p.mu.Unlock()
	return p.asked
}

// NodeClient answers the node version request as the environment chose for the call that asks.
func (p c16NodeProviderNC) NodeClient(ctx context.Context) (*api.Response[string], error) {
	sh, _ := ctx.Value(c16AuxKey{}).(map[string]string)
	emit, _ := ctx.Value(c16EmitKey{}).(func(c16Line))
	p.mu.Lock()
	if sh == nil {
		sh = p.script
	}
	if emit == nil {
		emit = p.emit
	}
	p.asked++
	p.mu.Unlock()
	answer := sh[p.dim]
	switch answer {
	case "", "na", "absent":
		answer = "ok"
	}
	library := func() (*api.Response[string], error) {
		return p.real.(eth2client.NodeClientProvider).NodeClient(ctx)
	}
	// what the environment answers is decided when the request arrives (the line is written then); a slow or timed
	// out answer is handed over later
	var resp *api.Response[string]
	var err error
	var wait time.Duration
	switch answer {
	case "ok", "down":
		resp, err = library()
	case "empty":
		resp = &api.Response[string]{Data: "", Metadata: map[string]any{}}
	case "slow":
		resp, err = library()
		wait = c16AuxSlow
	case "error":
		err = errors.New("failed to request node version: GET failed with status 503: {\"code\":503,\"message\":\"restarting\"}")
	case "timeout":
		err = errors.Join(errors.New("failed to call GET endpoint"), context.DeadlineExceeded)
		wait = c16AuxTimeout
	case "canceled":
		err = context.Canceled
	case "notactive":
		err = eth2client.ErrNotActive
	default:
		panic("c16 harness: unknown answer to the node version request: " + answer)
	}
	delivered := "value"
	if err != nil || resp == nil {
		delivered, resp = "fault", nil // an error comes with a nil response, as from the library
		if err == nil {
			err = errors.New("no response")
		}
	}
	if emit != nil {
		emit(c16Line{"ev": "Aux", "req": "nodeclient", "at": p.at, "answer": answer, "delivered": delivered})
	}
	if wait > 0 {
		if answer == "timeout" {
			select {
			case <-ctx.Done():
			case <-time.After(wait):
			}
		} else {
			time.Sleep(wait)
		}
	}
	return resp, err
}
