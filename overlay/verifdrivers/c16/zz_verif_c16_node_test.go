package c16

// Scripted beacon node and relay: local HTTP servers whose answers are set per scenario.  Vouch's
// services are given the REAL go-eth2-client / go-builder-client HTTP clients connected to them, so
// every value that reaches Vouch is a value the libraries' decoders deliver.

import (
	"context"
	"fmt"
	"net/http"
	"net/http/httptest"
	"sort"
	"strings"
	"sync"
	"time"

	eth2client "github.com/attestantio/go-eth2-client"
	eth2http "github.com/attestantio/go-eth2-client/http"
)

// c16Answer is one scripted HTTP answer.
type c16Answer struct {
	Status  int
	Headers map[string]string
	Body    string
	// Func, if set, computes the answer from the request (used where the answer must echo a
	// request parameter so that the client library's consistency checks pass).
	Func func(r *http.Request) c16Answer
}

func c16JSON(body string) c16Answer { return c16Answer{Status: 200, Body: body} }

// c16Server is a scripted HTTP server: the longest registered path prefix decides the answer.
type c16Server struct {
	mu      sync.Mutex
	srv     *httptest.Server
	answers map[string]c16Answer
	Hits    map[string]int
	gates   map[string]*c16Gate
}

// Gate: requests under the prefix pass the gate (history mode: a call is held there while the next one runs).
func (s *c16Server) Gate(prefix string, g *c16Gate) {
	s.mu.Lock()
	defer s.mu.Unlock()
	if s.gates == nil {
		s.gates = map[string]*c16Gate{}
	}
	s.gates[prefix] = g
}

func c16NewServer() *c16Server {
	s := &c16Server{answers: map[string]c16Answer{}, Hits: map[string]int{}}
	s.srv = httptest.NewServer(http.HandlerFunc(s.handle))
	return s
}

func (s *c16Server) URL() string { return s.srv.URL }

func (s *c16Server) Close() { s.srv.Close() }

func (s *c16Server) Set(prefix string, a c16Answer) {
	s.mu.Lock()
	defer s.mu.Unlock()
	s.answers[prefix] = a
}

func (s *c16Server) handle(w http.ResponseWriter, r *http.Request) {
	s.mu.Lock()
	prefixes := make([]string, 0, len(s.answers))
	for p := range s.answers {
		prefixes = append(prefixes, p)
	}
	sort.Slice(prefixes, func(i, j int) bool { return len(prefixes[i]) > len(prefixes[j]) })
	var ans *c16Answer
	for _, p := range prefixes {
		if strings.HasPrefix(r.URL.Path, p) {
			a := s.answers[p]
			ans = &a
			s.Hits[p]++
			break
		}
	}
	var gate *c16Gate
	for p, g := range s.gates {
		if strings.HasPrefix(r.URL.Path, p) {
			gate = g
		}
	}
	s.mu.Unlock()
	if ans == nil {
		gate.Pass()
		w.Header().Set("Content-Type", "application/json")
		w.WriteHeader(http.StatusNotFound)
		fmt.Fprint(w, `{"code":404,"message":"not found"}`)
		return
	}
	a := *ans
	if a.Func != nil {
		a = a.Func(r)
	}
	// the answer is the one scripted when the request arrived; a held request is answered when it is let go
	gate.Pass()
	ct := false
	for k, v := range a.Headers {
		if strings.EqualFold(k, "Content-Type") {
			ct = true
		}
		w.Header().Set(k, v)
	}
	if !ct {
		w.Header().Set("Content-Type", "application/json")
	}
	if a.Status == 0 {
		a.Status = 200
	}
	w.WriteHeader(a.Status)
	if a.Status != http.StatusNoContent {
		fmt.Fprint(w, a.Body)
	}
}

// c16NewNode starts a scripted beacon node that reports the given version string.
func c16NewNode(version string) *c16Server {
	s := c16NewServer()
	s.Set("/eth/v1/node/syncing", c16JSON(`{"data":{"head_slot":"1000","sync_distance":"0","is_syncing":false,"is_optimistic":false,"el_offline":false}}`))
	s.Set("/eth/v1/node/version", c16JSON(fmt.Sprintf(`{"data":{"version":%q}}`, version)))
	return s
}

// c16NodeClient connects the real go-eth2-client HTTP client to the scripted node.
func c16NodeClient(ctx context.Context, node *c16Server) eth2client.Service {
	client, err := eth2http.New(ctx,
		eth2http.WithLogLevel(c16LogLevel()),
		eth2http.WithAddress(node.URL()),
		eth2http.WithTimeout(5*time.Second),
		eth2http.WithEnforceJSON(true),
	)
	if err != nil {
		panic("c16 harness: cannot connect the client library to the scripted node: " + err.Error())
	}
	return client
}

// c16BadBodies are the answers shared by several entry points for "not what was asked for".
func c16BadAnswer(kind string) (c16Answer, bool) {
	switch kind {
	case "datanull":
		return c16JSON(`{"data":null}`), true
	case "emptyobj":
		return c16JSON(`{}`), true
	case "notjson":
		return c16JSON(`<html>502 bad gateway {</html>`), true
	case "http500":
		return c16Answer{Status: 500, Body: `{"code":500,"message":"internal error"}`}, true
	case "http404":
		return c16Answer{Status: 404, Body: `{"code":404,"message":"not found"}`}, true
	case "http400":
		return c16Answer{Status: 400, Body: `{"code":400,"message":"bad request"}`}, true
	case "nocontent":
		return c16Answer{Status: 204}, true
	}
	return c16Answer{}, false
}
