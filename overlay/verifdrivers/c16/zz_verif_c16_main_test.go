// Package c16 holds the conformance drivers of property C16 (spec/Robustness.tla): no data from a
// beacon node, relay or configuration can crash Vouch.  Injected with -overlay by /verif/check;
// never committed to the repository.
//
// Process structure.  TestVerifC16 is run by /verif/checks/C16.py.  The PARENT process never enters
// Vouch code: it partitions the scenarios into lanes (one per entry point) and runs every lane in a
// CHILD process (a re-exec of this test binary with VERIF_C16_CHILD=1).  The child executes its
// scenarios one after the other; for each it writes the line Call{ep,shape} (a single write(2), so
// the line survives the death of the process), calls the REAL code of the entry point in a fresh
// goroutine under defer/recover, and writes Outcome{ok|error|fallback}, Undeliverable, or
// Crash{text, frame, fatal:false} for a recovered panic.  A panic in a goroutine that Vouch itself
// started, or a fatal runtime error, kills the child: the parent then finds a Call without a closing
// line, writes Crash{fatal:true} with the panic text and the top Vouch frame taken from the child's
// stderr, and restarts the child on the remaining scenarios.  A scenario that does not end within
// the watchdog time is logged as Stuck (a broken run for the check, never a verdict).
package c16

import (
	"bufio"
	"bytes"
	"context"
	"encoding/json"
	"fmt"
	"os"
	"os/exec"
	"regexp"
	"runtime/debug"
	"sort"
	"strings"
	"sync"
	"testing"
	"time"

	"github.com/attestantio/vouch/verifsupport"
	"github.com/rs/zerolog"
	zerologger "github.com/rs/zerolog/log"
)

// c16Scenario is one lattice point: entry point + shape (all dimension values are strings).
type c16Scenario struct {
	Sc    int               `json:"sc"`
	Ep    string            `json:"ep"`
	Shape map[string]string `json:"shape,omitempty"`
	// history mode (spec/RobustnessInst.tla): the configuration of the long-lived instance (its probe
	// shape) and the steps of the history; see zz_verif_c16_inst_test.go
	Tmpl  string            `json:"tmpl,omitempty"`
	Inst  map[string]string `json:"inst,omitempty"`
	Steps []c16Step         `json:"steps,omitempty"`
}

func (s c16Scenario) history() bool { return len(s.Steps) > 0 }

// c16Res is how a duty ended.
type c16Res struct {
	Outcome string // ok | error | fallback | undeliverable
	Detail  string
}

func c16OK(detail string) c16Res       { return c16Res{"ok", detail} }
func c16Err(detail string) c16Res      { return c16Res{"error", detail} }
func c16Fallback(detail string) c16Res { return c16Res{"fallback", detail} }
func c16Undeliverable(detail string) c16Res {
	return c16Res{"undeliverable", detail}
}

// c16LogLevel is the log level given to every service (Disabled unless VERIF_C16_DEBUG is set).
func c16LogLevel() zerolog.Level {
	if os.Getenv("VERIF_C16_DEBUG") != "" {
		return zerolog.TraceLevel
	}
	return zerolog.Disabled
}

// c16Runner executes one shape on the real code of an entry point.
type c16Runner func(ctx context.Context, shape map[string]string) c16Res

// c16EmitKey carries the scenario's event writer in the runner's context: entry points that consume
// their input END TO END (decode, then use) log the intermediate spec actions Decoded{accepted} and
// Use{use, outcome} with it, each AFTER the real call returned.
type c16EmitKey struct{}

func c16Emit(ctx context.Context, ev c16Line) {
	if f, ok := ctx.Value(c16EmitKey{}).(func(c16Line)); ok {
		f(ev)
	}
}

func c16Decoded(ctx context.Context, accepted bool, detail string) {
	c16Emit(ctx, c16Line{"ev": "Decoded", "accepted": accepted, "detail": c16Short(detail, 160)})
}

func c16Used(ctx context.Context, use string, r c16Res) {
	c16Emit(ctx, c16Line{"ev": "Use", "use": use, "outcome": r.Outcome, "detail": c16Short(r.Detail, 160)})
}

// c16Terminal: the events that end a scenario (everything else is an intermediate step of it).
func c16Terminal(l c16Line, history bool) bool {
	if history {
		// a history goes on after a call came back (or lost its value in a library decoder)
		switch l["ev"] {
		case "Close", "Crash", "Hung", "Stuck", "HarnessError":
			return true
		case "DecoderPanic":
			fatal, _ := l["fatal"].(bool)
			return fatal
		}
		return false
	}
	switch l["ev"] {
	case "Outcome", "Undeliverable", "DecoderPanic", "Crash", "Stuck", "HarnessError":
		return true
	}
	return false
}

var c16Runners = map[string]c16Runner{}

func c16Register(ep string, r c16Runner) { c16Runners[ep] = r }

// c16Watchdog: a single-input scenario that has not ended after this time never will (the longest legitimate
// one is a block relay service start with a relay that does not answer: a few client time-outs of 2 s); the
// Stuck line is only a verdict if it reproduces when the scenario is run alone.
const c16Watchdog = 25 * time.Second

const c16LaneSize = 40

// histories are several calls each
const c16HistoryLaneSize = 10

func c16Short(s string, n int) string {
	s = strings.ReplaceAll(s, "\n", " | ")
	if len(s) > n {
		return s[:n]
	}
	return s
}

var c16FrameRe = regexp.MustCompile(`^(github\.com/attestantio/vouch/[^\s(]+)`)

// c16TopFrame extracts the first frame of Vouch's own code (not the drivers) from a Go stack dump:
// "services/x/y.go:123 pkg.func".
func c16TopFrame(stack string) string {
	lines := strings.Split(stack, "\n")
	for i := 0; i < len(lines); i++ {
		line := strings.TrimSpace(lines[i])
		if strings.HasPrefix(line, "created by ") {
			continue
		}
		if !c16FrameRe.MatchString(line) {
			continue
		}
		fn := line
		if k := strings.LastIndex(fn, "("); k > 0 {
			fn = fn[:k]
		}
		if strings.Contains(fn, "/verifdrivers/") || strings.Contains(fn, "/verifsupport") {
			continue
		}
		loc := ""
		if i+1 < len(lines) {
			loc = strings.TrimSpace(lines[i+1])
			if sp := strings.Index(loc, " "); sp > 0 {
				loc = loc[:sp]
			}
			for _, root := range []string{"/services/", "/strategies/", "/util/", "/mock/"} {
				if k := strings.Index(loc, root); k >= 0 {
					loc = loc[k+1:]
					break
				}
			}
		}
		fn = strings.TrimPrefix(fn, "github.com/attestantio/vouch/")
		if k := strings.LastIndex(fn, "/"); k >= 0 {
			fn = fn[k+1:]
		}
		fn = strings.NewReplacer("(*", "", ")", "").Replace(fn)
		return loc + " " + fn
	}
	return "(no vouch frame)"
}

// c16DecoderFrame reports whether the panic was raised inside the HTTP decoding layer of a client
// library (go-eth2-client/http, go-builder-client/http): the innermost frame that is not the Go
// runtime.  Such a panic means that the decoder does not deliver a value for the wire input; the
// property quantifies over delivered values only (see Robustness.tla, DecoderPanic).  Criterion: the
// callee of the first Vouch frame on the panicking goroutine's stack is a method of the library's
// HTTP client (the panic happened beneath the call Vouch made into the client).
func c16DecoderFrame(stack string) string {
	lines := strings.Split(stack, "\n")
	prev := ""
	for i := 0; i < len(lines); i++ {
		line := strings.TrimSpace(lines[i])
		if line == "" || strings.HasPrefix(line, "/") || strings.HasPrefix(line, "created by ") || strings.HasPrefix(line, "goroutine ") ||
			strings.HasPrefix(line, "[") || !strings.Contains(line, "(") {
			continue
		}
		if c16FrameRe.MatchString(line) && !strings.Contains(line, "/verifsupport") {
			// the first frame of Vouch (or of the driver): was its callee a client library HTTP method?
			for _, lib := range []string{"github.com/attestantio/go-eth2-client/http.", "github.com/attestantio/go-builder-client/http."} {
				if strings.HasPrefix(prev, lib) {
					fn := prev
					if k := strings.LastIndex(fn, "("); k > 0 {
						fn = fn[:k]
					}
					return strings.TrimPrefix(fn, "github.com/attestantio/")
				}
			}
			if strings.Contains(line, "/verifdrivers/") && prev == "" {
				continue // the recover closure of the driver itself
			}
			return ""
		}
		if strings.HasPrefix(line, "runtime/debug.Stack") || strings.HasPrefix(line, "panic(") {
			prev = ""
			continue
		}
		prev = line
	}
	return ""
}

// c16PanicText extracts the panic / fatal error message from a dying process's stderr.
func c16PanicText(stderr string) (string, string, string) {
	idx := -1
	for _, key := range []string{"\npanic: ", "\nfatal error: "} {
		if k := strings.Index("\n"+stderr, key); k >= 0 && (idx == -1 || k < idx) {
			idx = k
		}
	}
	if idx == -1 {
		return "", "", ""
	}
	rest := ("\n" + stderr)[idx+1:]
	text := rest
	if k := strings.Index(rest, "\n"); k >= 0 {
		text = rest[:k]
	}
	// "[signal SIGSEGV ...]" line adds nothing
	g := strings.Index(rest, "\ngoroutine ")
	stack := rest
	if g >= 0 {
		stack = rest[g:]
	}
	// only the panicking goroutine (the first one of the dump)
	if k := strings.Index(stack[1:], "\ngoroutine "); k >= 0 {
		stack = stack[:k+1]
	}
	return text, c16TopFrame(stack), c16DecoderFrame(stack)
}

// ---------------------------------------------------------------------------------------------
// child

type c16Line map[string]interface{}

type c16Log struct {
	mu sync.Mutex
	f  *os.File
}

func (l *c16Log) write(ev c16Line) {
	b, err := json.Marshal(ev)
	if err != nil {
		panic(err)
	}
	b = append(b, '\n')
	l.mu.Lock()
	defer l.mu.Unlock()
	if _, err := l.f.Write(b); err != nil {
		panic(err)
	}
}

func c16Child(t *testing.T) {
	if os.Getenv("VERIF_C16_DEBUG") == "" {
		zerolog.SetGlobalLevel(zerolog.Disabled)
		zerologger.Logger = zerologger.Logger.Level(zerolog.Disabled)
	}

	data, err := os.ReadFile(os.Getenv("VERIF_C16_IN"))
	if err != nil {
		t.Fatalf("child: %v", err)
	}
	var scenarios []c16Scenario
	for _, line := range bytes.Split(data, []byte("\n")) {
		if len(bytes.TrimSpace(line)) == 0 {
			continue
		}
		var s c16Scenario
		if err := json.Unmarshal(line, &s); err != nil {
			t.Fatalf("child: %v", err)
		}
		scenarios = append(scenarios, s)
	}
	f, err := os.OpenFile(os.Getenv("VERIF_C16_LOG"), os.O_WRONLY|os.O_APPEND|os.O_CREATE, 0o644)
	if err != nil {
		t.Fatalf("child: %v", err)
	}
	log := &c16Log{f: f}
	defer f.Close()

	for _, sc := range scenarios {
		if sc.history() {
			c16RunHistory(log, f, sc)
			continue
		}
		run, ok := c16Runners[sc.Ep]
		if !ok {
			t.Fatalf("child: no runner for entry point %q", sc.Ep)
		}
		log.write(c16Line{"sc": sc.Sc, "ev": "Call", "ep": sc.Ep, "shape": sc.Shape})
		type result struct {
			res     c16Res
			crash   bool
			text    string
			frame   string
			decoder string
		}
		done := make(chan result, 1)
		ctx, cancel := context.WithCancel(context.Background())
		scNo, scEp := sc.Sc, sc.Ep
		// intermediate lines (Decoded, Use, Aux) belong to the call: nothing is written for it once it has ended (a
		// goroutine the real code left behind may still ask a fake)
		var emu sync.Mutex
		ended := false
		ctx = context.WithValue(ctx, c16EmitKey{}, func(ev c16Line) {
			emu.Lock()
			defer emu.Unlock()
			if ended {
				return
			}
			ev["sc"], ev["ep"] = scNo, scEp
			log.write(ev)
		})
		go func() {
			defer func() {
				if r := recover(); r != nil {
					st := string(debug.Stack())
					done <- result{crash: true, text: c16Short(fmt.Sprint(r), 200), frame: c16TopFrame(st), decoder: c16DecoderFrame(st)}
				}
			}()
			done <- result{res: run(ctx, sc.Shape)}
		}()
		select {
		case r := <-done:
			emu.Lock()
			ended = true
			emu.Unlock()
			switch {
			case r.crash && strings.HasPrefix(r.text, "c16 harness:"):
				// the harness itself is broken: never a verdict
				log.write(c16Line{"sc": sc.Sc, "ev": "HarnessError", "ep": sc.Ep, "text": r.text})
				f.Close()
				os.Exit(4)
			case r.crash && r.decoder != "":
				log.write(c16Line{"sc": sc.Sc, "ev": "DecoderPanic", "ep": sc.Ep, "text": r.text, "decoder": r.decoder, "via": r.frame, "fatal": false})
			case r.crash:
				log.write(c16Line{"sc": sc.Sc, "ev": "Crash", "ep": sc.Ep, "text": r.text, "frame": r.frame, "fatal": false})
			case r.res.Outcome == "undeliverable":
				log.write(c16Line{"sc": sc.Sc, "ev": "Undeliverable", "ep": sc.Ep, "detail": c16Short(r.res.Detail, 160)})
			default:
				log.write(c16Line{"sc": sc.Sc, "ev": "Outcome", "ep": sc.Ep, "outcome": r.res.Outcome, "detail": c16Short(r.res.Detail, 160)})
			}
		case <-time.After(c16Watchdog):
			log.write(c16Line{"sc": sc.Sc, "ev": "Stuck", "ep": sc.Ep})
			cancel()
			// the goroutine is lost; leave the process so that the parent restarts after this scenario
			f.Close()
			os.Exit(3)
		}
		cancel()
	}
	log.write(c16Line{"ev": "Done"})
}

// ---------------------------------------------------------------------------------------------
// parent

func c16ReadLog(path string) []c16Line {
	data, err := os.ReadFile(path)
	if err != nil {
		return nil
	}
	var res []c16Line
	for _, line := range bytes.Split(data, []byte("\n")) {
		if len(bytes.TrimSpace(line)) == 0 {
			continue
		}
		var l c16Line
		if err := json.Unmarshal(line, &l); err != nil {
			continue // a torn last line
		}
		res = append(res, l)
	}
	return res
}

func c16Sc(l c16Line) int {
	switch v := l["sc"].(type) {
	case float64:
		return int(v)
	case int:
		return v
	}
	return -1
}

// c16RunLane runs the scenarios of one lane in child processes and returns their trace lines.
func c16RunLane(t *testing.T, dir string, lane string, scenarios []c16Scenario) ([]c16Line, error) {
	var all []c16Line
	remaining := scenarios
	round := 0
	histories := map[int]bool{}
	for _, s := range scenarios {
		histories[s.Sc] = s.history()
	}
	for len(remaining) > 0 {
		round++
		in := fmt.Sprintf("%s/lane-%s-%d.in", dir, lane, round)
		logp := fmt.Sprintf("%s/lane-%s-%d.log", dir, lane, round)
		fh, err := os.Create(in)
		if err != nil {
			return nil, err
		}
		w := bufio.NewWriter(fh)
		for _, s := range remaining {
			b, _ := json.Marshal(s)
			w.Write(b)
			w.WriteByte('\n')
		}
		w.Flush()
		fh.Close()
		os.Remove(logp)

		cmd := exec.Command(os.Args[0], "-test.run=^TestVerifC16$", "-test.timeout=1200s")
		cmd.Env = append(os.Environ(), "VERIF_C16_CHILD=1", "VERIF_C16_IN="+in, "VERIF_C16_LOG="+logp)
		var stderr bytes.Buffer
		cmd.Stdout = &stderr
		cmd.Stderr = &stderr
		runErr := cmd.Run()
		os.WriteFile(fmt.Sprintf("%s/lane-%s-%d.stderr", dir, lane, round), stderr.Bytes(), 0o644)

		lines := c16ReadLog(logp)
		doneSeen := false
		closed := map[int]bool{}
		var pending *c16Line
		for i := range lines {
			l := lines[i]
			if l["ev"] == "Done" {
				doneSeen = true
				continue
			}
			// every line of a scenario but its terminal one leaves the scenario pending; a line that a goroutine of
			// the scenario still wrote behind its terminal line (a relay answering a poll while the child is leaving
			// after a Hung / Stuck line) is dropped
			if closed[c16Sc(l)] {
				continue
			}
			if c16Terminal(l, histories[c16Sc(l)]) {
				pending = nil
				closed[c16Sc(l)] = true
			} else {
				pending = &lines[i]
			}
			all = append(all, l)
		}
		if doneSeen && runErr == nil {
			return all, nil
		}
		for _, l := range lines {
			if l["ev"] == "HarnessError" {
				return nil, fmt.Errorf("lane %s: harness error in scenario %d: %v", lane, c16Sc(l), l["text"])
			}
		}
		if pending == nil {
			// died between scenarios (or a Stuck line closed the last one)
			next := 0
			for i, s := range remaining {
				if closed[s.Sc] {
					next = i + 1
				}
			}
			if next == 0 {
				return nil, fmt.Errorf("lane %s: child made no progress (%v):\n%s", lane, runErr, c16Short(stderr.String(), 3000))
			}
			// a panic AFTER the last scenario had ended (a goroutine the real code left behind): it belongs to that
			// scenario, whose trace then goes on with a Crash line behind its end (late: true)
			if text, frame, decoder := c16PanicText(stderr.String()); text != "" && decoder == "" && !strings.Contains(text, "c16 harness:") {
				last := remaining[next-1]
				all = append(all, c16Line{"sc": last.Sc, "ev": "Crash", "ep": last.Ep, "text": c16Short(text, 200), "frame": frame, "fatal": true, "late": true, "calls": []int{}})
			}
			remaining = remaining[next:]
			continue
		}
		sc := c16Sc(*pending)
		text, frame, decoder := c16PanicText(stderr.String())
		if text == "" {
			return nil, fmt.Errorf("lane %s: child died in scenario %d without a panic message (%v):\n%s", lane, sc, runErr, c16Short(stderr.String(), 3000))
		}
		if strings.Contains(text, "c16 harness:") {
			// the harness itself is broken (a panic outside the protected goroutines): never a verdict
			return nil, fmt.Errorf("lane %s: harness error in scenario %d: %s", lane, sc, text)
		}
		if decoder != "" {
			all = append(all, c16Line{"sc": sc, "ev": "DecoderPanic", "ep": (*pending)["ep"], "text": c16Short(text, 200), "decoder": decoder, "via": frame, "fatal": true})
		} else {
			all = append(all, c16Line{"sc": sc, "ev": "Crash", "ep": (*pending)["ep"], "text": c16Short(text, 200), "frame": frame, "fatal": true})
		}
		if histories[sc] {
			// the calls of the history that had been started and had not come back when the process died
			open := map[int]bool{}
			for _, l := range lines {
				if c16Sc(l) != sc {
					continue
				}
				n, _ := l["call"].(float64)
				switch l["ev"] {
				case "Call":
					open[int(n)] = true
				case "Return", "Undeliverable", "DecoderPanic":
					delete(open, int(n))
				}
			}
			calls := []int{}
			for n := range open {
				calls = append(calls, n)
			}
			sort.Ints(calls)
			all[len(all)-1]["calls"] = calls
		}
		next := len(remaining)
		for i, s := range remaining {
			if s.Sc == sc {
				next = i + 1
			}
		}
		remaining = remaining[next:]
		if round > len(scenarios)+2 {
			return nil, fmt.Errorf("lane %s: too many restarts", lane)
		}
	}
	return all, nil
}

func TestVerifC16(t *testing.T) {
	if os.Getenv("VERIF_C16_CHILD") == "1" {
		c16Child(t)
		return
	}
	var scenarios []c16Scenario
	verifsupport.Scenarios(t, &scenarios)
	tr := verifsupport.OpenTrace(t)
	defer tr.Close()

	dir, err := os.MkdirTemp("", "verif-c16-")
	if err != nil {
		t.Fatal(err)
	}
	defer os.RemoveAll(dir)
	if keep := os.Getenv("VERIF_C16_KEEP"); keep != "" {
		dir = keep
		os.MkdirAll(dir, 0o755)
	}

	// one lane per entry point and chunk of scenarios (entry points with timeouts would otherwise
	// dominate the wall time)
	lanes := map[string][]c16Scenario{}
	count := map[string]int{}
	for _, s := range scenarios {
		if _, ok := c16Runners[s.Ep]; !ok {
			t.Fatalf("no runner for entry point %q", s.Ep)
		}
		lane := fmt.Sprintf("%s-%02d", s.Ep, count[s.Ep]/c16LaneSize)
		if s.history() {
			if _, ok := c16Factories[s.Ep]; !ok {
				t.Fatalf("no long-lived instance for entry point %q", s.Ep)
			}
			lane = fmt.Sprintf("h-%s-%02d", s.Ep, count["h-"+s.Ep]/c16HistoryLaneSize)
			count["h-"+s.Ep]++
			lanes[lane] = append(lanes[lane], s)
			continue
		}
		count[s.Ep]++
		lanes[lane] = append(lanes[lane], s)
	}
	names := make([]string, 0, len(lanes))
	for n := range lanes {
		names = append(names, n)
	}
	sort.Strings(names)

	results := map[string][]c16Line{}
	var mu sync.Mutex
	var wg sync.WaitGroup
	// most lanes wait (timeouts of strategies and clients, held calls) rather than compute
	sem := make(chan struct{}, 24)
	var firstErr error
	for _, n := range names {
		wg.Add(1)
		go func(n string) {
			defer wg.Done()
			sem <- struct{}{}
			defer func() { <-sem }()
			t0 := time.Now()
			lines, err := c16RunLane(t, dir, n, lanes[n])
			fmt.Printf("lane %s: %d scenarios, %.1fs\n", n, len(lanes[n]), time.Since(t0).Seconds())
			mu.Lock()
			defer mu.Unlock()
			if err != nil && firstErr == nil {
				firstErr = err
			}
			results[n] = lines
		}(n)
	}
	wg.Wait()
	if firstErr != nil {
		t.Fatalf("%v", firstErr)
	}

	bySc := map[int][]c16Line{}
	for _, lines := range results {
		for _, l := range lines {
			sc := c16Sc(l)
			bySc[sc] = append(bySc[sc], l)
		}
	}
	for _, s := range scenarios {
		tr.Emit(verifsupport.Ev{"sc": s.Sc, "ev": "Reset"})
		for _, l := range bySc[s.Sc] {
			l["sc"] = s.Sc
			tr.Emit(verifsupport.Ev(l))
		}
	}
}
