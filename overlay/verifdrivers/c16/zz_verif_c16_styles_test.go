package c16

// STRATEGY STYLES (RobustnessShapes!StrategyStyles).  Between a duty service and the beacon nodes main.go puts the
// strategy an operator selected (select*Provider: strategies.<kind>.style); every style is a sibling implementation
// of the same operation on its own code path.  The functions below wire the REAL strategies the way main.go does -
// the same options, the providers being the real go-eth2-client HTTP clients of the scripted nodes, keyed by node
// address - so that every untrusted-input entry point is driven for every style of its kind.  "direct" is the
// default arm of main.go's switch: the client itself.

import (
	"context"
	"time"

	eth2client "github.com/attestantio/go-eth2-client"
	"github.com/attestantio/go-eth2-client/spec/phase0"
	"github.com/attestantio/vouch/services/cache"
	mockcache "github.com/attestantio/vouch/services/cache/mock"
	"github.com/attestantio/vouch/services/chaintime"
	"github.com/attestantio/vouch/services/metrics"
	nullmetrics "github.com/attestantio/vouch/services/metrics/null"
	bestaggregate "github.com/attestantio/vouch/strategies/aggregateattestation/best"
	firstaggregate "github.com/attestantio/vouch/strategies/aggregateattestation/first"
	bestattestationdata "github.com/attestantio/vouch/strategies/attestationdata/best"
	firstattestationdata "github.com/attestantio/vouch/strategies/attestationdata/first"
	majorityattestationdata "github.com/attestantio/vouch/strategies/attestationdata/majority"
	firstblockroot "github.com/attestantio/vouch/strategies/beaconblockroot/first"
	majorityblockroot "github.com/attestantio/vouch/strategies/beaconblockroot/majority"
	firstsignedblock "github.com/attestantio/vouch/strategies/signedbeaconblock/first"
	bestcontribution "github.com/attestantio/vouch/strategies/synccommitteecontribution/best"
	firstcontribution "github.com/attestantio/vouch/strategies/synccommitteecontribution/first"
)

// c16StrategyTimeout: the time-out of every node strategy (main.go: util.Timeout(path), default 2 s).
const c16StrategyTimeout = 600 * time.Millisecond

// c16Settle: a strategy returns with the first usable answer and leaves its requests to the other nodes behind;
// they end (or are cancelled) within the call, so that a late panic is attributed to the right scenario.
func c16Settle(style string) {
	if style != "direct" && style != "" {
		time.Sleep(25 * time.Millisecond)
	}
}

func c16ClientMonitor() metrics.ClientMonitor {
	m, ok := interface{}(nullmetrics.New()).(metrics.ClientMonitor)
	if !ok {
		panic("c16 harness: the null monitor is not a client monitor")
	}
	return m
}

// c16RootCache is the cache the best / majority strategies ask for the slot of a block root (main.go hands them the
// cache service); the scripted nodes vote for root 0xbb.., which it knows as a recent block.
func c16RootCache() cache.BlockRootToSlotProvider {
	c, ok := mockcache.New(map[phase0.Root]phase0.Slot{}).(cache.BlockRootToSlotProvider)
	if !ok {
		panic("c16 harness: the mock cache is not a block root to slot provider")
	}
	return c
}

func c16Must(what string, err error) {
	if err != nil {
		panic("c16 harness: " + what + " strategy: " + err.Error())
	}
}

// c16AttestationDataProvider: main.go's selectAttestationDataProvider.
func c16AttestationDataProvider(ctx context.Context, style string, clients map[string]eth2client.Service, direct eth2client.Service, ct chaintime.Service) eth2client.AttestationDataProvider {
	providers := map[string]eth2client.AttestationDataProvider{}
	for a, c := range clients {
		providers[a] = c.(eth2client.AttestationDataProvider)
	}
	switch style {
	case "best":
		s, err := bestattestationdata.New(ctx,
			bestattestationdata.WithClientMonitor(c16ClientMonitor()),
			bestattestationdata.WithProcessConcurrency(2),
			bestattestationdata.WithLogLevel(c16LogLevel()),
			bestattestationdata.WithAttestationDataProviders(providers),
			bestattestationdata.WithTimeout(c16StrategyTimeout),
			bestattestationdata.WithChainTime(ct),
			bestattestationdata.WithBlockRootToSlotCache(c16RootCache()),
		)
		c16Must("best attestation data", err)
		return s
	case "majority":
		s, err := majorityattestationdata.New(ctx,
			majorityattestationdata.WithClientMonitor(c16ClientMonitor()),
			majorityattestationdata.WithProcessConcurrency(2),
			majorityattestationdata.WithLogLevel(c16LogLevel()),
			majorityattestationdata.WithAttestationDataProviders(providers),
			majorityattestationdata.WithTimeout(c16StrategyTimeout),
			majorityattestationdata.WithChainTime(ct),
			majorityattestationdata.WithBlockRootToSlotCache(c16RootCache()),
			majorityattestationdata.WithThreshold(1),
		)
		c16Must("majority attestation data", err)
		return s
	case "first":
		s, err := firstattestationdata.New(ctx,
			firstattestationdata.WithClientMonitor(c16ClientMonitor()),
			firstattestationdata.WithLogLevel(c16LogLevel()),
			firstattestationdata.WithAttestationDataProviders(providers),
			firstattestationdata.WithTimeout(c16StrategyTimeout),
		)
		c16Must("first attestation data", err)
		return s
	case "direct", "":
		return direct.(eth2client.AttestationDataProvider)
	}
	panic("c16 harness: unknown attestation data style " + style)
}

// c16AggregateAttestationProvider: main.go's selectAggregateAttestationProvider.
func c16AggregateAttestationProvider(ctx context.Context, style string, clients map[string]eth2client.Service, direct eth2client.Service) eth2client.AggregateAttestationProvider {
	providers := map[string]eth2client.AggregateAttestationProvider{}
	for a, c := range clients {
		providers[a] = c.(eth2client.AggregateAttestationProvider)
	}
	switch style {
	case "best":
		s, err := bestaggregate.New(ctx,
			bestaggregate.WithClientMonitor(c16ClientMonitor()),
			bestaggregate.WithProcessConcurrency(2),
			bestaggregate.WithLogLevel(c16LogLevel()),
			bestaggregate.WithAggregateAttestationProviders(providers),
			bestaggregate.WithTimeout(c16StrategyTimeout),
		)
		c16Must("best aggregate attestation", err)
		return s
	case "first":
		s, err := firstaggregate.New(ctx,
			firstaggregate.WithClientMonitor(c16ClientMonitor()),
			firstaggregate.WithLogLevel(c16LogLevel()),
			firstaggregate.WithAggregateAttestationProviders(providers),
			firstaggregate.WithTimeout(c16StrategyTimeout),
		)
		c16Must("first aggregate attestation", err)
		return s
	case "direct", "":
		return direct.(eth2client.AggregateAttestationProvider)
	}
	panic("c16 harness: unknown aggregate attestation style " + style)
}

// c16ContributionProvider: main.go's selectSyncCommitteeContributionProvider.
func c16ContributionProvider(ctx context.Context, style string, clients map[string]eth2client.Service, direct eth2client.Service) eth2client.SyncCommitteeContributionProvider {
	providers := map[string]eth2client.SyncCommitteeContributionProvider{}
	for a, c := range clients {
		providers[a] = c.(eth2client.SyncCommitteeContributionProvider)
	}
	switch style {
	case "best":
		s, err := bestcontribution.New(ctx,
			bestcontribution.WithClientMonitor(c16ClientMonitor()),
			bestcontribution.WithProcessConcurrency(2),
			bestcontribution.WithLogLevel(c16LogLevel()),
			bestcontribution.WithSyncCommitteeContributionProviders(providers),
			bestcontribution.WithTimeout(c16StrategyTimeout),
		)
		c16Must("best sync committee contribution", err)
		return s
	case "first":
		s, err := firstcontribution.New(ctx,
			firstcontribution.WithClientMonitor(c16ClientMonitor()),
			firstcontribution.WithLogLevel(c16LogLevel()),
			firstcontribution.WithSyncCommitteeContributionProviders(providers),
			firstcontribution.WithTimeout(c16StrategyTimeout),
		)
		c16Must("first sync committee contribution", err)
		return s
	case "direct", "":
		return direct.(eth2client.SyncCommitteeContributionProvider)
	}
	panic("c16 harness: unknown sync committee contribution style " + style)
}

// c16BlockRootProvider: main.go's selectBeaconBlockRootProvider.
func c16BlockRootProvider(ctx context.Context, style string, clients map[string]eth2client.Service, direct eth2client.Service) eth2client.BeaconBlockRootProvider {
	providers := map[string]eth2client.BeaconBlockRootProvider{}
	for a, c := range clients {
		providers[a] = c.(eth2client.BeaconBlockRootProvider)
	}
	switch style {
	case "majority":
		s, err := majorityblockroot.New(ctx,
			majorityblockroot.WithClientMonitor(c16ClientMonitor()),
			majorityblockroot.WithProcessConcurrency(2),
			majorityblockroot.WithLogLevel(c16LogLevel()),
			majorityblockroot.WithBeaconBlockRootProviders(providers),
			majorityblockroot.WithTimeout(c16StrategyTimeout),
			majorityblockroot.WithBlockRootToSlotCache(c16RootCache()),
		)
		c16Must("majority beacon block root", err)
		return s
	case "first":
		s, err := firstblockroot.New(ctx,
			firstblockroot.WithClientMonitor(c16ClientMonitor()),
			firstblockroot.WithLogLevel(c16LogLevel()),
			firstblockroot.WithBeaconBlockRootProviders(providers),
			firstblockroot.WithTimeout(c16StrategyTimeout),
		)
		c16Must("first beacon block root", err)
		return s
	case "direct", "":
		return direct.(eth2client.BeaconBlockRootProvider)
	}
	panic("c16 harness: unknown beacon block root style " + style)
}

// c16SignedBlockProvider: main.go's selectSignedBeaconBlockProvider ("first" is the default there).
func c16SignedBlockProvider(ctx context.Context, style string, clients map[string]eth2client.Service, direct eth2client.Service) eth2client.SignedBeaconBlockProvider {
	providers := map[string]eth2client.SignedBeaconBlockProvider{}
	for a, c := range clients {
		providers[a] = c.(eth2client.SignedBeaconBlockProvider)
	}
	switch style {
	case "first":
		s, err := firstsignedblock.New(ctx,
			firstsignedblock.WithTimeout(c16StrategyTimeout),
			firstsignedblock.WithClientMonitor(c16ClientMonitor()),
			firstsignedblock.WithLogLevel(c16LogLevel()),
			firstsignedblock.WithSignedBeaconBlockProviders(providers),
		)
		c16Must("first signed beacon block", err)
		return s
	case "direct", "":
		return direct.(eth2client.SignedBeaconBlockProvider)
	}
	panic("c16 harness: unknown signed beacon block style " + style)
}

// c16Node1Kind: what the second node answers for a shape: `node1`, "same" = what node 0 answers.
func c16Node1Kind(sh map[string]string) string {
	if sh["node1"] == "same" {
		return sh["body"]
	}
	return sh["node1"]
}
