package c16

// c16Signer signs everything with a fixed non-zero signature, one per account handed in (a nil
// account gets the zero signature, as the real signer does for an account it cannot use).

import (
	"context"

	builderapi "github.com/attestantio/go-builder-client/api"
	"github.com/attestantio/go-eth2-client/spec/altair"
	"github.com/attestantio/go-eth2-client/spec/phase0"
	e2wtypes "github.com/wealdtech/go-eth2-wallet-types/v2"
)

type c16Signer struct{}

func c16Sig() phase0.BLSSignature {
	var s phase0.BLSSignature
	s[0], s[95] = 0xa5, 0x5a
	return s
}

func c16Sigs(accounts []e2wtypes.Account) []phase0.BLSSignature {
	res := make([]phase0.BLSSignature, len(accounts))
	for i := range accounts {
		if accounts[i] != nil {
			res[i] = c16Sig()
		}
	}
	return res
}

func (*c16Signer) SignAggregateAndProof(_ context.Context, _ e2wtypes.Account, _ phase0.Slot, _ phase0.Root) (phase0.BLSSignature, error) {
	return c16Sig(), nil
}

func (*c16Signer) SignBeaconAttestation(_ context.Context, _ e2wtypes.Account, _ phase0.Slot, _ phase0.CommitteeIndex, _ phase0.Root, _ phase0.Epoch, _ phase0.Root, _ phase0.Epoch, _ phase0.Root) (phase0.BLSSignature, error) {
	return c16Sig(), nil
}

func (*c16Signer) SignBeaconAttestations(_ context.Context, accounts []e2wtypes.Account, _ phase0.Slot, _ []phase0.CommitteeIndex, _ phase0.Root, _ phase0.Epoch, _ phase0.Root, _ phase0.Epoch, _ phase0.Root) ([]phase0.BLSSignature, error) {
	return c16Sigs(accounts), nil
}

func (*c16Signer) SignBeaconBlockProposal(_ context.Context, _ e2wtypes.Account, _ phase0.Slot, _ phase0.ValidatorIndex, _ phase0.Root, _ phase0.Root, _ phase0.Root) (phase0.BLSSignature, error) {
	return c16Sig(), nil
}

func (*c16Signer) SignRANDAOReveal(_ context.Context, _ e2wtypes.Account, _ phase0.Slot) (phase0.BLSSignature, error) {
	return c16Sig(), nil
}

func (*c16Signer) SignSlotSelections(_ context.Context, accounts []e2wtypes.Account, _ phase0.Slot) ([]phase0.BLSSignature, error) {
	return c16Sigs(accounts), nil
}

func (*c16Signer) SignSlotSelection(_ context.Context, _ e2wtypes.Account, _ phase0.Slot) (phase0.BLSSignature, error) {
	return c16Sig(), nil
}

func (*c16Signer) SignContributionAndProofs(_ context.Context, accounts []e2wtypes.Account, _ []*altair.ContributionAndProof) ([]phase0.BLSSignature, error) {
	return c16Sigs(accounts), nil
}

func (*c16Signer) SignContributionAndProof(_ context.Context, _ e2wtypes.Account, _ *altair.ContributionAndProof) (phase0.BLSSignature, error) {
	return c16Sig(), nil
}

func (*c16Signer) SignSyncCommitteeRoots(_ context.Context, accounts []e2wtypes.Account, _ phase0.Epoch, _ phase0.Root) ([]phase0.BLSSignature, error) {
	return c16Sigs(accounts), nil
}

func (*c16Signer) SignSyncCommitteeRoot(_ context.Context, _ e2wtypes.Account, _ phase0.Epoch, _ phase0.Root) (phase0.BLSSignature, error) {
	return c16Sig(), nil
}

func (*c16Signer) SignSyncCommitteeSelections(_ context.Context, accounts []e2wtypes.Account, _ phase0.Slot, _ []uint64) ([]phase0.BLSSignature, error) {
	return c16Sigs(accounts), nil
}

func (*c16Signer) SignSyncCommitteeSelection(_ context.Context, _ e2wtypes.Account, _ phase0.Slot, _ uint64) (phase0.BLSSignature, error) {
	return c16Sig(), nil
}

func (*c16Signer) SignValidatorRegistration(_ context.Context, _ e2wtypes.Account, _ *builderapi.VersionedValidatorRegistration) (phase0.BLSSignature, error) {
	return c16Sig(), nil
}

func (*c16Signer) SignBlobSidecar(_ context.Context, _ e2wtypes.Account, _ phase0.Slot, _ phase0.Root) (phase0.BLSSignature, error) {
	return c16Sig(), nil
}
