package c16

// Minimal complete blocks of every consensus version (plain and blinded), built with the library's
// own types and rendered with the library's own JSON encoders: the bodies the scripted beacon node
// and relay serve.  Payload and payload header are consistent (same hash tree root), as the relay
// unblinding check of go-builder-client requires.

import (
	"encoding/json"
	"fmt"

	apiv1bellatrix "github.com/attestantio/go-eth2-client/api/v1/bellatrix"
	apiv1capella "github.com/attestantio/go-eth2-client/api/v1/capella"
	apiv1deneb "github.com/attestantio/go-eth2-client/api/v1/deneb"
	"github.com/attestantio/go-eth2-client/spec/altair"
	"github.com/attestantio/go-eth2-client/spec/bellatrix"
	"github.com/attestantio/go-eth2-client/spec/capella"
	"github.com/attestantio/go-eth2-client/spec/deneb"
	"github.com/attestantio/go-eth2-client/spec/phase0"
	utilbellatrix "github.com/attestantio/go-eth2-client/util/bellatrix"
	utilcapella "github.com/attestantio/go-eth2-client/util/capella"
	"github.com/holiman/uint256"
	"github.com/prysmaticlabs/go-bitfield"
)

type c16BlockSpec struct {
	Slot     phase0.Slot
	Randao   phase0.BLSSignature
	Graffiti [32]byte
	ZeroFee  bool
	// Number is the height of the execution block (0: 100); call k of a history is for a higher block
	Number uint64
}

func (b c16BlockSpec) blockNumber() uint64 {
	if b.Number == 0 {
		return 100
	}
	return b.Number
}

func c16MustJSON(v interface{}) string {
	b, err := json.Marshal(v)
	if err != nil {
		panic("c16 harness: marshal: " + err.Error())
	}
	return string(b)
}

func c16Eth1() *phase0.ETH1Data {
	return &phase0.ETH1Data{DepositRoot: phase0.Root{0x40}, DepositCount: 16384, BlockHash: make([]byte, 32)}
}

func c16SyncAggregate() *altair.SyncAggregate {
	return &altair.SyncAggregate{SyncCommitteeBits: bitfield.NewBitvector512()}
}

func c16FeeRecipient(b c16BlockSpec) bellatrix.ExecutionAddress {
	if b.ZeroFee {
		return bellatrix.ExecutionAddress{}
	}
	return bellatrix.ExecutionAddress{0x01, 0x02}
}

func c16TxRoot() phase0.Root {
	r, err := (&utilbellatrix.ExecutionPayloadTransactions{Transactions: []bellatrix.Transaction{}}).HashTreeRoot()
	if err != nil {
		panic("c16 harness: " + err.Error())
	}
	return r
}

func c16WdRoot() phase0.Root {
	r, err := (&utilcapella.ExecutionPayloadWithdrawals{Withdrawals: []*capella.Withdrawal{}}).HashTreeRoot()
	if err != nil {
		panic("c16 harness: " + err.Error())
	}
	return r
}

func c16BellatrixPayload(b c16BlockSpec) (*bellatrix.ExecutionPayload, *bellatrix.ExecutionPayloadHeader) {
	p := &bellatrix.ExecutionPayload{
		ParentHash: phase0.Hash32{0x0a}, FeeRecipient: c16FeeRecipient(b), StateRoot: [32]byte{0x01}, ReceiptsRoot: [32]byte{0x02},
		PrevRandao: [32]byte{0x03}, BlockNumber: b.blockNumber(), GasLimit: 30000000, GasUsed: 21000, Timestamp: 1700000000,
		ExtraData: []byte{}, BaseFeePerGas: [32]byte{0x07}, BlockHash: phase0.Hash32{0xb1}, Transactions: []bellatrix.Transaction{},
	}
	h := &bellatrix.ExecutionPayloadHeader{
		ParentHash: p.ParentHash, FeeRecipient: p.FeeRecipient, StateRoot: p.StateRoot, ReceiptsRoot: p.ReceiptsRoot,
		PrevRandao: p.PrevRandao, BlockNumber: p.BlockNumber, GasLimit: p.GasLimit, GasUsed: p.GasUsed, Timestamp: p.Timestamp,
		ExtraData: []byte{}, BaseFeePerGas: p.BaseFeePerGas, BlockHash: p.BlockHash, TransactionsRoot: c16TxRoot(),
	}
	return p, h
}

func c16CapellaPayload(b c16BlockSpec) (*capella.ExecutionPayload, *capella.ExecutionPayloadHeader) {
	p := &capella.ExecutionPayload{
		ParentHash: phase0.Hash32{0x0a}, FeeRecipient: c16FeeRecipient(b), StateRoot: [32]byte{0x01}, ReceiptsRoot: [32]byte{0x02},
		PrevRandao: [32]byte{0x03}, BlockNumber: b.blockNumber(), GasLimit: 30000000, GasUsed: 21000, Timestamp: 1700000000,
		ExtraData: []byte{}, BaseFeePerGas: [32]byte{0x07}, BlockHash: phase0.Hash32{0xb1}, Transactions: []bellatrix.Transaction{},
		Withdrawals: []*capella.Withdrawal{},
	}
	h := &capella.ExecutionPayloadHeader{
		ParentHash: p.ParentHash, FeeRecipient: p.FeeRecipient, StateRoot: p.StateRoot, ReceiptsRoot: p.ReceiptsRoot,
		PrevRandao: p.PrevRandao, BlockNumber: p.BlockNumber, GasLimit: p.GasLimit, GasUsed: p.GasUsed, Timestamp: p.Timestamp,
		ExtraData: []byte{}, BaseFeePerGas: p.BaseFeePerGas, BlockHash: p.BlockHash, TransactionsRoot: c16TxRoot(),
		WithdrawalsRoot: c16WdRoot(),
	}
	return p, h
}

func c16DenebPayload(b c16BlockSpec) (*deneb.ExecutionPayload, *deneb.ExecutionPayloadHeader) {
	p := &deneb.ExecutionPayload{
		ParentHash: phase0.Hash32{0x0a}, FeeRecipient: c16FeeRecipient(b), StateRoot: phase0.Root{0x01}, ReceiptsRoot: phase0.Root{0x02},
		PrevRandao: [32]byte{0x03}, BlockNumber: b.blockNumber(), GasLimit: 30000000, GasUsed: 21000, Timestamp: 1700000000,
		ExtraData: []byte{}, BaseFeePerGas: uint256.NewInt(7), BlockHash: phase0.Hash32{0xb1}, Transactions: []bellatrix.Transaction{},
		Withdrawals: []*capella.Withdrawal{},
	}
	h := &deneb.ExecutionPayloadHeader{
		ParentHash: p.ParentHash, FeeRecipient: p.FeeRecipient, StateRoot: p.StateRoot, ReceiptsRoot: p.ReceiptsRoot,
		PrevRandao: p.PrevRandao, BlockNumber: p.BlockNumber, GasLimit: p.GasLimit, GasUsed: p.GasUsed, Timestamp: p.Timestamp,
		ExtraData: []byte{}, BaseFeePerGas: uint256.NewInt(7), BlockHash: p.BlockHash, TransactionsRoot: c16TxRoot(),
		WithdrawalsRoot: c16WdRoot(),
	}
	return p, h
}

// c16Block returns the library value of a block (plain or blinded) of the given version.
func c16Block(ver string, blinded bool, b c16BlockSpec) interface{} {
	parent, state := phase0.Root{0x0f}, phase0.Root{0x2f}
	switch ver {
	case "phase0":
		return &phase0.BeaconBlock{Slot: b.Slot, ProposerIndex: 1, ParentRoot: parent, StateRoot: state, Body: &phase0.BeaconBlockBody{
			RANDAOReveal: b.Randao, ETH1Data: c16Eth1(), Graffiti: b.Graffiti, ProposerSlashings: []*phase0.ProposerSlashing{},
			AttesterSlashings: []*phase0.AttesterSlashing{}, Attestations: []*phase0.Attestation{}, Deposits: []*phase0.Deposit{},
			VoluntaryExits: []*phase0.SignedVoluntaryExit{},
		}}
	case "altair":
		return &altair.BeaconBlock{Slot: b.Slot, ProposerIndex: 1, ParentRoot: parent, StateRoot: state, Body: &altair.BeaconBlockBody{
			RANDAOReveal: b.Randao, ETH1Data: c16Eth1(), Graffiti: b.Graffiti, ProposerSlashings: []*phase0.ProposerSlashing{},
			AttesterSlashings: []*phase0.AttesterSlashing{}, Attestations: []*phase0.Attestation{}, Deposits: []*phase0.Deposit{},
			VoluntaryExits: []*phase0.SignedVoluntaryExit{}, SyncAggregate: c16SyncAggregate(),
		}}
	case "bellatrix":
		p, h := c16BellatrixPayload(b)
		if blinded {
			return &apiv1bellatrix.BlindedBeaconBlock{Slot: b.Slot, ProposerIndex: 1, ParentRoot: parent, StateRoot: state, Body: &apiv1bellatrix.BlindedBeaconBlockBody{
				RANDAOReveal: b.Randao, ETH1Data: c16Eth1(), Graffiti: b.Graffiti, ProposerSlashings: []*phase0.ProposerSlashing{},
				AttesterSlashings: []*phase0.AttesterSlashing{}, Attestations: []*phase0.Attestation{}, Deposits: []*phase0.Deposit{},
				VoluntaryExits: []*phase0.SignedVoluntaryExit{}, SyncAggregate: c16SyncAggregate(), ExecutionPayloadHeader: h,
			}}
		}
		return &bellatrix.BeaconBlock{Slot: b.Slot, ProposerIndex: 1, ParentRoot: parent, StateRoot: state, Body: &bellatrix.BeaconBlockBody{
			RANDAOReveal: b.Randao, ETH1Data: c16Eth1(), Graffiti: b.Graffiti, ProposerSlashings: []*phase0.ProposerSlashing{},
			AttesterSlashings: []*phase0.AttesterSlashing{}, Attestations: []*phase0.Attestation{}, Deposits: []*phase0.Deposit{},
			VoluntaryExits: []*phase0.SignedVoluntaryExit{}, SyncAggregate: c16SyncAggregate(), ExecutionPayload: p,
		}}
	case "capella":
		p, h := c16CapellaPayload(b)
		if blinded {
			return &apiv1capella.BlindedBeaconBlock{Slot: b.Slot, ProposerIndex: 1, ParentRoot: parent, StateRoot: state, Body: &apiv1capella.BlindedBeaconBlockBody{
				RANDAOReveal: b.Randao, ETH1Data: c16Eth1(), Graffiti: b.Graffiti, ProposerSlashings: []*phase0.ProposerSlashing{},
				AttesterSlashings: []*phase0.AttesterSlashing{}, Attestations: []*phase0.Attestation{}, Deposits: []*phase0.Deposit{},
				VoluntaryExits: []*phase0.SignedVoluntaryExit{}, SyncAggregate: c16SyncAggregate(), ExecutionPayloadHeader: h,
				BLSToExecutionChanges: []*capella.SignedBLSToExecutionChange{},
			}}
		}
		return &capella.BeaconBlock{Slot: b.Slot, ProposerIndex: 1, ParentRoot: parent, StateRoot: state, Body: &capella.BeaconBlockBody{
			RANDAOReveal: b.Randao, ETH1Data: c16Eth1(), Graffiti: b.Graffiti, ProposerSlashings: []*phase0.ProposerSlashing{},
			AttesterSlashings: []*phase0.AttesterSlashing{}, Attestations: []*phase0.Attestation{}, Deposits: []*phase0.Deposit{},
			VoluntaryExits: []*phase0.SignedVoluntaryExit{}, SyncAggregate: c16SyncAggregate(), ExecutionPayload: p,
			BLSToExecutionChanges: []*capella.SignedBLSToExecutionChange{},
		}}
	case "deneb":
		p, h := c16DenebPayload(b)
		if blinded {
			return &apiv1deneb.BlindedBeaconBlock{Slot: b.Slot, ProposerIndex: 1, ParentRoot: parent, StateRoot: state, Body: &apiv1deneb.BlindedBeaconBlockBody{
				RANDAOReveal: b.Randao, ETH1Data: c16Eth1(), Graffiti: b.Graffiti, ProposerSlashings: []*phase0.ProposerSlashing{},
				AttesterSlashings: []*phase0.AttesterSlashing{}, Attestations: []*phase0.Attestation{}, Deposits: []*phase0.Deposit{},
				VoluntaryExits: []*phase0.SignedVoluntaryExit{}, SyncAggregate: c16SyncAggregate(), ExecutionPayloadHeader: h,
				BLSToExecutionChanges: []*capella.SignedBLSToExecutionChange{}, BlobKZGCommitments: []deneb.KZGCommitment{},
			}}
		}
		return &deneb.BeaconBlock{Slot: b.Slot, ProposerIndex: 1, ParentRoot: parent, StateRoot: state, Body: &deneb.BeaconBlockBody{
			RANDAOReveal: b.Randao, ETH1Data: c16Eth1(), Graffiti: b.Graffiti, ProposerSlashings: []*phase0.ProposerSlashing{},
			AttesterSlashings: []*phase0.AttesterSlashing{}, Attestations: []*phase0.Attestation{}, Deposits: []*phase0.Deposit{},
			VoluntaryExits: []*phase0.SignedVoluntaryExit{}, SyncAggregate: c16SyncAggregate(), ExecutionPayload: p,
			BLSToExecutionChanges: []*capella.SignedBLSToExecutionChange{}, BlobKZGCommitments: []deneb.KZGCommitment{},
		}}
	}
	panic("c16 harness: unknown version " + ver)
}

// c16ProposalData is the "data" member of the block production answer (v3 endpoint).
func c16ProposalData(ver string, blinded bool, b c16BlockSpec) string {
	if ver == "phase0" || ver == "altair" {
		blinded = false
	}
	blk := c16Block(ver, blinded, b)
	if ver == "deneb" && !blinded {
		return c16MustJSON(&apiv1deneb.BlockContents{Block: blk.(*deneb.BeaconBlock), KZGProofs: []deneb.KZGProof{}, Blobs: []deneb.Blob{}})
	}
	return c16MustJSON(blk)
}

// c16SignedBlockData is the "data" member of a signed block answer (GET /eth/v2/beacon/blocks/{id}).
func c16SignedBlockData(ver string, b c16BlockSpec) string {
	return fmt.Sprintf(`{"message":%s,"signature":"%#x"}`, c16MustJSON(c16Block(ver, false, b)), make([]byte, 96))
}

// c16UnblindData is the "data" member of the relay's answer to an unblinding request.
func c16UnblindData(ver string, b c16BlockSpec) string {
	switch ver {
	case "bellatrix":
		p, _ := c16BellatrixPayload(b)
		return c16MustJSON(p)
	case "capella":
		p, _ := c16CapellaPayload(b)
		return c16MustJSON(p)
	case "deneb":
		p, _ := c16DenebPayload(b)
		return fmt.Sprintf(`{"execution_payload":%s,"blobs_bundle":{"commitments":[],"proofs":[],"blobs":[]}}`, c16MustJSON(p))
	}
	panic("c16 harness: no unblinding for " + ver)
}
