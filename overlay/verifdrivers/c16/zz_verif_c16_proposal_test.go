package c16

// Entry points "proposer" (services/beaconblockproposer/standard.Propose) and "proposalbest"
// (strategies/beaconblockproposal/best.Proposal).  Beacon nodes are scripted HTTP servers read through
// the real go-eth2-client; the unblinding relay is a scripted HTTP server read through the real
// go-builder-client (obtained with util.FetchBuilderClient as in production).  The block auctioneer
// of the proposer is a fake standing for Vouch's own block relay service.

import (
	"context"
	"encoding/hex"
	"errors"
	"fmt"
	"net/http"
	"strings"
	"sync"
	"time"

	"github.com/attestantio/go-block-relay/services/blockauctioneer"
	builderclient "github.com/attestantio/go-builder-client"
	builderapi "github.com/attestantio/go-builder-client/api"
	builderspec "github.com/attestantio/go-builder-client/spec"
	eth2client "github.com/attestantio/go-eth2-client"
	"github.com/attestantio/go-eth2-client/api"
	"github.com/attestantio/go-eth2-client/spec/phase0"
	"github.com/attestantio/vouch/mock"
	mockaccountmanager "github.com/attestantio/vouch/services/accountmanager/mock"
	"github.com/attestantio/vouch/services/beaconblockproposer"
	standardproposer "github.com/attestantio/vouch/services/beaconblockproposer/standard"
	"github.com/attestantio/vouch/services/cache"
	"github.com/attestantio/vouch/services/graffitiprovider"
	mockcache "github.com/attestantio/vouch/services/cache/mock"
	nullmetrics "github.com/attestantio/vouch/services/metrics/null"
	bestproposal "github.com/attestantio/vouch/strategies/beaconblockproposal/best"
	"github.com/attestantio/vouch/util"
	"github.com/spf13/viper"
)

// c16ProposalAnswer scripts the v3 block production endpoint: the block echoes the slot, RANDAO
// reveal and graffiti of the request (the client library checks them).
func c16ProposalAnswer(ver string, blinded bool, body string, zeroFee bool) c16Answer {
	return c16Answer{Func: func(r *http.Request) c16Answer {
		if a, ok := c16BadAnswer(body); ok {
			return a
		}
		var b c16BlockSpec
		b.ZeroFee = zeroFee
		path := strings.TrimPrefix(r.URL.Path, "/eth/v3/validator/blocks/")
		var slot uint64
		fmt.Sscanf(path, "%d", &slot)
		b.Slot = phase0.Slot(slot)
		if body == "wrongslot" {
			b.Slot++
		}
		if v, err := hex.DecodeString(strings.TrimPrefix(r.URL.Query().Get("randao_reveal"), "0x")); err == nil {
			copy(b.Randao[:], v)
		}
		if v, err := hex.DecodeString(strings.TrimPrefix(r.URL.Query().Get("graffiti"), "0x")); err == nil {
			copy(b.Graffiti[:], v)
		}
		headers := map[string]string{
			"Eth-Consensus-Version":         ver,
			"Eth-Execution-Payload-Blinded": fmt.Sprintf("%v", blinded),
			"Eth-Execution-Payload-Value":   "23456",
			"Eth-Consensus-Block-Value":     "12345",
		}
		switch body {
		case "novalues":
			delete(headers, "Eth-Execution-Payload-Value")
			delete(headers, "Eth-Consensus-Block-Value")
		case "badvalues":
			headers["Eth-Execution-Payload-Value"] = "lots"
		}
		return c16Answer{Status: 200, Headers: headers, Body: fmt.Sprintf(`{"version":%q,"execution_payload_blinded":%v,"execution_payload_value":"23456","consensus_block_value":"12345","data":%s}`,
			ver, blinded, c16ProposalData(ver, blinded, b))}
	}}
}

// c16Submitter records what the proposer submits.
type c16Submitter struct {
	mu        sync.Mutex
	submitted int
}

func (s *c16Submitter) SubmitProposal(_ context.Context, p *api.VersionedSignedProposal) error {
	if p == nil {
		return errors.New("nil proposal")
	}
	_, _ = p.Slot()
	s.mu.Lock()
	s.submitted++
	s.mu.Unlock()
	return nil
}

// c16Auctioneer stands for Vouch's block relay service.
type c16Auctioneer struct {
	kind     string
	provider builderclient.BuilderBidProvider
}

func (a *c16Auctioneer) AuctionBlock(_ context.Context, _ phase0.Slot, _ phase0.Hash32, _ phase0.BLSPubKey) (*blockauctioneer.Results, error) {
	res := &blockauctioneer.Results{
		Participation: map[string]*blockauctioneer.Participation{},
		AllProviders:  []builderclient.BuilderBidProvider{},
		Providers:     []builderclient.BuilderBidProvider{},
	}
	switch a.kind {
	case "failed":
		return nil, errors.New("no account found for public key")
	case "empty":
		return res, nil
	default:
		res.AllProviders = append(res.AllProviders, a.provider)
		res.Providers = append(res.Providers, a.provider)
		return res, nil
	}
}

// c16BidOnly is a relay client that can supply bids but cannot unblind.
type c16BidOnly struct{}

func (*c16BidOnly) Name() string              { return "bid only" }
func (*c16BidOnly) Address() string           { return "bidonly" }
func (*c16BidOnly) Pubkey() *phase0.BLSPubKey { return nil }
func (*c16BidOnly) BuilderBid(_ context.Context, _ *builderapi.BuilderBidOpts) (*builderapi.Response[*builderspec.VersionedSignedBuilderBid], error) {
	return nil, errors.New("not used")
}

// c16Graffiti is a scripted graffiti provider.
type c16Graffiti struct{ kind string }

func (g *c16Graffiti) Graffiti(_ context.Context, _ phase0.Slot, _ phase0.ValidatorIndex) ([]byte, error) {
	switch g.kind {
	case "error":
		return nil, errors.New("graffiti unavailable")
	case "short":
		return []byte("hello"), nil
	case "client":
		return []byte("{{CLIENT}}"), nil
	}
	return []byte{}, nil
}

func c16RunProposer(ctx context.Context, sh map[string]string) c16Res {
	viper.Set("timeout", 2*time.Second)
	blinded := sh["blinded"] == "y"
	node := c16NewNode(c16NodeVersion("teku"))
	defer node.Close()
	node.Set("/eth/v3/validator/blocks/", c16ProposalAnswer(sh["ver"], blinded, sh["body"], false))
	client := c16NodeClient(ctx, node)

	relay := c16NewServer()
	defer relay.Close()
	unblindVer := sh["ver"]
	if sh["unblind"] == "wrongver" {
		unblindVer = "capella"
		if sh["ver"] == "capella" {
			unblindVer = "bellatrix"
		}
	}
	if a, ok := c16BadAnswer(sh["unblind"]); ok {
		relay.Set("/eth/v1/builder/blinded_blocks", a)
	} else if sh["ver"] == "bellatrix" || sh["ver"] == "capella" || sh["ver"] == "deneb" {
		relay.Set("/eth/v1/builder/blinded_blocks", c16Answer{Status: 200, Headers: map[string]string{"Eth-Consensus-Version": unblindVer},
			Body: fmt.Sprintf(`{"version":%q,"data":%s}`, unblindVer, c16UnblindData(unblindVer, c16BlockSpec{}))})
	}

	submitter := &c16Submitter{}
	accounts := mockaccountmanager.NewValidatingAccountsProvider()
	accounts.AddAccount(1, c16Account(1))
	params := []standardproposer.Parameter{
		standardproposer.WithLogLevel(c16LogLevel()),
		standardproposer.WithMonitor(nullmetrics.New()),
		standardproposer.WithChainTime(c16NowChainTime()),
		standardproposer.WithProposalDataProvider(client.(eth2client.ProposalProvider)),
		standardproposer.WithValidatingAccountsProvider(accounts),
		standardproposer.WithExecutionChainHeadProvider(mockcache.New(map[phase0.Root]phase0.Slot{}).(cache.ExecutionChainHeadProvider)),
		standardproposer.WithProposalSubmitter(submitter),
		standardproposer.WithRANDAORevealSigner(&c16Signer{}),
		standardproposer.WithBeaconBlockSigner(&c16Signer{}),
		standardproposer.WithBlobSidecarSigner(&c16Signer{}),
		standardproposer.WithBuilderBoostFactor(100),
	}
	if sh["auction"] != "none" {
		a := &c16Auctioneer{kind: sh["auction"]}
		switch sh["auction"] {
		case "won":
			bc, err := util.FetchBuilderClient(ctx, relay.URL(), nullmetrics.New(), "verif")
			if err != nil {
				panic("c16 harness: relay client: " + err.Error())
			}
			a.provider = bc.(builderclient.BuilderBidProvider)
		case "cannotunblind":
			a.provider = &c16BidOnly{}
		}
		params = append(params, standardproposer.WithBlockAuctioneer(a))
	}
	if sh["graffiti"] != "none" {
		params = append(params, standardproposer.WithGraffitiProvider(&c16Graffiti{kind: sh["graffiti"]}))
	}
	s, err := standardproposer.New(ctx, params...)
	if err != nil {
		panic("c16 harness: proposer: " + err.Error())
	}
	duty := beaconblockproposer.NewDuty(c16Slot, 1)
	var randao phase0.BLSSignature
	randao[0], randao[95] = 0xc0, 0x01
	duty.SetRandaoReveal(randao)
	duty.SetAccount(c16Account(1))

	pctx, cancel := context.WithTimeout(ctx, 4*time.Second)
	defer cancel()
	s.Propose(pctx, duty)
	time.Sleep(20 * time.Millisecond) // unblinding goroutines of the proposer that lost the race
	submitter.mu.Lock()
	n := submitter.submitted
	submitter.mu.Unlock()
	if n == 0 {
		return c16Err("no proposal submitted")
	}
	if sh["graffiti"] == "error" {
		return c16Fallback("proposed with empty graffiti")
	}
	return c16OK("proposal submitted")
}

// c16RunGraffitiPropose: entry point "graffiti" with use = propose | proposebest.  The real proposer
// takes its graffiti from the real dynamic provider (whatever the operator's file holds) and proposes:
// directly through the client library (the proposer expands {{CLIENT}}) or through the real `best`
// proposal strategy (the strategy expands it per node).  Several proposals, because the provider picks
// a line at random.
func c16RunGraffitiPropose(ctx context.Context, sh map[string]string, provider graffitiprovider.Service) c16Res {
	viper.Set("timeout", 2*time.Second)
	node := c16NewNode(c16NodeVersion("teku"))
	defer node.Close()
	var seen []string
	var mu sync.Mutex
	answer := c16ProposalAnswer("deneb", false, "valid", false)
	node.Set("/eth/v3/validator/blocks/", c16Answer{Func: func(r *http.Request) c16Answer {
		mu.Lock()
		seen = append(seen, r.URL.Query().Get("graffiti"))
		mu.Unlock()
		return answer.Func(r)
	}})
	client := c16NodeClient(ctx, node)
	var proposals eth2client.ProposalProvider = client.(eth2client.ProposalProvider)
	if sh["use"] == "proposebest" {
		best, err := bestproposal.New(ctx,
			bestproposal.WithLogLevel(c16LogLevel()),
			bestproposal.WithTimeout(400*time.Millisecond),
			bestproposal.WithClientMonitor(nullmetrics.New()),
			bestproposal.WithProcessConcurrency(2),
			bestproposal.WithEventsProvider(mock.NewEventsProvider()),
			bestproposal.WithChainTimeService(c16NowChainTime()),
			bestproposal.WithSpecProvider(mock.NewSpecProvider()),
			bestproposal.WithProposalProviders(map[string]eth2client.ProposalProvider{"node0": proposals}),
			bestproposal.WithSignedBeaconBlockProvider(mock.NewSignedBeaconBlockProvider()),
			bestproposal.WithBlockRootToSlotCache(mockcache.New(map[phase0.Root]phase0.Slot{}).(cache.BlockRootToSlotProvider)),
		)
		if err != nil {
			panic("c16 harness: best proposal strategy: " + err.Error())
		}
		proposals = best
	}
	submitter := &c16Submitter{}
	accounts := mockaccountmanager.NewValidatingAccountsProvider()
	accounts.AddAccount(1, c16Account(1))
	s, err := standardproposer.New(ctx,
		standardproposer.WithLogLevel(c16LogLevel()),
		standardproposer.WithMonitor(nullmetrics.New()),
		standardproposer.WithChainTime(c16NowChainTime()),
		standardproposer.WithProposalDataProvider(proposals),
		standardproposer.WithValidatingAccountsProvider(accounts),
		standardproposer.WithExecutionChainHeadProvider(mockcache.New(map[phase0.Root]phase0.Slot{}).(cache.ExecutionChainHeadProvider)),
		standardproposer.WithProposalSubmitter(submitter),
		standardproposer.WithRANDAORevealSigner(&c16Signer{}),
		standardproposer.WithBeaconBlockSigner(&c16Signer{}),
		standardproposer.WithBlobSidecarSigner(&c16Signer{}),
		standardproposer.WithBuilderBoostFactor(100),
		standardproposer.WithGraffitiProvider(provider),
	)
	if err != nil {
		panic("c16 harness: proposer: " + err.Error())
	}
	const rounds = 4
	for i := 0; i < rounds; i++ {
		duty := beaconblockproposer.NewDuty(c16Slot, 7)
		var randao phase0.BLSSignature
		randao[0], randao[95] = 0xc0, 0x01
		duty.SetRandaoReveal(randao)
		duty.SetAccount(c16Account(1))
		pctx, cancel := context.WithTimeout(ctx, 4*time.Second)
		s.Propose(pctx, duty)
		cancel()
	}
	time.Sleep(20 * time.Millisecond)
	submitter.mu.Lock()
	n := submitter.submitted
	submitter.mu.Unlock()
	if n < rounds {
		return c16Err(fmt.Sprintf("%d of %d proposals submitted", n, rounds))
	}
	mu.Lock()
	defer mu.Unlock()
	empty := "0x" + strings.Repeat("00", 32)
	for _, g := range seen {
		if g != empty && g != "" {
			return c16OK(fmt.Sprintf("%d proposals, graffiti %s", n, g))
		}
	}
	return c16Fallback(fmt.Sprintf("%d proposals with empty graffiti", n))
}

func c16RunProposalBest(ctx context.Context, sh map[string]string) c16Res {
	clen := 0
	fmt.Sscanf(sh["clen"], "%d", &clen)
	version := strings.Repeat("N", clen)
	n := 1
	if sh["n"] == "2" {
		n = 2
	}
	providers := map[string]eth2client.ProposalProvider{}
	for i := 0; i < n; i++ {
		node := c16NewNode(version)
		defer node.Close()
		body, zeroFee := "valid", false
		if i == 0 {
			switch sh["proposal"] {
			case "nildata":
				body = "datanull"
			case "error":
				body = "http500"
			case "zerofee":
				zeroFee = true
			case "nilvalues":
				body = "novalues"
			}
		}
		node.Set("/eth/v3/validator/blocks/", c16ProposalAnswer("deneb", false, body, zeroFee))
		client := c16NodeClient(ctx, node)
		if sh["nodeclient"] == "error" {
			// the node stops answering the version request after the connection was established
			node.Set("/eth/v1/node/version", c16Answer{Status: 500, Body: `{"code":500,"message":"no"}`})
		}
		providers[fmt.Sprintf("node%d", i)] = client.(eth2client.ProposalProvider)
	}
	s, err := bestproposal.New(ctx,
		bestproposal.WithLogLevel(c16LogLevel()),
		bestproposal.WithTimeout(400*time.Millisecond),
		bestproposal.WithClientMonitor(nullmetrics.New()),
		bestproposal.WithProcessConcurrency(2),
		bestproposal.WithEventsProvider(mock.NewEventsProvider()),
		bestproposal.WithChainTimeService(c16NowChainTime()),
		bestproposal.WithSpecProvider(mock.NewSpecProvider()),
		bestproposal.WithProposalProviders(providers),
		bestproposal.WithSignedBeaconBlockProvider(mock.NewSignedBeaconBlockProvider()),
		bestproposal.WithBlockRootToSlotCache(mockcache.New(map[phase0.Root]phase0.Slot{}).(cache.BlockRootToSlotProvider)),
	)
	if err != nil {
		panic("c16 harness: best proposal strategy: " + err.Error())
	}
	var graffiti [32]byte
	switch sh["graffiti"] {
	case "plain":
		copy(graffiti[:], "hello from vouch")
	case "client":
		copy(graffiti[:], "{{CLIENT}}")
	case "prefix":
		copy(graffiti[:], "vouch {{CLIENT}}")
	case "full":
		copy(graffiti[:], "0123456789012345678901{{CLIENT}}")
	}
	var randao phase0.BLSSignature
	randao[0], randao[95] = 0xc0, 0x01
	resp, err := s.Proposal(ctx, &api.ProposalOpts{Slot: c16Slot, RandaoReveal: randao, Graffiti: graffiti})
	time.Sleep(20 * time.Millisecond)
	if err != nil {
		return c16Err(err.Error())
	}
	if resp == nil || resp.Data == nil {
		return c16Err("no proposal without error")
	}
	if _, err := resp.Data.Slot(); err != nil {
		return c16Err(err.Error())
	}
	return c16OK("proposal selected")
}

func init() {
	c16Register("proposer", c16RunProposer)
	c16Register("proposalbest", c16RunProposalBest)
}
