package c16

// Entry points "proposer" (services/beaconblockproposer/standard.Propose) and "proposalbest"
// (strategies/beaconblockproposal/best.Proposal).  Beacon nodes are scripted HTTP servers read through
// the real go-eth2-client; the unblinding relay is a scripted HTTP server read through the real
// go-builder-client (obtained with util.FetchBuilderClient as in production).  The block auctioneer
// of the proposer is a fake standing for Vouch's own block relay service.

import (
	"context"
	"encoding/hex"
	"errors"
	"fmt"
	"net/http"
	"strings"
	"sync"
	"time"

	"github.com/attestantio/go-block-relay/services/blockauctioneer"
	builderclient "github.com/attestantio/go-builder-client"
	builderapi "github.com/attestantio/go-builder-client/api"
	builderspec "github.com/attestantio/go-builder-client/spec"
	eth2client "github.com/attestantio/go-eth2-client"
	"github.com/attestantio/go-eth2-client/api"
	"github.com/attestantio/go-eth2-client/spec/phase0"
	"github.com/attestantio/vouch/mock"
	mockaccountmanager "github.com/attestantio/vouch/services/accountmanager/mock"
	"github.com/attestantio/vouch/services/beaconblockproposer"
	standardproposer "github.com/attestantio/vouch/services/beaconblockproposer/standard"
	"github.com/attestantio/vouch/services/cache"
	mockcache "github.com/attestantio/vouch/services/cache/mock"
	"github.com/attestantio/vouch/services/graffitiprovider"
	nullmetrics "github.com/attestantio/vouch/services/metrics/null"
	bestproposal "github.com/attestantio/vouch/strategies/beaconblockproposal/best"
	firstproposal "github.com/attestantio/vouch/strategies/beaconblockproposal/first"
	"github.com/attestantio/vouch/util"
	"github.com/spf13/viper"
)

// c16ProposalAnswer scripts the v3 block production endpoint: the block echoes the slot, RANDAO
// reveal and graffiti of the request (the client library checks them).
func c16ProposalAnswer(ver string, blinded bool, body string, zeroFee bool) c16Answer {
	return c16Answer{Func: func(r *http.Request) c16Answer {
		if a, ok := c16BadAnswer(body); ok {
			return a
		}
		var b c16BlockSpec
		b.ZeroFee = zeroFee
		path := strings.TrimPrefix(r.URL.Path, "/eth/v3/validator/blocks/")
		var slot uint64
		fmt.Sscanf(path, "%d", &slot)
		b.Slot = phase0.Slot(slot)
		if body == "wrongslot" {
			b.Slot++
		}
		if v, err := hex.DecodeString(strings.TrimPrefix(r.URL.Query().Get("randao_reveal"), "0x")); err == nil {
			copy(b.Randao[:], v)
		}
		if v, err := hex.DecodeString(strings.TrimPrefix(r.URL.Query().Get("graffiti"), "0x")); err == nil {
			copy(b.Graffiti[:], v)
		}
		headers := map[string]string{
			"Eth-Consensus-Version":         ver,
			"Eth-Execution-Payload-Blinded": fmt.Sprintf("%v", blinded),
			"Eth-Execution-Payload-Value":   "23456",
			"Eth-Consensus-Block-Value":     "12345",
		}
		switch body {
		case "novalues":
			delete(headers, "Eth-Execution-Payload-Value")
			delete(headers, "Eth-Consensus-Block-Value")
		case "badvalues":
			headers["Eth-Execution-Payload-Value"] = "lots"
		}
		return c16Answer{Status: 200, Headers: headers, Body: fmt.Sprintf(`{"version":%q,"execution_payload_blinded":%v,"execution_payload_value":"23456","consensus_block_value":"12345","data":%s}`,
			ver, blinded, c16ProposalData(ver, blinded, b))}
	}}
}

// c16Submitter records what the proposer submits.
type c16Submitter struct {
	mu        sync.Mutex
	submitted int
}

func (s *c16Submitter) SubmitProposal(_ context.Context, p *api.VersionedSignedProposal) error {
	if p == nil {
		return errors.New("nil proposal")
	}
	_, _ = p.Slot()
	s.mu.Lock()
	s.submitted++
	s.mu.Unlock()
	return nil
}

// c16Auctioneer stands for Vouch's block relay service; what an auction yields is scripted per call.
type c16Auctioneer struct {
	mu       sync.Mutex
	kind     string
	relay    builderclient.BuilderBidProvider
	provider builderclient.BuilderBidProvider
}

func (a *c16Auctioneer) script(kind string) {
	a.mu.Lock()
	defer a.mu.Unlock()
	a.kind = kind
	switch kind {
	case "won":
		a.provider = a.relay
	case "cannotunblind":
		a.provider = &c16BidOnly{}
	}
}

func (a *c16Auctioneer) AuctionBlock(_ context.Context, _ phase0.Slot, _ phase0.Hash32, _ phase0.BLSPubKey) (*blockauctioneer.Results, error) {
	a.mu.Lock()
	kind, provider := a.kind, a.provider
	a.mu.Unlock()
	res := &blockauctioneer.Results{
		Participation: map[string]*blockauctioneer.Participation{},
		AllProviders:  []builderclient.BuilderBidProvider{},
		Providers:     []builderclient.BuilderBidProvider{},
	}
	switch kind {
	case "failed":
		return nil, errors.New("no account found for public key")
	case "empty":
		return res, nil
	default:
		res.AllProviders = append(res.AllProviders, provider)
		res.Providers = append(res.Providers, provider)
		return res, nil
	}
}

// c16BidOnly is a relay client that can supply bids but cannot unblind.
type c16BidOnly struct{}

func (*c16BidOnly) Name() string              { return "bid only" }
func (*c16BidOnly) Address() string           { return "bidonly" }
func (*c16BidOnly) Pubkey() *phase0.BLSPubKey { return nil }
func (*c16BidOnly) BuilderBid(_ context.Context, _ *builderapi.BuilderBidOpts) (*builderapi.Response[*builderspec.VersionedSignedBuilderBid], error) {
	return nil, errors.New("not used")
}

// c16Graffiti is a scripted graffiti provider.
type c16Graffiti struct {
	mu   sync.Mutex
	kind string
}

func (g *c16Graffiti) script(kind string) {
	g.mu.Lock()
	g.kind = kind
	g.mu.Unlock()
}

func (g *c16Graffiti) Graffiti(_ context.Context, _ phase0.Slot, _ phase0.ValidatorIndex) ([]byte, error) {
	g.mu.Lock()
	kind := g.kind
	g.mu.Unlock()
	switch kind {
	case "error":
		return nil, errors.New("graffiti unavailable")
	case "short":
		return []byte("hello"), nil
	case "client":
		return []byte("{{CLIENT}}"), nil
	case "twice":
		return []byte("{{CLIENT}}{{SLOT}}{{CLIENT}}"), nil
	case "longclient":
		return []byte("0123456789012345678901234567 {{CLIENT}}"), nil
	}
	return []byte{}, nil
}

func (s *c16Submitter) count() int {
	s.mu.Lock()
	defer s.mu.Unlock()
	return s.submitted
}

func c16Randao() phase0.BLSSignature {
	var randao phase0.BLSSignature
	randao[0], randao[95] = 0xc0, 0x01
	return randao
}

// c16ProposerInst: the block proposer with its node, its (fake) auctioneer and the relay that unblinds.
type c16ProposerInst struct {
	node       *c16Server
	relay      *c16Server
	gate       *c16Gate
	submitter  *c16Submitter
	auctioneer *c16Auctioneer
	graffiti   *c16Graffiti
	provider   *c16NodeProvider
	s          *standardproposer.Service
}

func c16NewProposerInst(ctx context.Context, first map[string]string) c16Instance {
	viper.Set("timeout", 2*time.Second)
	in := &c16ProposerInst{node: c16NewNode(c16NodeVersion("teku")), relay: c16NewServer(), gate: &c16Gate{}, submitter: &c16Submitter{}}
	in.node.Gate("/eth/v3/validator/blocks/", in.gate)
	// the provider: the real client library behind a facade that implements (or, "absent", does not implement)
	// the optional NodeClientProvider interface with the answer chosen per call
	var proposals eth2client.ProposalProvider
	proposals, in.provider = c16NewNodeProvider(ctx, in.node, "node0", "nodeclient", first["nodeclient"] == "absent")
	accounts := mockaccountmanager.NewValidatingAccountsProvider()
	accounts.AddAccount(1, c16Account(1))
	params := []standardproposer.Parameter{
		standardproposer.WithLogLevel(c16LogLevel()),
		standardproposer.WithMonitor(nullmetrics.New()),
		standardproposer.WithChainTime(c16NowChainTime()),
		standardproposer.WithProposalDataProvider(proposals),
		standardproposer.WithValidatingAccountsProvider(accounts),
		standardproposer.WithExecutionChainHeadProvider(mockcache.New(map[phase0.Root]phase0.Slot{}).(cache.ExecutionChainHeadProvider)),
		standardproposer.WithProposalSubmitter(in.submitter),
		standardproposer.WithRANDAORevealSigner(&c16Signer{}),
		standardproposer.WithBeaconBlockSigner(&c16Signer{}),
		standardproposer.WithBlobSidecarSigner(&c16Signer{}),
		standardproposer.WithBuilderBoostFactor(100),
	}
	if first["auction"] != "none" {
		bc, err := util.FetchBuilderClient(ctx, in.relay.URL(), nullmetrics.New(), "verif")
		if err != nil {
			panic("c16 harness: relay client: " + err.Error())
		}
		in.auctioneer = &c16Auctioneer{relay: bc.(builderclient.BuilderBidProvider)}
		params = append(params, standardproposer.WithBlockAuctioneer(in.auctioneer))
	}
	if first["graffiti"] != "none" {
		in.graffiti = &c16Graffiti{}
		params = append(params, standardproposer.WithGraffitiProvider(in.graffiti))
	}
	s, err := standardproposer.New(ctx, params...)
	if err != nil {
		panic("c16 harness: proposer: " + err.Error())
	}
	in.s = s
	return in
}

func (in *c16ProposerInst) Gate() *c16Gate { return in.gate }
func (in *c16ProposerInst) Close() {
	in.gate.Release()
	in.node.Close()
	in.relay.Close()
}

func (in *c16ProposerInst) Prepare(_ int, sh map[string]string) {
	in.provider.Prepare(sh)
	in.node.Set("/eth/v3/validator/blocks/", c16ProposalAnswer(sh["ver"], sh["blinded"] == "y", sh["body"], false))
	unblindVer := sh["ver"]
	if sh["unblind"] == "wrongver" {
		unblindVer = "capella"
		if sh["ver"] == "capella" {
			unblindVer = "bellatrix"
		}
	}
	if a, ok := c16BadAnswer(sh["unblind"]); ok {
		in.relay.Set("/eth/v1/builder/blinded_blocks", a)
	} else if sh["ver"] == "bellatrix" || sh["ver"] == "capella" || sh["ver"] == "deneb" {
		in.relay.Set("/eth/v1/builder/blinded_blocks", c16Answer{Status: 200, Headers: map[string]string{"Eth-Consensus-Version": unblindVer},
			Body: fmt.Sprintf(`{"version":%q,"data":%s}`, unblindVer, c16UnblindData(unblindVer, c16BlockSpec{}))})
	} else {
		in.relay.Set("/eth/v1/builder/blinded_blocks", c16Answer{Status: 404, Body: `{"code":404,"message":"not found"}`})
	}
	if in.auctioneer != nil {
		in.auctioneer.script(sh["auction"])
	}
	if in.graffiti != nil {
		in.graffiti.script(sh["graffiti"])
	}
}

func (in *c16ProposerInst) Invoke(ctx context.Context, k int, sh map[string]string) c16Res {
	duty := beaconblockproposer.NewDuty(c16CallSlot(k), 1)
	duty.SetRandaoReveal(c16Randao())
	duty.SetAccount(c16Account(1))
	before := in.submitter.count()
	pctx, cancel := context.WithTimeout(c16WithAux(ctx, sh), 4*time.Second)
	defer cancel()
	in.provider.Invoked(ctx)
	in.s.Propose(pctx, duty)
	time.Sleep(20 * time.Millisecond) // unblinding goroutines of the proposer that lost the race
	if in.submitter.count() == before {
		return c16Err("no proposal submitted")
	}
	if sh["graffiti"] == "error" {
		return c16Fallback("proposed with empty graffiti")
	}
	return c16OK("proposal submitted")
}

// c16GraffitiProposeInst: entry point "graffiti" with use = propose | proposebest.  The real proposer
// takes its graffiti from the real dynamic provider (whatever the operator's file holds at that time) and
// proposes: directly through the client library (the proposer expands {{CLIENT}}) or through the real
// `best` proposal strategy (the strategy expands it per node).  Several proposals per call, because the
// provider picks a line at random.
type c16GraffitiProposeInst struct {
	node      *c16Server
	submitter *c16Submitter
	provider  *c16NodeProvider
	s         *standardproposer.Service
	mu        sync.Mutex
	seen      map[uint64][]string // graffiti asked for, by slot
}

func c16NewGraffitiProposeInst(ctx context.Context, use string, absent bool, provider graffitiprovider.Service) *c16GraffitiProposeInst {
	viper.Set("timeout", 2*time.Second)
	in := &c16GraffitiProposeInst{node: c16NewNode(c16NodeVersion("teku")), submitter: &c16Submitter{}, seen: map[uint64][]string{}}
	answer := c16ProposalAnswer("deneb", false, "valid", false)
	in.node.Set("/eth/v3/validator/blocks/", c16Answer{Func: func(r *http.Request) c16Answer {
		var slot uint64
		fmt.Sscanf(strings.TrimPrefix(r.URL.Path, "/eth/v3/validator/blocks/"), "%d", &slot)
		in.mu.Lock()
		in.seen[slot] = append(in.seen[slot], r.URL.Query().Get("graffiti"))
		in.mu.Unlock()
		return answer.Func(r)
	}})
	var proposals eth2client.ProposalProvider
	proposals, in.provider = c16NewNodeProvider(ctx, in.node, "node0", "nodeclient", absent)
	if use == "proposebest" {
		best, err := bestproposal.New(ctx,
			bestproposal.WithLogLevel(c16LogLevel()),
			bestproposal.WithTimeout(400*time.Millisecond),
			bestproposal.WithClientMonitor(nullmetrics.New()),
			bestproposal.WithProcessConcurrency(2),
			bestproposal.WithEventsProvider(mock.NewEventsProvider()),
			bestproposal.WithChainTimeService(c16NowChainTime()),
			bestproposal.WithSpecProvider(mock.NewSpecProvider()),
			bestproposal.WithProposalProviders(map[string]eth2client.ProposalProvider{"node0": proposals}),
			bestproposal.WithSignedBeaconBlockProvider(mock.NewSignedBeaconBlockProvider()),
			bestproposal.WithBlockRootToSlotCache(mockcache.New(map[phase0.Root]phase0.Slot{}).(cache.BlockRootToSlotProvider)),
		)
		if err != nil {
			panic("c16 harness: best proposal strategy: " + err.Error())
		}
		proposals = best
	}
	accounts := mockaccountmanager.NewValidatingAccountsProvider()
	accounts.AddAccount(1, c16Account(1))
	s, err := standardproposer.New(ctx,
		standardproposer.WithLogLevel(c16LogLevel()),
		standardproposer.WithMonitor(nullmetrics.New()),
		standardproposer.WithChainTime(c16NowChainTime()),
		standardproposer.WithProposalDataProvider(proposals),
		standardproposer.WithValidatingAccountsProvider(accounts),
		standardproposer.WithExecutionChainHeadProvider(mockcache.New(map[phase0.Root]phase0.Slot{}).(cache.ExecutionChainHeadProvider)),
		standardproposer.WithProposalSubmitter(in.submitter),
		standardproposer.WithRANDAORevealSigner(&c16Signer{}),
		standardproposer.WithBeaconBlockSigner(&c16Signer{}),
		standardproposer.WithBlobSidecarSigner(&c16Signer{}),
		standardproposer.WithBuilderBoostFactor(100),
		standardproposer.WithGraffitiProvider(provider),
	)
	if err != nil {
		panic("c16 harness: proposer: " + err.Error())
	}
	in.s = s
	return in
}

func (in *c16GraffitiProposeInst) propose(ctx context.Context, k int, sh map[string]string) c16Res {
	const rounds = 4
	slot := c16CallSlot(k)
	before := in.submitter.count()
	in.provider.Invoked(ctx)
	for i := 0; i < rounds; i++ {
		duty := beaconblockproposer.NewDuty(slot, 7)
		duty.SetRandaoReveal(c16Randao())
		duty.SetAccount(c16Account(1))
		pctx, cancel := context.WithTimeout(c16WithAux(ctx, sh), 4*time.Second)
		in.s.Propose(pctx, duty)
		cancel()
	}
	time.Sleep(20 * time.Millisecond)
	n := in.submitter.count() - before
	if n < rounds {
		return c16Err(fmt.Sprintf("%d of %d proposals submitted", n, rounds))
	}
	in.mu.Lock()
	defer in.mu.Unlock()
	empty := "0x" + strings.Repeat("00", 32)
	for _, g := range in.seen[uint64(slot)] {
		if g != empty && g != "" {
			return c16OK(fmt.Sprintf("%d proposals, graffiti %s", n, g))
		}
	}
	return c16Fallback(fmt.Sprintf("%d proposals with empty graffiti", n))
}

// c16ProposalBestInst: a proposal strategy (`best` or its sibling `first`) over n nodes whose client name has clen
// characters; every node is a facade over the real client library (zz_verif_c16_aux_test.go).
type c16ProposalBestInst struct {
	nodes     []*c16Server
	providers []*c16NodeProvider
	gate      *c16Gate
	s         eth2client.ProposalProvider
}

func c16NewProposalBestInst(ctx context.Context, first map[string]string) c16Instance {
	clen := 0
	fmt.Sscanf(first["clen"], "%d", &clen)
	version := strings.Repeat("N", clen)
	n := 1
	if first["n"] == "2" {
		n = 2
	}
	in := &c16ProposalBestInst{gate: &c16Gate{}}
	providers := map[string]eth2client.ProposalProvider{}
	for i := 0; i < n; i++ {
		node := c16NewNode(version)
		in.nodes = append(in.nodes, node)
		node.Set("/eth/v3/validator/blocks/", c16ProposalAnswer("deneb", false, "valid", false))
		dim := "nodeclient"
		if i == 1 {
			dim = "nodeclient1"
		}
		provider, facade := c16NewNodeProvider(ctx, node, fmt.Sprintf("node%d", i), dim, first[dim] == "absent")
		providers[fmt.Sprintf("node%d", i)] = provider
		in.providers = append(in.providers, facade)
	}
	in.nodes[0].Gate("/eth/v3/validator/blocks/", in.gate)
	if first["strat"] == "first" {
		s, err := firstproposal.New(ctx,
			firstproposal.WithLogLevel(c16LogLevel()),
			firstproposal.WithTimeout(400*time.Millisecond),
			firstproposal.WithClientMonitor(nullmetrics.New()),
			firstproposal.WithProposalProviders(providers),
		)
		if err != nil {
			panic("c16 harness: first proposal strategy: " + err.Error())
		}
		in.s = s
		return in
	}
	s, err := bestproposal.New(ctx,
		bestproposal.WithLogLevel(c16LogLevel()),
		bestproposal.WithTimeout(400*time.Millisecond),
		bestproposal.WithClientMonitor(nullmetrics.New()),
		bestproposal.WithProcessConcurrency(2),
		bestproposal.WithEventsProvider(mock.NewEventsProvider()),
		bestproposal.WithChainTimeService(c16NowChainTime()),
		bestproposal.WithSpecProvider(mock.NewSpecProvider()),
		bestproposal.WithProposalProviders(providers),
		bestproposal.WithSignedBeaconBlockProvider(mock.NewSignedBeaconBlockProvider()),
		bestproposal.WithBlockRootToSlotCache(mockcache.New(map[phase0.Root]phase0.Slot{}).(cache.BlockRootToSlotProvider)),
	)
	if err != nil {
		panic("c16 harness: best proposal strategy: " + err.Error())
	}
	in.s = s
	return in
}

func (in *c16ProposalBestInst) Gate() *c16Gate { return in.gate }
func (in *c16ProposalBestInst) Close() {
	in.gate.Release()
	for _, node := range in.nodes {
		node.Close()
	}
}

func (in *c16ProposalBestInst) Prepare(_ int, sh map[string]string) {
	body, zeroFee := "valid", false
	switch sh["proposal"] {
	case "nildata":
		body = "datanull"
	case "error":
		body = "http500"
	case "zerofee":
		zeroFee = true
	case "nilvalues":
		body = "novalues"
	}
	in.nodes[0].Set("/eth/v3/validator/blocks/", c16ProposalAnswer("deneb", false, body, zeroFee))
	// what each node answers to the node version request behind {{CLIENT}} (and whether it is up at all)
	for _, p := range in.providers {
		p.Prepare(sh)
	}
}

func (in *c16ProposalBestInst) Invoke(ctx context.Context, k int, sh map[string]string) c16Res {
	var graffiti [32]byte
	switch sh["graffiti"] {
	case "plain":
		copy(graffiti[:], "hello from vouch")
	case "client":
		copy(graffiti[:], "{{CLIENT}}")
	case "prefix":
		copy(graffiti[:], "vouch {{CLIENT}}")
	case "full":
		copy(graffiti[:], "0123456789012345678901{{CLIENT}}")
	case "twice":
		copy(graffiti[:], "{{CLIENT}}{{SLOT}}{{CLIENT}}")
	case "cut":
		copy(graffiti[:], "0123456789012345678901234{{CLIEN")
	}
	for _, p := range in.providers {
		p.Invoked(ctx)
	}
	ctx = c16WithAux(ctx, sh)
	resp, err := in.s.Proposal(ctx, &api.ProposalOpts{Slot: c16CallSlot(k), RandaoReveal: c16Randao(), Graffiti: graffiti})
	time.Sleep(20 * time.Millisecond)
	if err != nil {
		return c16Err(err.Error())
	}
	if resp == nil || resp.Data == nil {
		return c16Err("no proposal without error")
	}
	if _, err := resp.Data.Slot(); err != nil {
		return c16Err(err.Error())
	}
	return c16OK("proposal selected")
}

func init() {
	c16RegisterInstance("proposer", c16NewProposerInst)
	c16RegisterInstance("proposalbest", c16NewProposalBestInst)
}
