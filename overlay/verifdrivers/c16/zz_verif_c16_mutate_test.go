package c16

// Entry point "execmutate": execution configuration documents "of any shape" - a complete baseline
// document (version 2 or legacy) with ONE structural mutation at the site-th node of its JSON tree
// (depth-first order, modulo the number of nodes): the node is replaced by null, {}, [], "", 0, true or
// a string, deleted, or its member duplicated.  The document then takes the same path as in "execv2":
// blockrelay.UnmarshalJSON -> ProposerConfig lookups -> String/MarshalJSON.

import (
	"bytes"
	"context"
	"encoding/json"
	"fmt"
	"strings"
)

// c16Node is a JSON value that keeps the order (and duplicates) of object members.
type c16Node struct {
	kind byte // 'o' object, 'a' array, 'v' scalar (raw)
	keys []string
	kids []*c16Node
	raw  string
}

func c16ParseNode(dec *json.Decoder) *c16Node {
	tok, err := dec.Token()
	if err != nil {
		panic("c16 harness: baseline document: " + err.Error())
	}
	switch t := tok.(type) {
	case json.Delim:
		switch t {
		case '{':
			n := &c16Node{kind: 'o'}
			for dec.More() {
				k, _ := dec.Token()
				n.keys = append(n.keys, k.(string))
				n.kids = append(n.kids, c16ParseNode(dec))
			}
			dec.Token()
			return n
		case '[':
			n := &c16Node{kind: 'a'}
			for dec.More() {
				n.kids = append(n.kids, c16ParseNode(dec))
			}
			dec.Token()
			return n
		}
	case string:
		b, _ := json.Marshal(t)
		return &c16Node{kind: 'v', raw: string(b)}
	case json.Number:
		return &c16Node{kind: 'v', raw: t.String()}
	case bool:
		return &c16Node{kind: 'v', raw: fmt.Sprintf("%v", t)}
	case nil:
		return &c16Node{kind: 'v', raw: "null"}
	}
	panic("c16 harness: unexpected token")
}

func (n *c16Node) String() string {
	switch n.kind {
	case 'o':
		parts := make([]string, len(n.kids))
		for i := range n.kids {
			k, _ := json.Marshal(n.keys[i])
			parts[i] = string(k) + ":" + n.kids[i].String()
		}
		return "{" + strings.Join(parts, ",") + "}"
	case 'a':
		parts := make([]string, len(n.kids))
		for i := range n.kids {
			parts[i] = n.kids[i].String()
		}
		return "[" + strings.Join(parts, ",") + "]"
	}
	return n.raw
}

// c16Sites lists (parent, child position) of every node below the root, depth first.
func c16Sites(n *c16Node, out *[][2]interface{}) {
	for i, k := range n.kids {
		*out = append(*out, [2]interface{}{n, i})
		c16Sites(k, out)
	}
}

func c16BaselineDoc(base string) string {
	if base == "v1" {
		entry := func(fee string) string {
			return fmt.Sprintf(`{"fee_recipient":"%s","gas_limit":"30000000","builder":{"enabled":true,"grace":"100","relays":["%s","%s"]}}`, fee, c16Relay1, c16Relay2)
		}
		return fmt.Sprintf(`{"default_config":%s,"proposer_config":{"%s":%s,"%s":%s}}`, entry(c16Fee1), c16AccountPubkey(1).String(), entry(c16Fee2), c16OtherPubkey().String(), entry(c16Fee1))
	}
	relay := fmt.Sprintf(`{"public_key":"%s","fee_recipient":"%s","gas_limit":"29000000","grace":"50","min_value":"0.02"}`, c16OtherPubkey().String(), c16Fee2)
	prelay := fmt.Sprintf(`{"disabled":false,"public_key":"%s","fee_recipient":"%s","gas_limit":"28000000","grace":"10","min_value":"0.5"}`, c16OtherPubkey().String(), c16Fee1)
	return fmt.Sprintf(`{"version":2,"fee_recipient":"%s","gas_limit":"30000000","grace":"200","min_value":"0.01","relays":{"%s":%s},`+
		`"proposers":[{"proposer":"^Test wallet/Interop 1$","fee_recipient":"%s","gas_limit":"27000000","grace":"20","min_value":"0.1","reset_relays":false,"relays":{"%s":%s,"%s":%s}},`+
		`{"proposer":"%s","gas_limit":"26000000","reset_relays":true,"relays":{"%s":%s}}]}`,
		c16Fee1, c16Relay1, relay, c16Fee2, c16Relay1, prelay, c16Relay2, prelay, c16OtherPubkey().String(), c16Relay2, prelay)
}

func c16MutatedDoc(sh map[string]string) string {
	dec := json.NewDecoder(bytes.NewReader([]byte(c16BaselineDoc(sh["base"]))))
	dec.UseNumber()
	root := c16ParseNode(dec)
	var sites [][2]interface{}
	c16Sites(root, &sites)
	var site int
	fmt.Sscanf(sh["site"], "%d", &site)
	s := sites[site%len(sites)]
	parent, pos := s[0].(*c16Node), s[1].(int)
	repl := map[string]string{"null": "null", "emptyobj": "{}", "emptyarr": "[]", "emptystr": `""`, "zero": "0", "true": "true", "string": `"unexpected"`}
	switch sh["mut"] {
	case "delete":
		parent.kids = append(append([]*c16Node{}, parent.kids[:pos]...), parent.kids[pos+1:]...)
		if parent.kind == 'o' {
			parent.keys = append(append([]string{}, parent.keys[:pos]...), parent.keys[pos+1:]...)
		}
	case "duplicate":
		parent.kids = append(parent.kids, parent.kids[pos])
		if parent.kind == 'o' {
			parent.keys = append(parent.keys, parent.keys[pos])
		}
	default:
		parent.kids[pos] = &c16Node{kind: 'v', raw: repl[sh["mut"]]}
	}
	return root.String()
}

func init() {
	c16Register("execmutate", func(ctx context.Context, sh map[string]string) c16Res { return c16RunExec(ctx, c16MutatedDoc(sh)) })
}
