package c16

// POLL SEQUENCES (RobustnessShapes!PollAnswer): what ONE relay answers to the successive requests of ONE call.
// The deadline builder-bid strategy polls every relay every bid-gap until its deadline; the answers are a history
// of untrusted inputs within one call (a bid of value 0 while the relay has no block, a real bid later; a real bid,
// then garbage ...).  The scripted relay keeps, per SLOT asked for (call k of a history asks for slot c16Slot+k-1, so
// two calls in flight on one instance are told apart), the sequence the input of that call chose and the number
// of requests answered so far, and writes the line Poll{relay, n, answer} when - and only when - the real code
// really asks, BEFORE it answers (a panic that follows is attributed correctly).  The trace specifications accept
// only the answer the model chose for the n-th poll of the call's input.

import (
	"context"
	"fmt"
	"net/http"
	"strings"
	"sync"
	"time"

	"github.com/attestantio/go-eth2-client/spec/phase0"
	e2types "github.com/wealdtech/go-eth2-types/v2"
)

// c16MaxPoll: the third and every later poll is answered alike (RobustnessShapes!BidAtOf).
const c16MaxPoll = 3

// c16Polls is the header endpoint of one scripted relay.
type c16Polls struct {
	name  string // "relay1" | "relay2"
	sk    *e2types.BLSPrivateKey
	clock interface {
		StartOfSlot(slot phase0.Slot) time.Time
	}
	mu     sync.Mutex
	seqs   map[uint64][c16MaxPoll]string
	counts map[uint64]int
	emits  map[uint64]func(c16Line)
	dflt   [c16MaxPoll]string
}

func c16NewPolls(name string, sk *e2types.BLSPrivateKey, clock interface {
	StartOfSlot(slot phase0.Slot) time.Time
}) *c16Polls {
	return &c16Polls{name: name, sk: sk, clock: clock, seqs: map[uint64][c16MaxPoll]string{}, counts: map[uint64]int{},
		emits: map[uint64]func(c16Line){}, dflt: [c16MaxPoll]string{"valid", "valid", "valid"}}
}

// c16PollSeq resolves the sequence of a shape: bid, bid2, bid3 with "same" = what the previous poll was answered
// (shapes of entry points without the dimensions: every poll is answered with a valid bid).
func c16PollSeq(sh map[string]string) [c16MaxPoll]string {
	b1 := sh["bid"]
	if b1 == "" {
		b1 = "valid"
	}
	b2, b3 := sh["bid2"], sh["bid3"]
	if b2 == "" || b2 == "same" {
		b2 = b1
	}
	if b3 == "" || b3 == "same" {
		b3 = b2
	}
	return [c16MaxPoll]string{b1, b2, b3}
}

// Script: the sequence this relay answers to the requests for the given slot (the number of requests answered so
// far is kept: a held call is re-scripted before it goes on).
func (p *c16Polls) Script(slot phase0.Slot, seq [c16MaxPoll]string) {
	p.mu.Lock()
	p.seqs[uint64(slot)] = seq
	p.dflt = seq
	p.mu.Unlock()
}

// Attach: the event writer of the call that asks for the given slot (taken from the call's context).
func (p *c16Polls) Attach(ctx context.Context, slot phase0.Slot) {
	f, ok := ctx.Value(c16EmitKey{}).(func(c16Line))
	p.mu.Lock()
	if ok {
		p.emits[uint64(slot)] = f
	} else {
		delete(p.emits, uint64(slot))
	}
	p.mu.Unlock()
}

// Answer is the scripted answer of the header endpoint.
func (p *c16Polls) Answer() c16Answer {
	return c16Answer{Func: func(r *http.Request) c16Answer {
		var slot uint64
		fmt.Sscanf(strings.TrimPrefix(r.URL.Path, "/eth/v1/builder/header/"), "%d", &slot)
		p.mu.Lock()
		seq, ok := p.seqs[slot]
		if !ok {
			seq = p.dflt
		}
		p.counts[slot]++
		n := p.counts[slot]
		emit := p.emits[slot]
		p.mu.Unlock()
		i := n
		if i > c16MaxPoll {
			i = c16MaxPoll
		}
		kind := seq[i-1]
		if emit != nil {
			emit(c16Line{"ev": "Poll", "relay": p.name, "n": n, "answer": kind})
		}
		signer := p.sk
		if kind == "badsig" {
			signer = c16RelayKey(9)
		}
		return c16BidBody(kind, uint64(p.clock.StartOfSlot(phase0.Slot(slot)).Unix()), p.sk, signer)
	}}
}
